"""Exact transient solution of the chemical master equation for small finite-state networks,
and a G-test of simulated samples against it (statistical support / failing-input search only:
alarm level p < 1e-9; never a stand-in for a theorem)."""
import math

import numpy as np


def reachable(x0, S, prop_fn, limit=4000):
    """BFS over states reachable through reactions with positive propensity."""
    x0 = tuple(int(v) for v in x0)
    idx = {x0: 0}
    order = [x0]
    edges = []
    i = 0
    while i < len(order):
        x = order[i]
        a = prop_fn(np.array(x, dtype=float))
        for j, aj in enumerate(a):
            if aj > 0:
                y = tuple(int(v) for v in (np.array(x) + S[:, j]))
                if y not in idx:
                    if len(order) >= limit:
                        raise ValueError("state space too large")
                    idx[y] = len(order)
                    order.append(y)
                edges.append((i, idx[y], float(aj)))
        i += 1
    n = len(order)
    Q = np.zeros((n, n))
    for i, k, a in edges:
        Q[i, k] += a
        Q[i, i] -= a
    return order, Q


def transient(Q, t):
    from scipy.linalg import expm
    return expm(Q * t)


def g_test(obs_counts, expected_probs, n):
    """obs_counts, expected_probs: dicts cell -> count / probability. Returns (G, df, p)."""
    from scipy.stats import chi2
    cells = set(obs_counts) | set(expected_probs)
    big_o, big_e, rest_o, rest_e = [], [], 0.0, 0.0
    for c in cells:
        e = expected_probs.get(c, 0.0) * n
        o = obs_counts.get(c, 0)
        if e <= 0 and o > 0 and expected_probs.get(c, 0.0) < 1e-14:
            return float("inf"), 1, 0.0      # an impossible state was observed
        if e >= 5:
            big_o.append(o); big_e.append(e)
        else:
            rest_o += o; rest_e += e
    if rest_e > 0:
        big_o.append(rest_o); big_e.append(rest_e)
    G = 0.0
    for o, e in zip(big_o, big_e):
        if o > 0:
            G += 2 * o * math.log(o / e)
    df = max(len(big_o) - 1, 1)
    return G, df, float(chi2.sf(G, df))
