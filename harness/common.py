"""Shared plumbing for the bioscrape verification checks (DESIGN §1).

Run with /venv/bin/python (bioscrape's dependencies live there) and
BIOSCRAPE_VERIF=1 (set by ./check).
"""
import fcntl
import hashlib
import json
import os
import re
import struct
import subprocess
import sys
import time
from fractions import Fraction

VERIF = os.path.dirname(os.path.dirname(os.path.abspath(__file__)))
REPO = os.environ.get("BIOSCRAPE_REPO", "/repo")
LEAN = os.path.join(VERIF, "lean")
DRIVER = os.path.join(LEAN, ".lake", "build", "bin", "modeldriver")
PY = "/venv/bin/python"

EXIT_OK, EXIT_VIOLATION, EXIT_INFRA = 0, 1, 2

TRUSTED_BASE = [
    "Lean 4.33 kernel; axioms limited to propext, Classical.choice, Quot.sound (audited by #print axioms on every property theorem); no sorry/native_decide/bv_decide/own axioms (grep on every run)",
    "hand-written Lean models tied to /repo only by the correspondence check (differential execution of the model's executable definitions and the rebuilt implementation on the same generated inputs); generators bound what it sees",
    "IEEE-754 Float vs real-number gap: theorems are over ordered fields / R, the driver runs the same definitions in Float (bit-exact vs the implementation) and, where closed, in Rat",
    "libm (log/pow/exp/cos/sqrt), scipy odeint, sympy, libsbml, numpy, pandas, CPython pickle/copy and Cython auto-pickle are modelled by contract, not verified",
]


class Infra(Exception):
    """Tool/build failure: exit 2, never a violation."""


# ---------------------------------------------------------------- PRNG
class SplitMix64:
    """All random choices of a run derive from one state seeded by VERIF_SEED."""

    def __init__(self, seed):
        self.s = seed & 0xFFFFFFFFFFFFFFFF

    def next(self):
        self.s = (self.s + 0x9E3779B97F4A7C15) & 0xFFFFFFFFFFFFFFFF
        z = self.s
        z = ((z ^ (z >> 30)) * 0xBF58476D1CE4E5B9) & 0xFFFFFFFFFFFFFFFF
        z = ((z ^ (z >> 27)) * 0x94D049BB133111EB) & 0xFFFFFFFFFFFFFFFF
        return z ^ (z >> 31)

    def below(self, n):
        return self.next() % n

    def choice(self, xs):
        return xs[self.below(len(xs))]

    def chance(self, num, den):
        return self.below(den) < num

    def randint(self, lo, hi):
        return lo + self.below(hi - lo + 1)

    def uniform(self):
        return (self.next() >> 11) / float(1 << 53)

    def shuffle(self, xs):
        xs = list(xs)
        for i in range(len(xs) - 1, 0, -1):
            j = self.below(i + 1)
            xs[i], xs[j] = xs[j], xs[i]
        return xs

    def fork(self, tag):
        h = hashlib.sha256(("%d:%s" % (self.s, tag)).encode()).digest()
        return SplitMix64(int.from_bytes(h[:8], "big"))


# ---------------------------------------------------------------- number codec
def f2b(x):
    return struct.unpack(">Q", struct.pack(">d", float(x)))[0]


def b2f(n):
    return struct.unpack(">d", struct.pack(">Q", int(n)))[0]


def r2s(q):
    q = Fraction(q)
    return "%d/%d" % (q.numerator, q.denominator)


def s2r(s):
    n, d = s.split("/")
    return Fraction(int(n), int(d))


def ulps(a, b):
    """distance in units in the last place between two doubles (same sign)."""
    if a == b:
        return 0
    ia, ib = f2b(a), f2b(b)
    if (ia >> 63) != (ib >> 63):
        return 1 << 62
    return abs(ia - ib)


def relerr(a, b):
    a, b = float(a), float(b)
    if a == b:
        return 0.0
    if a != a or b != b:
        return 0.0 if (a != a and b != b) else float("inf")
    d = abs(a - b)
    return d / max(abs(a), abs(b), 1e-300)


# ---------------------------------------------------------------- builds
def _run(cmd, cwd=None, env=None, timeout=3600):
    p = subprocess.run(cmd, cwd=cwd, env=env, stdout=subprocess.PIPE, stderr=subprocess.STDOUT,
                       text=True, timeout=timeout)
    return p.returncode, p.stdout


class _Lock:
    def __init__(self, name):
        self.path = os.path.join(VERIF, ".lock." + name)

    def __enter__(self):
        self.f = open(self.path, "w")
        fcntl.flock(self.f, fcntl.LOCK_EX)

    def __exit__(self, *a):
        fcntl.flock(self.f, fcntl.LOCK_UN)
        self.f.close()


def rebuild_repo():
    """Rebuild the extension modules in place from /repo's working tree."""
    t0 = time.time()
    with _Lock("repo"):
        env = dict(os.environ, BIOSCRAPE_VERIF="1")
        rc, out = _run([PY, "setup.py", "build_ext", "--inplace", "-j", "8"], cwd=REPO, env=env)
    if rc != 0 or "rror compiling Cython" in out:
        sys.stderr.write(out[-4000:])
        raise Infra("repository does not build")
    return time.time() - t0


def lake_build(pid=None):
    """Build the model driver and the property's own theorem module (not the other properties':
    a broken regenerated obligation of one property must not take the other checks down)."""
    t0 = time.time()
    with _Lock("lean"):
        rc, out = _run(["lake", "build", "modeldriver"], cwd=LEAN)
        if rc != 0:
            return 2, out, time.time() - t0
        if pid is not None:
            rc, out2 = _run(["lake", "build", "BioscrapeModel.Properties.%s" % pid], cwd=LEAN)
            out += out2
            if rc != 0:
                rc = 1
    return rc, out, time.time() - t0


FORBIDDEN = re.compile(r"\bsorry\b|\badmit\b|^axiom |native_decide|bv_decide|implemented_by|\bunsafe |maxHeartbeats 0")


def strip_comments(src):
    out, depth, i = [], 0, 0
    while i < len(src):
        if src.startswith("/-", i):
            depth += 1
            i += 2
        elif depth and src.startswith("-/", i):
            depth -= 1
            i += 2
        elif depth:
            if src[i] == "\n":
                out.append("\n")
            i += 1
        elif src.startswith("--", i):
            j = src.find("\n", i)
            i = len(src) if j < 0 else j
        else:
            out.append(src[i])
            i += 1
    return "".join(out)


def grep_forbidden():
    hits = []
    for root, _, files in os.walk(LEAN):
        if ".lake" in root:
            continue
        for f in files:
            if f.endswith(".lean"):
                p = os.path.join(root, f)
                for n, line in enumerate(strip_comments(open(p).read()).split("\n"), 1):
                    if FORBIDDEN.search(line):
                        hits.append("%s:%d: %s" % (os.path.relpath(p, VERIF), n, line.strip()))
    return hits


ALLOWED_AXIOMS = {"propext", "Classical.choice", "Quot.sound"}


def property_theorems(pid):
    """Names of the theorems stated in Properties/<pid>.lean (the obligations)."""
    p = os.path.join(LEAN, "BioscrapeModel", "Properties", pid + ".lean")
    src = strip_comments(open(p).read())
    ns = re.findall(r"^namespace\s+(\S+)", src, re.M)
    prefix = (ns[0] + ".") if ns else ""
    return [prefix + n for n in re.findall(r"^(?:protected\s+)?theorem\s+(\S+)", src, re.M)]


def audit(pid):
    """#print axioms on every property theorem; returns (theorems, problems)."""
    thms = property_theorems(pid)
    if not thms:
        return thms, ["no theorems in Properties/%s.lean" % pid]
    d = os.path.join(LEAN, ".lake", "audit")
    os.makedirs(d, exist_ok=True)
    f = os.path.join(d, "Audit_%s.lean" % pid)
    with open(f, "w") as fh:
        fh.write("import BioscrapeModel.Properties.%s\n" % pid)
        for t in thms:
            fh.write("#print axioms %s\n" % t)
    rc, out = _run(["lake", "env", "lean", f], cwd=LEAN)
    problems = []
    if rc != 0:
        problems.append("audit failed: " + out[-1500:])
        return thms, problems
    seen = {}
    for m in re.finditer(r"'(\S+)' (does not depend on any axioms|depends on axioms: \[([^\]]*)\])", out):
        ax = set(a.strip() for a in (m.group(3) or "").replace("\n", " ").split(",") if a.strip())
        seen[m.group(1)] = ax
    for t in thms:
        if t not in seen:
            problems.append("theorem %s not reported by #print axioms" % t)
        elif not seen[t] <= ALLOWED_AXIOMS:
            problems.append("theorem %s uses axioms %s" % (t, sorted(seen[t] - ALLOWED_AXIOMS)))
    return thms, problems


def leanchecker(pid):
    rc, out = _run(["lake", "env", "leanchecker", "BioscrapeModel.Properties.%s" % pid], cwd=LEAN, timeout=3000)
    return rc, out


# ---------------------------------------------------------------- driver
def driver_batch(jobs):
    """Send JSON jobs to the Lean model driver, one per line; return the answers."""
    if not jobs:
        return []
    if not os.path.exists(DRIVER):
        raise Infra("model driver not built")
    data = "\n".join(json.dumps(j, separators=(",", ":")) for j in jobs) + "\n"
    p = subprocess.run([DRIVER], input=data, stdout=subprocess.PIPE, stderr=subprocess.PIPE, text=True)
    if p.returncode != 0:
        raise Infra("model driver crashed: " + p.stderr[-2000:])
    lines = [l for l in p.stdout.split("\n") if l.strip()]
    if len(lines) != len(jobs):
        raise Infra("model driver answered %d lines for %d jobs" % (len(lines), len(jobs)))
    return [json.loads(l) for l in lines]


# ---------------------------------------------------------------- findings
def load_findings():
    p = os.path.join(VERIF, "known_findings.jsonl")
    out = []
    if os.path.exists(p):
        for line in open(p):
            line = line.strip()
            if line and not line.startswith("#"):
                out.append(json.loads(line))
    return out


class Context:
    """One run of one check."""

    def __init__(self, pid, tier, seed):
        self.pid, self.tier, self.seed = pid, tier, seed
        self.rng = SplitMix64(seed * 1000003 + int(pid[1:]))
        self.t0 = time.time()
        self.violations = []      # (signature, what, replay dict)
        self.known_hits = {}
        self.broken = []          # broken theorems / correspondences (names + first disagreeing input)
        self.cov = {"evaluations": 0, "samples": [], "histogram": {}}
        self.nontrivial = set()
        self.findings = [f for f in load_findings() if f.get("property") == pid and f.get("status") == "known"]
        self.notes = []

    # coverage bookkeeping
    def count(self, key, n=1):
        h = self.cov["histogram"]
        h[key] = h.get(key, 0) + n

    def evaluated(self, n=1):
        self.cov["evaluations"] += n

    def nontriv(self, key):
        self.nontrivial.add(key if isinstance(key, str) else json.dumps(key, sort_keys=True, default=str))

    def sample(self, s, cap=6):
        if len(self.cov["samples"]) < cap:
            self.cov["samples"].append(s)

    # outcome bookkeeping
    def violation(self, signature, what, replay):
        """A concrete failing input of the property on the implementation."""
        for f in self.findings:
            if f["signature"] == signature:
                self.known_hits[signature] = f
                return
        if not any(v[0] == signature for v in self.violations):
            self.violations.append((signature, what, replay))

    def broke(self, name, detail):
        """A theorem / correspondence that no longer checks (not yet a violation)."""
        if len(self.broken) < 20:
            self.broken.append({"name": name, "detail": detail})

    def quick(self):
        return self.tier == "quick"

    def begin_case(self, obj):
        """Record the input about to be run on the implementation (read back by the parent
        if the implementation crashes the process)."""
        cf = getattr(self, "case_file", None)
        if cf:
            with open(cf, "w") as fh:
                json.dump(obj, fh, default=str)


def write_replay(pid, obj):
    d = os.path.join(VERIF, "replays", pid)
    os.makedirs(d, exist_ok=True)
    blob = json.dumps(obj, sort_keys=True, default=str)
    h = hashlib.sha256(blob.encode()).hexdigest()[:12]
    p = os.path.join(d, h + ".json")
    with open(p, "w") as fh:
        json.dump(obj, fh, indent=1, sort_keys=True, default=str)
    return os.path.relpath(p, VERIF)


def write_evidence(ctx, obligations, discharged, rule, extra=None, exhaustive=False, assumptions=None):
    cov = dict(ctx.cov)
    cov.update({
        "obligations": len(obligations),
        "discharged": discharged,
        "theorems": obligations,
        "checker_cmd": "cd lean && lake build && lake env lean .lake/audit/Audit_%s.lean  (#print axioms on every theorem of Properties/%s.lean)" % (ctx.pid, ctx.pid),
        "trusted_base": TRUSTED_BASE,
        "distinct_nontrivial": len(ctx.nontrivial),
        "rule": rule,
        "exhaustive": exhaustive,
        "broken": ctx.broken,
        "known_findings_hit": sorted(ctx.known_hits),
    })
    if extra:
        cov.update(extra)
    ev = {
        "property_id": ctx.pid,
        "tier": ctx.tier,
        "seed": ctx.seed,
        "level": "proof",
        "coverage": cov,
        "assumptions": assumptions or [],
        "wall_s": round(time.time() - ctx.t0, 2),
        "violations": len(ctx.violations) + (1 if (ctx.broken and not ctx.violations) else 0),
    }
    os.makedirs(os.path.join(VERIF, "evidence"), exist_ok=True)
    with open(os.path.join(VERIF, "evidence", ctx.pid + ".json"), "w") as fh:
        json.dump(ev, fh, indent=1, default=str)
    return ev
