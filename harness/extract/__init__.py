"""Translators source -> lean/BioscrapeModel/Generated/*.lean; all of them run before every build so
that the generated files always describe /repo's current working tree."""


def regenerate_all(repo, lean_dir):
    from extract import result_fields
    result_fields.regenerate(repo, lean_dir)
    try:
        from extract import pickle_tables
        pickle_tables.regenerate(repo, lean_dir)
    except ImportError:
        pass
    try:
        from extract import prior_dispatch
        prior_dispatch.regenerate(repo, lean_dir)
    except ImportError:
        pass
    try:
        from extract import create_vectors
        create_vectors.regenerate(repo, lean_dir)
    except ImportError:
        pass
