"""Translator: declared attributes, __getstate__ tuples, __setstate__ assignments and C-vector rebuild loops
of the hand-pickled classes -> lean/BioscrapeModel/Generated/PickleTables.lean.
Regenerated from /repo on every run (C17)."""
import os
import re

# class -> (file with the methods, file with the attribute declarations, base class handled here or None)
CLASSES = {
    "Model": ("bioscrape/types.pyx", "bioscrape/types.pxd", None),
    "LineageModel": ("lineage/lineage.pyx", "lineage/lineage.pyx", "Model"),
    "Schnitz": ("bioscrape/types.pyx", "bioscrape/types.pxd", None),
    "Lineage": ("bioscrape/types.pyx", "bioscrape/types.pxd", None),
    "ExperimentalLineage": ("bioscrape/types.pyx", "bioscrape/types.pxd", "Lineage"),
    "VolumeCellState": ("bioscrape/simulator.pyx", "bioscrape/simulator.pxd", "CellState"),
}


def class_body(src, name):
    m = re.search(r"^cdef class %s\b[^\n]*:\n(.*?)(?=^cdef class |^class |^def |\Z)" % re.escape(name), src, re.S | re.M)
    return m.group(1) if m else ""


def declared_attrs(src, name):
    body = class_body(src, name)
    out = []
    for line in body.split("\n"):
        line = line.split("#")[0].rstrip()
        if "(" in line:          # method declarations
            continue
        m = re.match(r"^\s+cdef\s+(?:public\s+|readonly\s+)?[\w\.\[\]\*\s,]+?\s+(\w+)\s*$", line)
        if m:
            out.append(m.group(1))
    return out


def method_body(body, name):
    m = re.search(r"^(\s+)def %s\(self[^\n]*\):\n(.*?)(?=^\1def |^\1cdef |\Z)" % name, body, re.S | re.M)
    return m.group(2) if m else ""


def getstate_fields(body):
    gb = method_body(body, "__getstate__")
    gb = re.sub(r"'''.*?'''", "", gb, flags=re.S)
    own = re.findall(r"self\.(\w+)", gb)
    sup = "super().__getstate__()" in gb
    order = None
    if sup:
        # which comes first in the returned tuple?
        ret = gb[gb.rfind("return"):]
        if re.search(r"additional_state\s*\+\s*superclass_state", ret):
            order = "own_first"
        elif re.search(r"super\(\)\.__getstate__\(\)\s*\+", ret):
            order = "super_first"
        else:
            order = "unknown"
    return own, order


def setstate_entries(body):
    sb = method_body(body, "__setstate__")
    sb = re.sub(r"'''.*?'''", "", sb, flags=re.S)
    assigns = []       # (attr, index expr)
    for m in re.finditer(r"self\.(\w+)\s*=\s*state\[([^\]]+)\](?:\.copy\(\))?\s*$", sb, re.M):
        assigns.append((m.group(1), m.group(2).strip()))
    rebuilds = []      # (c vector, index expr)
    for m in re.finditer(r"for \w+ in state\[([^\]]+)\]:\s*\n\s*self\.(\w+)\.push_back", sb):
        rebuilds.append((m.group(2), m.group(1).strip()))
    for m in re.finditer(r"for \w+ in state\[([^\]]+)\]:\s*\n\s*self\.add_schnitz\(", sb):
        rebuilds.append(("c_schnitzes", m.group(1).strip()))
        assigns.append(("schnitzes", m.group(1).strip()))      # add_schnitz appends to the Python list as well
    cleared = re.findall(r"self\.(\w+)\.clear\(\)", sb)
    sup = re.search(r"super\(\)\.__setstate__\(state\[([^\]]*)\]\)", sb)
    return assigns, rebuilds, cleared, (sup.group(1).strip() if sup else None)


def resolve(idx, n):
    idx = idx.replace(" ", "")
    if re.fullmatch(r"\d+", idx):
        return int(idx)
    if idx == "len(state)-1":
        return n - 1
    return None


def build_tables(repo):
    cache = {}

    def src(path):
        if path not in cache:
            cache[path] = open(os.path.join(repo, path)).read().replace("\t", "    ")
        return cache[path]
    tables = {}
    for cls, (mfile, dfile, base) in CLASSES.items():
        body = class_body(src(mfile), cls)
        decl = declared_attrs(src(dfile), cls)
        if base == "CellState":
            decl = declared_attrs(src("bioscrape/simulator.pxd"), "CellState") + decl
        own, order = getstate_fields(body)
        assigns, rebuilds, cleared, sup = setstate_entries(body)
        tables[cls] = dict(decl=decl, own=own, order=order, assigns=assigns, rebuilds=rebuilds, cleared=cleared, sup=sup, base=base)
    out = {}
    for cls in ["Model", "Schnitz", "Lineage", "VolumeCellState", "LineageModel", "ExperimentalLineage"]:
        t = tables[cls]
        base = t["base"] if t["base"] in out else None
        if base:
            b = out[base]
            if t["order"] == "own_first":
                gs = t["own"] + b["getstate"]
                off = len(t["own"])
            else:
                gs = b["getstate"] + t["own"]
                off = 0
            n = len(gs)
            ss = [(a, resolve(i, n)) for a, i in t["assigns"]] + [(a, i + off) for a, i in b["setstate"]]
            rb = [(a, resolve(i, n)) for a, i in t["rebuilds"]] + [(a, i + off) for a, i in b["rebuild"]]
            # does the super call slice agree with the layout?
            sup = (t["sup"] or "").replace(" ", "")
            sup_ok = (sup == "%d:" % off) if t["order"] == "own_first" else (sup == ":len(state)-1" and len(t["own"]) == 1)
            decl = b["declared"] + t["decl"]
            cleared = t["cleared"] + b["cleared"]
        else:
            gs = t["own"]
            n = len(gs)
            ss = [(a, resolve(i, n)) for a, i in t["assigns"]]
            rb = [(a, resolve(i, n)) for a, i in t["rebuilds"]]
            sup_ok = True
            decl = t["decl"]
            cleared = t["cleared"]
        out[cls] = dict(declared=decl, getstate=gs, setstate=ss, rebuild=rb, cleared=cleared, superSliceOk=sup_ok)
    return out


# classes pickled through __reduce__ = (cls, args): unpickling calls cls(*args)
REDUCE_CLASSES = {
    "LineageVolumeCellState": ("lineage/lineage.pyx", [("bioscrape/simulator.pxd", "CellState"), ("bioscrape/simulator.pxd", "VolumeCellState"),
                                                       ("bioscrape/simulator.pxd", "DelayVolumeCellState"), ("lineage/lineage.pyx", "LineageVolumeCellState")]),
}


def build_reduce_tables(repo):
    out = {}
    for cls, (mfile, decls) in REDUCE_CLASSES.items():
        src = open(os.path.join(repo, mfile)).read().replace("\t", "    ")
        body = class_body(src, cls)
        declared = []
        for dfile, dcls in decls:
            declared += declared_attrs(open(os.path.join(repo, dfile)).read().replace("\t", "    "), dcls)
        rb = method_body(body, "__reduce__")
        m = re.search(r"return\s*\(\s*self\.__class__\s*,\s*\((.*?)\)\s*\)\s*$", rb.strip(), re.S)
        args = re.findall(r"self\.(\w+)", m.group(1)) if m else ["?unparsed"]
        im = re.search(r"def __init__\(self\s*,?([^\)]*)\)", body)
        params = [q.split("=")[0].strip() for q in im.group(1).split(",") if q.strip()] if im else ["?unparsed"]
        own, _ = getstate_fields(body)
        out[cls] = dict(declared=declared, reduceArgs=args, initParams=params, getstate=own)
    return out


def reduce_to_lean(tabs):
    lines = ["", "namespace Bioscrape.Generated", "",
             "structure ReduceTable where",
             "  cls : String",
             "  declared : List String            -- cdef attributes of the class (inherited ones included)",
             "  reduceArgs : List String          -- attribute passed at each position of the argument tuple of __reduce__",
             "  initParams : List String          -- parameters of __init__ in order (the tuple is applied to them positionally)",
             "  getstate : List String            -- attribute at each position of __getstate__ (what the harness observes)",
             "", "def reduceTables : List ReduceTable := ["]
    items = []
    for cls, t in tabs.items():
        q = lambda xs: lean_list(['"%s"' % a for a in xs])
        items.append('  { cls := "%s",\n    declared := %s,\n    reduceArgs := %s,\n    initParams := %s,\n    getstate := %s }' % (
            cls, q(t["declared"]), q(t["reduceArgs"]), q(t["initParams"]), q(t["getstate"])))
    lines.append(",\n".join(items))
    lines += ["]", "", "end Bioscrape.Generated", ""]
    return "\n".join(lines)


def lean_list(xs):
    return "[" + ", ".join(xs) + "]"


def to_lean(tabs):
    lines = ["/- GENERATED by harness/extract/pickle_tables.py from the sources of /repo — do not edit. -/",
             "namespace Bioscrape.Generated", "",
             "structure PickleTable where",
             "  cls : String",
             "  declared : List String            -- cdef attributes of the class (inherited ones included)",
             "  getstate : List String            -- attribute stored at each position of the __getstate__ tuple",
             "  setstate : List (String × Nat)    -- attribute <- tuple position read by __setstate__ (1000000 = not a literal index)",
             "  rebuild : List (String × Nat)     -- C vector rebuilt by a push_back loop over the tuple position",
             "  cleared : List String             -- C vectors cleared before being rebuilt",
             "  superSliceOk : Bool               -- the slice passed to super().__setstate__ matches the tuple layout",
             "", "def pickleTables : List PickleTable := ["]
    items = []
    for cls, t in tabs.items():
        ss = lean_list(['("%s", %d)' % (a, 1000000 if i is None else i) for a, i in t["setstate"]])
        rb = lean_list(['("%s", %d)' % (a, 1000000 if i is None else i) for a, i in t["rebuild"]])
        items.append('  { cls := "%s",\n    declared := %s,\n    getstate := %s,\n    setstate := %s,\n    rebuild := %s,\n    cleared := %s,\n    superSliceOk := %s }' % (
            cls, lean_list(['"%s"' % a for a in t["declared"]]), lean_list(['"%s"' % a for a in t["getstate"]]), ss, rb,
            lean_list(['"%s"' % a for a in t["cleared"]]), "true" if t["superSliceOk"] else "false"))
    lines.append(",\n".join(items))
    lines += ["]", "", "end Bioscrape.Generated", ""]
    return "\n".join(lines)


def regenerate(repo, lean_dir):
    tabs = build_tables(repo)
    rtabs = build_reduce_tables(repo)
    text = to_lean(tabs) + reduce_to_lean(rtabs)
    path = os.path.join(lean_dir, "BioscrapeModel", "Generated", "PickleTables.lean")
    old = open(path).read() if os.path.exists(path) else None
    if old != text:
        with open(path, "w") as fh:
            fh.write(text)
    tabs = dict(tabs)
    tabs["__reduce__"] = rtabs
    return tabs


if __name__ == "__main__":
    import sys
    print(to_lean(build_tables(sys.argv[1])) + reduce_to_lean(build_reduce_tables(sys.argv[1])))
