"""Entry point of every check: ./check <Cxx> <quick|thorough> [--replay file]  (DESIGN §1.3)."""
import importlib
import json
import os
import sys
import time
import traceback

import common
from common import Context, Infra, EXIT_OK, EXIT_VIOLATION, EXIT_INFRA


def run_guarded(ctx, mod, replay):
    """Run the exploration in a forked child so that a crash of the implementation
    (segfault inside the extension modules) is reported with the input being run,
    instead of killing the check."""
    import pickle
    import tempfile
    d = tempfile.mkdtemp(prefix="verif_%s_" % ctx.pid, dir=os.path.join(common.VERIF, ".scratch") if os.path.isdir(os.path.join(common.VERIF, ".scratch")) else None)
    ctx.case_file = os.path.join(d, "case.json")
    res = os.path.join(d, "result.pkl")
    pid = os.fork()
    if pid == 0:
        code = 0
        try:
            import ctypes, signal
            ctypes.CDLL("libc.so.6").prctl(1, signal.SIGKILL)     # die with the parent (PR_SET_PDEATHSIG)
        except Exception:
            pass
        try:
            if replay:
                mod.replay(ctx, json.load(open(replay)))
            else:
                mod.run(ctx)
            with open(res, "wb") as fh:
                pickle.dump({k: getattr(ctx, k) for k in ("violations", "known_hits", "broken", "cov", "nontrivial", "notes")}, fh)
        except common.Infra as e:
            with open(res, "wb") as fh:
                pickle.dump({"infra": str(e)}, fh)
        except BaseException as e:
            tb = traceback.extract_tb(e.__traceback__)
            in_impl = any(("bioscrape/" in fr.filename or "lineage/" in fr.filename or fr.filename.startswith(common.REPO)) for fr in tb[-4:])
            if in_impl:
                # the implementation raised on an input the generators consider valid: a failure of the
                # property on that input (it did not hold there), reported with the input as replay
                case = None
                try:
                    case = json.load(open(ctx.case_file))
                except Exception:
                    pass
                ctx.cov["evaluations"] = max(ctx.cov["evaluations"], 1)
                ctx.violation("exception/%s" % type(e).__name__,
                              "the implementation raised %s: %s on the input in the replay" % (type(e).__name__, str(e)[:200]),
                              {"case": case, "traceback": traceback.format_exc()[-1500:]})
                with open(res, "wb") as fh:
                    pickle.dump({k: getattr(ctx, k) for k in ("violations", "known_hits", "broken", "cov", "nontrivial", "notes")}, fh)
            else:
                with open(res, "wb") as fh:
                    pickle.dump({"infra": "unexpected exception in harness:\n" + traceback.format_exc()}, fh)
        finally:
            sys.stdout.flush()
            sys.stderr.flush()
            os._exit(code)
    budget = float(os.environ.get("VERIF_BUDGET_S", "900" if ctx.tier == "quick" else "5400"))
    # one input that keeps the implementation busy far longer than any input does on a tree where the property holds
    # (the model run for it has completed: the generators gate on the model's fuel first) is a failure to return
    case_budget = float(os.environ.get("VERIF_CASE_BUDGET_S", "120" if ctx.tier == "quick" else "900"))
    t_start = time.time()
    max_age = 0.0
    while True:
        wp, status = os.waitpid(pid, os.WNOHANG)
        if wp != 0:
            break
        try:
            age = time.time() - os.path.getmtime(ctx.case_file)
        except OSError:
            age = 0.0
        max_age = max(max_age, age)
        if age > case_budget:
            os.kill(pid, 9)
            os.waitpid(pid, 0)
            case = None
            try:
                case = json.load(open(ctx.case_file))
            except Exception:
                pass
            import shutil
            shutil.rmtree(d, ignore_errors=True)
            ctx.cov["evaluations"] = max(ctx.cov["evaluations"], 1)
            ctx.violation("hang/no-return", "the implementation did not return within %.0f s on the input in the replay (no input takes a "
                          "tenth of that where the property holds; the model's run of this input is bounded by its fuel)" % case_budget, {"case": case})
            ctx.notes.append("exploration stopped after an input exceeded the per-input budget")
            return
        if time.time() - t_start > budget:
            os.kill(pid, 9)
            os.waitpid(pid, 0)
            case = None
            try:
                case = json.load(open(ctx.case_file))
            except Exception:
                pass
            import shutil
            shutil.rmtree(d, ignore_errors=True)
            raise Infra("exploration exceeded its time budget of %.0fs; last input: %s" % (budget, json.dumps(case)[:600]))
        time.sleep(0.05)
    try:
        if os.WIFSIGNALED(status):
            sig = os.WTERMSIG(status)
            case = None
            if os.path.exists(ctx.case_file):
                try:
                    case = json.load(open(ctx.case_file))
                except Exception:
                    case = {"unreadable": True}
            ctx.cov["evaluations"] = max(ctx.cov["evaluations"], 1)
            ctx.violation("crash/signal-%d" % sig, "the implementation crashed (signal %d) while running the input in the replay" % sig,
                          {"crash_signal": sig, "case": case})
            return
        if not os.path.exists(res):
            raise Infra("exploration child exited without a result")
        with open(res, "rb") as fh:
            r = pickle.load(fh)
        if "infra" in r:
            raise Infra(r["infra"])
        for k, v in r.items():
            setattr(ctx, k, v)
        ctx.notes.append("longest time between two inputs: %.1f s (per-input budget %.0f s)" % (max_age, case_budget))
    finally:
        import shutil
        shutil.rmtree(d, ignore_errors=True)


def main(argv):
    if len(argv) < 2:
        print("usage: check <Cxx> <quick|thorough> [--replay file]")
        return EXIT_INFRA
    pid = argv[1]
    tier = argv[2] if len(argv) > 2 and not argv[2].startswith("--") else os.environ.get("VERIF_TIER", "quick")
    seed = int(os.environ.get("VERIF_SEED", "1"))
    replay = None
    if "--replay" in argv:
        replay = argv[argv.index("--replay") + 1]
    ctx = Context(pid, tier, seed)
    os.chdir(common.VERIF)
    try:
        t_repo = common.rebuild_repo()
        mod = importlib.import_module("props." + pid)
        import extract
        extract.regenerate_all(common.REPO, common.LEAN)
        generated = bool(getattr(mod, "USES_GENERATED", False))
        rc, out, t_lean = common.lake_build(pid)
        if rc == 2:
            sys.stderr.write(out[-4000:])
            raise Infra("model driver does not build")
        if rc != 0:
            if generated:
                # the theorems are re-checked against what the source says now: a failure is a broken
                # proof obligation, not an infrastructure error -> failing-input search below
                ctx.broke("lake build BioscrapeModel.Properties.%s (obligations regenerated from the source)" % pid, out[-3000:])
            else:
                sys.stderr.write(out[-4000:])
                raise Infra("lean project does not build")
        hits = common.grep_forbidden()
        if hits:
            raise Infra("forbidden constructs in lean sources: %s" % hits[:5])
        thms, problems = ([], [])
        if rc == 0:
            thms, problems = common.audit(pid)
            if problems:
                raise Infra("axiom audit: %s" % problems[:3])
            if tier == "thorough" and os.environ.get("VERIF_LEANCHECKER", "1") == "1":
                lrc, lout = common.leanchecker(pid)
                if lrc != 0:
                    raise Infra("leanchecker rejected Properties/%s: %s" % (pid, lout[-1000:]))
                ctx.notes.append("leanchecker accepted BioscrapeModel.Properties.%s" % pid)
        run_guarded(ctx, mod, replay)
        discharged = len(thms) if rc == 0 else 0
        rule, extra, exhaustive, assumptions = mod.describe(ctx)
        extra = dict(extra or {})
        extra.update({"repo_rebuild_s": round(t_repo, 1), "lake_build_s": round(t_lean, 1), "notes": ctx.notes})
        common.write_evidence(ctx, thms, discharged, rule, extra, exhaustive, assumptions)
    except Infra as e:
        print("INFRA-ERROR: %s" % e)
        return EXIT_INFRA
    except Exception:
        traceback.print_exc()
        print("INFRA-ERROR: unexpected exception in harness")
        return EXIT_INFRA

    for sig, f in sorted(ctx.known_hits.items()):
        print("KNOWN-FINDING: property=%s %s" % (pid, f["what"]))
    code = EXIT_OK
    if ctx.violations:
        for sig, what, rep in ctx.violations[:10]:
            path = common.write_replay(pid, {"property": pid, "signature": sig, "what": what, "replay": rep,
                                            "broken": ctx.broken[:3], "seed": seed, "tier": tier})
            print("# %s: %s" % (pid, what))
            print("VIOLATION property=%s replay=%s" % (pid, path))
        code = EXIT_VIOLATION
    elif ctx.broken:
        path = common.write_replay(pid, {"property": pid, "no_failing_input_found": True,
                                        "broken": ctx.broken, "seed": seed, "tier": tier})
        print("# %s: %s no longer checks; searched the implementation for a failing input and found none" %
              (pid, ctx.broken[0]["name"]))
        print("VIOLATION property=%s replay=%s no-failing-input-found" % (pid, path))
        code = EXIT_VIOLATION
    else:
        print("OK property=%s tier=%s seed=%d evaluations=%d nontrivial=%d theorems=%d wall=%.1fs" % (
            pid, tier, seed, ctx.cov["evaluations"], len(ctx.nontrivial), len(thms), time.time() - ctx.t0))
    return code


if __name__ == "__main__":
    sys.exit(main(sys.argv))
