"""Model specifications shared by the checks: one JSON-able description from
which both the real bioscrape Model and the Lean driver job are built."""
import warnings
import numpy as np
from common import f2b, r2s
from fractions import Fraction

warnings.filterwarnings("ignore")

HILL = ("hillpositive", "proportionalhillpositive", "hillnegative", "proportionalhillnegative")


def build_model(spec, initialize=True):
    """Real bioscrape Model from a spec. Parameters are named; values in spec['params']."""
    from bioscrape.types import Model
    rxns = []
    shared = {}
    for r in spec["reactions"]:
        pd = dict(r["prop"])
        ptype = pd.pop("type")
        if ptype == "general":
            pd = {"rate": pd["rate"]}
        # reactions with the same parameter dictionary get the same dict *object*, the way user code writes
        # `kdeg = {"k": "d"}` once and passes it to several reactions (the library must not write into it)
        key = (ptype, tuple(sorted((k_, str(v_)) for k_, v_ in pd.items())))
        pd = shared.setdefault(key, pd)
        if "delay" in r and r["delay"] is not None:
            d = dict(r["delay"])
            dtype = d.pop("type")
            rxns.append((list(r["reactants"]), list(r["products"]), ptype, pd, dtype,
                         list(r.get("dreactants", [])), list(r.get("dproducts", [])), d))
        elif r.get("dreactants") or r.get("dproducts"):
            rxns.append((list(r["reactants"]), list(r["products"]), ptype, pd, None,
                         list(r.get("dreactants", [])), list(r.get("dproducts", [])), None))
        else:
            rxns.append((list(r["reactants"]), list(r["products"]), ptype, pd))
    rules = []
    for ru in spec.get("rules", []):
        if "frequency" in ru:
            rules.append((ru["type"], dict(ru["attrs"]), ru["frequency"]))
        else:
            rules.append((ru["type"], dict(ru["attrs"])))
    return Model(species=list(spec.get("species", [])), reactions=rxns,
                 parameters=list(spec.get("params", {}).items()), rules=rules,
                 initial_condition_dict=dict(spec.get("ic", {})) if spec.get("ic") is not None else None,
                 initialize_model=initialize)


def dump_term(t, enc=f2b):
    """Walk a real bioscrape Term object (through its pickle state) into the driver's
    positional term JSON: leaves carry *indices* (the object's own)."""
    name = type(t).__name__
    r = t.__reduce__()
    if name in ("SumTerm", "ProductTerm", "MaxTerm", "MinTerm"):
        tag = {"SumTerm": "sum", "ProductTerm": "prod", "MaxTerm": "max", "MinTerm": "min"}[name]
        return [tag, [dump_term(x, enc) for x in r[1][0]]]
    state = r[1][2] if (len(r[1]) > 2 and r[1][2] is not None) else (r[2] if len(r) > 2 else ())
    if name == "ConstantTerm":
        return ["c", enc(state[0])]
    if name == "SpeciesTerm":
        return ["s", int(state[0])]
    if name == "ParameterTerm":
        return ["p", int(state[0])]
    if name == "VolumeTerm":
        return ["vol"]
    if name == "TimeTerm":
        return ["t"]
    if name == "PowerTerm":
        return ["pow", dump_term(state[0], enc), dump_term(state[1], enc)]
    one = {"ExpTerm": "exp", "LogTerm": "log", "StepTerm": "step", "AbsTerm": "abs"}
    if name in one:
        return [one[name], dump_term(state[0], enc)]
    raise ValueError("unknown term class " + name)


def named_term(tj, species_list, param_list):
    """positional term JSON -> named term JSON (for network jobs)."""
    tag = tj[0]
    if tag == "s":
        return ["s", species_list[tj[1]]]
    if tag == "p":
        return ["p", param_list[tj[1]]]
    if tag in ("sum", "prod", "max", "min"):
        return [tag, [named_term(x, species_list, param_list) for x in tj[1]]]
    if tag in ("pow",):
        return [tag, named_term(tj[1], species_list, param_list), named_term(tj[2], species_list, param_list)]
    if tag in ("exp", "log", "step", "abs"):
        return [tag, named_term(tj[1], species_list, param_list)]
    return tj


def network_job(spec, M, points, num="float"):
    """Driver job for a whole model.  Species indexing is recomputed by the Lean model
    from the spec; parameter indices and general-rate term trees are read off the real
    object (their construction is the subject of C02/C08, not of this job)."""
    enc = f2b if num == "float" else r2s
    pidx = dict(M.get_params2index())
    plist = M.get_param_list()
    slist = M.get_species_list()
    props = M.get_propensities()
    rj = []
    for i, r in enumerate(spec["reactions"]):
        pd = dict(r["prop"])
        if pd["type"] == "general":
            tj = dump_term(props[i].py_get_term(), enc)
            pd = {"type": "general", "term": named_term(tj, slist, plist)}
        rj.append({"reactants": list(r["reactants"]), "products": list(r["products"]),
                   "dreactants": list(r.get("dreactants", [])), "dproducts": list(r.get("dproducts", [])),
                   "prop": pd})
    pv = M.get_parameter_values()
    job = {"op": "network", "num": num, "species": list(spec.get("species", [])),
           "ic": list((spec.get("ic") or {}).keys()), "reactions": rj, "pindex": pidx,
           "p": [enc(v) for v in (pv if num == "float" else [Fraction(float(v)) for v in pv])],
           "points": [{"x": {s: enc(v) for s, v in pt["x"].items()}, "V": enc(pt["V"]), "t": enc(pt["t"])}
                      for pt in points]}
    return job


def state_vector(M, xdict):
    sl = M.get_species_list()
    return np.array([float(xdict[s]) for s in sl], dtype=float)


# ------------------------------------------------------------------ positional dumps of real objects
def _state(obj):
    r = obj.__reduce__()
    st = r[1][2] if (len(r[1]) > 2 and r[1][2] is not None) else (r[2] if len(r) > 2 else ())
    return st


def dump_prop(q, enc=f2b):
    """Real Propensity object -> positional driver JSON (attributes through its pickle state,
    which Cython orders alphabetically)."""
    n = type(q).__name__
    st = _state(q)
    if n == "ConstitutivePropensity":       # (propensity_type, rate_index)
        return {"type": "massaction", "k": int(st[1]), "reactants": []}
    if n == "UnimolecularPropensity":       # (propensity_type, rate_index, species_index)
        return {"type": "massaction", "k": int(st[1]), "reactants": [int(st[2])]}
    if n == "BimolecularPropensity":        # (propensity_type, rate_index, s1_index, s2_index)
        return {"type": "massaction", "k": int(st[1]), "reactants": [int(st[2]), int(st[3])]}
    if n == "MassActionPropensity":         # (k_index, num_species, propensity_type, sp_counts, sp_inds)
        return {"type": "massaction_raw", "k": int(st[0]), "n": int(st[1]), "counts": [int(v) for v in st[3]],
                "inds": [int(v) for v in st[4]]}
    if n in ("PositiveHillPropensity", "NegativeHillPropensity"):   # (K_index, n_index, propensity_type, rate_index, s1_index)
        return {"type": "hillpositive" if n.startswith("Pos") else "hillnegative", "K": int(st[0]), "n": int(st[1]),
                "k": int(st[3]), "s1": int(st[4])}
    if n in ("PositiveProportionalHillPropensity", "NegativeProportionalHillPropensity"):
        # (K_index, d_index, n_index, propensity_type, rate_index, s1_index)
        return {"type": "proportionalhillpositive" if n.startswith("Pos") else "proportionalhillnegative",
                "K": int(st[0]), "d": int(st[1]), "n": int(st[2]), "k": int(st[4]), "s1": int(st[5])}
    if n == "GeneralPropensity":
        return {"type": "general", "term": dump_term(q.py_get_term(), enc)}
    raise ValueError("unknown propensity class " + n)


def dump_rule(r, enc=f2b):
    n = type(r).__name__
    st = _state(r)
    if n == "AdditiveAssignmentRule":       # (dest_index, frequency_flag, species_source_indices)
        return {"freq": enc(st[1]), "op": "additive", "dest": int(st[0]), "srcs": [int(v) for v in st[2]]}
    if n == "GeneralAssignmentRule":        # (dest_index, frequency_flag, param_flag, rhs)
        return {"freq": enc(st[1]), "op": "assign", "dest": int(st[0]), "toParam": bool(st[2] > 0), "term": dump_term(st[3], enc)}
    if n == "GeneralODERule":
        return {"freq": enc(st[1]), "op": "ode", "dest": int(st[0]), "toParam": bool(st[2] > 0), "term": dump_term(st[3], enc)}
    raise ValueError("unknown rule class " + n)


def dump_delay(d):
    n = type(d).__name__
    st = _state(d)
    if n == "NoDelay":
        return ["none"]
    if n == "FixedDelay":                   # (delay_index, delay_type)
        return ["fixed", int(st[0])]
    if n == "GaussianDelay":                # (delay_type, mean_index, std_index)
        return ["gaussian", int(st[1]), int(st[2])]
    if n == "GammaDelay":                   # (delay_type, k_index, theta_index)
        return ["gamma", int(st[1]), int(st[2])]
    raise ValueError("unknown delay class " + n)


def props_from_spec(props, spec, M):
    """Mass-action propensities of the model job are built from the reaction *definition* (reactant names of the
    specification, in order), not from the counts and the order the implementation's object stores: the model's
    own constructor (`createMassAction`) derives multiplicities and the volume exponent.  Only the index of the rate
    parameter is read off the object (numeric constants become dummy parameters)."""
    if spec is None:
        return props
    si = M.get_species2index()
    out = list(props)
    for j, r in enumerate(spec.get("reactions", [])):
        if j >= len(out):
            break
        if isinstance(r, dict):
            ptype, reactants = r["prop"]["type"], r["reactants"]
        else:
            ptype, reactants = r[2], r[0]
        if ptype == "massaction" and out[j]["type"] in ("massaction", "massaction_raw"):
            out[j] = {"type": "massaction", "k": out[j]["k"], "reactants": [int(si[x]) for x in reactants if x != ""]}
    return out


def delays_from_spec(delays, spec, M):
    """delay family and parameter indices of the model job from the reaction *definition* (as for the mass-action
    propensities): what the implementation's delay objects decoded is not trusted."""
    if spec is None:
        return delays
    pi = M.get_params2index()
    out = list(delays)
    for j, r in enumerate(spec.get("reactions", [])):
        if j >= len(out) or not isinstance(r, dict):
            continue
        d = r.get("delay")
        if not d or d.get("type") in (None, "none"):
            out[j] = ["none"]
        elif d["type"] == "fixed" and isinstance(d.get("delay"), str):
            out[j] = ["fixed", int(pi[d["delay"]])]
        elif d["type"] == "gaussian" and isinstance(d.get("mean"), str) and isinstance(d.get("std"), str):
            out[j] = ["gaussian", int(pi[d["mean"]]), int(pi[d["std"]])]
        elif d["type"] == "gamma" and isinstance(d.get("k"), str) and isinstance(d.get("theta"), str):
            out[j] = ["gamma", int(pi[d["k"]]), int(pi[d["theta"]])]
    return out


TWO_PI = 2.0 * 3.141592653589793238462643383279502884


def reactant_cols(spec, species_list):
    """reactant multiplicities (immediate + delayed) per reaction over the model's species order."""
    cols = []
    for r in spec["reactions"]:
        names = list(r["reactants"]) + list(r.get("dreactants", []) or [])
        cols.append([names.count(s) for s in species_list])
    return cols


def spec_matrices(spec, sl):
    """immediate and delayed stoichiometric matrices written out from the reaction definition (products - reactants, with
    multiplicity), rows in the species order `sl`."""
    U = np.array([[r["products"].count(s_) - r["reactants"].count(s_) for r in spec["reactions"]] for s_ in sl], dtype=int).reshape(len(sl), -1)
    D = np.array([[list(r.get("dproducts", []) or []).count(s_) - list(r.get("dreactants", []) or []).count(s_) for r in spec["reactions"]] for s_ in sl], dtype=int).reshape(len(sl), -1)
    return U, D


def independent_rhs(spec, sl):
    """dx/dt = (S + S_d) rate(x, t) written out from the reaction definitions alone (no bioscrape code involved): mass action
    k prod x^m, the Hill family, general rates evaluated as Python arithmetic.  -> f(t, x)"""
    import math
    U, D = spec_matrices(spec, sl)
    S = (U + D).astype(float)
    pv = {k: float(v) for k, v in spec["params"].items()}
    fn = {"Heaviside": lambda z: 1.0 if z > 0 else 0.0, "abs": abs, "Abs": abs, "max": max, "Max": max, "min": min, "Min": min,
          "exp": math.exp, "log": math.log}

    def rates(t, x):
        env = dict(pv); env.update({s_: float(v_) for s_, v_ in zip(sl, x)}); env["t"] = float(t); env["volume"] = 1.0
        out = []
        for r in spec["reactions"]:
            pr = r["prop"]
            ty = pr["type"]
            if ty == "massaction":
                a = env[pr["k"]] if isinstance(pr["k"], str) else float(pr["k"])
                for s_ in r["reactants"]:
                    if s_ != "":
                        a *= env[s_]
                out.append(a)
            elif ty == "general":
                out.append(float(eval(pr["rate"].replace("^", "**"), {"__builtins__": {}}, dict(env, **fn))))
            else:
                k, K, n = (env[pr[q]] if isinstance(pr[q], str) else float(pr[q]) for q in ("k", "K", "n"))
                u = (env[pr["s1"]] / K) ** n
                a = k * u / (1 + u) if "positive" in ty else k / (1 + u)
                if "proportional" in ty:
                    a *= env[pr["d"]]
                out.append(a)
        return np.array(out, dtype=float)
    return lambda t, x: S @ rates(t, x)


def sim_job(M, kind, times, seed, dt, t0=0.0, safe=False, num="float", x0=None, vol0=1.0, volmodel=None,
            qlen=None, qdt=None, fuel=2000000, want_log=False, spec=None):
    """Driver job describing the interface a simulator sees, dumped from the real Model."""
    enc = f2b
    U = np.array(M.py_get_update_array())
    D = np.array(M.py_get_delay_update_array())
    st = M.__getstate__()
    rules = st[6]
    if spec is not None and all(isinstance(r, dict) for r in spec.get("reactions", [])) and len(spec.get("reactions", [])) == U.shape[1]:
        # the matrices of the model job from the reaction definition too (products - reactants with multiplicity)
        U, D = spec_matrices(spec, M.get_species_list())
    job = {"op": "sim", "num": num, "kind": kind, "nSpecies": int(U.shape[0]),
           "props": props_from_spec([dump_prop(q, enc) for q in M.get_propensities()], spec, M),
           "U": [[int(v) for v in U[:, j]] for j in range(U.shape[1])],
           "D": [[int(v) for v in D[:, j]] for j in range(D.shape[1])],
           "rules": [dump_rule(r, enc) for r in rules],
           "delays": delays_from_spec([dump_delay(d) for d in M.get_delays()], spec, M),
           "safe": bool(safe), "dt": enc(dt), "t0": enc(t0), "twoPi": enc(TWO_PI),
           "x0": [enc(v) for v in (x0 if x0 is not None else M.get_species_array())],
           "p": [enc(v) for v in M.get_parameter_values()],
           "times": [enc(v) for v in times], "seed": int(seed), "vol0": enc(vol0), "fuel": fuel,
           "wantLog": bool(want_log)}
    if spec is not None:
        job["R"] = reactant_cols(spec, M.get_species_list())
    elif safe:
        raise ValueError("sim_job: the safe interface needs the reaction definitions (pass spec=)")
    if volmodel is not None:
        job["volmodel"] = volmodel
    if qlen is not None:
        job["qlen"] = int(qlen)
    if qdt is not None:
        job["qdt"] = enc(qdt)
    return job
