"""C01 - built-in rate laws equal their documented closed forms (DESIGN §4 C01)."""
import itertools
import math
from fractions import Fraction

import numpy as np

from common import f2b, b2f, r2s, s2r, relerr, ulps, driver_batch
from modelspec import build_model, network_job, state_vector, HILL

SPECIES = ["A", "B", "C"]
MODES = ["det", "vol", "stoch", "svol"]


# ----------------------------------------------------------------- oracle: the documented closed forms
def ff(y, m):
    out = Fraction(1)
    for j in range(m):
        out *= max(Fraction(y) - j, 0)
    return out


def closed_form(prop, reactants, x, params, V):
    """The property's closed forms, written independently of the code's loops.
    Exact (Fraction) for mass action; floats for Hill (pow)."""
    t = prop["type"]
    if t == "massaction":
        k = Fraction(params[prop["k"]])
        r = len(reactants)
        det = k
        for s in reactants:
            det *= Fraction(x[s])
        st = k
        for s in sorted(set(reactants)):
            st *= ff(x[s], reactants.count(s))
        Vq = Fraction(V)
        scale = Vq if r == 0 else 1 / Vq ** (r - 1)
        return {"det": det, "stoch": st, "vol": det * scale, "svol": st * scale}
    k, K, n = (float(params[prop[q]]) for q in ("k", "K", "n"))
    d = float(x[prop["d"]]) if "d" in prop else 1.0

    def hill(s):
        u = math.pow(s / K, n)
        return k * d * u / (1 + u) if "positive" in t else k * d / (1 + u)
    a, av = hill(float(x[prop["s1"]])), hill(float(x[prop["s1"]]) / float(V))
    return {"det": a, "stoch": a, "vol": av, "svol": av}


def safe_ok(cf, rxn, x, mode, got):
    """Safe interface: the closed form (never negative), or 0 when some reactant is present in
    fewer copies than the reaction consumes (stochastic forms only)."""
    v = cf[mode]
    v = v if v >= 0 else 0
    if relerr(got, float(v)) <= 1e-12:
        return True
    if mode in ("stoch", "svol") and got == 0:
        need = {}
        for s in list(rxn["reactants"]) + list(rxn.get("dreactants", [])):
            need[s] = need.get(s, 0) + 1
        return any(x[s] < n for s, n in need.items())
    return False


# ----------------------------------------------------------------- generators
DYADIC = [Fraction(1, 4), Fraction(1, 2), Fraction(3, 4), Fraction(1), Fraction(3, 2), Fraction(2), Fraction(5, 2),
          Fraction(3), Fraction(7, 2), Fraction(5), Fraction(13, 2)]
VOLS = [Fraction(1, 4), Fraction(1, 2), Fraction(1), Fraction(2), Fraction(5, 2), Fraction(4), Fraction(9, 2)]
HILL_N = [1.0, 2.0, 3.0, 0.5, 1.5, 2.25, 0.3, 4.7]


def gen_state(rng, integer):
    if integer:
        return {s: Fraction(rng.randint(0, 6)) for s in SPECIES}
    return {s: rng.choice(DYADIC + [Fraction(0)]) for s in SPECIES}


def gen_points(rng, n):
    pts = []
    for i in range(n):
        integer = (i % 2 == 0)
        pts.append({"x": gen_state(rng, integer), "V": rng.choice(VOLS), "t": Fraction(rng.randint(0, 8), 4)})
    return pts


def massaction_rxn(reactants, rng, kname="k0"):
    prods = [rng.choice(SPECIES) for _ in range(rng.randint(0, 2))]
    return {"reactants": list(reactants), "products": prods, "prop": {"type": "massaction", "k": kname}}


def hill_rxn(rng, t, i):
    s1 = rng.choice(SPECIES)
    pr = {"type": t, "k": "k%d" % i, "K": "K%d" % i, "n": "n%d" % i, "s1": s1}
    if "proportional" in t:
        pr["d"] = rng.choice(SPECIES)
    reactants = [rng.choice(SPECIES) for _ in range(rng.randint(0, 2))]
    prods = [rng.choice(SPECIES) for _ in range(rng.randint(0, 2))]
    return {"reactants": reactants, "products": prods, "prop": pr}


def gen_models(ctx):
    """Yield specs.  Mass action: every ordered reactant list of length 0..4 over three
    species (exhaustive, 121 lists); Hill: 4 types x species choices; mixed multi-reaction
    models for the interfaces; species declared in every order."""
    rng = ctx.rng
    perms = list(itertools.permutations(SPECIES))
    lists = [tuple(c) for r in range(5) for c in itertools.product(SPECIES, repeat=r)]
    reps = 1 if ctx.quick() else 6
    for rep in range(reps):
        for i, rl in enumerate(lists):
            decl = list(perms[(i + rep) % 6])
            params = {"k0": rng.choice(DYADIC)}
            yield {"species": decl, "reactions": [massaction_rxn(rl, rng)], "params": params, "ic": {}}
    nh = 40 if ctx.quick() else 600
    for i in range(nh):
        t = HILL[i % 4]
        params = {"k0": rng.choice(DYADIC), "K0": rng.choice(DYADIC), "n0": rng.choice(HILL_N)}
        yield {"species": list(rng.choice(perms)), "reactions": [hill_rxn(rng, t, 0)], "params": params, "ic": {}}
    nm = 40 if ctx.quick() else 800
    for i in range(nm):
        rx, params = [], {}
        for j in range(rng.randint(2, 4)):
            if rng.chance(1, 2):
                rl = [rng.choice(SPECIES) for _ in range(rng.randint(0, 4))]
                kn = "k%d" % (j if rng.chance(1, 2) else 0)       # half of the mass-action reactions share the constant k0
                rx.append(massaction_rxn(rl, rng, kn))
                params.setdefault(kn, rng.choice(DYADIC))
            else:
                rx.append(hill_rxn(rng, rng.choice(HILL), j))
                params.update({"k%d" % j: rng.choice(DYADIC), "K%d" % j: rng.choice(DYADIC), "n%d" % j: rng.choice(HILL_N)})
        if rng.chance(1, 2):
            # some reactions carry a delayed part (its products appear later: they are no inputs of the reaction)
            for r_ in rx:
                if rng.chance(1, 2):
                    r_["dreactants"] = []
                    r_["dproducts"] = [rng.choice(SPECIES) for _ in range(rng.randint(1, 2))]
                    r_["delay"] = {"type": "fixed", "delay": "tau"}
            params["tau"] = 0.5
        yield {"species": list(rng.choice(perms)), "reactions": rx, "params": params, "ic": {}}


# ----------------------------------------------------------------- one model: implementation, model, oracle
def implementation_values(M, spec, points):
    """Observe the real code at its three observation points."""
    from bioscrape.simulator import ModelCSimInterface, SafeModelCSimInterface
    plain, safe = ModelCSimInterface(M), SafeModelCSimInterface(M)
    props = M.get_propensities()
    pv = M.get_parameter_values()
    out = []
    for pt in points:
        x = state_vector(M, pt["x"])
        V, t = float(pt["V"]), float(pt["t"])
        bare = {"det": [], "vol": [], "stoch": [], "svol": []}
        for q in props:
            bare["det"].append(q.py_get_propensity(x.copy(), pv, t))
            bare["vol"].append(q.py_get_volume_propensity(x.copy(), pv, V, t))
            bare["stoch"].append(q.py_verif_get_stochastic_propensity(x.copy(), pv, t))
            bare["svol"].append(q.py_verif_get_stochastic_volume_propensity(x.copy(), pv, V, t))
        o = {"bare": bare, "plain": {}, "safe": {}}
        for m in MODES:
            o["plain"][m] = [float(v) for v in plain.py_verif_compute_propensities(x.copy(), m, V, t)]
            o["safe"][m] = [float(v) for v in safe.py_verif_compute_propensities(x.copy(), m, V, t)]
        out.append(o)
    return out


def check_spec(ctx, spec, points, record=True):
    """Returns list of oracle failures; records correspondence breaks in ctx."""
    ctx.begin_case({"spec": spec, "points": [{"x": {k: str(v) for k, v in pt["x"].items()}, "V": str(pt["V"]), "t": str(pt["t"])} for pt in points]})
    M = build_model(spec)
    impl = implementation_values(M, spec, points)
    fjob = network_job(spec, M, points, "float")
    jobs = [fjob]
    all_ma = all(r["prop"]["type"] == "massaction" for r in spec["reactions"])
    if all_ma:
        jobs.append(network_job(spec, M, points, "rat"))
    ans = driver_batch(jobs)
    if "error" in ans[0]:
        ctx.broke("corr_C01_driver", {"spec": spec, "error": ans[0]["error"]})
        return
    fm = ans[0]["points"]
    rm = ans[1]["points"] if all_ma and "error" not in ans[1] else None
    params = spec["params"]
    for pi, pt in enumerate(points):
        for ri, rxn in enumerate(spec["reactions"]):
            cf = closed_form(rxn["prop"], rxn["reactants"], pt["x"], params, pt["V"])
            exact = rxn["prop"]["type"] == "massaction"
            for m in MODES:
                ctx.evaluated()
                want = cf[m]
                got_bare = impl[pi]["bare"][m][ri]
                got_plain = impl[pi]["plain"][m][ri]
                got_safe = impl[pi]["safe"][m][ri]
                # ---- oracle: property stated on the implementation
                tol = 1e-12
                for where, got, exp in (("bare", got_bare, want), ("plain", got_plain, want), ("safe", got_safe, want)):
                    bad = (not safe_ok(cf, rxn, pt["x"], m, got)) if where == "safe" else relerr(got, float(exp)) > tol
                    if bad:
                        sig = "%s/%s/%s" % (rxn["prop"]["type"], m, "mult" if len(set(rxn["reactants"])) < len(rxn["reactants"]) else "plain")
                        ctx.violation(sig, "%s rate of %s with reactants %s at %s: implementation (%s) %r, closed form %r" % (
                            m, rxn["prop"]["type"], rxn["reactants"], {k: str(v) for k, v in pt["x"].items()}, where, got, float(exp)),
                            {"spec": spec, "point": {"x": {k: str(v) for k, v in pt["x"].items()}, "V": str(pt["V"]), "t": str(pt["t"])},
                             "reaction": ri, "mode": m, "where": where, "implementation": got, "closed_form": float(exp)})
                # ---- correspondence: Float model = implementation, bit for bit
                mkey = {"det": "det", "vol": "vol", "stoch": "stoch", "svol": "svol"}[m]
                skey = {"det": "sdet", "vol": "svolume", "stoch": "sstoch", "svol": "ssvol"}[m]
                mv = b2f(fm[pi][mkey][ri])
                sv = b2f(fm[pi][skey][ri])
                # Hill and general rates go through Cython's complex `**` (std::pow on
                # std::complex = exp(n*log x)), which is not libm pow: a few ulps are allowed there
                ulp_tol = 0 if exact else 2
                if ulps(mv, got_bare) > ulp_tol or ulps(mv, got_plain) > ulp_tol:
                    ctx.broke("corr_C01_float_model_vs_implementation",
                              {"spec": spec, "point": str(pt), "reaction": ri, "mode": m, "model": mv, "bare": got_bare, "plain": got_plain})
                if ulps(sv, got_safe) > ulp_tol:
                    ctx.broke("corr_C01_float_model_vs_safe_interface",
                              {"spec": spec, "point": str(pt), "reaction": ri, "mode": m, "model": sv, "safe": got_safe})
                # ---- Rat model = closed form exactly (mass action)
                if rm is not None and exact:
                    rv = s2r(rm[pi][mkey][ri])
                    if rv != want:
                        ctx.broke("corr_C01_rat_model_vs_closed_form",
                                  {"spec": spec, "point": str(pt), "reaction": ri, "mode": m, "model": str(rv), "closed_form": str(want)})
                    if relerr(float(rv), got_bare) > 1e-12:
                        ctx.broke("corr_C01_rat_model_vs_implementation",
                                  {"spec": spec, "point": str(pt), "reaction": ri, "mode": m, "model": str(rv), "bare": got_bare})
                # ---- coverage classes
                if record:
                    mult = max([rxn["reactants"].count(s) for s in rxn["reactants"]] or [0])
                    below = any(pt["x"][s] < rxn["reactants"].count(s) for s in rxn["reactants"])
                    cls = (rxn["prop"]["type"], len(rxn["reactants"]), mult, m, "below" if below else "enough",
                           "zero" if float(want) == 0 else "pos")
                    ctx.count("%s/%s" % (rxn["prop"]["type"], m))
                    if float(want) != 0 or below:
                        ctx.nontriv(cls)
    ctx.sample({"spec": spec, "point": {k: str(v) for k, v in points[0]["x"].items()}})


def lineage_interface_rates(ctx):
    """the lineage simulators read the stochastic + volume rate through their own plain and safe interface (no probe there):
    the chance that a reaction with repeated reactants has fired by time T in a single-cell run is 1 - exp(-rate T) with
    rate = k s(s-1).../V^(r-1) while nothing else can happen (binomial sampling error, 6.5 standard deviations)."""
    import math
    import numpy as np
    from bioscrape.lineage import LineageModel, LineageVolumeCellState, LineageCSimInterface, SafeLineageCSimInterface, LineageSSASimulator
    from bioscrape.random import py_seed_random
    n = 1200 if ctx.quick() else 20000
    for name, reac, x0, V, k, T_end in (("A + A --> B", ["A", "A"], {"A": 2, "B": 0, "C": 0}, 1.0, 1.0, 0.35),
                                       ("A + A + C --> B", ["A", "A", "C"], {"A": 2, "B": 0, "C": 3}, 2.0, 1.0, 0.45),
                                       ("A + A + A --> B", ["A", "A", "A"], {"A": 4, "B": 0, "C": 0}, 1.5, 0.05, 0.5)):
        M = LineageModel(species=["A", "B", "C"], parameters={"k": k}, reactions=[(reac, ["B"], "massaction", {"k": "k"})], initial_condition_dict=x0)
        M.py_initialize()
        rate = k
        for s_ in sorted(set(reac)):
            for j in range(reac.count(s_)):
                rate *= max(x0[s_] - j, 0)
        rate /= V ** (len(reac) - 1)
        p = 1 - math.exp(-rate * T_end)
        for safe in (False, True):
            case = {"scenario": "lineage interface rate", "reaction": name, "state": x0, "V": V, "k": k, "T": T_end, "safe": safe, "runs": n}
            ctx.begin_case(case)
            I = (SafeLineageCSimInterface if safe else LineageCSimInterface)(M)
            sim = LineageSSASimulator()
            fired = 0
            for i in range(n):
                py_seed_random(424242 + 7 * i + ctx.seed)
                v = LineageVolumeCellState(v0=V, t0=0.0, state=np.array([float(x0[q]) for q in M.get_species_list()]))
                r = sim.py_SimulateSingleCell(np.array([0.0, T_end]), Model=M, interface=I, v=v)
                rows = np.array(r.py_get_result())
                fired += int(rows[-1][M.get_species_list().index("B")] > 0)
            ctx.evaluated(n)
            sd = math.sqrt(p * (1 - p) / n)
            if abs(fired / n - p) > 6.5 * sd:
                ctx.violation("lineage-interface/rate/" + ("safe" if safe else "plain"), "%s at %s, V=%g through the %s lineage interface: fired by T=%g in %.3f of %d runs, "
                              "the documented rate %g gives %.3f +- %.3f" % (name, x0, V, "safe" if safe else "plain", T_end, fired / n, n, rate, p, 6.5 * sd),
                              dict(case, observed=fired / n, expected=p))
                return
            ctx.count("lineage_interface_rate_cases")


def autocatalytic_family(ctx):
    """reactions that hand back more copies of a reactant than they take (A -> 3A, A + B -> 3A, A + A -> 4A + B, a delayed
    part that returns two copies): the rate depends on the reactants alone, at the lowest counts too, through the bare
    object and both interfaces in all four forms."""
    sp = list(SPECIES)[:3]
    a, b, c = sp
    fam = [([a], [a, a, a], None), ([a, b], [a, a, a], None), ([a, a], [a, a, a, a, b], None), ([a], [], [a, a]), ([a, b], [b], [a, a, a]),
           ([b, a, b], [b, b, b, b, b, a, a], None), ([c], [c, c, a], [c, c, c])]
    pts = []
    for xa, xb, xc in itertools.product((0, 1, 2, 3), (1, 2, 20), (1, 2)):
        pts.append({"x": {a: Fraction(xa), b: Fraction(xb), c: Fraction(xc)}, "V": Fraction(3) if (xa + xb) % 2 else Fraction(1, 2), "t": Fraction(0)})
    for reac, prods, dprods in fam:
        rx = {"reactants": list(reac), "products": list(prods), "prop": {"type": "massaction", "k": "k0"}}
        params = {"k0": Fraction(5, 2)}
        if dprods is not None:
            rx.update({"dreactants": [], "dproducts": list(dprods), "delay": {"type": "fixed", "delay": "tau"}})
            params["tau"] = 1.0
        before = len(ctx.violations)
        check_spec(ctx, {"species": sp, "reactions": [rx], "params": params, "ic": {}}, pts)
        if len(ctx.violations) > before:
            return
        ctx.count("autocatalytic_family")


def interface_parameter_vector(ctx):
    """an interface handed another parameter vector (py_set_param_values with an array of its own, as a parameter sweep over
    one interface does): the rates it computes are the closed forms at the values it reports, in all four forms, for the
    plain and the safe interface."""
    from bioscrape.simulator import ModelCSimInterface, SafeModelCSimInterface
    spec = {"species": list(SPECIES), "reactions": [
        {"reactants": ["A", "A", "B"], "products": ["C"], "prop": {"type": "massaction", "k": "k0"}},
        {"reactants": [], "products": ["C"], "prop": {"type": "hillpositive", "k": "k1", "K": "K1", "n": "n1", "s1": "B"}},
        {"reactants": [], "products": ["A"], "prop": {"type": "massaction", "k": "k2"}}],
        "params": {"k0": Fraction(1, 2), "k1": Fraction(3), "K1": Fraction(2), "n1": 2.0, "k2": Fraction(1)}, "ic": {}}
    pt = {"x": {"A": Fraction(3), "B": Fraction(2), "C": Fraction(1)}, "V": Fraction(2), "t": Fraction(0)}
    for cls in (ModelCSimInterface, SafeModelCSimInterface):
        M = build_model(spec)
        I = cls(M)
        pl = M.get_param_list()
        x = state_vector(M, pt["x"])
        for step, factor in enumerate((1.0, 2.0, 0.5, 4.0)):
            case = {"scenario": "interface given a parameter vector of its own", "interface": cls.__name__, "factor": factor, "step": step}
            ctx.begin_case(case)
            newp = np.array([float(spec["params"][q]) * (factor if q != "n1" else 1.0) if q in spec["params"] else float(v) for q, v in zip(pl, M.get_parameter_values())])
            if step:
                I.py_set_param_values(newp)
            held = dict(zip(pl, [float(v) for v in I.py_get_param_values()]))
            ctx.evaluated()
            for m in MODES:
                got = [float(v) for v in I.py_verif_compute_propensities(x.copy(), m, float(pt["V"]), 0.0)]
                for ri, rxn in enumerate(spec["reactions"]):
                    want = float(closed_form(rxn["prop"], rxn["reactants"], pt["x"], held, pt["V"])[m])
                    if relerr(got[ri], want) > 1e-9:
                        ctx.violation("interface-parameters/" + m, "%s after py_set_param_values(%s): %s rate of reaction %d is %r, the closed form at the values the interface reports %r"
                                      % (cls.__name__, newp.tolist(), m, ri, got[ri], want), dict(case, held=held))
                        return
            ctx.count("interface_parameter_vectors")


def run(ctx):
    lineage_interface_rates(ctx)
    npts = 4 if ctx.quick() else 12
    for spec in gen_models(ctx):
        pts = gen_points(ctx.rng, npts)
        check_spec(ctx, spec, pts)
    autocatalytic_family(ctx)
    interface_parameter_vector(ctx)


def replay(ctx, obj):
    rep = obj.get("replay") or obj["broken"][0]["detail"]
    if rep.get("scenario") == "lineage interface rate":
        lineage_interface_rates(ctx)
        return
    spec = rep["spec"]
    pt = rep.get("point")
    if isinstance(pt, dict):
        pts = [{"x": {k: Fraction(v) for k, v in pt["x"].items()}, "V": Fraction(pt["V"]), "t": Fraction(pt["t"])}]
    else:
        pts = gen_points(ctx.rng, 8)
    check_spec(ctx, spec, pts)


def describe(ctx):
    rule = ("mass action: every ordered reactant list of length 0..4 over 3 species (121 lists, exhaustive) x species "
            "declaration orders x integer states 0..6 (incl. below multiplicity) and dyadic real states x dyadic k x V; "
            "Hill x4 types x integer/fractional exponents; mixed 2-4 reaction models; each evaluated in 4 modes at the bare "
            "object, the plain and the safe interface; the lineage module's plain and safe interface statistically (firing "
            "probability of reactions with repeated reactants in single-cell runs). A case is non-trivial when its closed form is non-zero or the "
            "state is below the multiplicity; distinct = (type, order, max multiplicity, mode, below/enough, zero/pos).")
    return rule, {"modes": MODES, "observation_points": ["Propensity object", "ModelCSimInterface", "SafeModelCSimInterface"]}, False, [
        "pow() accuracy and overflow of products are outside the proof (Float/R gap)"]
