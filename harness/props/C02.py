"""C02 - rate and rule expressions evaluate to their mathematical meaning."""
import math
import warnings

import numpy as np

from common import driver_batch, f2b, b2f, relerr
from modelspec import dump_term

SPECIES = ["A", "B_1", "x2y"]
PARAMS = ["k_cat", "C", "O", "Q", "N", "I", "E", "S", "p"]
VALS = [0.25, 0.5, 1.0, 1.5, 2.0, 3.0, 4.5, 7.0]


class Node:
    def __init__(self, kind, *args):
        self.kind, self.args = kind, args

    def src(self):
        k, a = self.kind, self.args
        if k == "num":
            return repr(a[0]) if a[0] != int(a[0]) else str(int(a[0]))
        if k == "id":
            return a[0]
        if k in "+-*/":
            return "(%s %s %s)" % (a[0].src(), k, a[1].src())
        if k == "^":
            return "(%s)^(%s)" % (a[0].src(), a[1].src())
        if k == "neg":
            return "(-%s)" % a[0].src()
        if k in ("max", "min"):
            return "%s(%s)" % (k, ", ".join(x.src() for x in a))
        return "%s(%s)" % (k, a[0].src())

    def val(self, env):
        """meaning of the written formula (floats); None outside the finite domain / too close to a kink."""
        k, a = self.kind, self.args
        try:
            if k == "num":
                return float(a[0])
            if k == "id":
                return env[a[0]]
            vs = [x.val(env) for x in a]
            if any(v is None for v in vs):
                return None
            if k == "+":
                return vs[0] + vs[1]
            if k == "-":
                return vs[0] - vs[1]
            if k == "*":
                return vs[0] * vs[1]
            if k == "/":
                return None if abs(vs[1]) < 1e-3 else vs[0] / vs[1]
            if k == "^":
                if vs[0] <= 1e-3 and vs[1] != int(vs[1]):
                    return None
                if vs[0] == 0 and vs[1] <= 0:
                    return None
                if abs(vs[1]) > 6 or abs(vs[0]) > 1e3:
                    return None
                return math.pow(vs[0], vs[1])
            if k == "neg":
                return -vs[0]
            if k == "exp":
                return None if abs(vs[0]) > 30 else math.exp(vs[0])
            if k == "log":
                return None if vs[0] <= 1e-3 else math.log(vs[0])
            if k == "abs":
                return abs(vs[0])
            if k == "Heaviside":
                return None if abs(vs[0]) < 0.125 else (1.0 if vs[0] > 0 else 0.0)
            if k == "max":
                return max(vs)
            if k == "min":
                return min(vs)
        except (OverflowError, ValueError, ZeroDivisionError):
            return None
        return None

    def ops(self, acc):
        acc[self.kind] = acc.get(self.kind, 0) + 1
        for x in self.args:
            if isinstance(x, Node):
                x.ops(acc)
        return acc


def gen_tree(rng, depth, names):
    if depth == 0 or rng.chance(1, 5):
        if rng.chance(2, 5):
            return Node("num", rng.choice([0.5, 1, 2, 3, 10, 0.125, 2.5]))
        return Node("id", rng.choice(names))
    k = rng.choice(["+", "+", "-", "*", "*", "/", "^", "neg", "exp", "log", "abs", "Heaviside", "max", "min"])
    if k in "+-*/":
        return Node(k, gen_tree(rng, depth - 1, names), gen_tree(rng, depth - 1, names))
    if k == "^":
        e = Node("num", rng.choice([2, 3, 0.5, 1.5, -1, -2])) if rng.chance(2, 3) else gen_tree(rng, min(depth - 1, 1), names)
        return Node("^", gen_tree(rng, depth - 1, names), e)
    if k in ("max", "min"):
        return Node(k, *[gen_tree(rng, depth - 1, names) for _ in range(rng.randint(2, 3))])
    if k == "exp" and rng.chance(1, 3):
        # constant sub-expressions the symbolic front end folds to named constants (Euler's number): still numbers, whatever
        # parameters happen to be called
        return Node("exp", rng.choice([Node("num", 1), Node("-", Node("num", 2), Node("num", 1)), Node("abs", Node("neg", Node("num", 1)))]))
    return Node(k, gen_tree(rng, depth - 1, names))


def make_env(rng):
    env = {s: rng.choice(VALS) for s in SPECIES + PARAMS}
    env["t"] = rng.choice([0.0, 0.5, 2.0, 3.25])
    env["volume"] = rng.choice([0.5, 1.0, 2.0, 3.5])
    return env


def build_and_eval(src, envs, reverse=False):
    """the implementation: a model with the formula as a general propensity, an assignment rule right-hand
    side and a parsed growth law; returns per env (propensity, volume propensity, parsed term evaluate).
    reverse: the same species and parameters declared in the opposite order."""
    from bioscrape.types import Model
    pars = {p: 1.0 for p in (list(reversed(PARAMS)) if reverse else PARAMS)}
    pars.update({"pz_rule": 1.0, "pw_rule": 1.0})
    M = Model(species=(list(reversed(SPECIES)) if reverse else list(SPECIES)) + ["Z", "W"], parameters=pars,
              reactions=[([], ["A"], "general", {"rate": src})],
              rules=[("assignment", {"equation": "Z = " + src}), ("assignment", {"equation": "pz_rule = " + src}),
                     ("ode", {"equation": src, "target": "W"}), ("ode", {"equation": src, "target": "pw_rule"})],
              initial_condition_dict={s: 1.0 for s in SPECIES})
    prop = M.get_propensities()[0]
    term = M.parse_general_expression(src)
    rules = M.__getstate__()[6]
    sl, pl = M.get_species_list(), M.get_param_list()
    out = []
    DT = 0.5
    for env in envs:
        x = np.array([env.get(s, 0.0) for s in sl], dtype=float)
        p = np.array([env.get(q, 1.0) for q in pl], dtype=float)
        a = prop.py_get_propensity(x.copy(), p, env["t"])
        av = prop.py_get_volume_propensity(x.copy(), p, env["volume"], env["t"])
        g = term.py_evaluate(x.copy(), p, env["t"])
        xr = x.copy()
        rules[0].py_execute_rule(xr, p.copy(), env["t"], 0.01, True)
        # the four rule forms (assignment / ode, species / parameter target) on the plain and on the volume path
        extra = {}
        for path in ("plain", "volume"):
            for ri, (kind, target, is_param) in enumerate((("assignment", "Z", False), ("assignment", "pz_rule", True), ("ode", "W", False), ("ode", "pw_rule", True))):
                x2, p2 = x.copy(), p.copy()
                if path == "plain":
                    rules[ri].py_execute_rule(x2, p2, env["t"], DT, True)
                else:
                    rules[ri].py_execute_volume_rule(x2, p2, env["volume"], env["t"], DT, True)
                new = p2[pl.index(target)] if is_param else x2[sl.index(target)]
                old = p[pl.index(target)] if is_param else x[sl.index(target)]
                extra[(path, kind, "parameter" if is_param else "species")] = float(new) if kind == "assignment" else float((new - old) / DT)
        out.append((float(a), float(av), float(g), float(xr[sl.index("Z")]), x, p, extra))
    return M, prop, out


def one_expr(ctx, rng, depth, tree=None):
    names = SPECIES + PARAMS + ["t", "volume"]
    tree = tree if tree is not None else gen_tree(rng, depth, names)
    src = tree.src()
    envs = [make_env(rng) for _ in range(4)]
    wants = []
    for env in envs:
        v1 = tree.val(dict(env, volume=1.0))       # 'volume' reads 1 where no volume is in play
        vv = tree.val(env)
        wants.append((v1, vv))
    if any(w[0] is None or w[1] is None or not math.isfinite(w[0]) or not math.isfinite(w[1]) for w in wants):
        ctx.count("discarded_outside_domain")
        return
    ctx.begin_case({"src": src})
    try:
        M, prop, got = build_and_eval(src, envs)
        # the same text parsed again in a model that declares the same names in the opposite order: identifiers are
        # resolved in the model at hand (the first environment is enough)
        M_r, prop_r, got_r = build_and_eval(src, envs[:1], reverse=True)
    except Exception as e:
        # rejecting a formula at build time is allowed by the property (it is never given another value);
        # e.g. sympy rewrites abs(exp(p)) to exp(re(p)), which bioscrape cannot represent
        ctx.count("rejected_at_build_time:" + type(e).__name__)
        return
    ops = tree.ops({})
    a_r, av_r = got_r[0][0], got_r[0][1]
    if (relerr(a_r, wants[0][0]) > 1e-9 and abs(a_r - wants[0][0]) > 1e-9) or (relerr(av_r, wants[0][1]) > 1e-9 and abs(av_r - wants[0][1]) > 1e-9):
        ctx.violation("value/declaration-order", "'%s' in a model that declares the same species and parameters in the opposite order evaluates to %r (volume form %r), "
                      "the written formula means %r (%r)" % (src, a_r, av_r, wants[0][0], wants[0][1]), {"src": src, "env": envs[0], "reversed_declaration": True})
        return
    const = all(abs(w[1] - wants[0][1]) < 1e-15 for w in wants)
    jobs = []
    sl, pl = M.get_species_list(), M.get_param_list()
    for env, (v1, vv), (a, av, g, z, x, p, extra) in zip(envs, wants, got):
        ctx.evaluated()
        checks = [("propensity", a, v1), ("volume propensity", av, vv), ("parsed expression", g, v1), ("assignment rule", z, v1)]
        for (path, kind, tgt), val in extra.items():
            # an ode rule is read back as (new - old)/dt: allow for the rounding of that difference
            checks.append(("%s rule with a %s target on the %s path" % (kind, tgt, path), val, v1 if path == "plain" else vv))
        for what, gotv, want in checks:
            slack = 1e-9 if "ode rule" not in what else 1e-9 * max(1.0, abs(want)) + 1e-12
            if relerr(gotv, want) > 1e-9 and abs(gotv - want) > slack:
                ctx.violation("value/" + "+".join(sorted(ops))[:60], "%s of '%s' evaluates to %r, the written formula means %r" % (what, src, gotv, want),
                              {"src": src, "env": env, "what": what, "implementation": gotv, "meaning": want})
                return
        # (a) node semantics: the real tree, dumped, through the Lean Term.eval
        tj = dump_term(prop.py_get_term())
        jobs.append(({"op": "term", "num": "float", "term": tj, "x": [f2b(v) for v in x], "p": [f2b(v) for v in p],
                      "V": f2b(env["volume"]), "t": f2b(env["t"])}, ("term", a, av)))
        # (b) parse meaning: the source string through the Lean parser, translation and evaluation
        jobs.append(({"op": "formula", "num": "float", "src": src, "species": sl, "params": pl, "x": [f2b(v) for v in x],
                      "p": [f2b(v) for v in p], "V": f2b(env["volume"]), "t": f2b(env["t"])}, ("formula", a, av)))
    ans = driver_batch([j for j, _ in jobs])
    for (job, (kind, a, av)), r in zip(jobs, ans):
        if "error" in r or r.get("parse") == "error" or r.get("translate") == "error":
            ctx.broke("corr_C02_%s_rejected_by_model" % kind, {"src": src, "answer": r})
            return
        e, ve = b2f(r["eval"]), b2f(r["voleval"])
        tol = 1e-12 if kind == "term" else 1e-9
        if (relerr(e, a) > tol and abs(e - a) > tol) or (relerr(ve, av) > tol and abs(ve - av) > tol):
            ctx.broke("corr_C02_%s_value" % kind, {"src": src, "model": [e, ve], "implementation": [a, av]})
            return
        if kind == "formula" and r.get("meaning") is not None and relerr(b2f(r["meaning"]), ve) > 1e-9 and abs(b2f(r["meaning"]) - ve) > 1e-9:
            ctx.broke("corr_C02_translate_vs_meaning", {"src": src, "meaning": b2f(r["meaning"]), "tree": ve})
            return
    for k in ops:
        ctx.count("op:" + k)
    ctx.count("constant_expression" if const else "varying_expression")
    if not const:
        ctx.nontriv(src)
    ctx.sample({"src": src, "value": wants[0][1]}, cap=5)


def operator_positions(ctx, rng):
    """every operator with `volume` and `t` in each of its argument positions in turn (the other arguments plain
    identifiers or numbers): the volume and the time reach every operand of every node - systematically, not by the luck of
    the random trees."""
    vt = lambda: Node("+", Node("*", Node("id", "volume"), Node("id", "A")), Node("id", "t"))      # volume*A + t  (> 0)
    plain = [lambda: Node("id", "B_1"), lambda: Node("num", 2), lambda: Node("id", "k_cat")]
    for kind, arity in (("+", 2), ("-", 2), ("*", 2), ("/", 2), ("^", 2), ("neg", 1), ("exp", 1), ("log", 1), ("abs", 1),
                        ("Heaviside", 1), ("max", 2), ("max", 3), ("min", 2), ("min", 3)):
        for pos in range(arity):
            args = [vt() if i == pos else plain[i % len(plain)]() for i in range(arity)]
            if kind == "^" and pos == 1:
                args = [Node("num", 2), Node("/", vt(), Node("num", 4))]        # a bounded exponent
            if kind == "exp":
                args = [Node("/", vt(), Node("num", 4))]
            if kind == "Heaviside":
                # the sign of the argument depends on the volume: A*(volume - 1.25), at least 1/8 away from the kink
                args = [Node("*", Node("id", "A"), Node("-", Node("id", "volume"), Node("num", 1.25)))]
            if kind == "min":       # the other operands large / small enough for the one under test to decide the value
                args = [vt() if i == pos else Node("num", 1000) for i in range(arity)]
            if kind == "max":
                args = [vt() if i == pos else Node("neg", Node("num", 1000)) for i in range(arity)]
            tree = Node(kind, *args)
            # once on its own and once under a min / a product, so that nested nodes pass the volume on as well
            for wrap in (lambda x: x, lambda x: Node("min", Node("num", 1000), x), lambda x: Node("*", x, Node("id", "volume"))):
                one_expr(ctx, rng, 0, tree=wrap(tree))
                ctx.count("operator_position_cases")


def minmax_orderings(ctx, rng):
    """min / max whose operands all depend on the volume, each operand being the deciding one in turn (the symbolic front end
    may list the operands in any order, so every stored position gets to decide)."""
    va = lambda c: Node("+", Node("*", Node("id", "volume"), Node("id", "A")), Node("num", c))
    vb = lambda c: Node("+", Node("*", Node("id", "volume"), Node("id", "B_1")), Node("num", c))
    vc = lambda c: Node("+", Node("*", Node("id", "volume"), Node("id", "k_cat")), Node("num", c))
    for kind, far in (("min", 500), ("max", -500)):
        for deciding in range(3):
            ops2 = [va(0 if deciding == 0 else far), vb(0 if deciding == 1 else far)]
            ops3 = ops2 + [vc(0 if deciding == 2 else far)]
            for tree in ([Node(kind, *ops2)] if deciding < 2 else []) + [Node(kind, *ops3)]:
                one_expr(ctx, rng, 0, tree=tree)
                one_expr(ctx, rng, 0, tree=Node("*", tree, Node("id", "t")))
                ctx.count("minmax_ordering_cases", 2)


def one_shot_rules(ctx, rng):
    """rules that fire once (at the start, or at a given time) executed where a volume is in play: `volume` in their formula is
    the volume at hand, as it is for repeated rules."""
    from bioscrape.types import Model
    for freq, t_fire in (("start", 0.0), (2.0, 2.0), ("repeated", 0.5), ("dt", 0.5)):
        for target, eq in (("Z", "Z = k_cat*volume + A"), ("pz_rule", "pz_rule = A*volume^2")):
            pars = {p_: 1.0 for p_ in PARAMS}
            pars.update({"pz_rule": 1.0})
            M = Model(species=list(SPECIES) + ["Z"], parameters=pars, reactions=[([], ["A"], "massaction", {"k": "k_cat"})],
                      rules=[("assignment", {"equation": eq}, freq)], initial_condition_dict={s_: 1.0 for s_ in SPECIES})
            rule = M.__getstate__()[6][0]
            sl, pl = M.get_species_list(), M.get_param_list()
            for vol in (0.5, 2.5):
                env = make_env(rng)
                x = np.array([env.get(s_, 0.0) for s_ in sl], dtype=float)
                p_ = np.array([env.get(q, 1.0) for q in pl], dtype=float)
                case = {"rule": eq, "frequency": freq, "time": t_fire, "volume": vol, "env": env}
                ctx.begin_case(case)
                x2, p2 = x.copy(), p_.copy()
                rule.py_execute_volume_rule(x2, p2, vol, t_fire, 0.5, True)
                ctx.evaluated()
                want = env["k_cat"] * vol + env["A"] if target == "Z" else env["A"] * vol ** 2
                got = x2[sl.index("Z")] if target == "Z" else p2[pl.index("pz_rule")]
                if relerr(got, want) > 1e-12 and abs(got - want) > 1e-12:
                    ctx.violation("value/one-shot-rule", "rule '%s' of frequency %r executed at t=%g with volume %g gives %r, the written formula means %r"
                                  % (eq, freq, t_fire, vol, float(got), want), case)
                    return
                ctx.count("one_shot_rule_cases")


def malformed(ctx, rng):
    """unknown names and broken syntax are rejected when the model is built - by both."""
    from bioscrape.types import Model
    cases = ["k_cat*W", "A + undefined_name", "k_cat*(A +", "A ** ", "foo(A)", "k_cat*A)", "unknownfunc(A, 2)", "A +* 2", "zz9 + 1"]
    jobs = []
    for src in cases:
        ctx.begin_case({"src": src, "malformed": True})
        ctx.evaluated()
        try:
            Model(species=list(SPECIES), parameters={p: 1.0 for p in PARAMS}, reactions=[([], ["A"], "general", {"rate": src})],
                  initial_condition_dict={s: 1.0 for s in SPECIES})
            ctx.violation("accepted-invalid", "the formula '%s' (unknown name or broken syntax) is accepted when the model is built" % src, {"src": src})
        except Exception:
            pass
        jobs.append({"op": "formula", "num": "float", "src": src, "species": SPECIES, "params": PARAMS, "x": [f2b(1.0)] * 3,
                     "p": [f2b(1.0)] * len(PARAMS), "V": f2b(1.0), "t": f2b(0.0)})
        ctx.count("malformed")
    # a constant sub-expression that is not a real number is no representable formula either, whatever parameters exist
    for src in ("k_cat*A*(-1)^0.5", "A + (0 - 4)^0.5*I"):
        ctx.begin_case({"src": src, "malformed": True})
        ctx.evaluated()
        try:
            M_ = Model(species=list(SPECIES), parameters={p: 1.0 for p in PARAMS}, reactions=[([], ["A"], "general", {"rate": src})],
                       initial_condition_dict={s: 1.0 for s in SPECIES})
            v_ = float(M_.get_propensities()[0].py_get_propensity(np.array([1.0] * len(M_.get_species_list())), M_.get_parameter_values()))
            if math.isfinite(v_):
                ctx.violation("accepted-invalid/non-real", "the formula '%s' (the square root of a negative constant) is accepted and evaluates to %r" % (src, v_), {"src": src})
        except Exception:
            pass
        ctx.count("malformed")
    for src, r in zip(cases, driver_batch(jobs)):
        if not ("error" in r or r.get("parse") == "error" or r.get("translate") == "error"):
            ctx.broke("corr_C02_model_accepts_malformed", {"src": src, "answer": r})


def underscore_alias(ctx):
    """a leading underscore: `_q` in a formula is resolved to the parameter `q`."""
    from bioscrape.types import Model
    for params, expect in (({"_q": 2.0}, "rejected"), ({"q": 5.0}, "rejected"), ({"_q": 2.0, "q": 5.0}, 2.0)):
        ctx.evaluated()
        ctx.begin_case({"src": "_q*A", "params": params})
        try:
            M = Model(species=["A"], parameters=params, reactions=[([], ["A"], "general", {"rate": "_q*A"})], initial_condition_dict={"A": 2})
            v = float(M.get_propensities()[0].py_get_propensity(np.array([2.0]), M.get_parameter_values()))
        except ValueError:
            v = "rejected"
        if expect == "rejected":
            if v != "rejected" and v != 2.0 * params.get("_q", float("nan")):
                ctx.violation("underscore-alias/silent", "'_q*A' with parameters %s evaluates to %r" % (params, v), {"params": params, "value": v})
        elif v != "rejected" and v != expect * 2.0:
            ctx.violation("underscore-alias", "with parameters _q=2 and q=5 both defined, '_q*A' at A=2 evaluates to %r: the formula's `_q` reads the parameter `q`" % v,
                          {"src": "_q*A", "params": params, "value": v, "meaning": expect * 2.0})


def underscore_species(ctx):
    """a species declared under a name with a leading underscore next to a parameter or another species with the same name
    without it: the formula's `_x` reads the species `_x` in every place a formula is written."""
    from bioscrape.types import Model
    for other in ("parameter", "species"):
        species = ["_x", "Z"] + (["x"] if other == "species" else [])
        params = {"k": 1.0}
        if other == "parameter":
            params["x"] = 100.0
        ic = {"_x": 7.0, "Z": 0.0}
        if other == "species":
            ic["x"] = 100.0
        case = {"src": "2*_x + 1", "declared_next_to": other + " x = 100"}
        ctx.begin_case(case)
        try:
            M = Model(species=species, parameters=params, reactions=[([], ["Z"], "general", {"rate": "2*_x + 1"})],
                      rules=[("assignment", {"equation": "Z = 2*_x + 1"})], initial_condition_dict=ic)
            sl, pl = M.get_species_list(), M.get_param_list()
            x = np.array([ic[s_] for s_ in sl]); p = np.array(M.get_parameter_values(), dtype=float)
            prop = M.get_propensities()[0]
            got = {"propensity": float(prop.py_get_propensity(x.copy(), p, 0.0)), "volume propensity": float(prop.py_get_volume_propensity(x.copy(), p, 3.0, 0.0)),
                   "growth law": float(M.parse_general_expression("2*_x + 1").py_evaluate(x.copy(), p, 0.0))}
            x2 = x.copy()
            M.__getstate__()[6][0].py_execute_rule(x2, p.copy(), 0.0, 0.01, True)
            got["assignment rule"] = float(x2[sl.index("Z")])
        except ValueError as e:
            got = {"model": "rejected: %s" % e}
        ctx.evaluated()
        bad = {k: v for k, v in got.items() if v != 15.0}
        if bad:
            ctx.violation("underscore-species", "species _x = 7 declared next to the %s x = 100: '2*_x + 1' gives %s (its meaning: 15)" % (other, bad), dict(case, got=got))
            return
        ctx.count("underscore_species_cases")


def lineage_event_rates(ctx):
    """the rate of a lineage event written as a formula in `volume`: a volume event `volume + 1` at the rate
    40 (volume - 1) max(0, 4 - volume), a cell that starts at volume 2.  The rate is 80 at volumes 2 and 3 and 0 at 4, so within
    two time units the volume is 4 and stays there - through the plain and through the safe lineage interface (the same
    formula read with `volume` = 1 gives the rate 0: nothing would ever happen)."""
    from bioscrape.random import py_seed_random
    from bioscrape.lineage import LineageModel, LineageSSASimulator, LineageVolumeCellState
    for seed in (11, 12):
        for safe in (False, True):
            case = {"scenario": "lineage event rate in volume", "safe": safe, "seed": seed}
            ctx.begin_case(case)
            py_seed_random(seed)
            m = LineageModel(species=["A"], reactions=[([], ["A"], "massaction", {"k": 1.0})], initial_condition_dict={"A": 0})
            m.create_volume_event("general", {"equation": "volume + 1"}, "general", {"rate": "40*(volume - 1)*max(0, 4 - volume)"})
            m.py_initialize()
            v = LineageVolumeCellState(v0=2.0, t0=0, state=m.get_species_array())
            res = LineageSSASimulator().py_SimulateSingleCell(np.linspace(0, 2.0, 201), Model=m, v=v, safe=safe)
            vol = float(np.asarray(res.py_get_volume())[-1])
            ctx.evaluated()
            if abs(vol - 4.0) > 1e-9:
                ctx.violation("lineage-event-rate/volume", "volume event at the rate 40 (volume - 1) max(0, 4 - volume) from volume 2 (safe=%s): the volume ends at %g, not 4" % (safe, vol), case)
                return
            ctx.count("lineage_event_rate_runs")


def growth_law_traces(ctx, rng):
    """a growth law that mentions t, used by the simulators that carry a volume: at every volume tick the law is evaluated at
    the time the tick ends, so V(t_n) = V(t_{n-1}) * exp(g(t_n) * dt).  Nothing random happens (the only reaction has rate
    0); Heaviside arguments stay away from 0 (integer grid, switch at a half-integer)."""
    import math
    import simcorr
    from modelspec import build_model
    from bioscrape.types import StateDependentVolume
    laws = [("k*Heaviside(t - T_on) + r*t", lambda t, p: p["k"] * (1.0 if t > p["T_on"] else 0.0) + p["r"] * t),
            ("r*t^2/(1 + t)", lambda t, p: p["r"] * t ** 2 / (1 + t)),
            ("k*exp(-t/5) + 0.01*X", lambda t, p: p["k"] * math.exp(-t / 5) + 0.01 * 3),
            ("k/4", lambda t, p: p["k"] / 4)]
    T = np.arange(0, 13, 1.0)
    for law, g in laws:
        pv = {"k": rng.choice([0.2, 0.3]), "r": rng.choice([0.002, 0.004]), "T_on": 4.5, "zero": 0.0, "tau": 1.5}
        spec = {"species": ["X", "Y"], "reactions": [{"reactants": ["X"], "products": [], "dreactants": [], "dproducts": ["Y"],
                                                      "prop": {"type": "massaction", "k": "zero"}, "delay": {"type": "fixed", "delay": "tau"}}],
                "params": pv, "ic": {"X": 3, "Y": 0}}
        for kind in ("volume", "delayvolume"):
            case = {"growth_law": law, "params": pv, "simulator": kind}
            ctx.begin_case(case)
            M = build_model(spec)
            def factory(M_):
                v = StateDependentVolume()
                v.setup(1e9, 0.0, law, M_)
                v.py_initialize(np.array(M_.get_species_array(), dtype=float), M_.get_parameter_values(), 0.0, 1.0)
                return v
            r = simcorr.run_real(M, kind, T, 11, 1.0, vol0=1.0, volume_factory=factory)
            ctx.evaluated()
            vol = np.array(r["volume"], dtype=float)
            # the tick that ends at t_j multiplies the volume by exp(g(t_j) dt); a row may be written before or after the tick
            # that ends at its own time (the reported volume is within one step of the law either way), so two alignments
            # of the same product are accepted: prod_{j=1..n-1} and prod_{j=1..n}
            fac = [math.exp(g(float(t), pv) * 1.0) for t in T]
            lag1, lag0 = [1.0], [1.0]
            for n_ in range(1, len(T)):
                lag1.append(lag1[-1] * (fac[n_ - 1] if n_ >= 2 else 1.0))
                lag0.append(lag0[-1] * fac[n_])
            ok = False
            for want in (lag1, lag0):
                if len(vol) == len(want) and all(abs(vol[i] - want[i]) <= 1e-9 * want[i] for i in range(len(want))):
                    ok = True
            if not ok:
                want = lag1
                n = min(len(vol), len(want))
                bad = [i for i in range(n) if abs(vol[i] - want[i]) > 1e-9 * want[i]]
                i = bad[0] if bad else n - 1
                ctx.violation("growth-law/trace/" + kind, "growth law %s in the %s simulator: volume %r at t=%g; with every tick reading t as the time "
                              "it ends, the written law gives %r" % (law, kind, float(vol[i]), T[i], want[i]), dict(case, simulated=vol.tolist(), formula=want))
                return
            ctx.count("growth_law_traces")


def run(ctx):
    warnings.filterwarnings("ignore")
    rng = ctx.rng
    n = 150 if ctx.quick() else 4000
    for i in range(n):
        one_expr(ctx, rng, rng.randint(1, 5))
    operator_positions(ctx, rng)
    minmax_orderings(ctx, rng)
    one_shot_rules(ctx, rng)
    malformed(ctx, rng)
    underscore_alias(ctx)
    growth_law_traces(ctx, rng)
    underscore_species(ctx)
    lineage_event_rates(ctx)


def replay(ctx, obj):
    run(ctx)


def describe(ctx):
    rule = ("type-directed random expression trees of depth 1..5 over + - * / ^ neg exp log abs Heaviside max min, numbers and the "
            "identifier pool {A, B_1, x2y, k_cat, C, O, Q, N, I, E, S, p, t, volume}, each evaluated at 4 points of the finite domain "
            "(positive bases for non-integer powers, log arguments > 0, Heaviside arguments >= 1/8 from 0, bounded exponents) through "
            "a general propensity (plain and volume form), Model.parse_general_expression and an assignment rule; oracle = the "
            "generator's own tree evaluated in Python floats with volume reading 1 outside volume mode (1e-9); Lean: (a) the real "
            "Term tree dumped and evaluated by Term.eval (1e-12), (b) the source string through the Lean parser, translate and eval "
            "(1e-9) and Expr.eval; a malformed stream (unknown names, broken syntax) must be rejected by both; the leading-underscore "
            "alias; growth laws that mention t, run through the volume and the delay+volume simulator on a model where nothing fires, against the recursion V(t_n) = V(t_{n-1}) exp(g(t_n) dt). Non-trivial = the expression takes different values at the 4 points; distinct by source text; the histogram counts "
            "operators and the share of constant expressions.")
    return rule, {}, False, ["sympy's parser and simplifier are trusted; their effect is sampled by cut (b)", "exp/log/pow values: libm vs numpy/std::pow within the stated tolerances"]
