"""C03 - stoichiometry and net rate equations follow the reaction list."""
import itertools
import math
from fractions import Fraction

import numpy as np

from common import f2b, b2f, relerr, ulps, driver_batch
from modelspec import build_model, network_job, state_vector, HILL
from props.C01 import closed_form, DYADIC, HILL_N

POOL = ["A", "B", "C", "D"]
GENERAL = [
    ("k0*A*B/(1+C)", lambda x, p, t: p["k0"] * x["A"] * x["B"] / (1 + x["C"])),
    ("k0*A + K0*t", lambda x, p, t: p["k0"] * x["A"] + p["K0"] * t),
    ("k0*exp(-t)*D", lambda x, p, t: p["k0"] * math.exp(-t) * x["D"]),
    ("k0 + K0*B^2", lambda x, p, t: p["k0"] + p["K0"] * x["B"] ** 2),
    # a reversible step written as one reaction: the net rate is negative where the backward flux dominates
    ("k0*A - K0*B", lambda x, p, t: p["k0"] * x["A"] - p["K0"] * x["B"]),
    ("k0*(C - D)", lambda x, p, t: p["k0"] * (x["C"] - x["D"])),
]


def gen_reaction(rng, j, species):
    def side(maxn):
        return [rng.choice(species) for _ in range(rng.randint(0, maxn))]
    kind = rng.below(10)
    r = {"reactants": side(4), "products": side(4)}
    if rng.chance(1, 4):       # catalyst on both sides
        c = rng.choice(species)
        r["reactants"].append(c); r["products"].append(c)
    if rng.chance(1, 10):
        r["products"].append("")           # empty entries are ignored
    params = {}
    if kind < 5:
        r["prop"] = {"type": "massaction", "k": "k%d" % j}
        params["k%d" % j] = rng.choice(DYADIC)
    elif kind < 8:
        t = rng.choice(HILL)
        r["prop"] = {"type": t, "k": "k%d" % j, "K": "K%d" % j, "n": "n%d" % j, "s1": rng.choice(species)}
        if "proportional" in t:
            r["prop"]["d"] = rng.choice(species)
        params.update({"k%d" % j: rng.choice(DYADIC), "K%d" % j: rng.choice(DYADIC), "n%d" % j: rng.choice(HILL_N)})
    else:
        gi = rng.below(len(GENERAL))
        rate = GENERAL[gi][0].replace("k0", "k%d" % j).replace("K0", "K%d" % j)
        r["prop"] = {"type": "general", "rate": rate, "gi": gi}
        params.update({"k%d" % j: rng.choice(DYADIC), "K%d" % j: rng.choice(DYADIC)})
    if rng.chance(1, 3):
        r["dreactants"] = side(2)
        r["dproducts"] = side(3)
        c = rng.below(4)
        if c < 2:
            r["delay"] = {"type": "fixed", "delay": "tau%d" % j}
            params["tau%d" % j] = rng.choice(DYADIC)
        elif c == 2:
            r["delay"] = {"type": "none"}          # the delayed part stays a delayed part whatever the delay type says
    return r, params


def gen_spec(rng):
    species = POOL[:rng.randint(2, 4)]
    if rng.chance(1, 2):
        species = species + ["E"]
    rx, params = [], {}
    for j in range(rng.randint(1, 4)):
        r, p = gen_reaction(rng, j, POOL)   # general rates mention A..D: all four are in the model
        rx.append(r); params.update(p)
    decl = rng.shuffle(POOL + (["E"] if "E" in species else []))
    ndecl = rng.randint(0, len(decl))
    if any(r["prop"]["type"] != "massaction" for r in rx):
        ndecl = len(decl)     # species named by a Hill / general rate must exist before the reaction is created
    spec = {"species": decl[:ndecl], "reactions": rx, "params": params,
            "ic": {s: 0 for s in rng.shuffle(decl)}}
    return spec


def count_matrix(species_list, rxns, rk, pk):
    S = np.zeros((len(species_list), len(rxns)))
    for j, r in enumerate(rxns):
        for s in r.get(pk, []) or []:
            if s != "":
                S[species_list.index(s), j] += 1
        for s in r.get(rk, []) or []:
            if s != "":
                S[species_list.index(s), j] -= 1
    return S


def rate_oracle(rxn, x, params, t):
    pr = rxn["prop"]
    if pr["type"] == "general":
        gi = pr["gi"]
        j = pr["rate"]
        import re
        idx = re.search(r"k(\d+)", j).group(1)
        p = {"k0": float(params["k" + idx]), "K0": float(params["K" + idx])}
        return GENERAL[gi][1]({k: float(v) for k, v in x.items()}, p, float(t))
    return float(closed_form(pr, [s for s in rxn["reactants"] if s != ""], x, params, 1)["det"])


def check_spec(ctx, spec, points):
    from bioscrape.simulator import ModelCSimInterface
    ctx.begin_case({"spec": spec})
    M = build_model(spec)
    sl = M.get_species_list()
    U, D = np.array(M.py_get_update_array()), np.array(M.py_get_delay_update_array())
    # ---- oracle: products - reactants with multiplicity, in the model's own species order
    Uo = count_matrix(sl, spec["reactions"], "reactants", "products")
    Do = count_matrix(sl, spec["reactions"], "dreactants", "dproducts")
    if sorted(sl) != sorted(set(s for s in (spec["species"] + list(spec["ic"]) + [q for r in spec["reactions"] for k in ("reactants", "products", "dreactants", "dproducts") for q in r.get(k, [])]) if s != "")):
        ctx.violation("species-set", "species list of the model is not the set of declared/used species", {"spec": spec, "species": sl})
    if not np.array_equal(U, Uo):
        ctx.violation("stoich/immediate", "immediate stoichiometric matrix differs from products - reactants",
                      {"spec": spec, "species": sl, "implementation": U.tolist(), "expected": Uo.tolist()})
    if not np.array_equal(D, Do):
        ctx.violation("stoich/delayed", "delayed stoichiometric matrix differs from delayed products - reactants",
                      {"spec": spec, "species": sl, "implementation": D.tolist(), "expected": Do.tolist()})
    # a pickled copy of the (initialised) model reports the same two matrices, each in its own place
    import pickle
    M2 = pickle.loads(pickle.dumps(M))
    U2, D2 = np.array(M2.py_get_update_array()), np.array(M2.py_get_delay_update_array())
    if not (np.array_equal(U2, Uo) and np.array_equal(D2, Do)):
        ctx.violation("stoich/pickled-copy", "a pickled copy of the model reports other stoichiometric matrices than products - reactants",
                      {"spec": spec, "species": sl, "copy": [U2.tolist(), D2.tolist()], "expected": [Uo.tolist(), Do.tolist()]})
    I = ModelCSimInterface(M)
    I.py_prep_deterministic_simulation()
    derivs = []
    for ip, pt in enumerate(points):
        x = state_vector(M, pt["x"])
        dx = np.zeros(len(sl))
        if ip % 2:
            # an interface is prepared again by every deterministic simulation that is handed it: the derivative is the
            # same function of (state, time) on every use
            I.py_prep_deterministic_simulation()
            ctx.count("interface_prepared_again")
        I.py_calculate_deterministic_derivative(x.copy(), dx, float(pt["t"]))
        derivs.append([float(v) for v in dx])
        rates = np.array([rate_oracle(r, pt["x"], spec["params"], pt["t"]) for r in spec["reactions"]])
        if np.any(rates < 0):
            ctx.count("points_with_a_negative_net_rate")
        want = (Uo + Do) @ rates
        scale = np.abs(Uo + Do) @ np.abs(rates) + 1e-300
        for i, s in enumerate(sl):
            ctx.evaluated()
            if abs(dx[i] - want[i]) > 1e-11 * scale[i]:
                ctx.violation("derivative", "d%s/dt differs from sum over reactions of (S+S_d) x rate" % s,
                              {"spec": spec, "point": {k: str(v) for k, v in pt["x"].items()}, "t": str(pt["t"]),
                               "species": s, "implementation": float(dx[i]), "expected": float(want[i])})
    # ---- the safe interface reports the same derivative wherever its guard is idle: it leaves out the reactions that
    # consume a species that is at zero, which changes nothing when those reactions' rates are zero there (mass action);
    # points where the guard does leave out a non-zero term, or refuses a negative net rate, are outside this comparison
    from bioscrape.simulator import SafeModelCSimInterface
    import warnings
    Is = SafeModelCSimInterface(build_model(spec))
    Is.py_prep_deterministic_simulation()
    N = Uo + Do
    safe_derivs = []
    for ip, pt in enumerate(points):
        x = state_vector(M, pt["x"])
        rates = np.array([rate_oracle(r, pt["x"], spec["params"], pt["t"]) for r in spec["reactions"]])
        left_out = [(i, j) for i in range(len(sl)) for j in range(N.shape[1]) if N[i, j] < 0 and x[i] <= 0]
        dx = np.full(len(sl), np.nan)
        with warnings.catch_warnings():
            warnings.simplefilter("ignore")
            try:
                Is.py_calculate_deterministic_derivative(x.copy(), dx, float(pt["t"]))
                safe_derivs.append([float(v) for v in dx])
            except RuntimeError:
                safe_derivs.append(None)           # the guard's refusal: a species at zero with a negative sum
        if np.any(x < 0) or np.any(rates < 0) or any(rates[j] != 0 for _, j in left_out):
            ctx.count("safe_guard_active_or_signed")
            continue
        if safe_derivs[-1] is None:
            ctx.violation("derivative/safe", "safe interface refuses a state where its guard leaves out only zero terms",
                          {"spec": spec, "point": {k: str(v) for k, v in pt["x"].items()}, "t": str(pt["t"]), "safe": True})
            break
        want = N @ rates
        scale = np.abs(N) @ np.abs(rates) + 1e-300
        ctx.evaluated()
        bad = [i for i in range(len(sl)) if not abs(dx[i] - want[i]) <= 1e-11 * scale[i]]
        if bad:
            i = bad[0]
            ctx.violation("derivative/safe", "safe interface: d%s/dt differs from sum over reactions of (S+S_d) x rate at a state where its guard leaves out only zero terms" % sl[i],
                          {"spec": spec, "point": {k: str(v) for k, v in pt["x"].items()}, "t": str(pt["t"]),
                           "species": sl[i], "implementation": float(dx[i]), "expected": float(want[i]), "safe": True})
            break
        ctx.count("safe_derivative_points" + ("_with_a_species_at_zero" if left_out else ""))
    # ---- correspondence with the Lean model
    ans = driver_batch([network_job(spec, M, points, "float")])[0]
    if "error" in ans:
        ctx.broke("corr_C03_driver", {"spec": spec, "error": ans["error"]})
        return
    if ans["species"] != sl:
        ctx.broke("corr_C03_species_order", {"spec": spec, "model": ans["species"], "implementation": sl})
        return
    Um = np.array(ans["U"]).T.reshape(U.shape) if len(spec["reactions"]) else U
    Dm = np.array(ans["D"]).T.reshape(D.shape) if len(spec["reactions"]) else D
    if not np.array_equal(Um, U) or not np.array_equal(Dm, D):
        ctx.broke("corr_C03_stoich", {"spec": spec, "model": [Um.tolist(), Dm.tolist()], "implementation": [U.tolist(), D.tolist()]})
    exact = all(r["prop"]["type"] == "massaction" for r in spec["reactions"])
    for pi, pt in enumerate(points):
        md = [b2f(v) for v in ans["points"][pi]["deriv"]]
        for i in range(len(sl)):
            bad = (f2b(md[i]) != f2b(derivs[pi][i])) if exact else (relerr(md[i], derivs[pi][i]) > 1e-12 and abs(md[i] - derivs[pi][i]) > 1e-12)
            if bad:
                ctx.broke("corr_C03_derivative", {"spec": spec, "point": str(pt), "species": sl[i], "model": md[i], "implementation": derivs[pi][i]})
    # the safe interface's derivative (guard active or not, refusals included) against the Lean derivativeSafe
    for pi, pt in enumerate(points):
        if pi >= len(safe_derivs):
            break
        ms = ans["points"][pi]["sderiv"]
        real = safe_derivs[pi]
        if (ms is None) != (real is None):
            ctx.broke("corr_C03_safe_derivative", {"spec": spec, "point": str(pt), "model": ms, "implementation": real})
            continue
        if ms is None:
            ctx.count("safe_refusals_agreed")
            continue
        ms = [b2f(v) for v in ms]
        for i in range(len(sl)):
            bad = (f2b(ms[i]) != f2b(real[i])) if exact else (relerr(ms[i], real[i]) > 1e-12 and abs(ms[i] - real[i]) > 1e-12)
            if bad:
                ctx.broke("corr_C03_safe_derivative", {"spec": spec, "point": str(pt), "species": sl[i], "model": ms[i], "implementation": real[i]})
                break
    shape = (len(sl), len(spec["reactions"]), bool(Do.any()), tuple(sorted(set(r["prop"]["type"] for r in spec["reactions"]))),
             int(np.abs(Uo).max()) if Uo.size else 0, tuple(sl))
    ctx.nontriv(shape)
    for r in spec["reactions"]:
        ctx.count("prop:" + r["prop"]["type"])
    ctx.count("delayed_part" if Do.any() else "no_delayed_part")
    ctx.sample({"spec": spec, "species_order": sl}, cap=3)


def check_missing_param(ctx, spec, rng):
    """A reaction that refers to a parameter without a value must fail initialisation."""
    used = set()
    for r in spec["reactions"]:
        pr = r["prop"]
        if pr["type"] == "general":
            import re
            used |= set(re.findall(r"[A-Za-z_][A-Za-z_0-9]*", pr["rate"])) & set(spec["params"])
        else:
            used |= {pr[k] for k in ("k", "K", "n") if k in pr}
        if r.get("delay"):
            used |= {v for k, v in r["delay"].items() if k != "type"}
    names = sorted(used)
    drop = rng.choice(names)
    s2 = dict(spec, params={k: v for k, v in spec["params"].items() if k != drop})
    ctx.begin_case({"spec": s2, "dropped": drop})
    ctx.evaluated()
    ctx.count("missing-parameter")
    # ... also on a model built without initialisation and then used several times (a retry after the first error)
    from bioscrape.simulator import ModelCSimInterface
    Mu = build_model(s2, initialize=False)
    for attempt in (1, 2, 3):
        try:
            ModelCSimInterface(Mu)
            ctx.violation("missing-param/accepted-on-retry", "attempt %d to put a model whose parameter %s has no value behind an interface was not refused" % (attempt, drop),
                          {"spec": s2, "dropped": drop, "attempt": attempt})
            return
        except ValueError as e:
            if "Unspecified Parameters" not in str(e):
                ctx.violation("missing-param/other-error", "model with unset parameter %s failed with an unrelated error: %s" % (drop, e), {"spec": s2})
                return
    try:
        M = build_model(s2)
    except ValueError as e:
        if "Unspecified Parameters" in str(e):
            return
        ctx.violation("missing-param/other-error", "model with unset parameter %s failed with an unrelated error: %s" % (drop, e), {"spec": s2})
        return
    except Exception as e:
        ctx.violation("missing-param/other-error", "model with unset parameter %s failed with %r" % (drop, e), {"spec": s2})
        return
    ctx.violation("missing-param/accepted", "model initialised although parameter %s has no value" % drop, {"spec": s2, "dropped": drop})


def gen_points(rng, n):
    pts = []
    for i in range(n):
        pts.append({"x": {s: (Fraction(rng.randint(0, 6)) if i % 2 == 0 else rng.choice(DYADIC)) for s in POOL + ["E"]},
                    "V": Fraction(1), "t": Fraction(rng.randint(0, 12), 4)})
    return pts


def all_orders_case(ctx):
    """one fixed reaction list under every declaration order of 4 species (exhaustive: 24)."""
    rx = [{"reactants": ["A", "A", "B"], "products": ["B", "C", "C", "C"], "prop": {"type": "massaction", "k": "k0"},
           "dreactants": ["D"], "dproducts": ["A", "A"]},
          {"reactants": ["D"], "products": [], "prop": {"type": "hillpositive", "k": "k1", "K": "K1", "n": "n1", "s1": "C"}}]
    params = {"k0": Fraction(3, 2), "k1": Fraction(2), "K1": Fraction(5, 2), "n1": 2.0}
    for perm in itertools.permutations(POOL):
        yield {"species": list(perm), "reactions": rx, "params": params, "ic": {}}


def matrices_after_simulations(ctx):
    """the matrices and the derivative are those of the reaction list also after the model has been simulated, by every
    simulator in turn (a model with delayed parts, species declared in several orders)."""
    import warnings
    from bioscrape.simulator import py_simulate_model, ModelCSimInterface, SafeModelCSimInterface
    from bioscrape.random import py_seed_random
    T = np.linspace(0, 0.5, 4)
    pt = {"x": {"A": Fraction(3), "B": Fraction(2), "C": Fraction(5, 2), "D": Fraction(1), "E": Fraction(0)}, "V": Fraction(1), "t": Fraction(1, 4)}
    runs = (("deterministic", dict(stochastic=False)), ("stochastic", dict(stochastic=True)), ("delay", dict(stochastic=True, delay=True)),
            ("delay + volume", dict(stochastic=True, delay=True, volume=2.0)), ("volume", dict(stochastic=True, volume=2.0)), ("safe volume", dict(stochastic=True, volume=1.5, safe=True)))
    for k, spec in enumerate(all_orders_case(ctx)):
        if k % 6:
            continue
        spec = dict(spec, ic={"A": 3, "B": 2, "C": 1, "D": 2})
        M = build_model(spec)
        sl = M.get_species_list()
        Uo = count_matrix(sl, spec["reactions"], "reactants", "products")
        Do = count_matrix(sl, spec["reactions"], "dreactants", "dproducts")
        rates = np.array([rate_oracle(r, pt["x"], spec["params"], pt["t"]) for r in spec["reactions"]])
        want = (Uo + Do) @ rates
        done = []
        for name, kw in runs:
            case = {"spec": spec, "scenario": "matrices after simulations", "simulated_so_far": done + [name]}
            ctx.begin_case(case)
            py_seed_random(5)
            with warnings.catch_warnings():
                warnings.simplefilter("ignore")
                py_simulate_model(T.copy(), Model=M, return_dataframe=False, **kw)
            done.append(name)
            ctx.evaluated()
            U, D = np.array(M.py_get_update_array()), np.array(M.py_get_delay_update_array())
            dxs = []
            for cls in (ModelCSimInterface, SafeModelCSimInterface):
                I = cls(M)
                I.py_prep_deterministic_simulation()
                dx = np.zeros(len(sl))
                I.py_calculate_deterministic_derivative(state_vector(M, pt["x"]), dx, float(pt["t"]))
                dxs.append(dx)
            if not (np.array_equal(U, Uo) and np.array_equal(D, Do)) or any(np.max(np.abs(dx - want)) > 1e-9 * (1 + np.max(np.abs(want))) for dx in dxs):
                ctx.violation("stoich/after-simulation", "after the simulations %s the model reports the immediate matrix %s and delayed matrix %s (reaction list: %s, %s); derivative %s, "
                              "sum over reactions of (S+S_d) x rate %s" % (done, U.tolist(), D.tolist(), Uo.tolist(), Do.tolist(), dxs[0].tolist(), want.tolist()), case)
                return
            ctx.count("matrices_after_simulation_checks")


def run(ctx):
    pts_n = 3 if ctx.quick() else 6
    for spec in all_orders_case(ctx):
        check_spec(ctx, spec, gen_points(ctx.rng, pts_n))
    n = 150 if ctx.quick() else 4000
    for i in range(n):
        spec = gen_spec(ctx.rng)
        check_spec(ctx, spec, gen_points(ctx.rng, pts_n))
        if i % 5 == 0:
            check_missing_param(ctx, spec, ctx.rng)
    matrices_after_simulations(ctx)


def replay(ctx, obj):
    rep = obj.get("replay") or obj["broken"][0]["detail"]
    check_spec(ctx, rep["spec"], gen_points(ctx.rng, 6))


def describe(ctx):
    rule = ("random reaction lists (1-4 reactions; 0..4 reactants/products with repeats, catalysts, empty entries, optional delayed "
            "reactants/products, mass action / Hill x4 / general rates incl. time-dependent) with a random prefix of a random "
            "permutation of the species declared up front, plus one fixed network under all 24 declaration orders; update arrays, "
            "delay update arrays, species order and the deterministic derivative at integer and dyadic states/times are compared "
            "with numpy count matrices (oracle) and with the Lean model; every 5th model is rebuilt with one parameter removed. "
            "distinct = (n species, n reactions, delayed part?, propensity types, max |entry|, species order)")
    return rule, {}, False, ["S_values is vector[int]: non-integer stoichiometries cannot arise from the reaction-list API"]
