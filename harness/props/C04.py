"""C04 - deterministic simulation solves the model's rate equations."""
import math

import warnings

import numpy as np

from common import driver_batch, f2b, b2f, relerr
from modelspec import build_model, sim_job
import simcorr


def gen_linear(rng):
    """first-order network (plus zero-order inflow): closed-form solution through the matrix exponential."""
    sp = ["A", "B", "C"]
    rx, params = [], {}
    for j in range(rng.randint(2, 5)):
        k = "k%d" % j
        params[k] = rng.choice([0.1, 0.5, 1.0, 2.0])
        c = rng.below(4)
        if c == 0:
            rx.append({"reactants": [], "products": [rng.choice(sp)], "prop": {"type": "massaction", "k": k}})
        elif c == 1:
            rx.append({"reactants": [rng.choice(sp)], "products": [], "prop": {"type": "massaction", "k": k}})
        elif c == 2:
            a, b = rng.choice(sp), rng.choice(sp)
            rx.append({"reactants": [a], "products": [b], "prop": {"type": "massaction", "k": k}})
        else:
            a, b = rng.choice(sp), rng.choice(sp)      # delayed product: applied as if the delay were zero
            rx.append({"reactants": [a], "products": [], "dreactants": [], "dproducts": [b, b] if rng.chance(1, 3) else [b],
                       "prop": {"type": "massaction", "k": k}, "delay": {"type": "fixed", "delay": "tau"}})
            params["tau"] = 0.7
    return {"species": sp, "reactions": rx, "params": params, "ic": {s: float(rng.randint(0, 10)) for s in sp}}


def gen_nonlinear(rng):
    spec = simcorr.gen_network(rng)
    while spec["needs_safe"]:        # consuming non-mass-action reactions can leave the positive orthant: not well posed
        spec = simcorr.gen_network(rng)
    if rng.chance(1, 2):     # explicitly time-dependent smooth rate
        j = len(spec["reactions"])
        spec["reactions"].append({"reactants": [], "products": [rng.choice(["A", "B", "C"])],
                                  "prop": {"type": "general", "rate": "k%d*(1+cos(t))" % j if False else "k%d*exp(-t/3)" % j}})
        spec["params"]["k%d" % j] = rng.choice([0.5, 2.0])
    spec["ic"] = {s: float(v) for s, v in spec["ic"].items()}
    return spec


def gen_times(rng):
    if rng.chance(1, 2):
        return np.linspace(0, rng.choice([1.0, 3.0, 6.0]), rng.choice([5, 21, 61]))
    return np.array(sorted(set([0.0] + [round(rng.uniform() * 5, 3) for _ in range(rng.randint(3, 15))])))


def rhs_corr(ctx, spec, M, rng):
    """the value handed to the integrator: rules + derivative, against the Lean rhsGlobal (bitwise where no pow)."""
    from bioscrape.simulator import ModelCSimInterface, py_set_globals, rhs_global
    I = ModelCSimInterface(M)
    I.py_prep_deterministic_simulation()
    I.py_set_dt(0.25)
    py_set_globals(I)
    n = len(M.get_species_list())
    pts, reals = [], []
    for _ in range(6):
        x = np.array([rng.choice([0.0, 0.5, 1.0, 3.25, 7.0]) for _ in range(n)])
        t = rng.choice([0.0, 0.25, 0.3, 1.0, 2.75])
        dx = np.array(rhs_global(x.copy(), float(t)), dtype=float).copy()
        reals.append(dx)
        pts.append({"x": [f2b(v) for v in x], "t": f2b(t)})
    job = sim_job(M, "ssa", [0.0, 1.0], 1, 0.25, spec=spec)
    job.update({"op": "rhs", "points": pts})
    a = driver_batch([job])[0]
    ctx.evaluated(len(pts))
    if "error" in a:
        ctx.broke("corr_C04_driver", {"spec": spec, "error": a["error"]})
        return
    exact = all(r["prop"]["type"] == "massaction" for r in spec["reactions"])
    for pt, real, m in zip(pts, reals, a["points"]):
        md = np.array([b2f(v) for v in m["dx"]])
        bad = (not np.array_equal(md, real)) if exact else bool(np.max(np.abs(md - real)) > 1e-12 * max(1.0, np.max(np.abs(real))))
        if bad:
            ctx.broke("corr_C04_rhs_global", {"spec": spec, "x": [b2f(v) for v in pt["x"]], "t": b2f(pt["t"]), "model": md.tolist(), "implementation": real.tolist()})
            return


# always run: a repeated reactant written with another species in between, and a reversible step written as one reaction
# with a signed net rate (negative where the backward flux dominates)
FIXED = [
    {"species": ["A", "B", "C"], "reactions": [
        {"reactants": ["A", "B", "A"], "products": ["C"], "prop": {"type": "massaction", "k": "k0"}},
        {"reactants": ["C"], "products": [], "prop": {"type": "massaction", "k": "k1"}}],
     "params": {"k0": 0.05, "k1": 0.3}, "ic": {"A": 6, "B": 2, "C": 0}},
    {"species": ["A", "B", "C"], "reactions": [
        {"reactants": ["A"], "products": ["B"], "prop": {"type": "general", "rate": "k0*A - k1*B"}},
        {"reactants": ["B"], "products": ["C"], "prop": {"type": "massaction", "k": "k2"}}],
     "params": {"k0": 0.5, "k1": 2.0, "k2": 0.1}, "ic": {"A": 1, "B": 6, "C": 0}},
]


def pulse_with_hmax(ctx):
    """a smooth but short input pulse (width 0.2 at t = 50) on top of a basal rate, the system at steady state before it: with
    the step bound hmax = 0.1 given as a keyword the integrator cannot step over the pulse."""
    from bioscrape.simulator import py_simulate_model
    from scipy.integrate import solve_ivp
    from modelspec import independent_rhs
    spec = {"species": ["X", "Y"], "reactions": [
        {"reactants": [], "products": ["X"], "prop": {"type": "general", "rate": "b + h*exp(-(t-50)^2/(2*0.04))"}},
        {"reactants": ["X"], "products": ["Y"], "prop": {"type": "massaction", "k": "k1"}},
        {"reactants": ["Y"], "products": [], "prop": {"type": "massaction", "k": "k2"}}],
        "params": {"b": 2.0, "h": 80.0, "k1": 0.5, "k2": 0.05}, "ic": {"X": 4, "Y": 40}}
    for T in (np.linspace(0, 100.0, 201), np.concatenate([np.linspace(0, 40.0, 41), np.linspace(40.5, 100.0, 120)])):
        case = {"spec": spec, "times": T.tolist(), "hmax": 0.1}
        ctx.begin_case(case)
        M = build_model(spec)
        sl = M.get_species_list()
        x0 = np.array([float(spec["ic"][s_]) for s_ in sl])
        sol = solve_ivp(independent_rhs(spec, sl), (0.0, 100.0), x0, method="DOP853", t_eval=T, rtol=1e-10, atol=1e-10, max_step=0.05)
        rows = np.array(py_simulate_model(T.copy(), Model=M, stochastic=False, return_dataframe=False, hmax=0.1).py_get_result())
        ctx.evaluated()
        err = np.abs(rows - sol.y.T)
        if not sol.success or rows.shape != sol.y.T.shape or np.any(err > 2e-4 * (1 + np.abs(sol.y.T))):
            i = int(np.argmax(err.max(axis=1))) if rows.shape == sol.y.T.shape else 0
            ctx.violation("det/accuracy/hmax-keyword", "input pulse at t=50 with hmax=0.1: row %d (t=%g) is %s, the reference %s" % (i, T[i], rows[i].tolist(), sol.y.T[i].tolist()), case)
            return
        ctx.count("pulse_with_hmax")


def tolerance_keywords(ctx):
    """relative error control on a state that is small in absolute terms: concentrations around 1e-6 simulated with the
    keywords rtol=1e-6, atol=1e-12 stay within 50 x (rtol |x| + atol) of the closed form expm(A t) x0."""
    from bioscrape.simulator import py_simulate_model
    from scipy.linalg import expm
    spec = {"species": ["A", "B", "C"], "reactions": [
        {"reactants": ["A"], "products": ["B"], "prop": {"type": "massaction", "k": "k0"}},
        {"reactants": ["B"], "products": ["C"], "prop": {"type": "massaction", "k": "k1"}},
        {"reactants": ["C"], "products": ["A"], "prop": {"type": "massaction", "k": "k2"}},
        {"reactants": ["B"], "products": [], "prop": {"type": "massaction", "k": "k3"}}],
        "params": {"k0": 1.0, "k1": 0.7, "k2": 0.4, "k3": 0.05}, "ic": {"A": 3e-6, "B": 1e-6, "C": 0.0}}
    k = spec["params"]
    for T in (np.linspace(0, 20.0, 41), np.array([0.0, 0.3, 1.0, 2.5, 7.0, 20.0])):
        for rtol, atol in ((1e-6, 1e-12), (1e-9, 1e-9)):
            case = {"spec": spec, "times": T.tolist(), "rtol": rtol, "atol": atol}
            ctx.begin_case(case)
            M = build_model(spec)
            sl = M.get_species_list()
            ix = {s_: i for i, s_ in enumerate(sl)}
            Amat = np.zeros((3, 3))
            for src, dst, kk in (("A", "B", k["k0"]), ("B", "C", k["k1"]), ("C", "A", k["k2"]), ("B", None, k["k3"])):
                Amat[ix[src], ix[src]] -= kk
                if dst is not None:
                    Amat[ix[dst], ix[src]] += kk
            x0 = np.array([float(spec["ic"][s_]) for s_ in sl])
            ref = np.array([expm(Amat * t) @ x0 for t in T])
            rows = np.array(py_simulate_model(T.copy(), Model=M, stochastic=False, return_dataframe=False, rtol=rtol, atol=atol).py_get_result())
            ctx.evaluated()
            allowed = 50 * (rtol * np.abs(ref) + atol)
            if rows.shape != ref.shape or np.any(np.isnan(rows)) or np.any(np.abs(rows - ref) > allowed):
                worst = float(np.nanmax(np.abs(rows - ref) / (rtol * np.abs(ref) + atol))) if rows.shape == ref.shape else float("inf")
                ctx.violation("det/accuracy/tolerance-keywords", "rtol=%g atol=%g on concentrations around 1e-6: error up to %.3g x (rtol |x| + atol), 50 allowed" % (rtol, atol, worst), case)
                return
            ctx.count("tolerance_keywords")


def tight_tolerances_on_a_coarse_grid(ctx):
    """tolerances tighter than the default, requested on a grid so coarse that the integrator needs more than its first
    allowance of steps per interval: the rows are as accurate as on a fine grid (Lotka-Volterra, reference DOP853 at 1e-13)."""
    from bioscrape.simulator import py_simulate_model
    from scipy.integrate import solve_ivp
    from modelspec import independent_rhs
    spec = {"species": ["X", "Y"], "reactions": [
        {"reactants": ["X"], "products": ["X", "X"], "prop": {"type": "massaction", "k": "a"}},
        {"reactants": ["X", "Y"], "products": ["Y", "Y"], "prop": {"type": "massaction", "k": "b"}},
        {"reactants": ["Y"], "products": [], "prop": {"type": "massaction", "k": "c"}}],
        "params": {"a": 1.0, "b": 0.1, "c": 1.5}, "ic": {"X": 10.0, "Y": 5.0}}
    for T in (np.arange(0, 30.05, 0.05), np.array([0.0, 7.0, 19.0, 30.0]), np.array([0.0, 40.0, 90.0, 150.0])):
        case = {"spec": spec, "times": T.tolist(), "rtol": 1e-12, "atol": 1e-12}
        ctx.begin_case(case)
        M = build_model(spec)
        sl = M.get_species_list()
        x0 = np.array([float(spec["ic"][s_]) for s_ in sl])
        sol = solve_ivp(independent_rhs(spec, sl), (0.0, float(T[-1])), x0, method="DOP853", t_eval=T, rtol=1e-13, atol=1e-13)
        with warnings.catch_warnings():
            warnings.simplefilter("ignore")
            rows = np.array(py_simulate_model(T.copy(), Model=M, stochastic=False, return_dataframe=False, rtol=1e-12, atol=1e-12).py_get_result())
        ctx.evaluated()
        err = float(np.max(np.abs(rows - sol.y.T) / (1 + np.abs(sol.y.T)))) if rows.shape == sol.y.T.shape and not np.any(np.isnan(rows)) else float("inf")
        if not sol.success or err > 3e-8:
            ctx.violation("det/accuracy/tight-tolerances", "rtol = atol = 1e-12 on a grid of %d points: largest relative error %.3g (3e-8 allowed; a fine grid gives 1e-9)" % (len(T), err), case)
            return
        ctx.count("tight_tolerance_runs")


def long_intervals(ctx):
    """requested time points far apart: a fast oscillation (closed orbit, 40 rad per time unit) asked for at three points
    spanning thousands of periods.  The integrator needs tens to hundreds of thousands of internal steps per interval,
    inside the simulator's budget (mxstep = 500000): the rows are numbers, on the orbit, near the closed form."""
    from bioscrape.simulator import py_simulate_model
    w, c = 40.0, 10.0
    spec = {"species": ["X", "Y"], "reactions": [
        {"reactants": [], "products": ["X"], "prop": {"type": "general", "rate": "w*c"}},
        {"reactants": ["X"], "products": [], "prop": {"type": "general", "rate": "w*Y"}},
        {"reactants": [], "products": ["Y"], "prop": {"type": "general", "rate": "w*X"}},
        {"reactants": ["Y"], "products": [], "prop": {"type": "general", "rate": "w*c"}}],
        "params": {"w": w, "c": c}, "ic": {"X": 15.0, "Y": 10.0}}
    for span in (10.0, 150.0, 300.0):
        T = np.linspace(0, 2 * span, 3)
        case = {"spec": spec, "times": T.tolist()}
        ctx.begin_case(case)
        M = build_model(spec)
        sl = M.get_species_list()
        with warnings.catch_warnings():
            warnings.simplefilter("ignore")
            rows = np.array(py_simulate_model(T.copy(), Model=M, stochastic=False, return_dataframe=False).py_get_result())
        ctx.evaluated()
        ref = np.array([[c + 5 * np.cos(w * t) if s_ == "X" else c + 5 * np.sin(w * t) for s_ in sl] for t in T])
        if rows.shape != ref.shape or np.any(np.isnan(rows)) or np.max(np.abs(rows - ref)) > 0.05:
            ctx.violation("det/accuracy/long-intervals", "oscillator asked for at t = %s: rows %s, closed form %s" % (T.tolist(), rows.tolist(), ref.tolist()), case)
            return
        ctx.count("long_interval_runs")


LADDER_MAX_CAP = 429496729   # (2^32 - 1) // 10: up to this cap `steps_allowed *= 10` (a C `unsigned`) cannot wrap


def retry_ladder(ctx):
    """(caps up to LADDER_MAX_CAP: beyond it the implementation's 32-bit product wraps and it tries extra, smaller values
    - e.g. 705032704 for max_step = 850898882 - which the model over unbounded naturals does not describe; recorded as an
    observation in DESIGN.md, not a violation: every attempt still stays below the cap and failure is still reported as NaN)
    the `mxstep` values the simulator tries, against the Lean `mxstepLadder`: `odeint` is replaced by a stub that records
    `mxstep` and reports failure (every attempt, or every attempt below a threshold), for caps around every rung; a run
    whose attempts all fail must come back as NaN rows, one that succeeds at rung k must stop there and report numbers."""
    import io
    import sys
    import bioscrape.simulator as S
    from bioscrape.simulator import DeterministicSimulator, ModelCSimInterface
    spec = {"species": ["A"], "reactions": [{"reactants": ["A"], "products": [], "prop": {"type": "massaction", "k": "k"}}],
            "params": {"k": 1.0}, "ic": {"A": 1.0}}
    caps = [1, 100, 499, 500, 501, 4999, 5000, 5001, 20000, 49999, 50000, 50001, 499999, 500000, 500001, 5000000, 123456789]
    caps += [min(int(ctx.rng.randint(1, 10 ** ctx.rng.randint(2, 9))), LADDER_MAX_CAP) for _ in range(8 if ctx.quick() else 200)]
    model = driver_batch([{"op": "ladder", "cap": c} for c in caps])
    T = np.linspace(0, 1, 3)
    real = S.odeint
    for cap, ans in zip(caps, model):
        want = ans["ladder"]
        for succeed_at in (None, want[len(want) // 2]):
            case = {"spec": spec, "cap": cap, "first_successful_mxstep": succeed_at}
            ctx.begin_case(case)
            calls = []

            def stub(f, x0, t, **kw):
                calls.append(int(kw["mxstep"]))
                if succeed_at is not None and kw["mxstep"] >= succeed_at:
                    return real(f, x0, t, **kw)
                return np.zeros((len(t), len(x0))), {"message": "Excess work done on this call (perhaps wrong Dfun type)."}
            M = build_model(spec)
            S.odeint = stub
            err = sys.stderr
            sys.stderr = io.StringIO()
            try:
                sim = DeterministicSimulator()
                sim.py_set_mxstep(cap)
                itf = ModelCSimInterface(M)
                itf.py_prep_deterministic_simulation()
                rows = np.array(sim.py_simulate(itf, T.copy()).py_get_result())
            finally:
                sys.stderr = err
                S.odeint = real
            ctx.evaluated()
            expect = want if succeed_at is None else want[:want.index(succeed_at) + 1]
            if calls != expect:
                ctx.violation("det/retry-ladder", "max_step = %d, first success at %s: mxstep values tried %s, the model's ladder %s" % (cap, succeed_at, calls, expect), case)
                return
            if succeed_at is None and not np.all(np.isnan(rows)):
                ctx.violation("det/failure-reported-as-numbers", "max_step = %d, every attempt failed, rows %s" % (cap, rows.tolist()), case)
                return
            if succeed_at is not None and (np.any(np.isnan(rows)) or abs(rows[-1][0] - np.exp(-1.0)) > 1e-5):
                ctx.violation("det/retry-success-lost", "max_step = %d, success at mxstep = %d, rows %s" % (cap, succeed_at, rows.tolist()), case)
                return
            ctx.count("retry_ladders_compared")
            ctx.nontriv(("ladder", len(want), succeed_at is None))


CONSERVATION_TOL = 1e-9     # relative; LSODA preserves linear invariants to rounding (largest drift seen on the unchanged tree: 1.3e-12 over 1200 laws)
CONS_SEEN = [0.0]


def one(ctx, rng, linear, spec=None):
    from bioscrape.simulator import py_simulate_model
    from scipy.linalg import expm
    from scipy.integrate import solve_ivp
    spec = spec if spec is not None else (gen_linear(rng) if linear else gen_nonlinear(rng))
    T = gen_times(rng)
    if len(T) < 2:
        return
    ctx.begin_case({"spec": spec, "times": T.tolist()})
    M = build_model(spec)
    sl = M.get_species_list()
    n = len(sl)
    x0 = np.array(M.get_species_array(), dtype=float)
    rhs_corr(ctx, spec, M, rng)
    rep = {"spec": spec, "times": T.tolist()}
    # ---- reference solution of dx/dt = (S + S_d) rate(x, t), computed first: it also decides whether the model is inside
    # the property's domain (bounded, non-stiff); models outside it are discarded before the implementation is run
    from modelspec import spec_matrices
    S = sum(spec_matrices(spec, sl)).astype(float)
    if linear:
        A = np.zeros((n, n)); b = np.zeros(n)
        pv = dict(zip(M.get_param_list(), M.get_parameter_values()))
        for j, r in enumerate(spec["reactions"]):
            k = float(pv[r["prop"]["k"]])
            if r["reactants"]:
                A[:, sl.index(r["reactants"][0])] += S[:, j] * k
            else:
                b += S[:, j] * k
        # augmented system for the affine term
        Aug = np.zeros((n + 1, n + 1)); Aug[:n, :n] = A; Aug[:n, n] = b
        ref = np.array([(expm(Aug * t) @ np.append(x0, 1.0))[:n] for t in T])
        kind = "expm"
    else:
        # the reference integrates the rate equations written out from the reaction definitions (not the interface's own
        # derivative: what the implementation hands back is an observation, never the oracle)
        from modelspec import independent_rhs
        f0 = independent_rhs(spec, sl)
        calls = [0]

        def f(t, x):
            # (the reference is Python arithmetic: a stiff model would keep the explicit integrator busy for minutes)
            calls[0] += 1
            if calls[0] > 40000:
                raise FloatingPointError("stiff")
            return f0(t, x)
        try:
            sol = solve_ivp(f, (float(T[0]), float(T[-1])), x0, method="DOP853", t_eval=T, rtol=1e-12, atol=1e-12)
        except (TypeError, ValueError, FloatingPointError, OverflowError, ZeroDivisionError):
            ctx.count("reference_unbounded_or_failed")       # the rate law left its domain (negative base of a power)
            return
        if not sol.success or np.max(np.abs(sol.y)) > 1e6 or sol.nfev > 60000 or np.min(sol.y) < -1e-9:
            ctx.count("reference_unbounded_or_failed")       # unbounded, stiff (an explicit method needs that many steps) or leaving the orthant
            return
        ref = sol.y.T
        kind = "dop853"
    M = build_model(spec)
    res = py_simulate_model(T.copy(), Model=M, stochastic=False, return_dataframe=False)
    rows = np.array(res.py_get_result())
    ctx.evaluated()
    # the safe interface integrates the same rate equations when every consuming reaction is mass action (its guard only
    # skips what is zero anyway): same reference, same tolerance
    if all(r["prop"]["type"] == "massaction" for r in spec["reactions"]):
        rs = np.array(py_simulate_model(T.copy(), Model=build_model(spec), stochastic=False, safe=True, return_dataframe=False).py_get_result())
        ctx.evaluated()
        if rs.shape == ref.shape and not np.any(np.isnan(rs)):
            es = np.abs(rs - ref)
            ts = 2e-5 * (1.0 + np.abs(ref))
            if np.any(es > ts):
                i = int(np.argmax((es / ts).max(axis=1)))
                ctx.violation("det/accuracy/safe/" + kind, "safe mode: row %d (t=%g) differs from the %s reference by %g (allowed %g)" % (i, T[i], kind, es[i].max(), ts[i].min()),
                              dict(rep, row=i, got=rs[i].tolist(), reference=ref[i].tolist(), safe=True))
                return
            ctx.count("validated_safe:" + kind)
    if rows.shape != (len(T), n):
        ctx.violation("det/shape", "result has shape %s for %d time points" % (rows.shape, len(T)), rep)
        return
    if np.any(np.isnan(rows)):
        ctx.count("integration_failed_reported_as_nan")
        return
    if not np.allclose(rows[0], x0, rtol=1e-9, atol=1e-12):
        ctx.violation("det/first-row", "first row %s is not the initial condition %s" % (rows[0].tolist(), x0.tolist()), rep)
        return
    tol = 2e-5 * (1.0 + np.abs(ref))
    err = np.abs(rows - ref)
    if np.any(err > tol):
        i = int(np.argmax((err / tol).max(axis=1)))
        ctx.violation("det/accuracy/" + kind, "row %d (t=%g) differs from the %s reference by %g (allowed %g)" % (i, T[i], kind, err[i].max(), tol[i].min()),
                      dict(rep, row=i, got=rows[i].tolist(), reference=ref[i].tolist()))
        return
    # ---- linear conservation laws (theorem rhsGlobal_conserves): a weighting of the species that every reaction's net
    # change (immediate + delayed part) leaves untouched is a constant of the rate equations, whatever the rate laws; the
    # weightings come from the specification's stoichiometry
    if not spec.get("rules"):
        u_, sv, _ = np.linalg.svd(S, full_matrices=True) if S.size else (np.eye(n), np.zeros(0), None)
        rank = int(np.sum(sv > 1e-9))
        for w in u_[:, rank:].T:
            drift = np.abs(rows @ w - x0 @ w)
            allowed = CONSERVATION_TOL * (1.0 + np.abs(rows) @ np.abs(w))
            CONS_SEEN[0] = max(CONS_SEEN[0], float((drift / (1.0 + np.abs(rows) @ np.abs(w))).max()))
            if np.any(drift > allowed):
                i = int(np.argmax(drift / allowed))
                ctx.violation("det/conservation", "the conserved combination %s of the species drifts by %g at row %d (t=%g)"
                              % (np.round(w, 6).tolist(), drift[i], i, T[i]), dict(rep, row=i, weights=w.tolist(), got=rows[i].tolist()))
                return
            ctx.count("conservation_laws_checked")
    ctx.nontriv((kind, len(spec["reactions"]), len(T), bool(np.ptp(np.diff(T)) > 1e-9), tuple(sorted(r["prop"]["type"] for r in spec["reactions"]))))
    ctx.count("validated:" + kind)
    ctx.sample({"spec": spec, "n_times": len(T), "max_error": float(err.max())}, cap=3)


def run(ctx):
    n = 40 if ctx.quick() else 1500
    for spec in FIXED:
        one(ctx, ctx.rng, linear=False, spec=spec)
    pulse_with_hmax(ctx)
    tolerance_keywords(ctx)
    long_intervals(ctx)
    tight_tolerances_on_a_coarse_grid(ctx)
    for i in range(n):
        one(ctx, ctx.rng, linear=(i % 2 == 0))
    retry_ladder(ctx)          # after the random part: keeps the random stream of the runs above
    ctx.count("largest_relative_drift_of_a_conserved_combination_x1e15", int(CONS_SEEN[0] * 1e15))


def replay(ctx, obj):
    run(ctx)


def describe(ctx):
    rule = ("linear networks (first-order + zero-order reactions, delayed products counted as if the delay were zero) against "
            "expm(A t) closed forms; non-linear networks (mass action, Hill, general, explicitly time-dependent exp(-t/3) rates) against "
            "solve_ivp(DOP853, rtol=atol=1e-12) on the rate equations written out from the reaction definitions (independent of the implementation); uniform and irregular grids from 0; tolerance "
            "2e-5(1+|x|); first row = initial condition; and rhs_global(x, t) (rules + derivative, the function handed to odeint) "
            "against the Lean rhsGlobal at random states/times (bitwise for mass action). distinct = (reference kind, reactions, "
            "grid size, irregular?, propensity types).")
    return rule, {}, False, ["LSODA's accuracy is assumed (contract SolverAccurate) and sampled here; det_accurate is conditional on it"]
