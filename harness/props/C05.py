"""C05 - stochastic simulation samples the chemical master equation exactly."""
import numpy as np

from common import driver_batch
from modelspec import build_model, sim_job
import simcorr
import cme

ALARM_P = 1e-9

FINITE = [
    {"species": ["A", "B"], "reactions": [
        {"reactants": ["A"], "products": ["B"], "prop": {"type": "massaction", "k": "k0"}},
        {"reactants": ["B"], "products": ["A"], "prop": {"type": "massaction", "k": "k1"}}],
     "params": {"k0": 1.0, "k1": 0.5}, "ic": {"A": 6, "B": 0}},
    {"species": ["A", "B"], "reactions": [
        {"reactants": ["A", "A"], "products": ["B"], "prop": {"type": "massaction", "k": "k0"}},
        {"reactants": ["B"], "products": ["A", "A"], "prop": {"type": "massaction", "k": "k1"}}],
     "params": {"k0": 0.3, "k1": 1.0}, "ic": {"A": 7, "B": 0}},
    {"species": ["A", "B", "C"], "reactions": [
        {"reactants": ["A", "B"], "products": ["A", "C"], "prop": {"type": "massaction", "k": "k0"}},
        {"reactants": ["C"], "products": ["B"], "prop": {"type": "massaction", "k": "k1"}},
        {"reactants": ["A", "A", "B"], "products": ["C", "C", "C"], "prop": {"type": "massaction", "k": "k2"}},
        {"reactants": ["C", "C", "C"], "products": ["A", "A", "B"], "prop": {"type": "massaction", "k": "k3"}}],
     "params": {"k0": 0.4, "k1": 0.7, "k2": 0.05, "k3": 0.2}, "ic": {"A": 4, "B": 3, "C": 0}},
    {"species": ["A", "B"], "reactions": [
        {"reactants": ["A"], "products": ["B"], "prop": {"type": "general", "rate": "k0*A/(1+B)"}},
        {"reactants": ["B"], "products": ["A"], "prop": {"type": "proportionalhillpositive", "k": "k1", "K": "K1", "n": "n1", "s1": "A", "d": "B"}},
        {"reactants": ["B"], "products": ["A"], "prop": {"type": "hillnegative", "k": "k2", "K": "K1", "n": "n1", "s1": "A"}}],
     "params": {"k0": 2.0, "k1": 1.0, "K1": 2.0, "n1": 2.0, "k2": 0.0}, "ic": {"A": 5, "B": 1}},
]


# a reaction with a delayed part, run through the simulators that have no delay queue: both parts happen at the firing
# time, so the master equation is the one of the net stoichiometry
FINITE_DELAYED = {"species": ["A", "B"], "reactions": [
    {"reactants": ["A"], "products": [], "dreactants": [], "dproducts": ["B"], "prop": {"type": "massaction", "k": "k0"},
     "delay": {"type": "fixed", "delay": "tau"}},
    {"reactants": ["B"], "products": ["A"], "prop": {"type": "massaction", "k": "k1"}}],
    "params": {"k0": 1.0, "k1": 0.5, "tau": 0.7}, "ic": {"A": 5, "B": 0}}


# a slow process watched over a long time: the total propensity is tiny but not zero
FINITE_SLOW = {"species": ["A", "B"], "reactions": [
    {"reactants": ["A"], "products": ["B"], "prop": {"type": "massaction", "k": "k0"}}],
    "params": {"k0": 1e-9}, "ic": {"A": 3, "B": 0}}


# an enzyme mechanism under the names its species usually carry (the complex's name contains its parts' names)
FINITE_ENZYME = {"species": ["E", "S", "ES", "P"], "reactions": [
    {"reactants": ["E", "S"], "products": ["ES"], "prop": {"type": "massaction", "k": "kf"}},
    {"reactants": ["ES"], "products": ["E", "S"], "prop": {"type": "massaction", "k": "kr"}},
    {"reactants": ["ES"], "products": ["E", "P"], "prop": {"type": "massaction", "k": "kcat"}}],
    "params": {"kf": 1.0, "kr": 0.5, "kcat": 1.0}, "ic": {"E": 1, "S": 3, "ES": 0, "P": 0}}


# 2A + B <-> C with the reactants of the forward reaction written in the order A, B, A
FINITE_INTERLEAVED = {"species": ["A", "B", "C"], "reactions": [
    {"reactants": ["A", "B", "A"], "products": ["C"], "prop": {"type": "massaction", "k": "k0"}},
    {"reactants": ["C"], "products": ["A", "B", "A"], "prop": {"type": "massaction", "k": "k1"}}],
    "params": {"k0": 0.2, "k1": 0.5}, "ic": {"A": 5, "B": 4, "C": 0}}


def corr_network(ctx, spec, T, seeds, safe=False):
    ctx.begin_case({"spec": spec, "grid": [float(t) for t in T], "seeds": seeds, "safe": safe})
    M = build_model(spec)
    dt = float(T[1] - T[0])
    jobs = [sim_job(M, "ssa", T, seed, dt, safe=safe, fuel=simcorr.FUEL, spec=spec) for seed in seeds]
    ans = driver_batch(jobs)
    if any(a.get("status") == "out-of-fuel" for a in ans):
        ctx.count("discarded_unbounded_network")     # explosive dynamics: outside the property's quantifier
        return
    if any(a.get("status") != "ok" for a in ans):
        ctx.broke("corr_C05_model_run", {"spec": spec, "grid": [float(t) for t in T], "seed": seeds[0], "safe": safe,
                                       "difference": str([a.get("status", a.get("error")) for a in ans])})
        return
    reals = [simcorr.run_real(M, "ssa", T, seed, dt, safe=safe) for seed in seeds]
    nev = 0
    for seed, r, a in zip(seeds, reals, ans):
        ctx.evaluated()
        d = simcorr.compare(r, a, "ssa")
        if d is not None:
            ctx.broke("corr_C05_ssa_trajectory_bit_exact", {"spec": spec, "grid": [float(t) for t in T], "seed": seed, "safe": safe, "difference": d})
        changes = int((np.abs(np.diff(r["rows"], axis=0)).sum(axis=1) > 0).sum())
        nev += changes
        if changes > 0:
            ctx.nontriv((str(sorted((x["prop"]["type"], tuple(x["reactants"])) for x in spec["reactions"])), len(T), seed % 7, changes > 3))
    ctx.count("events_between_rows", nev)
    for r in spec["reactions"]:
        ctx.count("prop:" + r["prop"]["type"])
    ctx.sample({"spec": spec, "grid_points": len(T), "seeds": seeds[:3], "row_changes": nev}, cap=4)


def cme_test(ctx, spec, times, nruns, seed0, offset=False, sim_kind="ssa", strided=False, spec_rates=False):
    """G-test of N seeded runs against p0*expm(Q t) at each time and jointly at the first two."""
    from bioscrape.simulator import ModelCSimInterface, SafeModelCSimInterface, SSASimulator, VolumeSSASimulator
    from bioscrape.types import Volume
    from bioscrape.random import py_seed_random
    ctx.begin_case({"cme": spec, "times": list(times), "nruns": nruns, "seed0": seed0, "offset": offset, "simulator": sim_kind, "strided": strided})
    M = build_model(spec)
    I = ModelCSimInterface(M)
    S = np.array(M.py_get_update_array()) + np.array(M.py_get_delay_update_array())
    x0 = np.array(M.get_species_array(), dtype=float)
    if spec_rates:
        # the generator is written down from the reaction definitions (closed forms), not read from the implementation
        from fractions import Fraction
        from props.C01 import closed_form
        from modelspec import spec_matrices
        sl_ = M.get_species_list()
        S = sum(spec_matrices(spec, sl_)).astype(float)
        rate_fn = lambda x: np.array([float(closed_form(r_["prop"], r_["reactants"], {s_: Fraction(int(v_)) for s_, v_ in zip(sl_, x)}, spec["params"], 1)["stoch"]) for r_ in spec["reactions"]])
    else:
        rate_fn = lambda x: I.py_verif_compute_propensities(x, "stoch", 1.0, 0.0)
    states, Q = cme.reachable(x0, S, rate_fn)
    # offset: the grid starts after the initial time 0 - its first row is then a state reached by the events in (0, T0]
    T = np.array(list(times)) if offset else np.array([0.0] + list(times))
    I.py_set_dt(float(T[1] - T[0]))
    if strided:
        T = np.repeat(T, 2)[::2]        # the same times as a non-contiguous view of a longer buffer
    sim = SSASimulator()
    if sim_kind in ("safevolume", "safessa"):
        # the safe interface computes the same rates for mass action at non-negative counts (its guard only zeroes what is zero)
        Isafe = SafeModelCSimInterface(M)
        Isafe.py_set_dt(float(T[1] - T[0]))
    if sim_kind in ("volume", "safevolume"):
        # the volume-aware simulator at constant volume 1 samples the same master equation; its volume ticks (every dt = 1)
        # are coarser than the requested grid, so one step can pass several requested times
        I.py_set_dt(1.0)
        if sim_kind == "safevolume":
            Isafe.py_set_dt(1.0)
        sim = VolumeSSASimulator()
    samples = []
    for i in range(nruns):
        py_seed_random(seed0 + i)
        if sim_kind in ("volume", "safevolume"):
            v = Volume(); v.py_set_volume(1.0)
            res = sim.py_volume_simulate(Isafe if sim_kind == "safevolume" else I, v, T)
        else:
            res = sim.py_simulate(Isafe if sim_kind == "safessa" else I, T)
        samples.append(tuple(map(tuple, np.array(res.py_get_result())[(0 if offset else 1):].astype(int))))
    ctx.evaluated(nruns)
    P = [cme.transient(Q, t) for t in times]
    worst = 1.0
    for k, t in enumerate(times):
        obs = {}
        for s in samples:
            obs[s[k]] = obs.get(s[k], 0) + 1
        exp = {st: float(P[k][0, i]) for i, st in enumerate(states)}
        G, df, p = cme.g_test(obs, exp, nruns)
        worst = min(worst, p)
        if p < ALARM_P:
            ctx.violation("cme/marginal", "distribution of the reported state at t=%g differs from the master equation (G=%.1f, df=%d, p=%.2e, %d runs)" % (t, G, df, p, nruns),
                          {"spec": spec, "time": t, "nruns": nruns, "seed0": seed0, "offset": offset, "simulator": sim_kind, "strided": strided, "all_times": list(times), "G": G, "df": df, "p": p,
                           "observed": {str(k2): v for k2, v in sorted(obs.items())}, "expected": {str(k2): round(v * nruns, 2) for k2, v in exp.items() if v * nruns > 0.01}})
    if len(times) >= 2:
        P12 = cme.transient(Q, times[1] - times[0])
        obs, exp = {}, {}
        for s in samples:
            obs[(s[0], s[1])] = obs.get((s[0], s[1]), 0) + 1
        for i, si in enumerate(states):
            for j, sj in enumerate(states):
                pr = float(P[0][0, i] * P12[i, j])
                if pr > 1e-15:
                    exp[(si, sj)] = pr
        G, df, p = cme.g_test(obs, exp, nruns)
        worst = min(worst, p)
        if p < ALARM_P:
            ctx.violation("cme/joint", "joint distribution at two time points differs from the master equation (G=%.1f, df=%d, p=%.2e)" % (G, df, p),
                          {"spec": spec, "times": list(times[:2]), "nruns": nruns, "seed0": seed0, "offset": offset, "simulator": sim_kind, "strided": strided, "all_times": list(times), "G": G, "df": df, "p": p})
    ctx.count("cme_tests")
    ctx.notes.append("CME G-test %s: %d states, %d runs, min p=%.3g" % ([r["prop"]["type"] for r in spec["reactions"]], len(states), nruns, worst))


def run(ctx):
    rng = ctx.rng
    nnet, nseeds = (30, 6) if ctx.quick() else (400, 40)
    for i in range(nnet):
        spec = simcorr.gen_network(rng)
        T = simcorr.gen_grid(rng)
        seeds = [rng.randint(1, 2**31) for _ in range(nseeds)]
        corr_network(ctx, spec, T, seeds, safe=(spec["needs_safe"] or i % 5 == 4))
    nruns = 3000 if ctx.quick() else 200000
    for k, spec in enumerate(FINITE):
        cme_test(ctx, spec, [0.3, 1.0, 2.5], nruns, 1000 * ctx.seed + 17 * k + 1, strided=bool(k % 2))
    cme_test(ctx, FINITE[0], [0.75, 1.25, 2.5], nruns, 1000 * ctx.seed + 777, offset=True)
    cme_test(ctx, FINITE[1], [0.1, 0.3, 0.6, 1.0, 2.5], nruns, 1000 * ctx.seed + 555, sim_kind="volume")
    cme_test(ctx, FINITE[1], [0.3, 1.0, 2.5], nruns, 1000 * ctx.seed + 666, sim_kind="safevolume")
    cme_test(ctx, FINITE_SLOW, [2e8, 1e9, 2e9], nruns, 1000 * ctx.seed + 222)
    cme_test(ctx, FINITE_DELAYED, [0.3, 1.0, 2.5], nruns, 1000 * ctx.seed + 333)
    cme_test(ctx, FINITE_DELAYED, [0.3, 1.0, 2.5], nruns, 1000 * ctx.seed + 444, sim_kind="volume", strided=True)
    cme_test(ctx, FINITE_ENZYME, [0.5, 2.0, 4.0], nruns, 1000 * ctx.seed + 888, sim_kind="safessa")
    cme_test(ctx, FINITE_ENZYME, [0.5, 2.0, 4.0], nruns, 1000 * ctx.seed + 999, sim_kind="safevolume")
    cme_test(ctx, FINITE_INTERLEAVED, [0.3, 1.0, 2.5], nruns, 1000 * ctx.seed + 1111, spec_rates=True)
    cme_test(ctx, FINITE_INTERLEAVED, [0.3, 1.0, 2.5], nruns, 1000 * ctx.seed + 1212, sim_kind="volume", spec_rates=True)


def replay(ctx, obj):
    rep = obj.get("replay") or obj["broken"][0]["detail"]
    if "grid" in rep:
        corr_network(ctx, rep["spec"], np.array(rep["grid"]), [rep["seed"]], rep.get("safe", False))
    else:
        cme_test(ctx, rep["spec"], rep.get("all_times") or ([0.75, 1.25, 2.5] if rep.get("offset") else [0.3, 1.0, 2.5]), rep.get("nruns", 3000), rep.get("seed0", 1), offset=bool(rep.get("offset")), sim_kind=rep.get("simulator", "ssa"), strided=bool(rep.get("strided")))


def describe(ctx):
    rule = ("bit-exact trajectory correspondence: random networks over A,B,C (1-4 reactions, mass action orders 0..3 with homodimers "
            "and catalysts, Hill x4, general rates) x uniform / dense / sparse / irregular grids x seeds, plain and safe interface; the Lean "
            "loop model driven by the same MT19937-64 stream must reproduce every reported row. Non-trivial = trajectory in which the "
            "state changes between reported rows; distinct by (network, grid size, seed class, >3 changes). Statistical support: "
            "G-test (alarm p<1e-9) of seeded runs against p0*expm(Qt) (marginal at 3 times, joint at 2) on 4 finite-state networks.")
    return rule, {"alarm_p": ALARM_P}, False, ["composition of the one-step laws into the CME solution is not formalised (ssa_exact_partial)",
                                             "twister equidistribution; u = 0 (probability 2^-53) makes sample_discrete return -1"]
