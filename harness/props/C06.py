"""C06 - every stochastic trajectory is a feasible reaction path."""
import numpy as np

from common import driver_batch
from modelspec import build_model, sim_job, spec_matrices
import simcorr


def lattice_member(S, d):
    """Is d a non-negative integer combination of the columns of S?  (exact, small systems)"""
    from scipy.optimize import milp, LinearConstraint, Bounds
    if not np.any(d):
        return True
    if S.shape[1] == 0:
        return False
    res = milp(c=np.ones(S.shape[1]), constraints=LinearConstraint(S, d, d), integrality=np.ones(S.shape[1]),
               bounds=Bounds(0, np.inf))
    return bool(res.success)


def conservation_vectors(S):
    import sympy
    ns = sympy.Matrix(S.T.astype(int).tolist()).nullspace() if S.shape[1] else [sympy.eye(S.shape[0])[:, i] for i in range(S.shape[0])]
    out = []
    for v in ns:
        den = sympy.ilcm(*[sympy.Rational(x).q for x in v]) if len(v) else 1
        out.append(np.array([int(x * den) for x in v], dtype=float))
    return out


def with_counters(spec):
    """add an immediate counting product Cnt_j to every reaction: firings become visible in the rows."""
    s2 = dict(spec)
    s2["reactions"] = []
    for j, r in enumerate(spec["reactions"]):
        r2 = dict(r)
        r2["products"] = list(r["products"]) + ["Cnt%d" % j]
        s2["reactions"].append(r2)
    s2["species"] = list(spec["species"]) + ["Cnt%d" % j for j in range(len(spec["reactions"]))]
    s2["ic"] = dict(spec["ic"])
    return s2


def monitor(ctx, spec, M, kind, T, seed, safe, rows, where, reused=False, dividing=None):
    """the property stated on implementation output."""
    sl = M.get_species_list()
    # the stoichiometries the trajectory is held against come from the reaction definition, not from the model object
    U, D = spec_matrices(spec, sl)
    S = U + D
    x0 = np.array([float(spec["ic"].get(s_, 0)) for s_ in sl])
    rep = {"spec": spec, "kind": kind, "grid": [float(t) for t in T], "seed": seed, "safe": safe, "model_reused": reused, "dividing": dividing}
    if np.any(rows != np.round(rows)):
        ctx.violation("integrality/" + kind, "a reported count is not an integer", dict(rep, rows=rows.tolist()[:5]))
        return
    cols = np.hstack([U, D]) if kind in ("delay", "delayvolume") else S
    prev = x0
    for i in range(rows.shape[0]):
        d = rows[i] - prev
        if not lattice_member(cols, d):
            ctx.violation("lattice/" + kind, "row %d differs from the previous row by a vector that is not a non-negative integer combination of the stoichiometries" % i,
                          dict(rep, row=i, previous=prev.tolist(), current=rows[i].tolist()))
            return
        prev = rows[i]
    if kind in ("ssa", "volume"):
        for w in conservation_vectors(S):
            vals = rows @ w
            if np.any(vals != x0 @ w):
                ctx.violation("conservation/" + kind, "a linear conservation law of the network is not constant along the trajectory",
                              dict(rep, weights=w.tolist(), values=vals.tolist()[:8], initial=float(x0 @ w)))
                return
    all_ma = all(r["prop"]["type"] == "massaction" for r in spec["reactions"])
    if (all_ma or safe) and np.any(rows < 0):
        ctx.violation("negative/" + kind + ("/safe" if safe else ""), "a negative count is reported", dict(rep, rows=rows.tolist()[:8]))
        return
    # absorbing: zero total propensity (time-independent rates, no rules) persists
    if kind == "ssa" and not spec.get("rules"):
        from bioscrape.simulator import ModelCSimInterface, SafeModelCSimInterface
        I = (SafeModelCSimInterface if safe else ModelCSimInterface)(M)
        for i in range(rows.shape[0] - 1):
            a = I.py_verif_compute_propensities(rows[i].copy(), "stoch", 1.0, 0.0)
            if float(np.sum(a)) == 0.0:
                if np.any(rows[i + 1:] != rows[i]):
                    ctx.violation("absorbing/" + kind, "a state with zero total propensity did not persist", dict(rep, row=i, state=rows[i].tolist()))
                ctx.count("absorbing_states_seen")
                break


def safe_complement(ctx, spec, T, seed, kind="ssa"):
    """safe mode: no reaction fires without its full complement of reactants.  Counting products make
    firings visible; on a dense grid an interval with exactly one firing shows the pre-firing state."""
    s2 = with_counters(spec)
    M = build_model(s2)
    dt = float(T[1] - T[0])
    r = simcorr.run_real(M, kind, T, seed, dt, safe=True, vol0=1.5)
    sl = M.get_species_list()
    rows = r["rows"]
    cnt = [sl.index("Cnt%d" % j) for j in range(len(spec["reactions"]))]
    x0 = np.array(M.get_species_array(), dtype=float)
    prev = x0
    for i in range(rows.shape[0]):
        dc = rows[i, cnt] - prev[cnt]
        if dc.sum() == 1:
            j = int(np.argmax(dc))
            rx = spec["reactions"][j]
            need = {}
            for s in list(rx["reactants"]) + list(rx.get("dreactants", [])):
                need[s] = need.get(s, 0) + 1
            ctx.count("single_firings_checked")
            for s, n in need.items():
                if prev[sl.index(s)] < n:
                    sig = "safe-complement/catalyst" if (rx["products"].count(s) >= rx["reactants"].count(s)) else "safe-complement/consumed"
                    ctx.violation(sig, "safe mode (%s): reaction %d fired with %g copies of %s, needs %d" % (kind, j, prev[sl.index(s)], s, n),
                                  {"spec": s2, "grid": [float(t) for t in T], "seed": seed, "row": i, "reaction": j, "kind": kind,
                                   "state_before": dict(zip(sl, prev.tolist()))})
                    return
        prev = rows[i]


def one(ctx, spec, kind, T, seeds, safe, M=None, dividing=None):
    """dividing: (cycle, division volume) of a StochasticTimeThresholdVolume - the run ends when the cell divides."""
    reused = M is not None
    ctx.begin_case({"spec": spec, "kind": kind, "grid": [float(t) for t in T], "seeds": seeds, "safe": safe, "model_reused": M is not None, "dividing": dividing})
    M = build_model(spec) if M is None else M
    dt = float(T[1] - T[0])
    vj, vfac = None, None
    if dividing is not None:
        from props import C11
        vargs = {"cycle": dividing[0], "avg": dividing[1], "noise": 0.0}
        vj = C11.volmodel_json("stt", M, vargs)
        x0_ = np.array(M.get_species_array(), dtype=float)
        vfac = lambda M_: C11.make_volume("stt", M_, vargs, 1.0, x0_)
    jobs = [sim_job(M, kind, T, s, dt, safe=safe, fuel=simcorr.FUEL, spec=spec, volmodel=vj) for s in seeds]
    ans = driver_batch(jobs)
    if any(a.get("status") == "out-of-fuel" for a in ans):
        ctx.count("discarded_unbounded_network")
        return
    if any(a.get("status") != "ok" for a in ans):
        ctx.broke("corr_C06_model_run_" + kind, {"spec": spec, "kind": kind, "grid": [float(t) for t in T], "seed": seeds[0], "safe": safe,
                                                 "difference": str([a.get("status", a.get("error")) for a in ans])})
        return
    for s, a in zip(seeds, ans):
        r = simcorr.run_real(M, kind, T, s, dt, safe=safe, volume_factory=vfac)
        ctx.evaluated()
        d = simcorr.compare(r, a, kind)
        if dividing is not None:
            ctx.count("dividing_cell_runs")
            if len(r["rows"]) < len(T):
                ctx.count("dividing_cell_runs_truncated")
        if d is not None:
            ctx.broke("corr_C06_trajectory_bit_exact_" + kind, {"spec": spec, "kind": kind, "grid": [float(t) for t in T], "seed": s, "safe": safe, "model_reused": reused, "dividing": dividing, "difference": d})
        monitor(ctx, spec, M, kind, T, s, safe, r["rows"], kind, reused=reused, dividing=dividing)
        if np.any(np.diff(r["rows"], axis=0) != 0):
            ctx.nontriv((kind, safe, str(sorted((x["prop"]["type"], tuple(x["reactants"])) for x in spec["reactions"])), s % 5))
    ctx.count("runs:" + kind + ("/safe" if safe else ""), len(seeds))


def dspec_for(rng, spec):
    return add_delays(rng, spec)


def add_delays(rng, spec):
    """give some reactions a delayed part (fixed delay)."""
    s2 = dict(spec, reactions=[dict(r) for r in spec["reactions"]], params=dict(spec["params"]))
    for j, r in enumerate(s2["reactions"]):
        if rng.chance(1, 2) and r["products"]:
            r["dproducts"] = [r["products"][-1]]
            r["products"] = r["products"][:-1]
            r["dreactants"] = []
            r["delay"] = {"type": "fixed", "delay": "tau%d" % j}
            s2["params"]["tau%d" % j] = rng.choice([0.05, 0.3, 1.0, 4.0])
    return s2


def complement_family(ctx):
    """every way a species can be listed m times among the reactants and handed back `ret` times among the products
    (consumed, partly returned, pure catalyst), with a rate that does not vanish at low counts, from every starting count
    around m, in the four simulators: the reaction never fires with fewer than m copies present."""
    Td = np.linspace(0, 2.0, 401)
    for m in (1, 2, 3):
        for ret in range(0, m + 1):
            for other in ([], ["B"]):
                for a0 in range(0, m + 2):
                    spec = {"species": ["A", "B", "C"],
                            "reactions": [{"reactants": ["A"] * m + other, "products": ["A"] * ret + ["C"], "prop": {"type": "general", "rate": "k0"}}],
                            "params": {"k0": 4.0}, "ic": {"A": a0, "B": 3, "C": 0}, "needs_safe": True}
                    for kind in ("ssa", "volume", "delay", "delayvolume"):
                        ctx.begin_case({"spec": spec, "kind": kind, "family": "complement", "m": m, "returned": ret})
                        before = len(ctx.violations)
                        safe_complement(ctx, spec, Td, 7 + a0, kind=kind)
                        ctx.evaluated()
                        if len(ctx.violations) > before:
                            return
                    ctx.nontriv(("complement", m, ret, bool(other), a0 >= m))
    ctx.count("complement_family_cases", 3 * 4)


def exhaustion_family(ctx):
    """mass-action reactions that take one species twice (or two species twice each), the reactants listed in every order,
    run from small odd counts until nothing can fire any more: the last copy of a species that is needed twice stays, no count
    goes below zero, every row is reachable."""
    import itertools
    T = np.linspace(0, 40.0, 41)
    for multiset in (["A", "A", "B"], ["A", "A", "B", "B"], ["A", "A", "A", "B"]):
        for reac in sorted(set(itertools.permutations(multiset))):
            spec = {"species": ["A", "B", "C"], "reactions": [{"reactants": list(reac), "products": ["C"], "prop": {"type": "massaction", "k": "k0"}}],
                    "params": {"k0": 0.5}, "ic": {"A": 7, "B": 20, "C": 0}, "needs_safe": False}
            for kind in ("ssa", "volume", "delay"):
                before = len(ctx.violations)
                one(ctx, spec, kind, T, [11, 12], False)
                if len(ctx.violations) > before:
                    return
            ctx.count("exhaustion_family_orders")


def parameter_rule_family(ctx):
    """rules that write parameters (never species): a rate constant kept equal to a product of two others by an assignment
    rule, one driven by an ODE rule.  No rule overwrites a species, so every row change is a combination of the reactions'
    stoichiometries, counts stay integer and A + B is conserved - in every simulator, the volume-aware ones included."""
    T = np.linspace(0, 4.0, 41)
    for rules in ([{"type": "assignment", "attrs": {"equation": "kf = kfb*gain"}}],
                  [{"type": "assignment", "attrs": {"equation": "kf = kfb*gain"}}, {"type": "ode", "attrs": {"equation": "0.1*gain", "target": "kr"}}]):
        spec = {"species": ["A", "B"], "reactions": [
            {"reactants": ["A"], "products": ["B"], "prop": {"type": "massaction", "k": "kf"}},
            {"reactants": ["B"], "products": ["A"], "prop": {"type": "massaction", "k": "kr"}}],
            "params": {"kf": 0.0, "kr": 1.0, "kfb": 1.25, "gain": 2.0}, "ic": {"A": 12, "B": 8}, "rules": rules, "needs_safe": False}
        for kind, safe in (("ssa", False), ("ssa", True), ("volume", False), ("volume", True), ("delay", False), ("delayvolume", False)):
            for seed in (11, 12):
                ctx.begin_case({"spec": spec, "kind": kind, "grid": [float(t) for t in T], "seed": seed, "safe": safe, "family": "parameter rules"})
                M = build_model(spec)
                r = simcorr.run_real(M, kind, T, seed, float(T[1] - T[0]), safe=safe)
                ctx.evaluated()
                before = len(ctx.violations)
                rows = r["rows"]
                x0 = np.array([float(spec["ic"][s_]) for s_ in M.get_species_list()])
                if len(rows) and np.any(rows[0] != x0):
                    ctx.violation("first-row/" + kind, "the first reported row %s is not the initial state %s (no rule writes a species)" % (rows[0].tolist(), x0.tolist()),
                                  {"spec": spec, "kind": kind, "grid": [float(t) for t in T], "seed": seed, "safe": safe})
                    return
                monitor(ctx, spec, M, kind, T, seed, safe, rows, kind)
                if len(ctx.violations) > before:
                    return
        ctx.count("parameter_rule_family")


def run(ctx):
    rng = ctx.rng
    nnet, nseeds = (24, 3) if ctx.quick() else (300, 12)
    for i in range(nnet):
        spec = simcorr.gen_network(rng)
        T = simcorr.gen_grid(rng)
        if len(T) < 2 or np.ptp(np.diff(T)) > 1e-9:
            T = np.linspace(0, float(T[-1]) if T[-1] > 0 else 1.0, 21)
        seeds = [rng.randint(1, 2**31) for _ in range(nseeds)]
        safe = bool(spec["needs_safe"])
        one(ctx, spec, "ssa", T, seeds, safe)
        one(ctx, spec, "ssa", T, seeds, True)
        one(ctx, spec, "volume", T, seeds, safe)
        if i % 3 == 1:
            # a growing cell that divides about half way: every reported row up to the division is a feasible state
            half = float(T[len(T) // 2]) if T[len(T) // 2] > 0 else 1.0
            one(ctx, spec, "volume", T, seeds[:2], safe, dividing=(half, 2.0))
            one(ctx, dspec_for(rng, spec), "delayvolume", T, seeds[:2], safe, dividing=(half, 2.0))
        dspec = add_delays(rng, spec)
        one(ctx, dspec, "delay", T, seeds, safe)
        if i % 3 == 0:
            # one model object handed to one simulator after the other, as a session does (simulators without a queue
            # apply the delayed part at the firing time)
            Md = build_model(dspec)
            for kind in ("volume", "ssa", "delayvolume", "volume", "delay"):
                one(ctx, dspec, kind, T, seeds[:2], safe, M=Md)
        if i % 2 == 0:
            Td = np.linspace(0, 2.0, 401)
            safe_complement(ctx, spec, Td, seeds[0])
    # a chain whose steps are governed by one rate constant (in user code: one dict object handed to every step)
    chain = {"species": ["A", "B", "C"], "reactions": [
        {"reactants": ["A"], "products": ["B"], "prop": {"type": "massaction", "k": "k0"}},
        {"reactants": ["B"], "products": ["C"], "prop": {"type": "massaction", "k": "k0"}},
        {"reactants": ["C"], "products": [], "prop": {"type": "massaction", "k": "k0"}}],
        "params": {"k0": 1.0}, "ic": {"A": 30, "B": 0, "C": 0}, "needs_safe": False}
    for kind in ("ssa", "volume", "delay"):
        one(ctx, chain, kind, np.linspace(0, 5.0, 51), [rng.randint(1, 2**31) for _ in range(2)], False)
    complement_family(ctx)
    exhaustion_family(ctx)
    parameter_rule_family(ctx)


def replay(ctx, obj):
    rep = obj.get("replay") or obj["broken"][0]["detail"]
    if "state_before" in rep:
        spec = dict(rep["spec"])
        # strip the counters again
        n = len(spec["reactions"])
        spec["species"] = [s for s in spec["species"] if not s.startswith("Cnt")]
        spec["reactions"] = [dict(r, products=[p for p in r["products"] if not p.startswith("Cnt")]) for r in spec["reactions"]]
        safe_complement(ctx, spec, np.array(rep["grid"]), rep["seed"], kind=rep.get("kind", "ssa"))
    elif rep.get("dividing"):
        one(ctx, rep["spec"], rep.get("kind", "volume"), np.array(rep["grid"]), [rep["seed"]], rep.get("safe", False), dividing=tuple(rep["dividing"]))
    elif rep.get("model_reused"):
        Md = build_model(rep["spec"])
        for kind in ("volume", "ssa", "delayvolume", "volume", "delay"):
            one(ctx, rep["spec"], kind, np.array(rep["grid"]), [rep["seed"]], rep.get("safe", False), M=Md)
    else:
        one(ctx, rep["spec"], rep.get("kind", "ssa"), np.array(rep["grid"]), [rep["seed"]], rep.get("safe", False))


def describe(ctx):
    rule = ("random networks over A,B,C (all propensity types; consuming non-mass-action reactions only in safe mode) x uniform grids x "
            "seeds, run through the plain SSA, safe SSA, volume (constant V), delay and delay+volume simulators, also with one model object handed to one simulator after the other; on every reported row of the "
            "implementation: integrality, membership of each row difference in the non-negative integer cone of the stoichiometric "
            "columns (exact MILP feasibility), every left-null-space conservation law, non-negativity (mass action / safe), persistence "
            "of zero-propensity states; safe mode with counting products on a dense grid: every single firing had its full complement "
            "of reactants. The same runs are compared bit for bit with the Lean loop models. Non-trivial = trajectory with a state change.")
    return rule, {}, False, ["mass-action non-negativity is monitored on the implementation and follows from the falling-factorial lemma of C01; its loop-level Lean statement is not yet proved (listed as future work in DESIGN.md)"]
