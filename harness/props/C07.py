"""C07 - every simulation mode returns a complete, correctly labelled result."""
import itertools
import os

import numpy as np

import common
from common import driver_batch
from modelspec import build_model
from extract import result_fields


USES_GENERATED = True     # Properties/C07.lean states theorems about Generated/ResultFields.lean


MODELS = {
    "plain": {"species": ["X", "Y"], "reactions": [
        {"reactants": ["X"], "products": ["Y"], "prop": {"type": "massaction", "k": "k"}},
        {"reactants": ["Y"], "products": ["X"], "prop": {"type": "massaction", "k": "k2"}}],
        "params": {"k": 1.0, "k2": 0.5}, "ic": {"X": 5, "Y": 1}},
    "delays": {"species": ["Y", "X"], "reactions": [
        {"reactants": ["X"], "products": [], "dreactants": [], "dproducts": ["Y"], "prop": {"type": "massaction", "k": "k"},
         "delay": {"type": "fixed", "delay": "tau"}},
        {"reactants": ["Y"], "products": ["X"], "prop": {"type": "massaction", "k": "k2"}}],
        "params": {"k": 1.0, "k2": 0.5, "tau": 0.3}, "ic": {"X": 5, "Y": 1}},
    "rules": {"species": ["X", "Y", "S", "R", "Q", "D", "Xc"], "reactions": [
        {"reactants": ["X"], "products": ["Y"], "prop": {"type": "massaction", "k": "k"}},
        {"reactants": ["Y"], "products": ["X"], "prop": {"type": "massaction", "k": "k2"}}],
        "params": {"k": 1.0, "k2": 0.5, "iv": 1.0}, "ic": {"X": 5, "Y": 1, "S": 0, "R": 0, "Q": 0, "D": 0, "Xc": 0},
        # Xc = X * iv with the parameter iv = 1/volume: 5 / V where a volume is in play (stochastic or delay mode with a volume
        # given as number 2.5 or object 1.5), 5 otherwise
        "first": {"X": 5.0, "Y": 1.0, "S": 6.0, "R": 5.0, "Q": 8.0, "D": 11.0, "Xc": ("per_volume", 5.0)},
        # a repeated rule, a rule that reads the time, a rule that fires at the start only, and an assignment rule of frequency dt
        "rules": [{"type": "additive", "attrs": {"equation": "S = X + Y"}}, {"type": "assignment", "attrs": {"equation": "R = 5 + 2*t"}},
                  {"type": "assignment", "attrs": {"equation": "Q = 7 + k"}, "frequency": "start"},
                  {"type": "assignment", "attrs": {"equation": "D = 2*X + 1"}, "frequency": "dt"},
                  {"type": "assignment", "attrs": {"equation": "iv = 1/volume"}},
                  {"type": "assignment", "attrs": {"equation": "Xc = X*iv"}}]},
    "both": {"species": ["S", "X", "Y"], "reactions": [
        {"reactants": ["X"], "products": [], "dreactants": [], "dproducts": ["Y"], "prop": {"type": "massaction", "k": "k"},
         "delay": {"type": "gamma", "k": "gk", "theta": "gt"}},
        {"reactants": ["Y"], "products": ["X"], "prop": {"type": "massaction", "k": "k2"}}],
        "params": {"k": 1.0, "k2": 0.5, "gk": 2.0, "gt": 0.1}, "ic": {"X": 5, "Y": 1, "S": 0}, "first": {"X": 5.0, "Y": 1.0, "S": 11.0},
        "rules": [{"type": "assignment", "attrs": {"equation": "S = 2*X + Y"}}]},
    "zero": {"species": ["X", "Y"], "reactions": [          # nothing can fire at the initial state
        {"reactants": ["X", "Y"], "products": ["Y"], "prop": {"type": "massaction", "k": "k"}}],
        "params": {"k": 1.0}, "ic": {"X": 0, "Y": 3}},
}
GRIDS = {"2": np.array([0.0, 1.0]), "5": np.linspace(0, 2.0, 5), "50": np.linspace(0, 5.0, 50)}
VOLS = ["off", "true", "number", "object"]


def lattice():
    for stochastic, delay, safe, vol, df, use_model in itertools.product([True, False], [True, False], [True, False], VOLS,
                                                                        [True, False], [True, False]):
        yield {"stochastic": stochastic, "delay": delay, "safe": safe, "volume": vol, "dataframe": df,
               "model": use_model, "interface": not use_model}


def call_real(M, opts, T, interface=None, volume_object=None, strided=False):
    from bioscrape.simulator import py_simulate_model, ModelCSimInterface, SafeModelCSimInterface
    from bioscrape.types import Volume
    from bioscrape.random import py_seed_random
    kw = {"stochastic": opts["stochastic"], "delay": opts["delay"], "safe": opts["safe"], "return_dataframe": opts["dataframe"]}
    if opts["volume"] == "off":
        kw["volume"] = False
    elif opts["volume"] == "true":
        kw["volume"] = True
    elif opts["volume"] == "number":
        kw["volume"] = 2.5
    else:
        v = Volume()
        v.py_set_volume(1.5)
        kw["volume"] = v
    if volume_object is not None:
        kw["volume"] = volume_object
    if opts["model"]:
        kw["Model"] = M
    if opts["interface"]:
        kw["Interface"] = interface if interface is not None else (SafeModelCSimInterface if opts["safe"] else ModelCSimInterface)(M)
    py_seed_random(11)
    try:
        # (strided: the same requested times as a non-contiguous view of a longer buffer)
        res = py_simulate_model(np.repeat(T, 2)[::2] if strided else T.copy(), **kw)
    except ValueError as e:
        msg = str(e)
        if "requires either a Model" in msg:
            return {"outcome": "optionError", "msg": msg}
        return {"outcome": "internalError", "msg": "ValueError: " + msg}
    except Exception as e:       # anything else comes from inside
        return {"outcome": "internalError", "msg": "%s: %s" % (type(e).__name__, e)}
    out = {"outcome": "result", "class": type(res).__name__ if not opts["dataframe"] else "DataFrame"}
    if opts["dataframe"]:
        out["columns"] = [str(c) for c in res.columns]
        out["rows"] = int(res.shape[0])
        out["time"] = [None if t is None else float(t) for t in res["time"].tolist()] if "time" in res.columns else None
        sp = [c for c in res.columns if c not in ("time", "volume")]
        out["first"] = [float(res[c].iloc[0]) for c in sp]
    else:
        tp = res.py_get_timepoints()
        out["time"] = None if tp is None else [float(t) for t in tp]
        r = np.array(res.py_get_result())
        out["rows"] = int(r.shape[0])
        out["ncols"] = int(r.shape[1])
        out["first"] = [float(v) for v in r[0]]
        out["hasVolume"] = hasattr(res, "py_get_volume")
        if out["hasVolume"]:
            out["nvolume"] = len(res.py_get_volume())
    return out


def dividing_volume(ctx):
    """a volume object that divides half way through the grid: the result has one row per requested time point up to the
    division, a time axis that is that prefix of the requested times, and a volume trace of the same length - in every
    stochastic mode that accepts a volume object, with and without delay, as data frame and as result object."""
    from bioscrape.types import StochasticTimeThresholdVolume
    T = np.linspace(0, 20.0, 41)
    for mname in ("plain", "delays", "rules"):
        spec = MODELS[mname]
        for delay in (False, True):
            for safe in (False, True):
                for dataframe in (True, False):
                    for strided in (False, True):
                        opts = {"stochastic": True, "delay": delay, "safe": safe, "volume": "object", "dataframe": dataframe, "model": True, "interface": False}
                        case = {"model": mname, "options": opts, "volume_object": "StochasticTimeThresholdVolume(cycle 10, divides at V=2, no noise)", "strided_grid": strided}
                        ctx.begin_case(case)
                        M = build_model(spec)
                        v = StochasticTimeThresholdVolume(10.0, 2.0, 0.0)
                        v.py_initialize(np.array(M.get_species_array(), dtype=float), M.get_parameter_values(), 0.0, 1.0)
                        real = call_real(M, opts, T, volume_object=v, strided=strided)
                        ctx.evaluated()
                        if real["outcome"] != "result":
                            ctx.violation("entry/dividing-volume/" + real["outcome"], "a dividing volume object with delay=%s safe=%s dataframe=%s fails from inside: %s"
                                          % (delay, safe, dataframe, real.get("msg")), dict(case, observed=real))
                            return
                        n = real["rows"]
                        tm = real["time"]
                        ok = (tm is not None and len(tm) == n and tm == [float(t) for t in T[:n]] and 15 <= n <= 25
                              and (dataframe or real.get("nvolume") == n))
                        if not ok:
                            ctx.violation("entry/dividing-volume/shape", "a dividing volume object (division near t=10 of 0..20) with delay=%s safe=%s dataframe=%s: %d rows, "
                                          "time axis of length %s (prefix of the request: %s), volume trace %s" % (delay, safe, dataframe, n, None if tm is None else len(tm),
                                          tm is not None and tm == [float(t) for t in T[:len(tm)]], real.get("nvolume")), dict(case, observed={k: real[k] for k in real if k != "first"}))
                            return
                        ctx.count("dividing_volume_cases")


def volume_in_play(opts):
    if opts is None or not (opts.get("stochastic") or opts.get("delay")):
        return 1.0
    return {"number": 2.5, "object": 1.5}.get(opts.get("volume"), 1.0)


def expected_first_row(M, T, spec=None, opts=None):
    """the initial condition with assignment rules applied: written out by hand for the models with rules (independent of the
    implementation), the plain initial condition otherwise."""
    if spec is not None and "first" in spec:
        val = lambda v: (v[1] / volume_in_play(opts)) if isinstance(v, tuple) else float(v)
        return [val(spec["first"][s]) for s in M.get_species_list()]
    if spec is not None and not spec.get("rules"):
        return [float(spec["ic"].get(s, 0)) for s in M.get_species_list()]
    from bioscrape.simulator import ModelCSimInterface
    I = ModelCSimInterface(M)
    x = np.array(M.get_species_array(), dtype=float).copy()
    I.py_apply_repeated_rules(x, 0.0, True)
    return [float(v) for v in x]


def run(ctx):
    cases = []
    for mname, spec in MODELS.items():
        for gname, T in GRIDS.items():
            if ctx.quick() and gname == "50" and mname in ("rules", "zero"):
                continue
            for opts in lattice():
                cases.append((mname, gname, opts))
    # plus the combinations outside the lattice
    extra = [{"stochastic": True, "delay": False, "safe": False, "volume": "off", "dataframe": True, "model": a, "interface": a} for a in (True, False)]
    jobs = []
    reals = []
    for mname, gname, opts in cases + [("plain", "5", e) for e in extra]:
        spec, T = MODELS[mname], GRIDS[gname]
        ctx.begin_case({"model": mname, "grid": gname, "options": opts})
        M = build_model(spec)
        sl = M.get_species_list()
        first = expected_first_row(M, T, spec, opts)
        M = build_model(spec)
        real = call_real(M, opts, T, strided=(len(reals) % 2 == 1)) if (opts["model"] or opts["interface"]) else call_real_neither(opts, T)
        if opts["model"] and opts["interface"]:
            pass
        reals.append((mname, gname, opts, real, sl, first, T))
        jobs.append(dict(opts, op="entry", species=sl))
    ans = driver_batch(jobs)
    for (mname, gname, opts, real, sl, first, T), a in zip(reals, ans):
        ctx.evaluated()
        rep = {"model": mname, "grid": gname, "options": opts, "implementation": real}
        in_lattice = opts["model"] != opts["interface"]
        sig = "entry/%s/%s" % (real["outcome"], "+".join(k for k in ("stochastic", "delay", "safe") if opts[k]) + "/vol=" + opts["volume"])
        # ---------------- the property on the implementation
        if in_lattice:
            if real["outcome"] != "result":
                ctx.violation("entry/internal-error/" + ("delay+" if opts["delay"] else "") + "volume=" + opts["volume"],
                              "option combination fails from inside: %s" % real.get("msg"), rep)
                continue
            if real["rows"] != len(T):
                ctx.violation("entry/rows", "result has %d rows for %d requested time points" % (real["rows"], len(T)), rep)
                continue
            if real["time"] is None or any(t is None for t in real["time"]) or not np.array_equal(np.array(real["time"], dtype=float), T):
                ctx.violation("entry/time-axis/" + ("delay" if opts["delay"] else "other"), "time axis of the result is not the requested time points", rep)
                continue
            vol_expected = opts["volume"] != "off" and (opts["stochastic"] or opts["delay"])
            if opts["dataframe"]:
                names = sl if opts["model"] else [str(i) for i in range(len(sl))]
                want = names + ["time"] + (["volume"] if vol_expected else [])
                if real["columns"] != want:
                    ctx.violation("entry/columns", "data frame columns %s, expected %s" % (real["columns"], want), rep)
                    continue
            else:
                if real["ncols"] != len(sl) or real["hasVolume"] != vol_expected:
                    ctx.violation("entry/columns", "result object has %d columns / volume=%s" % (real["ncols"], real["hasVolume"]), rep)
                    continue
            if not np.allclose(real["first"], first, rtol=1e-7, atol=1e-9):
                ctx.violation("entry/first-row", "first row %s is not the initial condition with rules applied %s" % (real["first"], first), rep)
                continue
        else:
            if real["outcome"] != "optionError":
                ctx.violation("entry/bad-source-accepted", "neither/both of Model and Interface not rejected with an option error", rep)
                continue
        # ---------------- correspondence with the Lean entry-point model
        if "error" in a:
            ctx.broke("corr_C07_driver", {"options": opts, "error": a["error"]})
            continue
        if a["outcome"] != real["outcome"]:
            ctx.broke("corr_C07_outcome", {"options": opts, "model_says": a, "implementation": real})
            continue
        if a["outcome"] == "result":
            cls = a["class"].split(".")[-1]
            if not opts["dataframe"] and cls != real["class"]:
                ctx.broke("corr_C07_result_class", {"options": opts, "model_says": cls, "implementation": real["class"]})
            if opts["dataframe"] and a["columns"] != real["columns"]:
                ctx.broke("corr_C07_columns", {"options": opts, "model_says": a["columns"], "implementation": real["columns"]})
            if a["timeAxis"] != (real["time"] is not None and all(t is not None for t in real["time"])):
                ctx.broke("corr_C07_time_axis", {"options": opts, "model_says": a["timeAxis"], "implementation": real["time"]})
        ctx.nontriv((mname, gname, tuple(sorted(opts.items()))))
        ctx.count("outcome:" + real["outcome"])
        ctx.sample({"model": mname, "grid": gname, "options": opts, "outcome": real["outcome"]}, cap=3)
    session_pass(ctx)
    dividing_volume(ctx)
    built_in_steps(ctx)
    long_interval_deterministic(ctx)


def session_pass(ctx):
    """the same Model object (and the same pre-built interfaces) taken through the whole lattice, as a user session does:
    every call's first row must still be the specified initial condition with rules applied, its time axis the request."""
    from bioscrape.simulator import ModelCSimInterface, SafeModelCSimInterface
    for mname, spec in MODELS.items():
        T = GRIDS["5"]
        first = expected_first_row(build_model(spec), T, spec)
        M = build_model(spec)
        kept = {False: ModelCSimInterface(M), True: SafeModelCSimInterface(M)}
        history = []
        for opts in lattice():
            ctx.begin_case({"model": mname, "grid": "5", "options": opts, "session": True, "earlier_calls": len(history)})
            real = call_real(M, opts, T, interface=kept[opts["safe"]] if opts["interface"] else None)
            ctx.evaluated()
            history.append(opts)
            if real["outcome"] != "result":
                continue                       # decided by the fresh-model pass
            rep = {"model": mname, "grid": "5", "options": opts, "session": True, "implementation": real, "earlier_calls": history[-6:-1]}
            if real["rows"] != len(T) or real["time"] is None or not np.array_equal(np.array(real["time"], dtype=float), T):
                ctx.violation("entry/session/shape", "after earlier calls on the same model the result has a different shape or time axis", rep)
                return
            first = expected_first_row(M, T, spec, opts)
            if not np.allclose(real["first"], first, rtol=1e-7, atol=1e-9):
                ctx.violation("entry/session/first-row", "after earlier calls on the same model the first row %s is no longer the initial condition "
                              "with rules applied %s" % (real["first"], first), rep)
                return
            ctx.count("session_calls")
        ctx.nontriv(("session", mname))


STEPWISE = {"species": ["A", "B", "C", "X"], "reactions": [
    {"reactants": [], "products": ["X"], "prop": {"type": "massaction", "k": "kb"}},
    {"reactants": ["X"], "products": [], "prop": {"type": "massaction", "k": "kd"}}],
    "params": {"kb": 2.0, "kd": 0.4}, "ic": {"A": 0, "B": 1, "C": 0, "X": 5},
    # a chain of rules whose result depends on how often a pass runs them: one pass in the given order from B = 1 gives
    # A = 1, B = 3, C = 1 + 2*3
    "first": {"A": 1.0, "B": 3.0, "C": 7.0, "X": 5.0},
    "rules": [{"type": "assignment", "attrs": {"equation": "A = B"}}, {"type": "assignment", "attrs": {"equation": "B = 3 + t"}},
              {"type": "assignment", "attrs": {"equation": "C = A + 2*B"}}]}


def built_in_steps(ctx):
    """the same system written down in one go, and in steps (the rules and one reaction in the constructor, the other reaction
    added afterwards; also after a first simulation): every option combination's first row is the initial condition with each
    rule applied once."""
    T = GRIDS["5"]
    for how in ("one-go", "reaction-added", "reaction-added-after-a-run"):
        def make():
            if how == "one-go":
                return build_model(STEPWISE)
            part = dict(STEPWISE, reactions=STEPWISE["reactions"][:1])
            M = build_model(part)
            if how == "reaction-added-after-a-run":
                call_real(M, {"stochastic": False, "delay": False, "safe": False, "volume": "off", "dataframe": False, "model": True, "interface": False}, T)
                M.set_species({k: float(v) for k, v in STEPWISE["ic"].items()})
            M.create_reaction(["X"], [], "massaction", {"k": "kd"})
            return M
        for opts in lattice():
            ctx.begin_case({"model": "stepwise", "built": how, "options": opts})
            M = make()
            first = expected_first_row(M, T, STEPWISE, opts)
            real = call_real(M, opts, T)
            ctx.evaluated()
            if real["outcome"] != "result":
                ctx.violation("entry/stepwise/internal-error", "model built as %s: %s" % (how, real.get("msg")), {"built": how, "options": opts, "implementation": real})
                return
            if not np.allclose(real["first"], first, rtol=1e-7, atol=1e-9):
                ctx.violation("entry/stepwise/first-row", "model built as %s: first row %s is not the initial condition with each rule applied once %s"
                              % (how, real["first"], first), {"built": how, "options": opts, "implementation": real})
                return
            ctx.count("stepwise:" + how)
        ctx.nontriv(("stepwise", how))


def long_interval_deterministic(ctx):
    """deterministic runs whose requested time points lie hundreds of thousands of solver steps apart (inside the
    simulator's step budget): a complete result of numbers whose first row is the initial condition, whichever way the call
    is made."""
    import warnings
    from bioscrape.simulator import ModelCSimInterface
    spec = {"species": ["X", "Y"], "reactions": [
        {"reactants": [], "products": ["X"], "prop": {"type": "general", "rate": "w*c"}},
        {"reactants": ["X"], "products": [], "prop": {"type": "general", "rate": "w*Y"}},
        {"reactants": [], "products": ["Y"], "prop": {"type": "general", "rate": "w*X"}},
        {"reactants": ["Y"], "products": [], "prop": {"type": "general", "rate": "w*c"}}],
        "params": {"w": 40.0, "c": 10.0}, "ic": {"X": 15.0, "Y": 10.0}}
    T = np.linspace(0, 600.0, 3)
    base = {"stochastic": False, "delay": False, "safe": False, "volume": "off", "dataframe": False, "model": True, "interface": False}
    for name, opts in (("model", base), ("safe", dict(base, safe=True)), ("interface", dict(base, model=False, interface=True)), ("volume number", dict(base, volume="number")),
                       ("dataframe", dict(base, dataframe=True))):
        ctx.begin_case({"model": "oscillator", "grid": T.tolist(), "options": opts})
        M = build_model(spec)
        first = [float(spec["ic"][s_]) for s_ in M.get_species_list()]
        with warnings.catch_warnings():
            warnings.simplefilter("ignore")
            real = call_real(M, opts, T)
        ctx.evaluated()
        if real["outcome"] != "result" or real["rows"] != len(T) or not np.allclose(real["first"], first, rtol=0, atol=1e-9):
            ctx.violation("entry/long-intervals", "deterministic run over [0, 600] in three points (%s): %s" % (name, {k: real.get(k) for k in ("outcome", "rows", "first", "msg")}),
                          {"options": opts, "implementation": real})
            return
        ctx.count("long_interval_calls")


def call_real_neither(opts, T):
    from bioscrape.simulator import py_simulate_model
    try:
        py_simulate_model(T.copy(), stochastic=opts["stochastic"])
    except ValueError as e:
        if "requires either a Model" in str(e):
            return {"outcome": "optionError", "msg": str(e)}
        return {"outcome": "internalError", "msg": str(e)}
    except Exception as e:
        return {"outcome": "internalError", "msg": "%s: %s" % (type(e).__name__, e)}
    return {"outcome": "result"}


def replay(ctx, obj):
    run(ctx)


def describe(ctx):
    rule = ("the full option lattice {stochastic} x {delay} x {safe} x {volume: off, True, 2.5, Volume object} x {data frame, result "
            "object} x {Model, pre-built interface} (128 combinations) enumerated completely on py_simulate_model for 5 models (plain, "
            "with delays, with rules, with both, one whose initial total propensity is zero) x grids of 2, 5, 50 uniform points from 0; "
            "plus neither/both of Model and Interface; each outcome is checked against the property (no internal failure, rows, time "
            "axis, columns, first row = initial condition with rules applied) and against the Lean entry-point model; the result-class "
            "constructors in the Lean model are regenerated from simulator.pyx by the translator on every run.")
    return rule, {"lattice_size": 128}, True, ["pandas DataFrame construction is trusted", "with a pre-built interface and no Model, data frame columns are positions (the names live in the Model)"]
