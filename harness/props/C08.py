"""C08 - results depend only on the model's current definition and the seed."""
import math

import numpy as np

from common import driver_batch, f2b, b2f

USES_GENERATED = True     # Properties/C08.lean: programOk_* obligations over Generated/CreateVectors.lean
SPECIES = ["A", "B", "C", "D"]
PARAMS = ["k1", "k2", "k3"]
VALS = [0.25, 0.5, 1.0, 1.5, 2.0, 3.0]


def gen_history(rng, maxlen):
    ops = []
    known = []          # species the model knows by now (approximately: failed operations are not tracked)

    def learn(names):
        for x in names:
            if x and x not in known:
                known.append(x)

    def rule_op():
        # the target is a species no reaction touches and no rule reads (a rule that overwrites a reactant of the
        # reactions feeding it makes the network explosive, which is outside the property's bounded models)
        srcs = [x for x in known if x in SPECIES]
        dest = rng.choice(["S", "R"])
        if srcs and rng.chance(4, 5):
            src = [rng.choice(srcs) for _ in range(rng.randint(1, 2))]
        else:
            src = [rng.choice(SPECIES[:3]) for _ in range(rng.randint(1, 2))]
        if dest == "R" and rng.chance(1, 2):
            # R reads the other rule's target; when R is declared before S it lags one rule pass behind, so running the
            # rule list more (or less) often than once per pass changes the result
            src = ["S"] + src[:1]
        return ["createRule", dest, src]

    n = rng.randint(3, maxlen)
    for _ in range(n):
        c = rng.below(100)
        if c < 15:
            ops.append(["addSpecies", rng.choice(SPECIES + ["S", "R", ""])])
            learn([ops[-1][1]])
        elif c < 30:
            ops.append(["createParameter", rng.choice(PARAMS + (["A"] if rng.chance(1, 8) else [])), rng.choice(VALS)])
        elif c < 45:
            ops.append(["setParameter", rng.choice(PARAMS + ["k9"]), rng.choice(VALS)])
        elif c < 60:
            ops.append(["setSpecies", [[rng.choice(SPECIES + ["Q"]), float(rng.randint(0, 9))] for _ in range(rng.randint(1, 3))]])
        elif c < 68:
            ops.append(rule_op())       # an additive rule over species only (no parameter involved)
        elif c < 87:
            r = [rng.choice(SPECIES) for _ in range(rng.randint(0, 3))]
            p = [rng.choice(SPECIES) for _ in range(rng.randint(0, 2))]
            k = {"name": rng.choice(PARAMS)} if rng.chance(1, 2) else {"num": rng.choice(VALS)}
            if rng.chance(1, 3):
                # a reaction with a delayed part (fixed delay given by a named parameter)
                dp = [rng.choice(SPECIES) for _ in range(rng.randint(1, 2))]
                if len(r) >= 2:
                    # a reaction of order >= 2 that returns more molecules than it consumes blows up in finite time (the
                    # simulation never returns): outside the property's bounded models
                    p = p[:max(0, len(r) - 1)]
                    dp = dp[:max(1, len(r) - len(p))][:1] if len(p) + 1 <= len(r) else []
                    if not dp:
                        p, dp = p[:len(r) - 1], [rng.choice(SPECIES)]
                ops.append(["createDelayed", r, p, k, dp, rng.choice(PARAMS)])
                learn(r + p + dp)
            else:
                ops.append(["createMassAction", r, p, k])
                learn(r + p)
        else:
            ops.append(["initialize"])
    # how a session often ends: the model is complete and has been used, then one more edit is made before the next run
    tail = rng.below(7)
    if tail == 0:
        ops += [["initialize"], rule_op()]
    elif tail == 1:
        ops += [["initialize"], ["setParameter", rng.choice(PARAMS), rng.choice(VALS)]]
    elif tail == 2:
        ops += [["initialize"], ["setSpecies", [[rng.choice(SPECIES), float(rng.randint(0, 9))]]]]
    elif tail == 3:
        ops += [["addSpecies", rng.choice(["S", "R"])], ["initialize"], rule_op()]
    elif tail == 5:
        # an initialisation that fails (a rate constant has no value yet), then the missing value is supplied: the model
        # must not count as initialised in between (a species that was never given a value still defaults to 0)
        ops += [["createMassAction", [rng.choice(SPECIES)], [rng.choice(SPECIES)], {"name": "k9"}], ["initialize"], ["setParameter", "k9", rng.choice(VALS)]]
    elif tail == 4:
        # the model has been used; then a delayed reaction is added
        ops += [["initialize"], ["createDelayed", [rng.choice(SPECIES)], [], {"name": rng.choice(PARAMS)}, [rng.choice(SPECIES)], rng.choice(PARAMS)]]
    return ops


def apply_real(M, op):
    """-> 'ok' | 'error'"""
    try:
        t = op[0]
        if t == "addSpecies":
            M._add_species(op[1])
        elif t == "createParameter":
            M.create_parameter(op[1], op[2])
        elif t == "setParameter":
            M.set_parameter(op[1], op[2])
        elif t == "setSpecies":
            M.set_species({k: v for k, v in op[1]})
        elif t == "createMassAction":
            k = op[3]["name"] if "name" in op[3] else op[3]["num"]
            M.create_reaction(list(op[1]), list(op[2]), "massaction", {"k": k})
        elif t == "createDelayed":
            k = op[3]["name"] if "name" in op[3] else op[3]["num"]
            M.create_reaction(list(op[1]), list(op[2]), "massaction", {"k": k}, delay_type="fixed", delay_reactants=[],
                              delay_products=list(op[4]), delay_param_dict={"delay": op[5]})
        elif t == "createRule":
            M.create_rule("additive", {"equation": "%s = %s" % (op[1], " + ".join(op[2]))})
        elif t == "initialize":
            M.py_initialize()
        return "ok"
    except (ValueError, KeyError) as e:
        return "error"


def observe(M):
    sp = M.get_species_list()
    pl = M.get_param_list()
    sv = [float(v) for v in M.get_species_array()]
    pv = [float(v) for v in M.get_parameter_values()]
    return {"species": sp, "speciesVals": sv, "params": pl, "paramVals": [None if math.isnan(v) else v for v in pv],
            "nrules": len(M.get_rules())}


def is_initialized(M):
    """`initialized` is not Python-visible: an interface built on an initialised model refuses to
    simulate exactly when the flag has been cleared since."""
    return None


def to_job(ops):
    jo = []
    for op in ops:
        if op[0] in ("createParameter", "setParameter"):
            jo.append([op[0], op[1], f2b(op[2])])
        elif op[0] == "setSpecies":
            jo.append(["setSpecies", [[k, f2b(v)] for k, v in op[1]]])
        elif op[0] == "createMassAction":
            k = op[3] if "name" in op[3] else {"num": f2b(op[3]["num"])}
            jo.append(["createMassAction", op[1], op[2], k])
        elif op[0] == "createDelayed":
            k = op[3] if "name" in op[3] else {"num": f2b(op[3]["num"])}
            jo.append(["createDelayed", op[1], op[2], k, op[4], op[5]])
        else:
            jo.append(list(op))
    return {"op": "modelops", "num": "float", "ops": jo}


def simulate_by_name(M, T, seed, mode):
    from bioscrape.simulator import py_simulate_model
    from bioscrape.random import py_seed_random
    py_seed_random(seed)
    kw = {"stochastic": mode != "det", "safe": mode in ("safe", "safevolume"), "delay": mode in ("delay", "delayvolume"),
          "volume": 2.0 if mode in ("volume", "delayvolume", "safevolume") else False}
    df = py_simulate_model(T.copy(), Model=M, **kw)
    return {c: np.array(df[c], dtype=float) for c in df.columns}


def history_case(ctx, ops):
    from bioscrape.types import Model
    from bioscrape.simulator import ModelCSimInterface, SSASimulator
    ctx.begin_case({"ops": ops})
    M = Model()
    real_out = []
    stale_probe = None
    for i, op in enumerate(ops):
        res = apply_real(M, op)
        o = observe(M)
        o["result"] = res
        real_out.append(o)
    ans = driver_batch([to_job(ops)])[0]
    ctx.evaluated()
    if "error" in ans:
        ctx.broke("corr_C08_driver", {"ops": ops, "error": ans["error"]})
        return
    for i, (o, a) in enumerate(zip(real_out, ans["outs"])):
        st = a["state"]
        mm = {"species": st["species"], "speciesVals": [b2f(v) for v in st["speciesVals"]], "params": st["params"],
              "paramVals": [None if v is None else b2f(v) for v in st["paramVals"]], "nrules": len(st["rules"]), "result": a["result"]}
        if mm != o:
            ctx.broke("corr_C08_model_state_machine", {"ops": ops, "op_index": i, "model": mm, "implementation": o})
            return
    ctx.count("ops", len(ops))
    # ---------------- the property: same definition => same behaviour as a freshly built model
    final = real_out[-1]
    if any(v is None for v in final["paramVals"]) or not final["species"]:
        ctx.count("history_without_complete_definition")
        return
    rx = [op for op, o in zip(ops, real_out) if op[0] in ("createMassAction", "createDelayed") and o["result"] == "ok"]
    if not rx or set(final["params"]) & set(final["species"]):
        return      # (a parameter created before a species of the same name: cannot be declared at once)
    pvals = dict(zip(final["params"], final["paramVals"]))
    svals = {s: (0.0 if v == -1 else v) for s, v in zip(final["species"], final["speciesVals"])}
    # numeric rate constants became dummy parameters: recover each reaction's value in creation order
    dummies = [p for p in final["params"] if p.startswith("DummyVar_")]
    di = 0
    fresh_rx = []
    for op in rx:
        dl = ("fixed", [], list(op[4]), {"delay": op[5]}) if op[0] == "createDelayed" else ()
        if "name" in op[3]:
            fresh_rx.append((list(op[1]), list(op[2]), "massaction", {"k": op[3]["name"]}) + dl)
        else:
            fresh_rx.append((list(op[1]), list(op[2]), "massaction", {"k": pvals[dummies[di]]}) + dl)
            di += 1
    if any(op[0] == "createDelayed" for op in rx):
        ctx.count("history_with_delayed_reaction")
    rules = [op for op, o in zip(ops, real_out) if op[0] == "createRule" and o["result"] == "ok"]
    fresh = Model(species=list(reversed(final["species"])), reactions=fresh_rx,
                  parameters=[(p, v) for p, v in pvals.items() if not p.startswith("DummyVar_")],
                  rules=[("additive", {"equation": "%s = %s" % (op[1], " + ".join(op[2]))}) for op in rules],
                  initial_condition_dict=svals)
    # the simulators run each declared rule once per pass: the interface built on the model as the history left it holds
    # exactly the rules of the definition
    nr = ModelCSimInterface(M).py_get_number_of_rules()
    if nr != len(rules):
        ctx.violation("history-dependence/rule-vector", "the simulation interface of the model reached through the history runs %d rule objects per pass, "
                      "the definition has %d rules" % (nr, len(rules)), {"ops": ops, "interface_rules": nr, "declared_rules": len(rules)})
        return
    T = np.linspace(0, 1.0, 6)
    seed = 1 + (len(ops) * 7919) % 100000
    # no explicit initialisation here: the model is used as the history left it (the entry point initialises when the
    # model says it needs it).  Unset species (-1) default to 0 at initialisation: part of the definition, not a change
    d_before = ({k: (0.0 if v == -1 else v) for k, v in dict(M.get_species_dictionary()).items()}, dict(zip(M.get_param_list(), M.get_parameter_values())))
    for mode in ("det", "ssa", "safe", "volume", "delay", "delayvolume", "safevolume"):
        try:
            a1 = simulate_by_name(M, T, seed, mode)
            a2 = simulate_by_name(M, T, seed, mode)
            b = simulate_by_name(fresh, T, seed, mode)
        except RuntimeError as e:
            ctx.count("simulation_error:" + type(e).__name__)
            continue
        ctx.evaluated()
        for c in a1:
            same_rep = np.array_equal(a1[c], a2[c], equal_nan=True)
            tol_ok = np.allclose(a1[c], b[c], rtol=1e-6, atol=1e-9, equal_nan=True) if mode == "det" else np.array_equal(a1[c], b[c])
            if not same_rep:
                ctx.violation("repeatability/" + mode, "seeding and simulating twice gives different %s output for %s" % (mode, c), {"ops": ops, "mode": mode, "column": c})
                return
            if not tol_ok:
                ctx.violation("history-dependence/" + mode, "model reached through the history differs from a freshly built model of the same definition (%s, column %s)" % (mode, c),
                              {"ops": ops, "mode": mode, "column": c, "history": a1[c].tolist(), "fresh": b[c].tolist()})
                return
        ctx.nontriv((mode, len(rx), len(rules), len(final["species"]), tuple(op[0] for op in ops[:5])))
    d_after = (dict(M.get_species_dictionary()), dict(zip(M.get_param_list(), M.get_parameter_values())))
    if d_before[0] is not None and (d_before[0] != d_after[0] or d_before[1] != d_after[1]):
        ctx.violation("simulation-changed-model", "simulating changed the model's initial condition or a parameter",
                      {"ops": ops, "before": str(d_before), "after": str(d_after)})
    ctx.sample({"ops": ops[:8], "n_ops": len(ops)}, cap=3)


def stale_interface(ctx, rng):
    """an interface built before an edit must refuse; an interface reused after set_parameter must see it
    (also after a deterministic run with rules through that interface)."""
    from bioscrape.types import Model
    from bioscrape.simulator import ModelCSimInterface, SSASimulator, py_simulate_model
    from bioscrape.random import py_seed_random
    T = np.linspace(0, 2.0, 9)
    for with_rule in (False, True):
        for detfirst in (False, True):
            case = {"scenario": "interface reused after set_parameter", "with_rule": with_rule, "deterministic_run_first": detfirst}
            ctx.begin_case(case)
            rules = [("additive", {"equation": "S = A + B"})] if with_rule else []
            def build(k):
                return Model(species=["A", "B", "S"], reactions=[(["A"], ["B"], "massaction", {"k": "k"})], parameters={"k": k},
                             rules=rules, initial_condition_dict={"A": 20, "B": 0, "S": 0})
            M = build(0.1)
            I = ModelCSimInterface(M)
            if detfirst:
                py_simulate_model(T, Interface=I, stochastic=False, return_dataframe=False)
            M.set_parameter("k", 5.0)
            py_seed_random(77)
            a = np.array(py_simulate_model(T, Interface=I, stochastic=True, return_dataframe=False).py_get_result())
            py_seed_random(77)
            b = np.array(py_simulate_model(T, Model=build(5.0), stochastic=True, return_dataframe=False).py_get_result())
            ctx.evaluated()
            if not np.array_equal(a, b):
                ctx.violation("stale-parameter/interface-after-deterministic-run" if detfirst else "stale-parameter/interface",
                              "an interface reused after set_parameter simulates with the old parameter value", dict(case, reused=a[-1].tolist(), fresh=b[-1].tolist()))
            ctx.nontriv(("stale", with_rule, detfirst))
    # an edit that changes the definition must invalidate older interfaces
    M = Model(species=["A", "B"], reactions=[(["A"], ["B"], "massaction", {"k": "k"})], parameters={"k": 1.0}, initial_condition_dict={"A": 5})
    I = ModelCSimInterface(M)
    M.create_reaction(["B"], ["A"], "massaction", {"k": 2.0})
    ctx.evaluated()
    try:
        SSASimulator().py_simulate(I, T)
        ctx.violation("stale-interface-accepted", "an interface built before create_reaction still simulates", {"scenario": "edit after interface"})
    except RuntimeError:
        pass


def reuse_with_delays(ctx, rng, n):
    """models with delayed parts, simulated repeatedly on the same Model object in every mode: each run equals the run of a
    freshly built model from the same seed, and the model's matrices, initial condition and parameters stay as they were."""
    from bioscrape.types import Model
    for i in range(n):
        k, d = rng.choice([0.5, 1.0, 2.0]), rng.choice([0.25, 0.5])
        dprod = rng.choice([["B"], ["B", "B"], ["A", "B"]])
        dtype = rng.choice(["fixed", "gaussian", "gamma"])
        dpar = {"fixed": {"delay": "tau"}, "gaussian": {"mean": "tau", "std": "sd"}, "gamma": {"k": "gk", "theta": "tau"}}[dtype]
        spec = dict(species=["A", "B", "C"], parameters={"k": k, "d": d, "tau": rng.choice([0.05, 0.3, 1.0]), "sd": 0.05, "gk": 2.0},
                    reactions=[(["A"], [], "massaction", {"k": "k"}, dtype, [], dprod, dpar), (["B"], ["C"], "massaction", {"k": "d"}), ([], ["A"], "massaction", {"k": "d"})],
                    initial_condition_dict={"A": rng.randint(5, 30), "B": 0, "C": 0})
        case = {"reuse_with_delays": {k_: (v if not isinstance(v, list) else [list(x) if isinstance(x, tuple) else x for x in v]) for k_, v in spec.items()}}
        ctx.begin_case(case)
        M = Model(**spec)
        before = (np.array(M.py_get_update_array()).tolist(), np.array(M.py_get_delay_update_array()).tolist(),
                  dict(M.get_species_dictionary()), dict(zip(M.get_param_list(), M.get_parameter_values())))
        T = np.linspace(0, 2.0, 9)
        seed = rng.randint(1, 10**6)
        order = ["ssa", "det", "delay", "ssa", "volume", "delayvolume", "safe", "ssa", "det"]
        for mode in order:
            a = simulate_by_name(M, T, seed, mode)
            b = simulate_by_name(Model(**spec), T, seed, mode)
            ctx.evaluated()
            for c in a:
                ok = np.allclose(a[c], b[c], rtol=1e-6, atol=1e-9, equal_nan=True) if mode == "det" else np.array_equal(a[c], b[c])
                if not ok:
                    ctx.violation("history-dependence/reuse/" + mode, "a model with a delayed reaction, simulated before in other modes, gives different %s output "
                                  "(column %s) from a freshly built model with the same seed" % (mode, c),
                                  dict(case, mode=mode, earlier=order[:order.index(mode)], column=c, reused=a[c].tolist(), fresh=b[c].tolist()))
                    return
        after = (np.array(M.py_get_update_array()).tolist(), np.array(M.py_get_delay_update_array()).tolist(),
                 dict(M.get_species_dictionary()), dict(zip(M.get_param_list(), M.get_parameter_values())))
        if after != before:
            ctx.violation("simulation-changed-model/matrices", "simulating changed the model's stoichiometric matrices, initial condition or parameters",
                          dict(case, before=str(before)[:400], after=str(after)[:400]))
            return
        ctx.count("reuse_with_delays")
        ctx.nontriv(("reuse", dtype, len(dprod)))


def prebuilt_interface(ctx, rng):
    """the entry point called with the model and with an interface built beforehand gives the same seeded outcome in the modes
    that depend on the time step (a volume in play; rules of frequency dt; ODE rules)."""
    from bioscrape.types import Model
    from bioscrape.simulator import ModelCSimInterface, SafeModelCSimInterface, py_simulate_model
    from bioscrape.random import py_seed_random
    spec = dict(species=["A", "B", "N", "W"], parameters={"k": 2.0, "d": 0.5, "c": 0.25},
                reactions=[([], ["A"], "massaction", {"k": "k"}), (["A"], ["B"], "massaction", {"k": "d"})],
                rules=[("assignment", {"equation": "N = N + 1"}, "dt"), ("ode", {"equation": "c", "target": "W"})],
                initial_condition_dict={"A": 5, "B": 0, "N": 0, "W": 0})
    for T in (np.linspace(0, 4.0, 9), np.linspace(0, 3.0, 31)):
        for kw in (dict(stochastic=True), dict(stochastic=True, volume=2.0), dict(stochastic=True, delay=True, volume=True),
                   dict(stochastic=False), dict(stochastic=True, safe=True, volume=1.5)):
            seed = rng.randint(1, 10**6)
            case = {"scenario": "Model= versus Interface= built beforehand", "options": {k_: (v_ if not isinstance(v_, float) else v_) for k_, v_ in kw.items()}, "grid_step": float(T[1] - T[0]), "seed": seed}
            ctx.begin_case(case)
            py_seed_random(seed)
            a = np.array(py_simulate_model(T.copy(), Model=Model(**spec), return_dataframe=False, **kw).py_get_result())
            M = Model(**spec)
            I = (SafeModelCSimInterface if kw.get("safe") else ModelCSimInterface)(M)
            py_seed_random(seed)
            b = np.array(py_simulate_model(T.copy(), Interface=I, return_dataframe=False, **kw).py_get_result())
            ctx.evaluated()
            same = np.allclose(a, b, rtol=1e-6, atol=1e-9) if not kw["stochastic"] else np.array_equal(a, b)
            if not same:
                ctx.violation("history-dependence/prebuilt-interface", "py_simulate_model(%s) on a grid of step %g: the run through an interface built beforehand differs from the run "
                              "given the model (last rows %s vs %s)" % (kw, T[1] - T[0], b[-1].tolist(), a[-1].tolist()), case)
                return
            ctx.count("prebuilt_interface_cases")


def kept_interface(ctx):
    """an interface kept across a session: built, (used,) the model initialised once more with nothing edited, the initial
    values changed through the model, then used again - the outcome is the one of a fresh model with the current values."""
    from bioscrape.types import Model
    from bioscrape.simulator import ModelCSimInterface, SafeModelCSimInterface, py_simulate_model
    from bioscrape.random import py_seed_random
    spec = dict(species=["X", "Y"], parameters={"k": 2.0, "d": 0.5},
                reactions=[(["X"], ["Y"], "massaction", {"k": "d"}), (["Y"], ["X"], "massaction", {"k": "k"})],
                initial_condition_dict={"X": 0, "Y": 0})
    now = {"X": 40.0, "Y": 10.0}
    T = np.linspace(0, 3.0, 13)
    for safe in (False, True):
        for used_before in (False, True):
            for reinitialised in (False, True):
                for kw in (dict(stochastic=True), dict(stochastic=False), dict(stochastic=True, volume=2.0)):
                    case = {"scenario": "interface kept while the model's initial values change", "safe": safe, "used_before": used_before,
                            "initialised_again": reinitialised, "options": kw}
                    ctx.begin_case(case)
                    M = Model(**spec)
                    I = (SafeModelCSimInterface if safe else ModelCSimInterface)(M)
                    if used_before:
                        py_seed_random(3)
                        py_simulate_model(T.copy(), Interface=I, return_dataframe=False, **kw)
                    if reinitialised:
                        M.py_initialize()
                    M.set_species(dict(now))
                    py_seed_random(77)
                    a = np.array(py_simulate_model(T.copy(), Interface=I, return_dataframe=False, **kw).py_get_result())
                    py_seed_random(77)
                    b = np.array(py_simulate_model(T.copy(), Model=Model(**dict(spec, initial_condition_dict=dict(now))), safe=safe, return_dataframe=False, **kw).py_get_result())
                    ctx.evaluated()
                    same = np.array_equal(a, b) if kw["stochastic"] else np.allclose(a, b, rtol=1e-6, atol=1e-9)
                    if not same:
                        ctx.violation("history-dependence/kept-interface", "interface built before the model's initial values were set to %s (%s): its run starts at %s and ends at %s, "
                                      "a fresh model's at %s and %s" % (now, ", ".join(k_ for k_, v_ in case.items() if v_ is True), a[0].tolist(), a[-1].tolist(), b[0].tolist(), b[-1].tolist()), case)
                        return
                    ctx.count("kept_interface_cases")


def construction_order_of_species(ctx):
    """one definition reached two ways in the same process: built at once with the species declared as X, Y, and built up from
    Y alone with X arriving later through a reaction (so that the species sit in the other order) - formulas written as text
    (general rates) read the same species either way."""
    from bioscrape.types import Model
    from bioscrape.simulator import py_simulate_model
    from bioscrape.random import py_seed_random
    T = np.linspace(0, 5, 51)

    def at_once():
        return Model(species=["X", "Y"], reactions=[([], ["Y"], "massaction", {"k": "b"}), (["X"], ["X", "Y"], "general", {"rate": "d*X/(1 + Y/100)"}), (["X"], [], "general", {"rate": "d*X"})],
                     parameters=[("b", 2.0), ("d", 0.5)], initial_condition_dict={"X": 50, "Y": 0})

    def step_by_step():
        M = Model(species=["Y"], reactions=[([], ["Y"], "massaction", {"k": "b"})], parameters=[("b", 2.0)], initial_condition_dict={"Y": 0})
        py_simulate_model(T.copy(), Model=M)
        M.create_reaction(["X"], ["X", "Y"], "general", {"rate": "d*X/(1 + Y/100)"})
        M.create_reaction(["X"], [], "general", {"rate": "d*X"})
        M.set_parameter("d", 0.5)
        M.set_species({"X": 50})
        M.py_initialize()
        return M
    for first in ("at once first", "step by step first"):
        a, b = (at_once(), step_by_step()) if first.startswith("at once") else tuple(reversed((step_by_step(), at_once())))
        for stochastic in (False, True):
            case = {"scenario": "species order of construction", "built_first": first, "stochastic": stochastic}
            ctx.begin_case(case)
            py_seed_random(424242); ra = py_simulate_model(T.copy(), Model=a, stochastic=stochastic)
            py_seed_random(424242); rb = py_simulate_model(T.copy(), Model=b, stochastic=stochastic)
            ctx.evaluated()
            for s_ in ("X", "Y"):
                va, vb = np.array(ra[s_].values, dtype=float), np.array(rb[s_].values, dtype=float)
                same = np.array_equal(va, vb) if stochastic else np.allclose(va, vb, rtol=1e-7, atol=1e-9)
                ok_x = stochastic or s_ != "X" or (np.max(np.abs(va - 50 * np.exp(-0.5 * T))) < 1e-3 and np.max(np.abs(vb - 50 * np.exp(-0.5 * T))) < 1e-3)
                if not same or not ok_x:
                    ctx.violation("history-dependence/species-order", "the same definition built at once and step by step (%s): %s ends at %g and %g (X must follow 50 exp(-t/2))"
                                  % (first, s_, va[-1], vb[-1]), case)
                    return
            ctx.count("construction_order_cases")


def sampler_history(ctx, rng):
    """the outcome of a seeded delay simulation does not depend on which distributions were sampled earlier in the process:
    a gamma-delay model simulated right after another gamma-delay model with the same shape and another scale, and again
    after draws from a gamma with another shape, gives the same trajectory; a gamma draw scales with its scale argument."""
    from bioscrape.types import Model
    from bioscrape.random import py_seed_random, py_gamma_rv, py_normal_rv
    T = np.linspace(0, 6.0, 61)

    def model(theta):
        return Model(species=["A", "B"], parameters={"k": 2.0, "gk": 2.5, "th": theta},
                     reactions=[(["A"], [], "massaction", {"k": "k"}, "gamma", [], ["B"], {"k": "gk", "theta": "th"})],
                     initial_condition_dict={"A": 25, "B": 0})
    for th1, th2 in ((0.2, 1.2), (1.0, 0.1)):
        seed = rng.randint(1, 10**6)
        case = {"scenario": "gamma delays with one shape and two scales, one after the other", "scales": [th1, th2], "seed": seed}
        ctx.begin_case(case)
        simulate_by_name(model(th1), T, seed, "delay")
        a = simulate_by_name(model(th2), T, seed, "delay")
        py_seed_random(1); [py_gamma_rv(7.0, 1.0) for _ in range(3)]; [py_normal_rv(0.0, 1.0) for _ in range(3)]
        b = simulate_by_name(model(th2), T, seed, "delay")
        M = model(th1)
        simulate_by_name(M, T, seed, "delay")
        M.set_parameter("th", th2)
        c = simulate_by_name(M, T, seed, "delay")
        ctx.evaluated()
        for col in a:
            if not (np.array_equal(a[col], b[col]) and np.array_equal(c[col], b[col])):
                ctx.violation("history-dependence/sampler", "a gamma-delay model (scale %g) simulated after one with the same shape and scale %g differs (column %s) from the same "
                              "model and seed simulated after other draws" % (th2, th1, col), dict(case, column=col, after_same_shape=a[col][:12].tolist(),
                              after_set_parameter=c[col][:12].tolist(), after_other_draws=b[col][:12].tolist()))
                return
        py_seed_random(seed); g1 = py_gamma_rv(2.5, 0.7)
        py_seed_random(seed); g2 = py_gamma_rv(2.5, 1.4)
        if abs(g2 - 2 * g1) > 1e-12 * abs(g2):
            ctx.violation("history-dependence/sampler", "gamma(2.5, scale 1.4) from seed %d is %r, twice the draw with scale 0.7 is %r" % (seed, g2, 2 * g1), case)
            return
        ctx.count("sampler_history_cases")


def run(ctx):
    rng = ctx.rng
    n = 120 if ctx.quick() else 3000
    for i in range(n):
        history_case(ctx, gen_history(rng, 25 if ctx.quick() else 40))
    stale_interface(ctx, rng)
    reuse_with_delays(ctx, rng, 12 if ctx.quick() else 200)
    sampler_history(ctx, rng)
    prebuilt_interface(ctx, rng)
    # lineage models are models too: built one rule / event at a time (with initialisations and runs in between) they behave
    # like the same definition built at once (the scenario is C19's; its containers are the LineageModel program above)
    from props import C19
    C19.incremental_lineage_models(ctx, rng, 8 if ctx.quick() else 120)
    C19.parameter_free_rules(ctx)
    kept_interface(ctx)
    construction_order_of_species(ctx)


def replay(ctx, obj):
    rep = obj.get("replay") or obj["broken"][0]["detail"]
    if "ops" in rep:
        history_case(ctx, rep["ops"])
    elif "spec" in rep and "vol_rules" in rep.get("spec", {}):
        from props import C19
        C19.incremental_lineage_models(ctx, ctx.rng, 8)
    else:
        stale_interface(ctx, ctx.rng)


def describe(ctx):
    rule = ("random edit histories (3..40 ops over add species / create parameter (incl. a name clashing with a species) / set parameter "
            "(incl. unknown names) / set species (incl. unknown names) / create mass-action reaction with named or numeric rate / "
            "initialise) applied to an empty real Model and to the Lean state machine, compared after every operation (index order, "
            "values, unset markers, error or ok); every history that ends in a complete definition is then compared with a freshly "
            "built model of the same definition (species declared in reverse order) by seeded simulation in deterministic, SSA, "
            "safe, volume and delay mode (bitwise by species name; deterministic within 1e-6), run twice for repeatability, and the "
            "model's dictionaries are compared before/after; interface scenarios: reuse after set_parameter (with/without a "
            "deterministic run with rules first), refusal after a structural edit.")
    return rule, {}, False, ["the end-to-end statement is decided by this correspondence/oracle run; the Lean theorems cover the bookkeeping, the parameter frame of simulations and reseeding"]
