"""C09 - rules hold on every reported row and fire on their schedule."""
import numpy as np

from common import driver_batch, f2b, b2f, relerr
from modelspec import build_model, sim_job, dump_rule
import simcorr


def gen_rule_model(rng, T):
    """a small network plus rules chained in dependency order; returns (spec, checks)."""
    base = simcorr.gen_network(rng, allow_general=False, allow_hill=False, nmax=3)
    spec = {"species": ["A", "B", "C", "S", "R", "N", "Z", "W"], "reactions": base["reactions"],
            "params": dict(base["params"], q=1.0, c=rng.choice([0.5, 1.0, 3.0])), "ic": dict(base["ic"], S=0, R=0, N=0, Z=-5, W=0),
            "rules": [], "needs_safe": False}
    checks = []
    if rng.chance(3, 4):
        spec["rules"].append({"type": "additive", "attrs": {"equation": "S = A + B"}})
        checks.append(("repeat", "S", lambda r, p: r["A"] + r["B"]))
    if rng.chance(3, 4) and spec["rules"]:
        spec["rules"].append({"type": "assignment", "attrs": {"equation": "R = 2*S + c"}})
        checks.append(("repeat", "R", lambda r, p: 2 * r["S"] + p["c"]))
    if rng.chance(1, 2):
        # a parameter assigned from species, used by a rate: rates are computed from rule-updated parameters
        spec["rules"].append({"type": "assignment", "attrs": {"equation": "q = 1 + A/(1+B)"}})
        spec["reactions"] = list(spec["reactions"]) + [{"reactants": [], "products": ["C"], "prop": {"type": "general", "rate": "q/4"}}]
        checks.append(("param", "q", None))
    if rng.chance(2, 3):
        spec["rules"].append({"type": "assignment", "attrs": {"equation": "N = N + 1"}, "frequency": "dt"})
        checks.append(("counter", "N", None))
    if rng.chance(2, 3) and len(T) > 4:
        k = rng.randint(1, len(T) - 2)
        spec["rules"].append({"type": "assignment", "attrs": {"equation": "Z = A + 100"}, "frequency": float(T[k])})
        checks.append(("scheduled", "Z", k))
    if rng.chance(1, 2):
        spec["rules"].append({"type": "ode", "attrs": {"equation": "c", "target": "W"}})
        checks.append(("ode", "W", None))
    if not spec["rules"]:
        spec["rules"].append({"type": "additive", "attrs": {"equation": "S = A + B"}})
        checks.append(("repeat", "S", lambda r, p: r["A"] + r["B"]))
    if rng.chance(1, 2):
        # rules given with an explicit frequency (dt, a time) first, those without one (repeated) after them: the
        # independent ones may be listed in any order
        spec["rules"] = [r for r in spec["rules"] if "frequency" in r] + [r for r in spec["rules"] if "frequency" not in r]
    return spec, checks


def rows_oracle(ctx, spec, checks, sl, rows, T, where, seed, stochastic=True, x0=None):
    """the property on implementation rows."""
    dt = float(T[1] - T[0])
    rep = {"spec": {k: v for k, v in spec.items()}, "mode": where, "seed": seed, "grid": [float(t) for t in T]}
    col = {s: rows[:, sl.index(s)] for s in sl}
    p = {k: float(v) for k, v in spec["params"].items()}
    for kind, name, arg in checks:
        if kind == "repeat":
            for i in range(rows.shape[0]):
                want = arg({s: col[s][i] for s in sl}, p)
                if relerr(col[name][i], want) > 1e-12:
                    ctx.violation("repeat-rule/" + where, "repeated rule for %s not satisfied by row %d (%s): %r vs %r" % (name, i, where, col[name][i], want), dict(rep, row=i))
                    return
        elif kind == "counter" and stochastic:
            d = np.diff(col[name])
            if rows.shape[0] > 2 and np.any(d[1:] != 1):
                ctx.violation("dt-rule/" + where, "dt rule counter advances %s between consecutive rows (%s)" % (d.tolist()[:8], where), rep)
                return
        elif kind == "scheduled" and stochastic:
            k = arg
            if np.any(col[name][:k] != -5) and k <= rows.shape[0]:
                ctx.violation("scheduled-rule/early/" + where, "rule scheduled for t=%g changed rows before it (%s)" % (T[k], where), rep)
                return
            if rows.shape[0] > k + 1 and np.any(col[name][k + 1:] != col[name][k + 1]):
                ctx.violation("scheduled-rule/late/" + where, "rule scheduled for t=%g did not fix the rows after it (%s)" % (T[k], where), rep)
                return
            if rows.shape[0] > k + 1 and col[name][k + 1] == -5:
                ctx.violation("scheduled-rule/missed/" + where, "rule scheduled for t=%g never fired (%s)" % (T[k], where), rep)
                return
        elif kind == "ode" and stochastic:
            d = np.diff(col[name])
            if rows.shape[0] > 2 and np.any(np.abs(d[1:] - p["c"] * dt) > 1e-9 * max(1.0, abs(p["c"] * dt))):
                ctx.violation("ode-rule/" + where, "ODE rule target advances %s per row, expected rate*dt=%g (%s)" % (d.tolist()[:6], p["c"] * dt, where), rep)
                return


def one_model(ctx, rng, nseeds):
    # exactly representable grid steps: the tick grid of the volume loop (accumulated sums) and the
    # requested grid then coincide, so "per elapsed step" is well defined
    T = np.arange(0, rng.choice([6, 11, 21])) * rng.choice([0.25, 0.5, 1.0])
    spec, checks = gen_rule_model(rng, T)
    ctx.begin_case({"spec": spec, "grid": [float(t) for t in T]})
    M = build_model(spec)
    sl = M.get_species_list()
    dt = float(T[1] - T[0])
    seeds = [rng.randint(1, 2**31) for _ in range(nseeds)]
    p_before = np.array(M.get_parameter_values()).copy()
    for kind, safe in (("ssa", False), ("ssa", True), ("volume", False), ("delay", False), ("delayvolume", False), ("volume", True)):
        M.set_params({k: float(v) for k, v in spec["params"].items()})      # parameter rules write the shared array
        jobs = [sim_job(M, kind, T, s, dt, safe=safe, fuel=simcorr.FUEL, spec=spec) for s in seeds]
        ans = driver_batch(jobs)
        if any(a.get("status") == "out-of-fuel" for a in ans):
            ctx.count("discarded_unbounded_network")
            return
        if any(a.get("status") != "ok" for a in ans):
            ctx.broke("corr_C09_model_run", {"spec": spec, "grid": [float(t) for t in T], "kind": kind, "safe": safe,
                                           "difference": str([a.get("status", a.get("error")) for a in ans])})
            return
        for s, a in zip(seeds, ans):
            M.set_params({k: float(v) for k, v in spec["params"].items()})
            r = simcorr.run_real(M, kind, T, s, dt, safe=safe)
            ctx.evaluated()
            d = simcorr.compare(r, a, kind)
            where = kind + ("/safe" if safe else "")
            if d is not None:
                ctx.broke("corr_C09_trajectory_with_rules_bit_exact_" + kind, {"spec": spec, "grid": [float(t) for t in T], "seed": s, "kind": kind, "safe": safe, "difference": d})
            rows_oracle(ctx, spec, checks, sl, r["rows"], T, where, s)
            ctx.nontriv((where, tuple(sorted(c[0] for c in checks)), len(T), s % 3))
    # deterministic mode: repeated rules hold on every row
    from bioscrape.simulator import py_simulate_model
    M.set_params({k: float(v) for k, v in spec["params"].items()})
    try:
        res = py_simulate_model(T, Model=M, stochastic=False, return_dataframe=False)
        rows = np.array(res.py_get_result())
        if not np.any(np.isnan(rows)):
            rows_oracle(ctx, spec, [c for c in checks if c[0] == "repeat"], sl, rows, T, "deterministic", 0, stochastic=False)
            ctx.count("deterministic_runs")
    except RuntimeError:
        pass
    for c in checks:
        ctx.count("rule:" + c[0])
    ctx.sample({"rules": spec["rules"], "grid_points": len(T)}, cap=4)


def unit_rules(ctx, rng, n):
    """Rule.py_execute_rule / py_execute_volume_rule against the model's Rule.execute."""
    spec = {"species": ["A", "B", "S", "W"], "reactions": [{"reactants": ["A"], "products": ["B"], "prop": {"type": "massaction", "k": "k"}}],
            "params": {"k": 1.0, "q": 2.0, "c": 0.5}, "ic": {"A": 1, "B": 2, "S": 0, "W": 0},
            "rules": [{"type": "additive", "attrs": {"equation": "S = A + B + A"}},
                      {"type": "assignment", "attrs": {"equation": "S = q*A + volume*B"}, "frequency": "dt"},
                      {"type": "assignment", "attrs": {"equation": "q = A*B + t"}, "frequency": 1.5},
                      {"type": "assignment", "attrs": {"equation": "W = c*B"}, "frequency": "start"},
                      {"type": "ode", "attrs": {"equation": "c*A - W", "target": "W"}},
                      {"type": "ode", "attrs": {"equation": "volume", "target": "q"}},
                      {"type": "additive", "attrs": {"equation": "S = A + S + B"}, "frequency": "dt"}]}     # the target among its own sources
    M = build_model(spec)
    rules = M.__getstate__()[6]
    jobs, reals = [], []
    for i in range(n):
        r = rules[i % len(rules)]
        x = np.array([float(rng.randint(0, 9)) / 2 for _ in range(4)])
        p = np.array([1.0, 2.0, 0.5]) * rng.choice([1.0, 1.5])
        t = rng.choice([0.0, 1.5, 0.75, 3.0])
        dt = rng.choice([0.01, 0.5])
        rs = bool(rng.chance(1, 2))
        vol = rng.choice([1.0, 2.5])
        usevol = bool(rng.chance(1, 2))
        xr, pr = x.copy(), p.copy()
        if usevol:
            r.py_execute_volume_rule(xr, pr, vol, t, dt, rs)
        else:
            r.py_execute_rule(xr, pr, t, dt, rs)
        reals.append((xr, pr))
        # the rule's meaning written out here, independently of the implementation's rule objects
        A_, B_, S_, W_ = (M.get_species2index()[n_] for n_ in ("A", "B", "S", "W"))
        q_, c_ = M.get_params2index()["q"], M.get_params2index()["c"]
        ve = vol if usevol else 1.0
        xe, pe = x.copy(), p.copy()
        k_ = i % len(rules)
        if k_ == 0:
            xe[S_] = x[A_] + x[B_] + x[A_]
        elif k_ == 6 and rs:
            xe[S_] = x[A_] + x[S_] + x[B_]
        elif k_ == 1 and rs:
            xe[S_] = p[q_] * x[A_] + ve * x[B_]
        elif k_ == 2 and t == 1.5:
            pe[q_] = x[A_] * x[B_] + t
        elif k_ == 3 and t == 0.0:
            xe[W_] = p[c_] * x[B_]
        elif k_ == 4 and rs:
            xe[W_] = x[W_] + (p[c_] * x[A_] - x[W_]) * dt
        elif k_ == 5 and rs:
            pe[q_] = p[q_] + ve * dt
        if not (np.allclose(xe, xr, rtol=1e-12, atol=1e-12) and np.allclose(pe, pr, rtol=1e-12, atol=1e-12)):
            ctx.violation("rule/execute/%s" % ("volume" if usevol else "plain"),
                          "rule %d (%s) executed on x=%s p=%s volume=%s t=%s dt=%s rule_step=%s gives x=%s p=%s; its meaning gives x=%s p=%s"
                          % (k_, spec["rules"][k_]["attrs"], x.tolist(), p.tolist(), ve, t, dt, rs, xr.tolist(), pr.tolist(), xe.tolist(), pe.tolist()),
                          {"rule": spec["rules"][k_], "x": x.tolist(), "p": p.tolist(), "volume": ve, "t": t, "dt": dt, "rule_step": rs, "volume_path": usevol})
            return
        jobs.append({"op": "rule", "num": "float", "rule": dump_rule(r), "x": [f2b(v) for v in x], "p": [f2b(v) for v in p],
                     "vol": f2b(vol if usevol else 1.0), "t": f2b(t), "dt": f2b(dt), "rs": rs})
    ans = driver_batch(jobs)
    for j, (xr, pr), a in zip(jobs, reals, ans):
        ctx.evaluated()
        if "error" in a or [b2f(v) for v in a["x"]] != xr.tolist() or [b2f(v) for v in a["p"]] != pr.tolist():
            ctx.broke("corr_C09_execute_rule", {"job": j, "model": str(a)[:300], "implementation": [xr.tolist(), pr.tolist()]})
    ctx.count("unit_rule_executions", n)


def lineage_rules(ctx, rng, n):
    """lineage single-cell simulation: rules registered once, dt rule once per step, ODE rule rate*dt, repeated rules on rows."""
    from bioscrape.lineage import LineageModel, LineageVolumeCellState, LineageCSimInterface, LineageSSASimulator
    from bioscrape.random import py_seed_random
    for i in range(n):
        k = rng.choice([0.0, 0.5, 2.0])          # k = 0: no reaction can ever fire
        dt = rng.choice([0.25, 0.5, 1.0])
        T = np.arange(0, rng.choice([6, 11, 21])) * dt
        c = rng.choice([0.5, 2.0])
        kk = rng.randint(1, len(T) - 2)
        rules = [("additive", {"equation": "S = A + B"}), ("assignment", {"equation": "R = 2*S + c"}),
                 ("assignment", {"equation": "N = N + 1"}, "dt"), ("ode", {"equation": "c", "target": "W"}),
                 ("assignment", {"equation": "Z = A + 100"}, float(T[kk]))]
        rules = [r for r in rules if rng.chance(3, 4)] or rules[:1]
        case = {"lineage": True, "k": k, "grid": [float(t) for t in T], "c": c, "rules": [list(r) for r in rules]}
        ctx.begin_case(case)
        athr, tdiv = float(rng.choice([4, 7])), float(T[max(2, len(T) // 2)])
        M = LineageModel(species=["A", "B", "S", "R", "N", "Z", "W"], parameters={"k": k, "c": c, "d": 0.3, "athr": athr, "tdiv": tdiv},
                         reactions=[([], ["A"], "massaction", {"k": "k"}), (["A"], ["B"], "massaction", {"k": "d"})],
                         rules=[tuple(r) for r in rules], initial_condition_dict={"A": 2, "B": 0, "S": 0, "R": 0, "N": 0, "Z": -5, "W": 0})
        # some cells end early: a death rule on a species (fires right after a reaction), or a division rule on a time
        # threshold (fires at a grid tick); the rows they report, the last one included, still satisfy the repeated rules
        ending = rng.choice(["none", "none", "death", "division"])
        case["ending"] = ending
        if ending == "death" and k > 0:
            M.create_death_rule("species", {"specie": "A", "threshold": "athr", "comp": ">"})
            M.py_initialize()
        elif ending == "division":
            from bioscrape.lineage import LineageVolumeSplitter
            M.create_division_rule("time", {"threshold": "tdiv"}, LineageVolumeSplitter(M))
            M.py_initialize()
        I = LineageCSimInterface(M)
        ctx.evaluated()
        if I.py_get_number_of_rules() != len(rules):
            ctx.violation("lineage/rule-registration", "lineage interface registers %d rule objects for %d declared rules" % (I.py_get_number_of_rules(), len(rules)), case)
            return
        seed = rng.randint(1, 2**31)
        py_seed_random(seed)
        sl = M.get_species_list()
        r = LineageSSASimulator().py_SimulateSingleCell(T, Model=M, interface=I,
                                                        v=LineageVolumeCellState(v0=1.0, t0=0.0, state=M.get_species_array()))
        rows = np.array(r.py_get_result())
        spec = {"params": {"k": k, "c": c, "d": 0.3, "athr": athr, "tdiv": tdiv}, "rules": [list(x) for x in rules], "lineage": True}
        checks = []
        for ru in rules:
            eq = ru[1].get("equation", "")
            if eq.startswith("S ="):
                checks.append(("repeat", "S", lambda rr, p: rr["A"] + rr["B"]))
            elif eq.startswith("R =") and any(x[1].get("equation", "").startswith("S =") for x in rules):
                checks.append(("repeat", "R", lambda rr, p: 2 * rr["S"] + p["c"]))
            elif eq.startswith("N ="):
                checks.append(("counter", "N", None))
            elif eq.startswith("Z ="):
                checks.append(("scheduled", "Z", kk))
            elif ru[0] == "ode":
                checks.append(("ode", "W", None))
        # the lineage loop model (C19) reproduces the run bit for bit, rules included
        from props import C19
        lspec = {"vol_rules": [], "div_rules": [], "death_rules": [], "vol_events": [], "div_events": [], "death_events": [],
                 "splitters": [], "vol0": 1.0}
        if ending == "death" and k > 0:
            lspec["death_rules"] = [("species", {"specie": "A", "threshold": "athr", "comp": ">"})]
        elif ending == "division":
            lspec["div_rules"] = [("time", {"threshold": "tdiv"})]
            lspec["splitters"] = [{"modes": {}, "volume": "binomial", "noise": 0.5}]
        a = driver_batch([C19.lineage_job(lspec, M, [float(t) for t in T], seed, True)])[0]
        if a.get("status") == "ok":
            mrows = [[b2f(v) for v in row] for row in a["rows"]]
            if mrows != rows.tolist():
                k = next((j for j, (x, y) in enumerate(zip(mrows, rows.tolist())) if x != y), min(len(mrows), len(rows)))
                ctx.broke("corr_C09_lineage_rows_bit_exact", dict(case, seed=seed, difference="row %d: model %s implementation %s" % (
                    k, mrows[k] if k < len(mrows) else None, rows.tolist()[k] if k < len(rows) else None)))
            ctx.count("lineage_bit_exact")
        elif a.get("status") not in ("out-of-fuel", "bad"):
            ctx.broke("corr_C09_lineage_rows_bit_exact", dict(case, seed=seed, difference="model: %s" % a.get("status", a.get("error"))))
        if rows.shape[0] == len(T):
            rows_oracle(ctx, spec, checks, sl, rows, T, "lineage", seed)
            ctx.nontriv(("lineage", k, tuple(sorted(cc[0] for cc in checks)), len(T)))
        elif rows.shape[0] >= 2:
            # a cell that died or divided: its last row is the state at the event pushed to the next grid time, so the per-step
            # counts are checked on the rows before it and the repeated rules on every row
            rows_oracle(ctx, dict(spec, ending=ending), [cc for cc in checks if cc[0] == "repeat"], sl, rows, T[:rows.shape[0]], "lineage/ended", seed)
            if rows.shape[0] >= 3:
                rows_oracle(ctx, dict(spec, ending=ending), [cc for cc in checks if cc[0] in ("counter", "ode")], sl, rows[:-1], T[:rows.shape[0] - 1], "lineage/ended", seed)
            ctx.nontriv(("lineage-ended", ending, k, tuple(sorted(cc[0] for cc in checks)), rows.shape[0]))
            ctx.count("lineage_runs_ended_early")
        ctx.count("lineage_runs")


def run(ctx):
    rng = ctx.rng
    nmod, nseeds = (20, 2) if ctx.quick() else (300, 8)
    for i in range(nmod):
        one_model(ctx, rng, nseeds)
    unit_rules(ctx, rng, 300 if ctx.quick() else 5000)
    lineage_rules(ctx, rng, 25 if ctx.quick() else 400)


def replay(ctx, obj):
    # the generators are deterministic in the seed: re-run the exploration with the recorded seed
    run(ctx)


def describe(ctx):
    rule = ("models = random mass-action network + rules chained in dependency order (additive S=A+B; assignment R=2S+c; parameter "
            "assignment q=1+A/(1+B) feeding a rate; dt counter N=N+1; a rule scheduled at a grid time; ODE rule dW/dt=c), simulated by "
            "SSA, safe SSA, volume, safe volume, delay, delay+volume (bit-exact against the Lean loops, whose rule pass is Model/Rules.lean) and the deterministic "
            "simulator; oracle on implementation rows: repeated rules hold exactly on every row, counter +1 per row from the second "
            "row on, scheduled rule leaves earlier rows untouched and fixes later ones, ODE target +rate*dt per row; unit "
            "correspondence of py_execute_rule / py_execute_volume_rule on random states (all frequencies); lineage single-cell runs "
            "(incl. models where no reaction can fire): same oracle plus number of registered rule objects. distinct = (mode, rule kinds, grid, seed class).")
    return rule, {}, False, ["deterministic mode: dt/ODE rules run inside the integrator at solver-chosen times; only repeated rules are claimed there",
                             "the lineage loop itself is tied by the oracle here and by the bit-exact model of C19"]
