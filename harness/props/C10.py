"""C10 - delayed reactions deliver their delayed part exactly once, after the delay."""
import warnings

import numpy as np

from common import driver_batch, f2b, b2f
from modelspec import build_model, sim_job, TWO_PI
import simcorr
import cme
from props.C05 import ALARM_P


def gen_delay_network(rng):
    """1-3 reactions, each possibly with delayed reactants/products and a delay from one of the families."""
    rx, params = [], {}
    n = rng.randint(1, 3)
    for j in range(n):
        k = "k%d" % j
        params[k] = rng.choice([0.2, 0.5, 1.0, 2.0])
        base = rng.choice([
            ([], ["A"], []), (["A"], ["B"], []), (["A"], [], ["B"]), (["A", "A"], [], ["B"]), (["B"], ["A"], ["A"]),
            (["A", "B"], ["A"], ["C"]), ([], [], ["A"]), (["C"], ["A"], ["B", "B"]), (["A"], ["C"], ["B"]),
        ])
        r = {"reactants": list(base[0]), "products": list(base[1]), "prop": {"type": "massaction", "k": k},
             "dreactants": [], "dproducts": list(base[2])}
        if rng.chance(1, 4):
            # a delayed reactant: consumed at delivery whatever its count, so it may legitimately go negative;
            # W enters no rate law (a negative count inside a rate is outside the property's domain)
            r["dreactants"] = ["W"]
        fam = rng.below(4)
        scale = rng.choice([0.001, 0.05, 0.3, 1.0, 3.0, 50.0])   # from far below the grid step to beyond the horizon
        if fam == 0:
            r["delay"] = {"type": "fixed", "delay": "tau%d" % j}
            params["tau%d" % j] = scale
        elif fam == 1:
            r["delay"] = {"type": "gaussian", "mean": "mu%d" % j, "std": "sd%d" % j}
            params["mu%d" % j] = scale
            params["sd%d" % j] = scale * rng.choice([0.1, 0.5, 2.0])      # large std: negative draws occur
        elif fam == 2:
            r["delay"] = {"type": "gamma", "k": "gk%d" % j, "theta": "gt%d" % j}
            params["gk%d" % j] = rng.choice([1.0, 1.5, 2.0, 5.0])
            params["gt%d" % j] = scale
        rx.append(r)
    ic = {"A": rng.randint(2, 10), "B": rng.randint(0, 5), "C": rng.randint(0, 6), "W": rng.randint(0, 40)}
    return {"species": ["A", "B", "C", "W"], "reactions": rx, "params": params, "ic": ic}


def corr(ctx, spec, T, seeds, kind="delay", qlen=None):
    ctx.begin_case({"spec": spec, "grid": [float(t) for t in T], "seeds": seeds, "kind": kind})
    M = build_model(spec)
    dt = float(T[1] - T[0])
    jobs = [sim_job(M, kind, T, s, dt, fuel=simcorr.FUEL, spec=spec, qlen=qlen) for s in seeds]
    ans = driver_batch(jobs)
    if any(a.get("status") == "out-of-fuel" for a in ans):
        ctx.count("discarded_unbounded_network")
        return
    if any(a.get("status") != "ok" for a in ans):
        ctx.broke("corr_C10_model_run", {"spec": spec, "grid": [float(t) for t in T], "seed": seeds[0], "kind": kind,
                                       "difference": str([a.get("status", a.get("error")) for a in ans])})
        return
    for s, a in zip(seeds, ans):
        r = simcorr.run_real(M, kind, T, s, dt, qlen=qlen)
        ctx.evaluated()
        d = simcorr.compare(r, a, kind)
        if d is not None:
            ctx.broke("corr_C10_delay_trajectory_and_queue_bit_exact", {"spec": spec, "grid": [float(t) for t in T], "seed": s, "kind": kind, "difference": d})
        pend = sum(sum(row) for row in r["queue"][1])
        fams = tuple(sorted((x.get("delay") or {"type": "none"})["type"] for x in spec["reactions"]))
        if np.any(np.diff(r["rows"], axis=0) != 0):
            ctx.nontriv((kind, fams, len(T), pend > 0, s % 5))
    for x in spec["reactions"]:
        ctx.count("delay:" + (x.get("delay") or {"type": "none"})["type"])
    ctx.sample({"spec": spec, "grid_points": len(T)}, cap=3)


def accounting(ctx, spec, T, seed):
    """the property on implementation output: counting species make firings (Cnt_j, immediate) and
    deliveries (Dlv_j, delayed) visible; nothing is lost or duplicated; fixed delays arrive on time."""
    s2 = dict(spec, reactions=[dict(r) for r in spec["reactions"]], species=list(spec["species"]))
    for j, r in enumerate(s2["reactions"]):
        r["products"] = list(r["products"]) + ["Cnt%d" % j]
        r["dproducts"] = list(r.get("dproducts", [])) + ["Dlv%d" % j]
        s2["species"] += ["Cnt%d" % j, "Dlv%d" % j]
    ctx.begin_case({"accounting": s2, "grid": [float(t) for t in T], "seed": seed})
    M = build_model(s2)
    dt = float(T[1] - T[0])
    r = simcorr.run_real(M, "delay", T, seed, dt)
    sl = M.get_species_list()
    rows = r["rows"]
    x0 = np.array(M.get_species_array(), dtype=float)
    # (the stoichiometries the run is held against come from the reaction definitions, not from the model object)
    from modelspec import spec_matrices
    U, D = spec_matrices(s2, sl)
    pend = np.array(r["queue"][1]).sum(axis=0) if r["queue"][1] else np.zeros(len(spec["reactions"]))
    rep = {"spec": s2, "grid": [float(t) for t in T], "seed": seed}
    ctx.evaluated()
    # the last reported row may precede queue deliveries/firing at the final instant: account at the last row
    last = rows[-1]
    for j, rx in enumerate(spec["reactions"]):
        cj, dj = last[sl.index("Cnt%d" % j)], last[sl.index("Dlv%d" % j)]
        if dj > cj:
            ctx.violation("accounting/duplicated", "reaction %d: %g deliveries for %g firings" % (j, dj, cj), dict(rep, reaction=j))
            return
        if cj - dj > pend[j] + 1e-9 and rows.shape[0] == len(T):
            # firings after the last row are not visible; pending can only exceed the visible gap, never fall short
            ctx.violation("accounting/lost", "reaction %d: %g firings, %g deliveries, only %g pending in the final queue" % (j, cj, dj, pend[j]), dict(rep, reaction=j))
            return
    # state = x0 + sum firings*U + sum deliveries*D (exact, from the counters)
    cnt = np.array([last[sl.index("Cnt%d" % j)] for j in range(len(spec["reactions"]))])
    dlv = np.array([last[sl.index("Dlv%d" % j)] for j in range(len(spec["reactions"]))])
    want = x0 + U @ cnt + D @ dlv
    if np.any(want != last):
        ctx.violation("accounting/state", "reported state differs from x0 + firings x immediate + deliveries x delayed stoichiometry",
                      dict(rep, expected=want.tolist(), got=last.tolist()))
        return
    # timing of fixed delays: k-th delivery within grid resolution of k-th firing + delay
    for j, rx in enumerate(spec["reactions"]):
        dl = rx.get("delay")
        if dl and dl["type"] == "fixed":
            tau = float(spec["params"][dl["delay"]])
            c = rows[:, sl.index("Cnt%d" % j)]; d = rows[:, sl.index("Dlv%d" % j)]
            tf = [T[i] for i in range(len(T)) for _ in range(int(c[i] - (c[i - 1] if i else x0[sl.index("Cnt%d" % j)])))]
            td = [T[i] for i in range(len(T)) for _ in range(int(d[i] - (d[i - 1] if i else 0)))]
            span = (len(T) - 1) * dt          # a delay beyond the queue's span is clamped to its last slot (C20)
            for k in range(len(td)):
                # rows show the state at a grid time *before* the event at that time is applied: allow two steps
                if not (tf[k] + tau - 2.5 * dt <= td[k] <= tf[k] + tau + 2.5 * dt) and tf[k] + tau < T[-1] - 2 * dt:
                    ctx.violation("delivery-time", "reaction %d: delivery %d reported at t=%g for a firing reported at t=%g with delay %g" % (j, k, td[k], tf[k], tau),
                                  dict(rep, reaction=j, k=k))
                    return
                # whatever the horizon: nothing is delivered before its time (or before the last slot of the queue)
                if td[k] < tf[k] + min(tau, span) - 2.5 * dt:
                    ctx.violation("delivery-time/early", "reaction %d: delivery %d reported at t=%g, before its time: the firing was reported at t=%g and the delay is %g"
                                  % (j, k, td[k], tf[k], tau), dict(rep, reaction=j, k=k))
                    return
            ctx.count("fixed_delay_deliveries_timed", len(td))
    ctx.count("accounting_runs")


def late_grid(ctx, spec, seed):
    """a grid that starts long after every firing and every delivery has happened (A -> delayed B at rate 10 per molecule,
    delays around 0.5, grid from t = 4): every reported row already holds all the delayed products.  (The chance that a
    molecule of A survives to t = 3 is 20 e^-30.)"""
    T1 = np.linspace(4.0, 6.0, 201)
    for dl, pv in (({"type": "fixed", "delay": "tau"}, {"tau": 0.5}), ({"type": "gaussian", "mean": "mu", "std": "sd"}, {"mu": 0.5, "sd": 0.05}),
                   ({"type": "gamma", "k": "gk", "theta": "gt"}, {"gk": 4.0, "gt": 0.1})):
        sp = {"species": ["A", "B"], "reactions": [{"reactants": ["A"], "products": [], "dreactants": [], "dproducts": ["B"],
                                                     "prop": {"type": "massaction", "k": "k0"}, "delay": dl}],
              "params": dict(pv, k0=10.0), "ic": {"A": 20, "B": 0}}
        ctx.begin_case({"late_grid": sp, "seed": seed})
        M = build_model(sp)
        r = simcorr.run_real(M, "delay", T1, seed, float(T1[1] - T1[0]))
        ctx.evaluated()
        sl = M.get_species_list()
        b = r["rows"][:, sl.index("B")]
        if np.any(b != 20):
            i = int(np.argmax(b != 20))
            ctx.violation("delivery-time/late-grid", "delay %s: at t=%g (long after every firing time plus delay) only %g of 20 delayed products are reported"
                          % (dl["type"], T1[i], b[i]), {"spec": sp, "seed": seed, "grid_start": 4.0, "row": i, "B": b[:6].tolist()})
            return
        ctx.count("late_grid_runs")


def step_by_step(ctx, seed):
    """a delayed reaction added to a model that was already in use (the way an interactive session builds models): its
    delayed part arrives after *its own* delay.  X -> (fixed delay 6) Y at rate 50 per molecule, 20 X: no Y before t = 6,
    all 20 at the end; reaction 0 of the model has no delay, or a delay of 2."""
    from bioscrape.types import Model
    T = np.linspace(0, 10.0, 101)
    for first_delay in (None, 2.0):
        for used in ("initialised", "simulated"):
            case = {"scenario": "delayed reaction added step by step", "first_reaction_delay": first_delay, "model_before": used, "seed": seed}
            ctx.begin_case(case)
            r0 = (["W"], ["Z"], "massaction", {"k": 1.0}) + (("fixed", [], ["Z"], {"delay": first_delay}) if first_delay else ())
            M = Model(species=["W", "Z", "X", "Y"], reactions=[r0], initial_condition_dict={"W": 5, "Z": 0, "X": 20, "Y": 0})
            if used == "simulated":
                simcorr.run_real(M, "delay", T, seed, 0.1)
            M.create_reaction(["X"], [], "massaction", {"k": 50.0}, delay_type="fixed", delay_reactants=[], delay_products=["Y"],
                              delay_param_dict={"delay": 6.0})
            for kind in ("delay", "delayvolume"):
                r = simcorr.run_real(M, kind, T, seed, 0.1)
                ctx.evaluated()
                y = r["rows"][:, M.get_species_list().index("Y")]
                early = [float(t) for t, v in zip(T, y) if t < 5.95 and v != 0]
                if early or y[-1] != 20:
                    ctx.violation("delivery-time/step-by-step", "a delayed reaction (delay 6) added to a model already %s: delayed products reported at t=%s, "
                                  "final count %g of 20 (%s)" % (used, early[:3], y[-1], kind), dict(case, kind=kind, Y=y[:80:10].tolist()))
                    return
            ctx.count("step_by_step_runs")


def continued_run(ctx, seed):
    """a delay simulation continued in a second leg from the first leg's final state and the queue it returned: what was
    pending at the end of leg 1 arrives in leg 2 at its own firing time plus delay.  X -> (fixed delay 12) Y at rate 50 per
    molecule, 20 X: every firing happens before t = 1, so Y is 0 up to t = 11.9 and 20 from t = 13.1 on; legs 0..10, 10..20."""
    from bioscrape.types import Model
    from bioscrape.simulator import ModelCSimInterface, DelaySSASimulator, DelayVolumeSSASimulator, ArrayDelayQueue
    from bioscrape.types import Volume
    from bioscrape.random import py_seed_random
    for kind in ("delay", "delayvolume"):
        for qlen in (400, 256, 201):
            case = {"scenario": "continued delay simulation", "simulator": kind, "queue_slots": qlen, "seed": seed}
            ctx.begin_case(case)
            M = Model(species=["X", "Y"], reactions=[(["X"], [], "massaction", {"k": 50.0}, "fixed", [], ["Y"], {"delay": 12.0})],
                      initial_condition_dict={"X": 20, "Y": 0})
            I = ModelCSimInterface(M)
            I.py_set_dt(0.1)
            q = ArrayDelayQueue.setup_queue(1, qlen, 0.1)
            py_seed_random(int(seed))
            T1, T2 = np.linspace(0, 10.0, 101), np.linspace(10.0, 20.0, 101)

            def leg(T_, q_):
                if kind == "delay":
                    return DelaySSASimulator().py_delay_simulate(I, q_, T_)
                v = Volume(); v.py_set_volume(1.0)
                return DelayVolumeSSASimulator().py_delay_volume_simulate(I, q_, v, T_)
            r1 = leg(T1, q)
            rows1 = np.array(r1.py_get_result(), dtype=float)
            I.py_set_initial_state(rows1[-1].copy())
            I.py_set_initial_time(10.0)
            parts = r1.py_get_delay_queue().py_binomial_partition(0.5) if kind == "delay" else None      # (before leg 2 uses the queue up)
            r2 = leg(T2, r1.py_get_delay_queue())
            rows2 = np.array(r2.py_get_result(), dtype=float)
            ctx.evaluated()
            yi = M.get_species_list().index("Y")
            y = np.concatenate([rows1[:, yi], rows2[:, yi]])
            t = np.concatenate([T1, T2])
            early = [float(a) for a, b in zip(t, y) if a <= 11.9 and b != 0]
            late = [float(a) for a, b in zip(t, y) if a >= 13.1 and b != 20]
            # ... and the same continuation after the carried-over queue was split between two daughters (a division): every
            # pending delivery goes to exactly one of them and arrives there at its own time
            if kind == "delay":
                ysum = np.zeros(len(T2))
                for qd in (parts[0], parts[1]):
                    I.py_set_initial_state(np.zeros(2))
                    I.py_set_initial_time(10.0)
                    ysum += np.array(DelaySSASimulator().py_delay_simulate(I, qd, T2).py_get_result(), dtype=float)[:, yi]
                ctx.evaluated()
                e2 = [float(a) for a, b in zip(T2, ysum) if a <= 11.9 and b != 0]
                l2 = [float(a) for a, b in zip(T2, ysum) if a >= 13.1 and b != 20]
                if e2 or l2:
                    ctx.violation("delivery-time/partitioned-queue", "the queue returned by a delay simulation (delay 12, all firings before t=1, %d slots) split between two "
                                  "daughters: together they report deliveries before t=11.9 at %s, not all 20 at t=%s" % (qlen, e2[:3], l2[:3]),
                                  dict(case, Y_daughters=ysum[::10].tolist()))
                    return
            if early or late:
                ctx.violation("delivery-time/continued-run", "a %s simulation continued with the queue it returned (delay 12, all firings before t=1, %d slots): "
                              "Y reported before t=11.9 at %s, not all 20 delivered at t=%s" % (kind, qlen, early[:3], late[:3]),
                              dict(case, Y_leg2=rows2[::10, yi].tolist()))
                return
            ctx.count("continued_runs")


def entry_point_grids(ctx, seed):
    """py_simulate_model(delay=True) on a uniform and on a refined (non-uniform) grid: G -> G at rate 1 with a delayed product P
    (fixed delay 20, Gaussian(20, 1)): no P before t = 19 resp. 10, P arrives from t = 21 on."""
    from bioscrape.types import Model
    from bioscrape.simulator import py_simulate_model
    from bioscrape.random import py_seed_random
    grids = {"uniform": np.linspace(0, 100.0, 101), "refined": np.concatenate([np.arange(0, 50.0, 1.0), np.arange(50.0, 100.5, 0.5)])}
    for dl, earliest in ((("fixed", {"delay": 20.0}), 19.0), (("gaussian", {"mean": 20.0, "std": 1.0}), 10.0)):
        for gname, T in grids.items():
            for vol in (False, True):
                case = {"scenario": "py_simulate_model(delay=True)", "delay": dl[0], "grid": gname, "volume": vol, "seed": seed}
                ctx.begin_case(case)
                M = Model(species=["G", "P"], reactions=[(["G"], ["G"], "massaction", {"k": 1.0}, dl[0], [], ["P"], dl[1])], initial_condition_dict={"G": 1, "P": 0})
                py_seed_random(int(seed))
                with warnings.catch_warnings():
                    warnings.simplefilter("ignore")
                    r = py_simulate_model(T.copy(), Model=M, stochastic=True, delay=True, volume=vol, return_dataframe=False)
                rows = np.array(r.py_get_result(), dtype=float)
                ctx.evaluated()
                pcol = rows[:, M.get_species_list().index("P")]
                early = [float(t) for t, v in zip(T, pcol) if t < earliest and v != 0]
                if early or pcol[-1] < 40:
                    ctx.violation("delivery-time/entry-point", "py_simulate_model(delay=True, volume=%s) on the %s grid, %s delay 20: P reported at t=%s (demanded: not before %g), "
                                  "P at the end %g (about 80 expected)" % (vol, gname, dl[0], early[:3], earliest, pcol[-1]), case)
                    return
                ctx.count("entry_point_grid_cases")


def queue_finer_than_volume_step(ctx):
    """the delay + volume simulator with a delay queue whose grid is finer than the volume step (interface dt = 1, queue and
    reporting step 0.05) and with the two aligned: 0 -> C at rate 4 with a product B after the fixed delay 0.5.  C counts
    firings, B deliveries: B(t) lies between C(t - tau - 2 steps) and C(t - tau + 2 steps) at every reported time, and the
    number of firings is the one of a rate-4 process."""
    from bioscrape.types import Model, Volume
    from bioscrape.simulator import ModelCSimInterface, ArrayDelayQueue, DelayVolumeSSASimulator
    from bioscrape.random import py_seed_random
    K, TAU, H, TEND, SLACK = 4.0, 0.5, 0.05, 30.0, 2
    for vstep in (H, 1.0, 0.25):
        for seed in (11, 12):
            case = {"scenario": "delay+volume simulator, queue step %g, volume step %g" % (H, vstep), "seed": seed}
            ctx.begin_case(case)
            py_seed_random(seed)
            M = Model(reactions=[([], ["C"], "massaction", {"k": K}, "fixed", [], ["B"], {"delay": TAU})], initial_condition_dict={"C": 0, "B": 0})
            M.py_initialize()
            sl = M.get_species_list()
            tp = np.arange(0, TEND + H / 2, H)
            I = ModelCSimInterface(M)
            I.py_set_dt(vstep)
            q = ArrayDelayQueue(np.zeros((1, len(tp) + 5)), H, 0.0)
            v = Volume(); v.py_set_volume(1.0)
            res = np.array(DelayVolumeSSASimulator().py_delay_volume_simulate(I, q, v, tp).py_get_result())
            ctx.evaluated()
            C, B = res[:, sl.index("C")], res[:, sl.index("B")]
            s_ = int(round(TAU / H))
            bad = []
            for i in range(len(tp)):
                lo_i, hi_i = i - s_ - SLACK, min(i - s_ + SLACK, len(tp) - 1)
                lo = C[lo_i] if lo_i >= 0 else 0.0
                hi = C[hi_i] if hi_i >= 0 else 0.0
                if not (lo <= B[i] <= hi):
                    bad.append(i)
            expect = K * TEND
            if bad or abs(C[-1] - expect) > 8 * np.sqrt(expect):
                ctx.violation("delivery-time/queue-finer-than-volume-step", "queue step %g, volume step %g: %d firings (about %d expected); deliveries outside "
                              "[C(t-tau-2 steps), C(t-tau+2 steps)] at %d of %d reported times (first at t=%s)"
                              % (H, vstep, C[-1], expect, len(bad), len(tp), float(tp[bad[0]]) if bad else None), case)
                return
            ctx.count("queue_vs_volume_step_runs")


def idle_with_pending_deliveries(ctx):
    """the delay + volume simulator when nothing can fire any more while deliveries are still queued, reported on a grid finer
    than the volume / queue step: A -> (fixed delay 6) B from 20 copies at rate 5 per copy - every A has fired by t = 3, no B
    may be reported before t = 5.5, all 20 are there at the end."""
    from bioscrape.types import Model, Volume
    from bioscrape.simulator import ModelCSimInterface, ArrayDelayQueue, DelayVolumeSSASimulator
    from bioscrape.random import py_seed_random
    for step, H in ((0.5, 0.05), (0.5, 0.5), (0.25, 0.05)):
        for seed in (1, 2):
            case = {"scenario": "delay+volume simulator idle with pending deliveries", "volume_and_queue_step": step, "report_step": H, "seed": seed}
            ctx.begin_case(case)
            py_seed_random(seed)
            M = Model(reactions=[(["A"], [], "massaction", {"k": 5.0}, "fixed", [], ["B"], {"delay": 6.0})], initial_condition_dict={"A": 20, "B": 0})
            M.py_initialize()
            sl = M.get_species_list()
            tp = np.arange(0, 12.0 + H / 2, H)
            I = ModelCSimInterface(M)
            I.py_set_dt(step)
            q = ArrayDelayQueue(np.zeros((1, int(12.0 / step) + 8)), step, 0.0)
            v = Volume(); v.py_set_volume(1.0)
            res = np.array(DelayVolumeSSASimulator().py_delay_volume_simulate(I, q, v, tp).py_get_result())
            ctx.evaluated()
            B = res[:, sl.index("B")]
            early = [float(t) for t, b in zip(tp, B) if b > 0 and t < 6.0 - step - 1e-9]
            if early or B[-1] != 20:
                ctx.violation("delivery-time/idle-with-pending-deliveries", "volume/queue step %g, reporting step %g: B first reported at t=%s (not before %g), %g of 20 delivered by t=12"
                              % (step, H, early[:1], 6.0 - step, B[-1]), case)
                return
            ctx.count("idle_with_pending_deliveries_runs")


def shared_delayed_species(ctx):
    """delayed products that also take part in the immediate reaction (a species bound at firing and handed back with the
    product after the delay), listed twice, or both consumed and produced in the delayed part: fixed fuel, so the totals at
    the end are known exactly."""
    T = np.linspace(0, 60.0, 121)
    for name, rx, final in (
            ("control", {"reactants": ["F"], "products": ["C"], "dreactants": [], "dproducts": ["M"]}, {"F": 0, "C": 40, "M": 40, "P": 5}),
            ("sequestered", {"reactants": ["F", "P"], "products": ["C"], "dreactants": [], "dproducts": ["P", "M"]}, {"F": 0, "C": 40, "M": 40, "P": 5}),
            ("double", {"reactants": ["F"], "products": ["C"], "dreactants": [], "dproducts": ["M", "M"]}, {"F": 0, "C": 40, "M": 80, "P": 5}),
            ("returned product", {"reactants": ["F"], "products": ["C", "M"], "dreactants": [], "dproducts": ["M"]}, {"F": 0, "C": 40, "M": 80, "P": 5})):
        for dl in ({"type": "fixed", "delay": "tau"}, {"type": "gaussian", "mean": "tau", "std": "sd"}, {"type": "gamma", "k": "gk", "theta": "gt"}):
            spec = {"species": ["F", "P", "C", "M"], "reactions": [dict(rx, prop={"type": "massaction", "k": "k0"}, delay=dl)],
                    "params": {"k0": 0.5, "tau": 0.5, "sd": 0.1, "gk": 2.0, "gt": 0.25}, "ic": {"F": 40, "P": 5, "C": 0, "M": 0}}
            case = {"scenario": "delayed species shared with the immediate part: " + name, "spec": spec, "seed": 17}
            ctx.begin_case(case)
            M = build_model(spec)
            r = simcorr.run_real(M, "delay", T, 17, float(T[1] - T[0]))
            ctx.evaluated()
            sl = M.get_species_list()
            last = {s_: float(r["rows"][-1][sl.index(s_)]) for s_ in sl}
            if any(last[s_] != float(v) for s_, v in final.items()):
                ctx.violation("accounting/shared-delayed-species", "%s, %s delay: 40 firings from 40 units of fuel end at %s; the reaction list gives %s" % (name, dl["type"], last, final), case)
                return
            ctx.count("shared_delayed_species_runs")


def sampler_corr(ctx, rng):
    """Delay samplers: the model's draws equal py_normal_rv / py_gamma_rv / py_uniform_rv bit for bit; KS support."""
    from bioscrape.random import py_seed_random, py_normal_rv, py_gamma_rv, py_uniform_rv, py_exponential_rv
    from scipy import stats
    cases = [("uniform", []), ("exponential", [2.5]), ("normal", [1.5, 0.3]), ("normal", [0.0, 2.0]),
             ("gamma", [1.0, 0.7]), ("gamma", [2.5, 0.7]), ("gamma", [2.5, 1.4]), ("gamma", [7.0, 0.1]), ("gamma", [7.0, 2.0]),
             ("normal", [1.5, 0.3])]
    n = 400 if ctx.quick() else 20000
    jobs, reals = [], []
    for kind, args in cases:
        seed = rng.randint(1, 10**6)
        py_seed_random(seed)
        f = {"uniform": py_uniform_rv, "exponential": py_exponential_rv, "normal": py_normal_rv, "gamma": py_gamma_rv}[kind]
        reals.append([f(*args) for _ in range(n)])
        jobs.append({"op": "rv", "num": "float", "kind": kind, "n": n, "args": [f2b(a) for a in args], "twoPi": f2b(TWO_PI), "seed": seed})
    ans = driver_batch(jobs)
    for (kind, args), real, a in zip(cases, reals, ans):
        ctx.evaluated()
        if "error" in a or [b2f(v) for v in a["draws"]] != real:
            ctx.broke("corr_C10_sampler_" + kind, {"kind": kind, "args": args, "model": str(a)[:200], "implementation": real[:5]})
        if kind == "uniform":
            dist = stats.uniform()
        elif kind == "exponential":
            dist = stats.expon(scale=1 / args[0])
        elif kind == "normal":
            dist = stats.norm(*args)
        else:
            dist = stats.gamma(args[0], scale=args[1])
        p = stats.kstest(real, dist.cdf).pvalue
        if p < ALARM_P:
            ctx.violation("sampler-law/" + kind, "%s%s draws fail a KS test against the named distribution (p=%.2e, n=%d)" % (kind, args, p, n),
                          {"kind": kind, "args": args, "n": n, "p": p})
        ctx.count("sampler:" + kind)


def zero_delay_law(ctx, nruns, seed0):
    """with all delays zero the delay simulator has the law of the master equation (G-test support)."""
    from bioscrape.simulator import ModelCSimInterface, DelaySSASimulator, ArrayDelayQueue
    from bioscrape.random import py_seed_random
    spec = {"species": ["A", "B"], "reactions": [
        {"reactants": ["A"], "products": [], "dreactants": [], "dproducts": ["B"], "prop": {"type": "massaction", "k": "k0"},
         "delay": {"type": "fixed", "delay": "z"}},
        {"reactants": ["B"], "products": ["A"], "prop": {"type": "massaction", "k": "k1"}}],
        "params": {"k0": 1.0, "k1": 0.5, "z": 0.0}, "ic": {"A": 6, "B": 0}}
    M = build_model(spec)
    I = ModelCSimInterface(M)
    S = np.array(M.py_get_update_array()) + np.array(M.py_get_delay_update_array())
    x0 = np.array(M.get_species_array(), dtype=float)
    states, Q = cme.reachable(x0, S, lambda x: I.py_verif_compute_propensities(x, "stoch", 1.0, 0.0))
    T = np.array([0.0, 0.5, 1.0, 1.5, 2.0])
    I.py_set_dt(0.5)
    obs = {}
    for i in range(nruns):
        py_seed_random(seed0 + i)
        q = ArrayDelayQueue.setup_queue(2, len(T), 0.5)
        row = tuple(np.array(DelaySSASimulator().py_delay_simulate(I, q, T).py_get_result())[-1].astype(int))
        obs[row] = obs.get(row, 0) + 1
    P = cme.transient(Q, 2.0)
    G, df, p = cme.g_test(obs, {st: float(P[0, i]) for i, st in enumerate(states)}, nruns)
    ctx.evaluated(nruns)
    ctx.notes.append("zero-delay G-test: %d runs, p=%.3g" % (nruns, p))
    if p < ALARM_P:
        ctx.violation("zero-delay-law", "delay simulator with all delays zero differs in distribution from the master equation (p=%.2e)" % p,
                      {"spec": spec, "nruns": nruns, "seed0": seed0, "G": G, "p": p})


def run(ctx):
    rng = ctx.rng
    nnet, nseeds = (30, 4) if ctx.quick() else (400, 20)
    for i in range(nnet):
        spec = gen_delay_network(rng)
        T = np.linspace(0, rng.choice([2.0, 5.0, 10.0]), rng.choice([11, 41, 101]))
        if i % 4 == 3:
            T = T + rng.choice([0.5, 2.0])        # the grid starts after the interface's initial time 0
        seeds = [rng.randint(1, 2**31) for _ in range(nseeds)]
        corr(ctx, spec, T, seeds)
        if i % 3 == 0:
            corr(ctx, spec, T, seeds[:2], kind="delayvolume")
        accounting(ctx, spec, np.linspace(0, 5.0, 501), seeds[0])
        late_grid(ctx, spec, seeds[0])
        step_by_step(ctx, seeds[0])
        if i % 4 == 0:
            continued_run(ctx, seeds[0])
        if i % 6 == 0:
            entry_point_grids(ctx, seeds[0])
        # fixed delays placed relative to the simulated horizon (the queue has as many slots as grid points):
        # just inside, at, and just beyond it
        fixed = [r for r in spec["reactions"] if (r.get("delay") or {}).get("type") == "fixed"]
        if fixed:
            Th = np.linspace(0, 2.0, 41)
            dth = float(Th[1] - Th[0])
            for off in (-1.0, -0.4, 0.0, 0.2, 0.45, 1.0, 3.0):
                sp2 = dict(spec, params=dict(spec["params"]))
                for r in fixed:
                    sp2["params"][r["delay"]["delay"]] = len(Th) * dth + off * dth
                accounting(ctx, sp2, Th, seeds[0])
    sampler_corr(ctx, rng)
    zero_delay_law(ctx, 3000 if ctx.quick() else 200000, 5000 * ctx.seed + 3)
    queue_finer_than_volume_step(ctx)
    shared_delayed_species(ctx)
    idle_with_pending_deliveries(ctx)


def replay(ctx, obj):
    rep = obj.get("replay") or obj["broken"][0]["detail"]
    if "grid" in rep and "spec" in rep:
        spec = rep["spec"]
        if any(s.startswith("Cnt") for s in spec["species"]):
            spec = dict(spec, species=[s for s in spec["species"] if not s.startswith(("Cnt", "Dlv"))],
                        reactions=[dict(r, products=[p for p in r["products"] if not p.startswith("Cnt")],
                                        dproducts=[p for p in r.get("dproducts", []) if not p.startswith("Dlv")]) for r in spec["reactions"]])
            accounting(ctx, spec, np.array(rep["grid"]), rep["seed"])
        else:
            corr(ctx, spec, np.array(rep["grid"]), [rep["seed"]], rep.get("kind", "delay"))
    else:
        sampler_corr(ctx, ctx.rng)
        zero_delay_law(ctx, 3000, 5000 * ctx.seed + 3)


def describe(ctx):
    rule = ("random networks (1-3 reactions with delayed products and/or delayed reactants; fixed, Gaussian (incl. std large enough for "
            "negative draws) and Gamma (k>=1) delays; delay scales 0.001..50 against grids of step 0.02..1) x seeds: rows and the final "
            "delay queue of DelaySSASimulator (and DelayVolumeSSASimulator) reproduced bit for bit by the Lean loop over the verified "
            "queue; accounting oracle on implementation output with counting species (firings, deliveries, pending; state = x0 + "
            "firings*S_imm + deliveries*S_del; fixed-delay arrival within grid resolution); sampler draws bit for bit + KS support; "
            "zero-delay G-test against the master equation. Non-trivial = trajectory with a state change; distinct by "
            "(simulator, delay families, grid size, pending entries at the end, seed class).")
    return rule, {}, False, ["Box-Muller => N(mu,sigma^2) and Marsaglia-Tsang => Gamma(k,theta) in law are not formalised (KS support only)",
                             "law equality of the zero-delay simulator rests on the unformalised composition (see C05)"]
