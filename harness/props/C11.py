"""C11 - volume-aware simulation scales rates with volume and tracks growth and division."""
import math

import numpy as np

from common import driver_batch, f2b
from modelspec import build_model, sim_job, dump_term
import simcorr
import cme
from props.C05 import ALARM_P, FINITE

LN2 = 0.69314718056


def make_volume(kind, M, args, vol0, x0, t0=0.0):
    """real volume object, initialised after seeding (draws happen here)."""
    from bioscrape.types import Volume, StochasticTimeThresholdVolume, StateDependentVolume
    if kind == "const":
        v = Volume()
        v.py_set_volume(vol0)
        return v
    if kind == "stt":
        v = StochasticTimeThresholdVolume(args["cycle"], args["avg"], args["noise"])
        v.py_initialize(x0.copy(), M.get_parameter_values(), float(t0), vol0)
        return v
    v = StateDependentVolume()
    v.setup(args["avg"], args["noise"], args["growth"], M)
    v.py_initialize(x0.copy(), M.get_parameter_values(), 0.0, vol0)
    return v


def volmodel_json(kind, M, args):
    if kind == "const":
        return None
    if kind == "stt":
        return {"type": "stt", "ln2": f2b(LN2), "cycle": f2b(args["cycle"]), "avg": f2b(args["avg"]), "noise": f2b(args["noise"])}
    term = M.parse_general_expression(args["growth"])
    return {"type": "statedep", "avg": f2b(args["avg"]), "noise": f2b(args["noise"]), "growth": dump_term(term)}


def corr(ctx, spec, T, seeds, kind, args, vol0, safe=False, sim="volume", t0=0.0, dtmul=1):
    ctx.begin_case({"spec": spec, "grid": [float(t) for t in T], "seeds": seeds, "volume": kind, "args": args, "vol0": vol0, "safe": safe, "simulator": sim, "t0": t0, "dtmul": dtmul})
    M = build_model(spec)
    dt = float(T[1] - T[0]) * dtmul        # dtmul > 1: volume ticks coarser than the requested grid
    x0 = np.array(M.get_species_array(), dtype=float)
    vj = volmodel_json(kind, M, args)
    jobs = [sim_job(M, sim, T, s, dt, safe=safe, fuel=simcorr.FUEL, spec=spec, vol0=vol0, volmodel=vj, t0=t0) for s in seeds]
    ans = driver_batch(jobs)
    if any(a.get("status") == "out-of-fuel" for a in ans):
        ctx.count("discarded_unbounded_network")
        return
    if any(a.get("status") != "ok" for a in ans):
        ctx.broke("corr_C11_model_run", {"spec": spec, "grid": [float(t) for t in T], "seed": seeds[0], "volume": kind, "args": args, "vol0": vol0, "safe": safe,
                                       "difference": str([a.get("status", a.get("error")) for a in ans])})
        return
    for s, a in zip(seeds, ans):
        r = simcorr.run_real(M, sim, T, s, dt, safe=safe, vol0=vol0, volume_factory=lambda M_: make_volume(kind, M_, args, vol0, x0, t0), t0=t0)
        ctx.evaluated()
        d = simcorr.compare(r, a, sim)
        if d is not None:
            ctx.broke("corr_C11_volume_trajectory_trace_flag_bit_exact", {"spec": spec, "grid": [float(t) for t in T], "seed": s, "volume": kind,
                                                                          "args": args, "vol0": vol0, "safe": safe, "simulator": sim, "t0": t0, "dtmul": dtmul, "difference": d})
        growth_oracle(ctx, spec, T, s, kind, args, vol0, r, t0)
        ctx.nontriv((kind, bool(r["divided"]), len(r["rows"]) < len(T), bool(np.any(np.diff(r["rows"], axis=0) != 0)), s % 4,
                     str(sorted(x["prop"]["type"] for x in spec["reactions"]))))
    ctx.count("volume:" + kind, len(seeds))
    ctx.sample({"spec": spec, "volume": kind, "args": args, "vol0": vol0, "grid_points": len(T)}, cap=4)


def growth_oracle(ctx, spec, T, seed, kind, args, vol0, r, t0=0.0):
    """the property on implementation output."""
    dt = float(T[1] - T[0])
    vol, times = r["volume"], r["times"]
    rep = {"spec": spec, "grid": [float(t) for t in T], "seed": seed, "volume": kind, "args": args, "vol0": vol0, "t0": t0}
    if len(vol) != len(r["rows"]) or len(times) != len(vol):
        ctx.violation("volume/shape", "volume trace, time axis and rows have different lengths", dict(rep, lengths=[len(vol), len(times), len(r["rows"])]))
        return
    if len(times) == 0:
        # the cell divided before the first requested time (a grid that starts later than the cell): nothing to report
        if not r["divided"]:
            ctx.violation("volume/shape", "an empty result that is not flagged as divided", rep)
        ctx.count("divided_before_first_requested_time")
        return
    if np.any(vol <= 0):
        ctx.violation("volume/positive", "a reported volume is not positive", dict(rep, volume=vol.tolist()[:10]))
        return
    if not np.array_equal(times, np.array(T)[:len(times)]):
        ctx.violation("volume/time-axis", "the time axis of the result is not a prefix of the requested times", rep)
        return
    if kind == "const":
        if np.any(vol != vol0) or r["divided"] or len(vol) != len(T):
            ctx.violation("volume/const", "constant volume changed or divided", dict(rep, volume=vol.tolist()[:10]))
        return
    if kind == "stt":
        g = LN2 / args["cycle"]
        if np.any(np.diff(vol) < 0):
            ctx.violation("volume/monotone", "the reported volume decreases although the growth rate is positive", dict(rep, volume=vol.tolist()[:10]))
            return
        lo = vol0 * np.exp(g * (times - t0 - dt)) * (1 - 1e-9)
        hi = vol0 * np.exp(g * (times - t0)) * (1 + 1e-9)
        if np.any(vol < lo) or np.any(vol > hi):
            i = int(np.argmax((vol < lo) | (vol > hi)))
            ctx.violation("volume/growth-law", "reported volume %g at t=%g is not within one time step of V0*exp(g (t-t0)) = %g" % (vol[i], times[i], vol0 * math.exp(g * (times[i] - t0))),
                          dict(rep, row=i))
            return
        if args["noise"] == 0:
            divT = t0 + math.log(args["avg"] / vol0) / g
            if divT <= T[-1] - dt:
                # the simulator's ticks are the accumulated floats t0 + dt + dt + ...; division is reported at the first tick t
                # with t - dt < divT <= t, and the rows written by then are the grid times <= that tick (a tick that falls
                # one ulp short of its grid value has not reached it).  Candidates for divT and its float neighbours.
                ends = set()
                for dT in (divT - 1e-12, divT, divT + 1e-12):
                    t = float(t0)           # ticks are counted from the interface's initial time, wherever the grid starts
                    for _ in range(int(round((float(T[-1]) - float(t0)) / dt)) + 3):
                        t = t + dt
                        if dT > t - dt and dT <= t:
                            break
                    ends.add(max([float(x) for x in T if x <= t] or [float(T[0])]))
                ok = r["divided"] and float(times[-1]) in ends
                if not ok:
                    ctx.violation("volume/division", "division time %g: result ends at t=%g (expected %s), divided=%s" % (divT, times[-1], sorted(ends), r["divided"]), rep)
            elif divT > T[-1] + dt:
                if r["divided"] or len(times) != len(T):
                    ctx.violation("volume/division", "no division before the horizon, yet the result is truncated or flagged", rep)
        else:
            # the time left to division at initialisation, Tl = log(avg/V0)/g, is multiplied by one normal(1, noise) draw and
            # counted from the time of initialisation: the observed division lies within 7 standard deviations of t0 + Tl
            Tl = math.log(args["avg"] / vol0) / g
            lo_t, hi_t = t0 + Tl * (1 - 7 * args["noise"]), t0 + Tl * (1 + 7 * args["noise"])
            if r["divided"] and len(times) < len(T):
                if not (float(times[-1]) >= lo_t - 1e-9 and float(times[-1]) - 2 * dt <= hi_t + 1e-9):
                    ctx.violation("volume/division-noise", "initialised at t0=%g with %g to go (noise %g): the cell divides at t=%g, outside [%g, %g]"
                                  % (t0, Tl, args["noise"], times[-1], lo_t, hi_t), rep)
                    return
            elif not r["divided"] and float(T[-1]) - dt > hi_t + 1e-9:
                ctx.violation("volume/division-noise", "initialised at t0=%g with %g to go (noise %g): no division by t=%g" % (t0, Tl, args["noise"], T[-1]), rep)
                return
            ctx.count("noisy_division_checked")
        ctx.count("growth_checked")
        return
    if kind == "statedep":
        if np.any(np.diff(vol) < -1e-12):
            ctx.violation("volume/monotone", "state dependent volume with non-negative growth law decreases", dict(rep, volume=vol.tolist()[:10]))
            return
        if r["divided"] != (len(times) < len(T)) and not (r["divided"] and len(times) == len(T)):
            ctx.violation("volume/division", "truncated result not flagged as divided", rep)


def late_born_cells(ctx, rng):
    """cells whose volume model is initialised late in a long experiment (daughter cells, continued simulations): the noise
    of the division time is a fraction of the time *left* to division, whatever the clock reads at initialisation."""
    spec = {"species": ["A"], "reactions": [{"reactants": [], "products": ["A"], "prop": {"type": "massaction", "k": "k0"}}],
            "params": {"k0": 1.0}, "ic": {"A": 0}}
    args = {"cycle": 10.0, "avg": 2.0, "noise": 0.05}
    for t0 in (0.0, 60.0, 600.0):
        T = t0 + np.arange(0, 301) * 0.05
        for j in range(6):
            seed = rng.randint(1, 2**31)
            ctx.begin_case({"spec": spec, "grid": [float(t) for t in T], "seed": seed, "volume": "stt", "args": args, "vol0": 1.0, "t0": t0})
            M = build_model(spec)
            x0 = np.array(M.get_species_array(), dtype=float)
            r = simcorr.run_real(M, "volume", T, seed, 0.05, vol0=1.0, volume_factory=lambda M_: make_volume("stt", M_, args, 1.0, x0, t0), t0=t0)
            ctx.evaluated()
            growth_oracle(ctx, spec, T, seed, "stt", args, 1.0, r, t0)
    ctx.count("late_born_cells", 18)


def coarse_tick_growth(ctx, rng):
    """volume ticks (dt = 1) coarser than the requested grid (spacing 0.125) and a slow network (less than one event per
    grid point): the run still ends at the first grid time at which the volume model reports division, with every requested
    time up to it reported, and the reported volume stays within one tick of the growth law."""
    spec = {"species": ["A", "B"], "reactions": [{"reactants": ["A"], "products": ["B"], "prop": {"type": "massaction", "k": "k0"}},
                                                  {"reactants": ["B"], "products": ["A"], "prop": {"type": "massaction", "k": "k1"}}],
            "params": {"k0": 0.05, "k1": 0.05}, "ic": {"A": 3, "B": 2}}
    args = {"cycle": 20.0, "avg": 1.8, "noise": 0.0}
    g = LN2 / args["cycle"]
    divT = math.log(args["avg"] / 1.0) / g          # 16.96: reported at tick 17
    T = np.arange(0, 161) * 0.125
    for j in range(4):
        seed = rng.randint(1, 2**31)
        case = {"scenario": "coarse ticks, slow network, growing volume", "spec": spec, "seed": seed, "args": args, "tick": 1.0, "grid_step": 0.125}
        ctx.begin_case(case)
        M = build_model(spec)
        x0 = np.array(M.get_species_array(), dtype=float)
        r = simcorr.run_real(M, "volume", T, seed, 1.0, vol0=1.0, volume_factory=lambda M_: make_volume("stt", M_, args, 1.0, x0))
        ctx.evaluated()
        times, vol = r["times"], r["volume"]
        ok_end = bool(r["divided"]) and len(times) > 0 and float(times[-1]) == 17.0 and len(times) == len(r["rows"]) == len(vol) \
            and np.array_equal(times, T[:len(times)])
        lo = np.exp(g * (times - 1.0)) * (1 - 1e-9)
        hi = np.exp(g * times) * (1 + 1e-9)
        ok_vol = len(times) > 0 and not (np.any(vol < np.minimum(lo, 1.0) * (1 - 1e-9)) or np.any(vol > hi))
        if not (ok_end and ok_vol):
            bad = int(np.argmax((vol > hi) | (vol < np.minimum(lo, 1.0) * (1 - 1e-9)))) if len(times) else 0
            ctx.violation("volume/coarse-ticks", "ticks of 1.0 on a grid of 0.125 (division time %.3f): divided=%s, result ends at t=%s with %d rows (expected t=17 with 137 rows); "
                          "volume %s at t=%s against the law's band [%s, %s]" % (divT, r["divided"], times[-1] if len(times) else None, len(times),
                          vol[bad] if len(times) else None, times[bad] if len(times) else None, lo[bad] if len(times) else None, hi[bad] if len(times) else None), case)
            return
        ctx.count("coarse_tick_growth_runs")


def scaled_cme(ctx, spec, V, nruns, seed0):
    """constant volume: distribution = master equation with volume-scaled propensities (G-test support)."""
    from bioscrape.simulator import ModelCSimInterface, VolumeSSASimulator
    from bioscrape.types import Volume
    from bioscrape.random import py_seed_random
    M = build_model(spec)
    I = ModelCSimInterface(M)
    S = np.array(M.py_get_update_array()) + np.array(M.py_get_delay_update_array())
    x0 = np.array(M.get_species_array(), dtype=float)
    # the oracle's rates: the documented closed forms evaluated through C01's checked stochastic-volume hook
    states, Q = cme.reachable(x0, S, lambda x: I.py_verif_compute_propensities(x, "svol", V, 0.0))
    T = np.array([0.0, 0.5, 1.0])
    I.py_set_dt(0.5)
    obs = {}
    for i in range(nruns):
        py_seed_random(seed0 + i)
        v = Volume(); v.py_set_volume(V)
        row = tuple(np.array(VolumeSSASimulator().py_volume_simulate(I, v, T).py_get_result())[-1].astype(int))
        obs[row] = obs.get(row, 0) + 1
    P = cme.transient(Q, 1.0)
    G, df, p = cme.g_test(obs, {st: float(P[0, i]) for i, st in enumerate(states)}, nruns)
    ctx.evaluated(nruns)
    ctx.notes.append("volume-scaled CME G-test V=%g: %d states, %d runs, p=%.3g" % (V, len(states), nruns, p))
    if p < ALARM_P:
        ctx.violation("volume/cme", "constant-volume simulator (V=%g) differs in distribution from the volume-scaled master equation (p=%.2e)" % (V, p),
                      {"spec": spec, "V": V, "nruns": nruns, "seed0": seed0, "G": G, "p": p})


def closed_form_svol(spec, pv, x, V):
    """the documented volume-scaled stochastic rates, written out in Python from the reaction definitions (no bioscrape
    code involved): mass action k * prod_s x_s(x_s-1)...(x_s-m_s+1) / V^(r-1) (times V for r = 0); Hill terms on s/V.
    None for rate laws not covered (general)."""
    out = []
    for r in spec["reactions"]:
        pr = r["prop"]
        t = pr["type"]
        if t == "massaction":
            a = float(pv[pr["k"]])
            order = len(r["reactants"])
            for sname in sorted(set(r["reactants"])):
                m = r["reactants"].count(sname)
                for j in range(m):
                    a *= max(x[sname] - j, 0.0)
            out.append(a * V if order == 0 else a / V ** (order - 1))
        elif t in ("hillpositive", "hillnegative", "proportionalhillpositive", "proportionalhillnegative"):
            k, K, n = float(pv[pr["k"]]), float(pv[pr["K"]]), float(pv[pr["n"]])
            c = x[pr["s1"]] / V
            h = (c / K) ** n
            a = k * h / (1 + h) if "positive" in t else k / (1 + h)
            if "proportional" in t:
                a *= x[pr["d"]]          # proportional to the *count* of d; the Hill term makes the rate per unit volume
            else:
                a *= V
            out.append(a)
        else:
            out.append(None)
    return out


def scaling_oracle(ctx, spec, V, rng):
    """a bimolecular constant acts as k/V, a zero-order constant as k*V, order r as k/V^(r-1): the interface's stochastic
    volume propensities against the closed forms written out above, at random integer states."""
    M = build_model(spec)
    from bioscrape.simulator import ModelCSimInterface, SafeModelCSimInterface
    sl = M.get_species_list()
    pv = dict(zip(M.get_param_list(), M.get_parameter_values()))
    for it in range(8):
        # the plain and the safe interface (on whole counts the safe guard is zero exactly where the falling factorial is)
        safe = it % 2 == 1
        I = (SafeModelCSimInterface if safe else ModelCSimInterface)(M)
        x = {s_: float(rng.randint(0, 9)) for s_ in sl}
        got = np.array(I.py_verif_compute_propensities(np.array([x[s_] for s_ in sl]), "svol", float(V), 0.0), dtype=float)
        want = closed_form_svol(spec, pv, x, float(V))
        ctx.evaluated()
        for j, w in enumerate(want):
            if w is None or spec["reactions"][j]["prop"]["type"] != "massaction":
                continue            # Hill scaling is decided by C01 (its exact placement of V is part of C01's closed forms)
            if abs(got[j] - w) > 1e-9 * max(1.0, abs(w)):
                ctx.violation("volume/scaling/order-%d%s" % (len(spec["reactions"][j]["reactants"]), "/safe" if safe else ""),
                              "reaction %d (%s) at V=%g, state %s%s: stochastic volume propensity %r, the volume-scaled rate law gives %r"
                              % (j, "+".join(spec["reactions"][j]["reactants"]) or "0", V, x, " (safe interface)" if safe else "", float(got[j]), w),
                              {"spec": spec, "V": V, "state": x, "reaction": j, "got": float(got[j]), "want": w, "safe": safe})
                return
        ctx.count("scaling_points")


def division_at_the_last_grid_time(ctx):
    """a division that the volume model reports exactly at the last requested time (and, as controls, inside the window and
    not at all): the run ends there, flagged as divided."""
    from bioscrape.types import Model
    from bioscrape.simulator import py_simulate_model
    from bioscrape.types import StochasticTimeThresholdVolume
    from bioscrape.random import py_seed_random
    import warnings

    def model():
        return Model(species=["X"], parameters=[("kb", 20.0), ("kd", 1.0)], reactions=[([], ["X"], "massaction", {"k": "kb"}), (["X"], [], "massaction", {"k": "kd"})],
                     initial_condition_dict={"X": 10})
    for label, cycle, dt, tend, seed in (("interior", 5.0, 0.25, 10.0, 11), ("interior", 7.3, 0.5, 10.0, 12), ("none", 25.0, 0.25, 10.0, 13),
                                         ("last step", 10.0, 0.25, 10.0, 14), ("last step", 8.0, 0.5, 8.0, 15), ("last step", 5.9, 0.125, 6.0, 16)):
        for kw in (dict(), dict(safe=True), dict(delay=True)):
            case = {"scenario": "division reported at the last grid time" if label == "last step" else "division " + label, "cycle": cycle, "dt": dt, "end": tend, "seed": seed, "options": kw}
            ctx.begin_case(case)
            T = np.arange(0, tend + dt / 2, dt)
            vol = StochasticTimeThresholdVolume(cycle, 2.0, 0.0)
            vol.py_initialize(np.array([10.0]), np.array([20.0, 1.0]), 0.0, 1.0)
            # the first tick at which the volume model reports division (ticks are the grid times: dt is a power of two)
            g, V, tdiv = LN2 / cycle, 1.0, None
            for k in range(1, len(T)):
                V = V * math.exp(g * dt)
                if vol.py_cell_divided(np.zeros(1), np.zeros(2), float(T[k]), V, dt):
                    tdiv = float(T[k])
                    break
            py_seed_random(seed)
            with warnings.catch_warnings():
                warnings.simplefilter("ignore")
                res = py_simulate_model(T.copy(), Model=model(), stochastic=True, volume=vol, return_dataframe=False, **kw)
            ctx.evaluated()
            divided, tlast = bool(res.py_cell_divided()), float(res.py_get_timepoints()[-1])
            ok = (divided and tlast == tdiv) if tdiv is not None else ((not divided) and tlast == float(T[-1]))
            if not ok:
                ctx.violation(("division/last-grid-time" + ("/delay+volume" if kw.get("delay") else "")) if label == "last step" else "division/" + label,
                              "cycle %g on a grid of step %g to %g (%s): the volume model reports division at %s; the result is flagged divided=%s and ends at %g"
                              % (cycle, dt, tend, kw or "plain", tdiv, divided, tlast), case)
                if not kw.get("delay"):
                    return
                continue
            ctx.count("division_timing_cases")


def run(ctx):
    rng = ctx.rng
    nnet, nseeds = (24, 3) if ctx.quick() else (300, 15)
    for i in range(nnet):
        spec = simcorr.gen_network(rng)
        safe = bool(spec["needs_safe"])
        dt = rng.choice([0.05, 0.1, 0.25, 0.5])
        T = np.arange(0, rng.choice([20, 40, 80]) + 1) * dt
        seeds = [rng.randint(1, 2**31) for _ in range(nseeds)]
        vol0 = rng.choice([0.25, 0.5, 1.0, 2.0, 4.5])
        scaling_oracle(ctx, spec, rng.choice([0.25, 0.5, 2.0, 4.5]), rng)
        c = i % 4
        if c == 0:
            corr(ctx, spec, T, seeds, "const", {}, vol0, safe, dtmul=rng.choice([1, 1, 4]))
        elif c in (1, 2):
            cyc = rng.choice([1.0, 3.0, 10.0, 50.0])
            args = {"cycle": cyc, "avg": vol0 * rng.choice([1.2, 2.0, 8.0]), "noise": 0.0 if c == 1 else rng.choice([0.05, 0.2])}
            # half of these cells start their life later than t = 0 (a daughter cell, a continued simulation)
            t0 = rng.choice([0.0, 0.0, 7.5, 60.0])
            # ... and a third of the grids start later than the cell does (the volume has grown in between)
            off = rng.choice([0.0, 0.0, 2 * dt, 10 * dt]) if math.log(args["avg"] / vol0) / (LN2 / cyc) > 12 * dt else 0.0
            corr(ctx, spec, t0 + off + T, seeds, "stt", args, vol0, safe, t0=t0)
        else:
            args = {"avg": vol0 * rng.choice([1.5, 3.0]), "noise": rng.choice([0.0, 0.1]),
                    "growth": rng.choice(["0.1", "0.05 + 0.01*A", "0.3*B/(1+B)", "k0/10", "0.02 + 0.01*t"])}
            corr(ctx, spec, rng.choice([0.0, 0.0, 5 * dt]) + T, seeds, "statedep", args, vol0, safe, sim="delayvolume" if (i // 4) % 2 else "volume")
    late_born_cells(ctx, rng)
    coarse_tick_growth(ctx, rng)
    nruns = 2500 if ctx.quick() else 150000
    for k, V in enumerate([0.25, 2.0, 4.5]):
        scaled_cme(ctx, FINITE[k % 3 if k < 3 else 0], V, nruns, 7000 * ctx.seed + 11 * k)
    division_at_the_last_grid_time(ctx)


def replay(ctx, obj):
    rep = obj.get("replay") or obj["broken"][0]["detail"]
    if "state" in rep and "V" in rep:
        import common
        scaling_oracle(ctx, rep["spec"], rep["V"], common.SplitMix64(1))
    elif "grid" in rep:
        corr(ctx, rep["spec"], np.array(rep["grid"]), [rep["seed"]], rep["volume"], rep["args"], rep["vol0"], rep.get("safe", False), sim=rep.get("simulator", "volume"), t0=rep.get("t0", 0.0), dtmul=rep.get("dtmul", 1))
    else:
        scaled_cme(ctx, rep["spec"], rep["V"], rep.get("nruns", 2500), rep.get("seed0", 1))


def describe(ctx):
    rule = ("random networks x grids (step 0.05..0.5) x seeds x volume models: constant V in {0.25..4.5}, StochasticTimeThresholdVolume "
            "(cycle 1..50, division noise 0 and >0: initialize draws from the seeded stream), StateDependentVolume (state-dependent "
            "growth laws): rows, volume trace, time axis and divided flag of VolumeSSASimulator reproduced bit for bit by the Lean loop; "
            "oracle on implementation output: volume positive, non-decreasing, within one step of V0*exp(g t), result ends at the first "
            "tick >= the division time and is flagged; G-test of the constant-volume simulator against the master equation with "
            "volume-scaled propensities. distinct = (volume model, divided, truncated, state changed, seed class, propensity types).")
    return rule, {}, False, ["law statement partial as in C05", "accumulated rounding of next_queue_time += delta_t is in the Float model, not in the real-number theorems"]
