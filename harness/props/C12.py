"""C12 - writing a model to SBML and reading it back preserves its behaviour."""
import os
import re
import tempfile
import warnings

import numpy as np

from common import driver_batch, relerr
import sbml_eval

SP = ["A", "B", "C_1"]
HILL = ["hillpositive", "hillnegative", "proportionalhillpositive", "proportionalhillnegative"]


ALIASES = {"A": ["A", "A", "m", "vol"], "B": ["B", "B", "lum", "u"]}


def rename(obj, mp):
    """the same description with species renamed (whole identifiers only, also inside rate and rule strings)."""
    if isinstance(obj, str):
        return re.sub(r"[A-Za-z_][A-Za-z_0-9]*", lambda mo: mp.get(mo.group(0), mo.group(0)), obj)
    if isinstance(obj, dict):
        return {rename(k, mp): rename(v, mp) for k, v in obj.items()}
    if isinstance(obj, (list, tuple)):
        return type(obj)(rename(v, mp) for v in obj)
    return obj


def gen_model(rng):
    # species identifiers are arbitrary: short lower-case ones (m for mRNA, vol, u ...) are ordinary in hand-written models
    mp = {k: rng.choice(v) for k, v in ALIASES.items()}
    return rename(gen_model_(rng), mp)


def gen_model_(rng):
    rx = []
    for j in range(rng.randint(1, 4)):
        c = rng.below(10)
        k = rng.choice(["k%d" % j, rng.choice([0.5, 2.0])])
        if c < 5:
            r = ([rng.choice(SP) for _ in range(rng.randint(0, 4))], [rng.choice(SP) for _ in range(rng.randint(0, 3))], "massaction", {"k": k})
        elif c < 8:
            t = rng.choice(HILL)
            pd = {"k": k, "K": rng.choice(["K%d" % j, 3.0]), "n": rng.choice(["n%d" % j, 2.0, 1.5]), "s1": rng.choice(SP)}
            if "proportional" in t:
                pd["d"] = rng.choice(SP)
            r = ([], [rng.choice(SP)], t, pd)
        else:
            r = ([rng.choice(SP)] if rng.chance(1, 2) else [], [rng.choice(SP)], "general",
                 {"rate": rng.choice(["k%d*A/(1+B)", "k%d*A^2 + C_1", "k%d*exp(-B/4)*C_1", "k%d*log(A+1)", "k%d*exp(-A^2/8)", "k%d*A + Max(B - C_1, 0)",
                                     "k%d*Min(A, B + 1)", "k%d*Abs(A-B)", "k%d*Heaviside(A-2.5)*B"]) % j})
        d = rng.below(5)
        if d == 1:
            r = r + ("fixed", [rng.choice(SP)] if rng.chance(1, 3) else [], [rng.choice(SP)], {"delay": rng.choice([0.5, "tau"])})
        elif d == 2:
            r = r + ("gaussian", [], [rng.choice(SP), rng.choice(SP)], {"mean": rng.choice([1.0, "mu"]), "std": 0.2})
        elif d == 3:
            r = r + ("gamma", [], [rng.choice(SP)], {"k": 2.0, "theta": rng.choice([0.3, "th"])})
        rx.append(r)
    rules = []
    if rng.chance(2, 3):
        rules.append(("additive", {"equation": "S = A + B"}, rng.choice(["repeated", "dt"])))
    if rng.chance(1, 2):
        rules.append(("assignment", {"equation": rng.choice(["R = 2*A + k0", "R = 2*A + k0", "R = -A^2 + 50*k0", "R = log(A + 1) + k0", "R = k0*exp(-B^2/8)"])},
                      rng.choice(["repeated", "dt", 1.5, "start", 0, 0.0, "0", 2])))
    params = {"tau": 0.4, "mu": 1.2, "th": 0.25}
    for j in range(4):
        params["k%d" % j] = rng.choice([0.5, 1.0, 2.0]); params["K%d" % j] = rng.choice([2.0, 3.0]); params["n%d" % j] = rng.choice([1.0, 2.0])
    # (a state variable of an ODE-style model may start below zero: a deviation, a potential)
    return dict(species=list(SP) + ["S", "R"], reactions=rx, parameters=params, rules=rules,
                initial_condition_dict={"A": 4, "B": 3, "C_1": rng.choice([5, 5, -2.5, 0.75]), "S": 0, "R": 0})


def observe(M):
    from bioscrape.simulator import ModelCSimInterface
    sl = M.get_species_list()
    I = ModelCSimInterface(M)
    out = {"species": dict(zip(sl, [float(v) for v in M.get_species_array()]))}
    pd = dict(zip(M.get_param_list(), [float(v) for v in M.get_parameter_values()]))
    out["params"] = pd
    order = sorted(sl)
    perm = [sl.index(s) for s in order]
    out["U"] = np.array(M.py_get_update_array())[perm, :].tolist()
    out["D"] = np.array(M.py_get_delay_update_array())[perm, :].tolist()
    props = []
    for st in ([3.0, 2.0, 4.0, 1.0, 2.0], [6.0, 0.0, 1.0, 0.0, 0.0], [1.5, 2.5, 0.75, 1.0, 1.0]):
        x = np.zeros(len(sl))
        for s, v in zip(order, st):
            x[sl.index(s)] = v
        for mode in ("det", "vol", "stoch", "svol"):
            props.append([float(v) for v in I.py_verif_compute_propensities(x.copy(), mode, 2.0, 0.5)])
    out["propensities"] = props
    out["delays"] = []
    for d in M.get_delays():
        st = d.__reduce__()
        vals = st[1][2] if len(st[1]) > 2 and st[1][2] is not None else ()
        # parameter *values* of the delay (indices differ between the two models)
        pv = M.get_parameter_values()
        name = type(d).__name__
        idx = [int(v) for v in vals if isinstance(v, int)][:]
        if name == "FixedDelay":
            out["delays"].append((name, [float(pv[int(vals[0])])]))
        elif name in ("GaussianDelay", "GammaDelay"):
            out["delays"].append((name, [float(pv[int(vals[1])]), float(pv[int(vals[2])])]))
        else:
            out["delays"].append((name, []))
    # rules by what they do (the text may be spelled differently after the round trip: ln for log, other spacing): the
    # target and the value assigned at three states, species and parameters addressed by name
    robjs = list(M.__getstate__()[6])
    rules = []
    pl = M.get_param_list()
    for r, ro in zip(M.get_rules(), robjs):
        target = r[1]["equation"].split("=")[0].strip()
        effects = []
        for st in ([3.0, 2.0, 4.0, 1.0, 2.0], [6.0, 0.0, 1.0, 0.0, 0.0], [1.5, 2.5, 0.75, 1.0, 1.0]):
            x = np.zeros(len(sl))
            for s_, v in zip(order, st):
                x[sl.index(s_)] = v
            p_ = np.array(M.get_parameter_values(), dtype=float).copy()
            try:
                t_exec = float(r[2])            # a rule scheduled for a time is executed at that time
            except (TypeError, ValueError):
                t_exec = 0.0
            ro.py_execute_rule(x, p_, t_exec, 0.25, True)
            effects.append(round(float(x[sl.index(target)] if target in sl else p_[pl.index(target)]), 9))
        rules.append((r[0] if r[0] != "additive" else "assignment", target + "<-" + str(effects), str(r[2])))
    out["rules"] = rules
    return out


def normalise_freq(f):
    s = str(f)
    return {"repeat": "repeated"}.get(s, s)


def delay_families(ctx, tmpdir):
    """a reaction whose delay family is spelled out as 'none' but which still lists delayed reactants / products (a delay
    switched off by changing only the family: the simulators then apply the delayed part at once) next to the three real
    families; both exports."""
    rx = [(["G"], ["G"], "massaction", {"k": 2.0}, "none", [], ["T", "T"], {}),
          (["T"], [], "massaction", {"k": "k1"}, "none", ["A"], [], {}),
          (["A"], [], "massaction", {"k": "k0"}, "fixed", [], ["B"], {"delay": "tau"}),
          (["B"], [], "massaction", {"k": "k0"}, "gaussian", [], ["A", "A"], {"mean": "mu", "std": 0.2}),
          (["A", "B"], ["A"], "massaction", {"k": 0.5}, "gamma", ["G"], ["B", "G"], {"k": 2.0, "theta": "th"}),
          (["T"], ["A"], "massaction", {"k": "k1"})]
    spec = dict(species=["G", "T", "A", "B"], reactions=rx, parameters={"k0": 0.5, "k1": 1.0, "tau": 0.4, "mu": 1.2, "th": 0.25}, rules=[],
                initial_condition_dict={"G": 1, "T": 0, "A": 4, "B": 3})
    for stochastic in (False, True):
        one(ctx, None, tmpdir, spec=spec, stochastic=stochastic)
        ctx.count("delay_families")


def names_containing_time(ctx, tmpdir):
    """parameters and species whose names contain the letters of the clock's name (lifetime, time_on, runtime) next to the
    clock itself, in rule formulas and general rates."""
    spec = dict(species=["A", "B", "S", "R", "runtime"], parameters={"k0": 0.5, "lifetime": 3.0, "time_on": 1.5, "tau": 0.4},
                reactions=[(["A"], ["B"], "massaction", {"k": "k0"}), ([], ["A"], "general", {"rate": "k0*lifetime/(1 + runtime)"})],
                rules=[("assignment", {"equation": "R = A*lifetime + time_on + t"}, "repeated"), ("assignment", {"equation": "S = runtime + time_on*B"}, "dt")],
                initial_condition_dict={"A": 4, "B": 3, "S": 0, "R": 0, "runtime": 2})
    for stochastic in (False, True):
        one(ctx, None, tmpdir, spec=spec, stochastic=stochastic)
        ctx.count("names_containing_time")


def one(ctx, rng, tmpdir, spec=None, stochastic=None):
    from bioscrape.types import Model
    if spec is None:
        spec = gen_model(rng)
        stochastic = rng.chance(1, 2)
    rep = {"spec": {k: (list(v) if isinstance(v, tuple) else v) for k, v in spec.items()}, "stochastic_export": stochastic}
    ctx.begin_case(rep)
    M = Model(**spec)
    p1, p2 = os.path.join(tmpdir, "a.xml"), os.path.join(tmpdir, "b.xml")
    M.write_sbml_model(p1, stochastic_model=stochastic)
    M.write_sbml_model(p2, stochastic_model=stochastic)
    ctx.evaluated()
    strip = lambda t: re.sub(r"bioscrape_generated_model_\d+", "MODEL", t)
    if strip(open(p1).read()) != strip(open(p2).read()):
        ctx.violation("export-nondeterministic", "writing the same model twice gives different documents (beyond the generated model id)", rep)
        return
    M2 = Model(sbml_filename=p1, sbml_warnings=False)
    a, b = observe(M), observe(M2)
    for key in ("species",):
        if a[key] != b[key]:
            ctx.violation("roundtrip/species", "species or initial values change in the SBML round trip: %s vs %s" % (a[key], b[key]), rep)
            return
    for pn, pv in a["params"].items():
        pn2 = pn[1:] if pn.startswith("_") else pn
        if pn2 not in b["params"] or b["params"][pn2] != pv:
            ctx.violation("roundtrip/parameters", "parameter %s = %r is %r after the round trip" % (pn, pv, b["params"].get(pn2)), rep)
            return
    if a["U"] != b["U"]:
        ctx.violation("roundtrip/stoichiometry", "immediate stoichiometry changes in the SBML round trip", dict(rep, before=a["U"], after=b["U"]))
        return
    if a["D"] != b["D"]:
        ctx.violation("roundtrip/delayed-stoichiometry", "delayed stoichiometry changes in the SBML round trip", dict(rep, before=a["D"], after=b["D"]))
        return
    for i, (pa, pb) in enumerate(zip(a["propensities"], b["propensities"])):
        for r, (va, vb) in enumerate(zip(pa, pb)):
            if relerr(va, vb) > 1e-9 and abs(va - vb) > 1e-9:
                mode = ("det", "vol", "stoch", "svol")[i % 4]
                ctx.violation("roundtrip/rate/" + spec["reactions"][r][2] + "/" + mode,
                              "rate of reaction %d (%s) in %s form is %r before and %r after the round trip" % (r, spec["reactions"][r][2], mode, va, vb), dict(rep, reaction=r))
                return
    if a["delays"] != b["delays"]:
        ctx.violation("roundtrip/delays", "delay types or parameters change in the SBML round trip: %s vs %s" % (a["delays"], b["delays"]), rep)
        return
    ra = [(t, e, normalise_freq(f)) for t, e, f in a["rules"]]
    rb = [(t, e, normalise_freq(f)) for t, e, f in b["rules"]]
    fa = [("0.0" if f == "start" else f) for _, _, f in ra]
    fb = [("0.0" if f == "start" else f) for _, _, f in rb]
    if [(t, e) for t, e, _ in ra] != [(t, e) for t, e, _ in rb] or [float(x) if re.fullmatch(r"[\d.]+", x) else x for x in fa] != [float(x) if re.fullmatch(r"[\d.]+", x) else x for x in fb]:
        ctx.violation("roundtrip/rules", "rules change in the SBML round trip: %s vs %s" % (ra, rb), rep)
        return
    # ---- annotation codec: what was written is what the Lean codec writes and reads
    doc, sm = sbml_eval.read_doc(p1)
    jobs, metas = [], []
    for ri, r in enumerate(sm.getListOfReactions()):
        ann = r.getAnnotationString()
        m = re.search(r"<PropensityType>(.*?)</PropensityType>", ann, re.S)
        if not m:
            continue
        text = m.group(1)
        kvs = [tok.split("=", 1) for tok in text.split(" ") if "=" in tok]
        jobs.append({"op": "annot", "kvs": kvs, "text": text})
        metas.append((ri, text, kvs))
    for (ri, text, kvs), ans in zip(metas, driver_batch(jobs)):
        if "error" in ans or ans["text"] != text or ans["decoded"] != kvs:
            ctx.broke("corr_C12_annotation_codec", {"reaction": ri, "document_text": text, "model": ans})
    # the delay annotations: the text as written, decoded by the Lean codec (pairs, then comma-separated lists), against what
    # the importer's own expressions give and against the delayed reactants / products of the reaction that was written
    jobs, metas = [], []
    for ri, r in enumerate(sm.getListOfReactions()):
        m = re.search(r"<DelayType>(.*?)</DelayType>", r.getAnnotationString(), re.S)
        if not m:
            continue
        text = m.group(1)
        jobs.append({"op": "annot", "kvs": [], "text": text})
        metas.append((ri, text))
    for (ri, text), ans in zip(metas, driver_batch(jobs)):
        kvs = [[tok.split("=")[0], tok.split("=")[1]] for tok in text.split(" ") if "=" in tok]
        if "error" in ans or ans["decoded"] != kvs or ans["lists"] != [kv[1].split(",") for kv in kvs]:
            ctx.broke("corr_C12_delay_annotation_codec", {"reaction": ri, "document_text": text, "model": ans})
            continue
        rx = spec["reactions"][ri]
        if len(rx) > 4:
            lists = {kv[0]: [w for w in l if w != ""] for kv, l in zip(ans["decoded"], ans["lists"])}
            if lists.get("reactants") != list(rx[5]) or lists.get("products") != list(rx[6]):
                ctx.broke("corr_C12_delay_annotation_lists", {"reaction": ri, "document_text": text, "written_reaction": [list(rx[5]), list(rx[6])], "model": lists})
            ctx.count("delay_annotations_decoded")
    ctx.nontriv((stochastic, tuple(sorted(set(r[2] for r in spec["reactions"]))), tuple(sorted(set((r[4] if len(r) > 4 else "none") for r in spec["reactions"]))),
                 tuple(str(r[2]) for r in spec["rules"])))
    for r in spec["reactions"]:
        ctx.count("prop:" + r[2])
        ctx.count("delay:" + (r[4] if len(r) > 4 else "none"))
    ctx.sample({"reactions": [(r[2], r[0], r[1]) + tuple(r[4:5]) for r in spec["reactions"]], "rules": [(r[0], r[2]) for r in spec["rules"]], "stochastic_export": stochastic}, cap=3)


def nested_power_rate(ctx, tmpdir):
    """a general rate with a power of a power: the written MathML is right, the text the importer reads back from libsbml
    (`a^b^c`) is not."""
    from bioscrape.types import Model
    for rate, left in (("k0*(A^K0)^n0", True), ("k0*A^(K0^n0)", False)):
        spec = dict(species=["A", "B"], reactions=[([], ["B"], "general", {"rate": rate})], parameters={"k0": 2.0, "K0": 2.0, "n0": 3.0},
                    initial_condition_dict={"A": 1.5, "B": 0})
        rep = {"spec": spec, "rate": rate}
        ctx.begin_case(rep)
        M = Model(**spec)
        path = os.path.join(tmpdir, "np.xml")
        M.write_sbml_model(path)
        M2 = Model(sbml_filename=path, sbml_warnings=False)
        x = np.array([1.5, 0.0])
        va = float(M.get_propensities()[0].py_get_propensity(x, M.get_parameter_values(), 0.0))
        vb = float(M2.get_propensities()[0].py_get_propensity(np.array([1.5 if s_ == "A" else 0.0 for s_ in M2.get_species_list()]), M2.get_parameter_values(), 0.0))
        ctx.evaluated()
        if relerr(va, vb) > 1e-9:
            ctx.violation("roundtrip/rate/general/left-nested-power" if left else "roundtrip/rate/general/nested-power",
                          "general rate %s evaluates to %r before and %r after the SBML round trip" % (rate, va, vb), dict(rep, before=va, after=vb))
        else:
            ctx.count("nested_power_roundtrip_ok")


def run(ctx):
    warnings.filterwarnings("ignore")
    n = 50 if ctx.quick() else 1500
    with tempfile.TemporaryDirectory(prefix="verif_c12_") as d:
        for i in range(n):
            one(ctx, ctx.rng, d)
        nested_power_rate(ctx, d)
        delay_families(ctx, d)
        names_containing_time(ctx, d)


def replay(ctx, obj):
    run(ctx)


def describe(ctx):
    rule = ("random models over every propensity type (named and numeric parameters), reaction orders 0..4, delayed reactants/products with "
            "fixed / Gaussian / Gamma delays (named and numeric), additive and assignment rules with frequencies repeated / dt / start / a "
            "time, identifier-safe names: written twice (equal up to the model id), read back, and compared: species and initial values, "
            "parameter values, immediate and delayed stoichiometry (by species name), propensities in det/vol/stoch/svol form at three "
            "states, delay types and parameter values, rules and frequencies; both exports; the annotation text of every reaction is "
            "re-encoded and decoded by the Lean codec. distinct = (export, propensity types, delay types, rule frequencies).")
    return rule, {}, False, ["libsbml's XML round trip is the identity by assumption; sympy on re-import is C02"]
