"""C13 - an imported SBML file has the semantics of the SBML document."""
import os
import re
import tempfile
import warnings

import libsbml
import numpy as np

from common import driver_batch, relerr, r2s
import sbml_eval

SP_ = ["A", "B", "C", "D"]
LAWS = ["{k} * {s0} * {s1}", "{k} * {s0}^2 / (1 + {s1})", "{k} * exp(-{s0} / 5)", "{k} * {s0} + {k2}", "abs({k}) * {s0} / ({k2} + {s1})",
        "{k} * {s0} * {m}", "{k}"]


def gen_doc(rng, path):
    """an SBML Level 3 document built directly with libsbml (independent of bioscrape); returns its description."""
    doc = libsbml.SBMLDocument(3, 2)
    m = doc.createModel()
    m.setId("generated_doc")
    c = m.createCompartment(); c.setId("cell"); c.setSize(1.0); c.setConstant(True); c.setSpatialDimensions(3)
    desc = {"species": [], "globals": {}, "reactions": [], "rules": []}
    # species identifiers are arbitrary: short lower-case ones are ordinary in hand-written documents
    nm = {"A": rng.choice(["A", "A", "m", "vol"]), "B": rng.choice(["B", "B", "lum", "u"]), "C": rng.choice(["C", "C", "met"])}
    SP = [nm.get(s, s) for s in SP_]
    for s in SP + ["R1", "R2"]:
        sp = m.createSpecies(); sp.setId(s); sp.setCompartment("cell"); sp.setConstant(False); sp.setBoundaryCondition(False)
        sp.setHasOnlySubstanceUnits(False)
        mode = rng.below(4)
        amount = conc = None
        if mode == 0:
            amount = float(rng.randint(1, 9)); sp.setInitialAmount(amount)
        elif mode == 1:
            conc = float(rng.randint(1, 9)); sp.setInitialConcentration(conc)
        elif mode == 2:
            amount = 0.0; sp.setInitialAmount(amount)
        # (libsbml keeps only one of initialAmount / initialConcentration: setting one unsets the other,
        #  so "both present" cannot occur in a valid Level 3 document; mode 3 leaves both unset)
        desc["species"].append({"id": s, "amount": amount, "conc": conc})
    # sometimes a global parameter carries one of the names bioscrape itself gives a meaning to: in the document it is a
    # parameter like any other
    keyword = rng.choice([None, None, "t", "volume"])
    for g in ["k", "k2", "q", "w"] + ([keyword] if keyword else []):
        p = m.createParameter(); p.setId(g); p.setConstant(g not in ("q", "w"))
        v = rng.choice([0.5, 1.0, 2.0, 3.0, 0.0]) if g not in ("t", "volume") else rng.choice([2.0, 3.0])      # (0: switched off)
        p.setValue(v)
        desc["globals"][g] = v
    nrx = rng.randint(1, 4)
    for j in range(nrx):
        r = m.createReaction(); rid = "r%d" % j; r.setId(rid); r.setReversible(False)
        reac, prods = {}, {}
        for _ in range(rng.randint(0, 2)):
            reac[rng.choice(SP)] = rng.randint(1, 3)
        for _ in range(rng.randint(0, 2)):
            prods[rng.choice(SP)] = rng.randint(1, 3)
        for s, n in reac.items():
            sr = r.createReactant(); sr.setSpecies(s); sr.setStoichiometry(float(n)); sr.setConstant(True)
        for s, n in prods.items():
            sr = r.createProduct(); sr.setSpecies(s); sr.setStoichiometry(float(n)); sr.setConstant(True)
        mods = []
        mod = rng.choice(SP)
        if mod not in reac and mod not in prods:
            mr = r.createModifier(); mr.setSpecies(mod); mods.append(mod)
        law = rng.choice(LAWS)
        s0 = rng.choice(list(reac) or SP); s1 = rng.choice(SP)
        formula = law.format(k="k", k2="k2", s0=s0, s1=s1, m=mods[0] if mods else s1)
        if keyword and rng.chance(1, 2):
            formula = "(" + formula + ") * " + keyword if rng.chance(1, 2) else "(" + formula + ") / (1 + " + keyword + ")"
        kl = r.createKineticLaw()
        locals_ = {}
        lm = rng.below(5)           # local parameters: none / shadow a global / shadow and a private one / (4) see below
        if lm >= 1:
            lp = kl.createLocalParameter(); lp.setId("k"); v = rng.choice([5.0, 7.0, 11.0]); lp.setValue(v); locals_["k"] = v
        if lm >= 2:
            lp = kl.createLocalParameter(); lp.setId("k2"); v = rng.choice([0.25, 13.0]); lp.setValue(v); locals_["k2"] = v
        if lm == 3:
            lp = kl.createLocalParameter(); lp.setId("kloc"); v = rng.choice([0.1, 0.3]); lp.setValue(v); locals_["kloc"] = v
            formula = formula + " + kloc"
        if lm == 4:
            # a local parameter that shadows a global which rules may drive (q by an assignment rule, w by a rate rule) and
            # happens to have the same value attribute: inside this reaction it is still the local constant
            g_ = rng.choice(["q", "w"])
            lp = kl.createLocalParameter(); lp.setId(g_); lp.setValue(desc["globals"][g_]); locals_[g_] = desc["globals"][g_]
            formula = "(" + formula + ") * " + g_
        kl.setMath(libsbml.parseL3Formula(formula))
        desc["reactions"].append({"id": rid, "reactants": reac, "products": prods, "modifiers": mods, "law": formula, "locals": locals_})
    # rules in any order: assignment rules on R1 / q, rate rules on R2 / D / w
    kinds = []
    for _ in range(rng.randint(0, 5)):
        kinds.append(rng.choice(["assignment", "rate"]))
    avars, rvars = ["R1", "q"], ["R2", "D", "w"]
    used = set()
    for kd in kinds:
        pool = [v for v in (avars if kd == "assignment" else rvars) if v not in used]
        if not pool:
            continue
        var = rng.choice(pool); used.add(var)
        math = rng.choice(["A + B", "2 * k * A", "k2 * C / (1 + A)", "3", "A * B - k"])
        math = re.sub(r"[A-Za-z_][A-Za-z_0-9]*", lambda mo: nm.get(mo.group(0), mo.group(0)), math)
        rule = m.createAssignmentRule() if kd == "assignment" else m.createRateRule()
        rule.setVariable(var); rule.setMath(libsbml.parseL3Formula(math))
        desc["rules"].append({"kind": kd, "var": var, "math": math})
    libsbml.writeSBMLToFile(doc, path)
    if rng.chance(1, 4):
        # libsbml's setters keep only one of the two initial attributes; files written by other tools carry both: add an
        # initialConcentration next to some initialAmount attributes in the text (a non-zero amount takes precedence)
        txt = open(path).read()
        for sp_ in desc["species"]:
            if sp_["amount"] is not None and rng.chance(1, 2):
                if sp_["amount"] != 0 and rng.chance(1, 2):
                    sp_["amount"] = rng.choice([2e-9, 5e-12, 1.5e-6])        # amounts in mole are small numbers
                conc = float(rng.randint(1, 9))
                tag = 'id="%s"' % sp_["id"]
                i0 = txt.index("<species ", 0)
                pos = txt.index(tag)
                end = txt.index(">", pos)
                seg = txt[pos:end]
                import re as _re
                seg = _re.sub(r'initialAmount="[^"]*"', 'initialAmount="%r" initialConcentration="%r"' % (sp_["amount"], conc), seg)
                txt = txt[:pos] + seg + txt[end:]
                sp_["conc"] = conc
        open(path, "w").write(txt)
        desc["both_attributes"] = True
    return desc


def sbml_rhs(desc, x, globals_):
    """the SBML semantics of the documented subset, written independently: assignment rules as repeated
    assignments (in document order), then dx/dt = sum_r (nu_prod - nu_react) * law_r in the reaction's own
    scope, plus each rate rule once on its variable."""
    vals = dict(globals_); vals.update(x)
    for ru in desc["rules"]:
        if ru["kind"] == "assignment":
            vals[ru["var"]] = sbml_eval.ast_eval(libsbml.parseL3Formula(ru["math"]), vals)
    d = {s: 0.0 for s in x}
    dparams = {}
    for r in desc["reactions"]:
        env = dict(vals); env.update(r["locals"])
        rate = sbml_eval.ast_eval(libsbml.parseL3Formula(r["law"]), env)
        for s, n in r["reactants"].items():
            d[s] -= n * rate
        for s, n in r["products"].items():
            d[s] += n * rate
    for ru in desc["rules"]:
        if ru["kind"] == "rate":
            v = sbml_eval.ast_eval(libsbml.parseL3Formula(ru["math"]), vals)
            if ru["var"] in d:
                d[ru["var"]] += v
            else:
                dparams[ru["var"]] = v
    return d, vals, dparams


def one(ctx, rng, tmpdir):
    from bioscrape.types import Model
    from bioscrape.simulator import ModelCSimInterface
    path = os.path.join(tmpdir, "doc.xml")
    desc = gen_doc(rng, path)
    ctx.begin_case({"document": desc})
    M = Model(sbml_filename=path, sbml_warnings=False)
    sl = M.get_species_list()
    ctx.evaluated()
    rep = {"document": desc}
    # ---- initial values: non-zero amount takes precedence over the concentration
    sd = M.get_species_dictionary()
    for s in desc["species"]:
        want = s["amount"] if (s["amount"] is not None and s["amount"] != 0) else (s["conc"] if s["conc"] is not None else (s["amount"] or 0.0))
        if s["id"] not in sd:
            ctx.violation("species-missing", "species %s of the document is not a species of the imported model (%s)" % (s["id"], sorted(sd)), rep)
            return
        if float(sd[s["id"]]) != float(want):
            ctx.violation("initial-value", "species %s is imported with %r, the document says amount=%r concentration=%r" % (s["id"], sd[s["id"]], s["amount"], s["conc"]), rep)
            return
    # ---- rules: every assignment rule a repeated assignment, every rate rule exactly one reaction
    rules = M.get_rules()
    a_doc = [r["var"] for r in desc["rules"] if r["kind"] == "assignment"]
    a_imp = [r[1]["equation"].split("=")[0].strip() for r in rules]
    n_rate = sum(1 for r in desc["rules"] if r["kind"] == "rate")
    nrx_imp = np.array(M.py_get_update_array()).shape[1]
    if a_imp != a_doc or any(r[0] != "assignment" or r[2] != "repeated" for r in rules):
        ctx.violation("rules/assignments", "assignment rules of the document %s are imported as %s" % (a_doc, [(r[0], r[1], r[2]) for r in rules]), rep)
        return
    if nrx_imp != len(desc["reactions"]) + n_rate:
        ctx.violation("rules/rate-rule-count", "%d reactions imported for %d reactions and %d rate rules" % (nrx_imp, len(desc["reactions"]), n_rate), rep)
        return
    # ---- net rate equations at sampled states
    I = ModelCSimInterface(M)
    I.py_prep_deterministic_simulation()
    pl = M.get_param_list()
    for _ in range(3):
        x = {s: float(rng.randint(1, 9)) for s in sl}
        want, vals, dparams = sbml_rhs(desc, x, desc["globals"])
        xv = np.array([x[s] for s in sl])
        I.py_apply_repeated_rules(xv, 0.0, True)
        dx = np.zeros(len(sl))
        I.py_calculate_deterministic_derivative(xv.copy(), dx, 0.0)
        ctx.evaluated()
        for i, s in enumerate(sl):
            if s in ("R1",) and "R1" in a_doc:
                continue      # an assigned species has no rate equation
            if relerr(dx[i], want[s]) > 1e-9 and abs(dx[i] - want[s]) > 1e-9:
                locs = any(r["locals"] for r in desc["reactions"])
                ctx.violation("rate-equation/" + ("local-parameters" if locs else "plain") + ("/rules" if desc["rules"] else ""),
                              "d%s/dt = %r at %s, the document's semantics give %r" % (s, dx[i], x, want[s]), dict(rep, state=x, species=s))
                return
    # ---- correspondence with the Lean import model
    refs = [[s, n] for r in desc["reactions"] for s, n in r["reactants"].items()]
    job = {"op": "sbmlimport", "known": sl + list(M.get_param_list()),
           "rules": [{"kind": r["kind"], "var": r["var"], "math": r["math"]} for r in desc["rules"]],
           "species": [dict(id=s["id"], **({"amount": r2s(s["amount"])} if s["amount"] is not None else {}), **({"conc": r2s(s["conc"])} if s["conc"] is not None else {})) for s in desc["species"]],
           "refs": refs}
    a = driver_batch([job])[0]
    if "error" in a:
        ctx.broke("corr_C13_driver", {"document": desc, "error": a["error"]})
        return
    U = np.array(M.py_get_update_array())
    rate_products = [sl[int(np.argmax(U[:, j]))] for j in range(len(desc["reactions"]), nrx_imp) if U[:, j].max() > 0]
    r_doc_species = [r["var"] for r in desc["rules"] if r["kind"] == "rate" and r["var"] in sl]
    if a["assignments"] != a_imp or [v for v in a["rateReactions"] if v in sl] != rate_products:
        ctx.broke("corr_C13_rules", {"document": desc, "model": [a["assignments"], a["rateReactions"]], "implementation": [a_imp, rate_products]})
    from fractions import Fraction
    for sid, v in a["species"]:
        n, dd = v.split("/")
        if float(Fraction(int(n), int(dd))) != float(sd[sid]):
            ctx.broke("corr_C13_initial_value", {"species": sid, "model": v, "implementation": float(sd[sid])})
    ctx.nontriv((len(desc["reactions"]), tuple(r["kind"][0] for r in desc["rules"]), tuple(sorted(len(r["locals"]) for r in desc["reactions"]))))
    ctx.count("rules:" + "".join(r["kind"][0] for r in desc["rules"]))
    ctx.count("local_parameters", sum(len(r["locals"]) for r in desc["reactions"]))
    ctx.sample({"reactions": [(r["reactants"], r["products"], r["law"], r["locals"]) for r in desc["reactions"]], "rules": desc["rules"]}, cap=3)


def left_nested_power(ctx, tmpdir):
    """kinetic laws whose MathML is power(power(a, b), c): libsbml's formulaToL3String prints them as `a^b^c`, which its
    own parser - and the importer's - read as a^(b^c)."""
    from bioscrape.types import Model
    from bioscrape.simulator import ModelCSimInterface
    for law, pv in (("(A^p)^q", {"p": 2.0, "q": 3.0}), ("k * (B^q)^p + A", {"p": 2.0, "q": 0.5, "k": 3.0}), ("A^(p^q)", {"p": 2.0, "q": 3.0})):
        doc = libsbml.SBMLDocument(3, 2)
        m = doc.createModel(); m.setId("nested_power")
        c = m.createCompartment(); c.setId("cell"); c.setSize(1.0); c.setConstant(True); c.setSpatialDimensions(3)
        for sname in ("A", "B", "P"):
            sp = m.createSpecies(); sp.setId(sname); sp.setCompartment("cell"); sp.setConstant(False); sp.setBoundaryCondition(False)
            sp.setHasOnlySubstanceUnits(False); sp.setInitialAmount(1.0)
        for g, v in pv.items():
            p = m.createParameter(); p.setId(g); p.setConstant(True); p.setValue(v)
        r = m.createReaction(); r.setId("r0"); r.setReversible(False)
        pr = r.createProduct(); pr.setSpecies("P"); pr.setStoichiometry(1.0); pr.setConstant(True)
        for mod in ("A", "B"):
            mr = r.createModifier(); mr.setSpecies(mod)
        ast = libsbml.parseL3Formula(law)
        r.createKineticLaw().setMath(ast)
        path = os.path.join(tmpdir, "nested.xml")
        libsbml.writeSBMLToFile(doc, path)
        case = {"kinetic_law": law, "parameters": pv, "printed_by_libsbml": libsbml.formulaToL3String(ast)}
        ctx.begin_case(case)
        M = Model(sbml_filename=path, sbml_warnings=False)
        sl = M.get_species_list()
        I = ModelCSimInterface(M)
        I.py_prep_deterministic_simulation()
        x = {"A": 1.5, "B": 4.0, "P": 0.0}
        dx = np.zeros(len(sl))
        I.py_calculate_deterministic_derivative(np.array([x[s_] for s_ in sl]), dx, 0.0)
        want = sbml_eval.ast_eval(ast, dict(pv, **x))
        got = float(dx[sl.index("P")])
        ctx.evaluated()
        if relerr(got, want) > 1e-9:
            left = "(A^p)^q" in law or "(B^q)^p" in law
            ctx.violation("rate-equation/left-nested-power" if left else "rate-equation/nested-power",
                          "kinetic law %s (MathML power of a power) is imported with rate %r at %s; the document's mathematics give %r"
                          % (law, got, x, want), dict(case, state=x, got=got, want=want))
        else:
            ctx.count("nested_power_ok")


def reversible_attribute(ctx, tmpdir):
    """reactions that carry reversible="true" (an attribute without effect on the rate equations: the kinetic law is the net
    rate): the imported model has every reaction of the document, whichever way the reader's warnings are switched."""
    import warnings
    from bioscrape.types import Model
    from bioscrape.simulator import ModelCSimInterface
    doc = libsbml.SBMLDocument(3, 2)
    m = doc.createModel(); m.setId("reversible_attribute")
    c = m.createCompartment(); c.setId("cell"); c.setSize(1.0); c.setConstant(True); c.setSpatialDimensions(3)
    x = {"A": 3.0, "B": 2.0, "E": 1.5, "P": 0.5}
    for sname in x:
        sp = m.createSpecies(); sp.setId(sname); sp.setCompartment("cell"); sp.setConstant(False); sp.setBoundaryCondition(False)
        sp.setHasOnlySubstanceUnits(False); sp.setInitialAmount(1.0)
    pv = {"kf": 0.4, "kr": 0.1, "kc": 0.7}
    for g, v in pv.items():
        par = m.createParameter(); par.setId(g); par.setConstant(True); par.setValue(v)
    laws = []
    for rid, rev, reac, prod, mods, law in (("r0", True, {"A": 1, "B": 2}, {"P": 1}, [], "kf*A*B^2 - kr*P"), ("r1", False, {"B": 1}, {}, ["E"], "kc*E*B"),
                                            ("r2", True, {"P": 3}, {"A": 2}, [], "kr*P^3 - kf*A^2")):
        r = m.createReaction(); r.setId(rid); r.setReversible(rev)
        for sid, st in reac.items():
            sr = r.createReactant(); sr.setSpecies(sid); sr.setStoichiometry(float(st)); sr.setConstant(True)
        for sid, st in prod.items():
            sr = r.createProduct(); sr.setSpecies(sid); sr.setStoichiometry(float(st)); sr.setConstant(True)
        for sid in mods:
            mr = r.createModifier(); mr.setSpecies(sid)
        ast = libsbml.parseL3Formula(law)
        r.createKineticLaw().setMath(ast)
        laws.append((reac, prod, ast))
    path = os.path.join(tmpdir, "reversible.xml")
    libsbml.writeSBMLToFile(doc, path)
    want = {s_: 0.0 for s_ in x}
    for reac, prod, ast in laws:
        v = sbml_eval.ast_eval(ast, dict(pv, **x))
        for sid, st in reac.items():
            want[sid] -= st * v
        for sid, st in prod.items():
            want[sid] += st * v
    for how, kw in (("default", {}), ("sbml_warnings=True", {"sbml_warnings": True}), ("sbml_warnings=False", {"sbml_warnings": False})):
        case = {"scenario": "reactions flagged reversible", "reader": how}
        ctx.begin_case(case)
        with warnings.catch_warnings():
            warnings.simplefilter("ignore")
            M = Model(sbml_filename=path, **kw)
        sl = M.get_species_list()
        I = ModelCSimInterface(M)
        I.py_prep_deterministic_simulation()
        dx = np.zeros(len(sl))
        I.py_calculate_deterministic_derivative(np.array([x[s_] for s_ in sl]), dx, 0.0)
        ctx.evaluated()
        got = {s_: float(dx[i]) for i, s_ in enumerate(sl)}
        if any(relerr(got.get(s_, float("nan")), want[s_]) > 1e-9 and abs(got.get(s_, float("nan")) - want[s_]) > 1e-12 for s_ in x) or len(M.get_reactions() if hasattr(M, "get_reactions") else laws) != len(laws):
            ctx.violation("rate-equation/reversible-attribute", "read with %s: the imported model's rate equations %s are not the document's %s" % (how, got, want), dict(case, got=got, want=want))
            return
        ctx.count("reversible_attribute_readings")


def duplicate_reactions(ctx, tmpdir):
    """two reactions of a document that differ in nothing but their ids (two enzymes lumped under one law, a reaction entered
    twice by a generator): the net rate is the sum over *reactions*, so both count."""
    from bioscrape.types import Model
    from bioscrape.simulator import ModelCSimInterface
    doc = libsbml.SBMLDocument(3, 2)
    m = doc.createModel(); m.setId("duplicate_reactions")
    c = m.createCompartment(); c.setId("cell"); c.setSize(1.0); c.setConstant(True); c.setSpatialDimensions(3)
    for sname in ("A", "B"):
        sp = m.createSpecies(); sp.setId(sname); sp.setCompartment("cell"); sp.setConstant(False); sp.setBoundaryCondition(False)
        sp.setHasOnlySubstanceUnits(False); sp.setInitialAmount(1.0)
    par = m.createParameter(); par.setId("k"); par.setConstant(True); par.setValue(0.5)
    for rid, law in (("r1", "k * A"), ("r2", "k * A"), ("r3", "k * A"), ("r4", "k * B")):
        r = m.createReaction(); r.setId(rid); r.setReversible(False)
        src, dst = ("A", "B") if rid != "r4" else ("B", "A")
        sr = r.createReactant(); sr.setSpecies(src); sr.setStoichiometry(1.0); sr.setConstant(True)
        sr = r.createProduct(); sr.setSpecies(dst); sr.setStoichiometry(1.0); sr.setConstant(True)
        r.createKineticLaw().setMath(libsbml.parseL3Formula(law))
    path = os.path.join(tmpdir, "duplicates.xml")
    libsbml.writeSBMLToFile(doc, path)
    case = {"scenario": "three identical reactions A -> B (k*A) and one B -> A"}
    ctx.begin_case(case)
    M = Model(sbml_filename=path, sbml_warnings=False)
    sl = M.get_species_list()
    I = ModelCSimInterface(M)
    I.py_prep_deterministic_simulation()
    x = {"A": 4.0, "B": 1.0}
    dx = np.zeros(len(sl))
    I.py_calculate_deterministic_derivative(np.array([x[s_] for s_ in sl]), dx, 0.0)
    ctx.evaluated()
    want = {"A": -3 * 0.5 * 4.0 + 0.5 * 1.0, "B": 3 * 0.5 * 4.0 - 0.5 * 1.0}
    got = {s_: float(dx[i]) for i, s_ in enumerate(sl)}
    if any(abs(got[s_] - want[s_]) > 1e-12 for s_ in want):
        ctx.violation("rate-equation/duplicate-reactions", "the imported model's rate equations %s are not the sum over the document's four reactions %s" % (got, want), dict(case, got=got, want=want))
        return
    ctx.count("duplicate_reactions")


def power_text(ctx, tmpdir):
    """every shape of a tree of powers with up to three `^` (identifiers A, p, B, q from left to right) as the kinetic law of a
    document: libsbml's text for it against the Lean printer, the imported rate against the value of the tree the Lean reader
    returns (theorem read_print_readBack), and - the property - against the document's own mathematics."""
    from bioscrape.types import Model
    from bioscrape.simulator import ModelCSimInterface
    names = ["A", "p", "B", "q"]
    vals = {"A": 1.5, "p": 1.1, "B": 1.2, "q": 0.9}

    def shapes(k):
        if k == 0:
            return ["leaf"]
        out = []
        for i in range(k):
            for a in shapes(i):
                for b in shapes(k - 1 - i):
                    out.append((a, b))
        return out

    def label(shape, counter):
        if shape == "leaf":
            counter[0] += 1
            return {"atom": counter[0] - 1}
        a = label(shape[0], counter)
        return {"pow": [a, label(shape[1], counter)]}

    def ast_of(t):
        if "atom" in t:
            n = libsbml.ASTNode(libsbml.AST_NAME); n.setName(names[t["atom"]]); return n
        n = libsbml.ASTNode(libsbml.AST_POWER); n.addChild(ast_of(t["pow"][0])); n.addChild(ast_of(t["pow"][1])); return n

    def value(t):
        return vals[names[t["atom"]]] if "atom" in t else value(t["pow"][0]) ** value(t["pow"][1])

    def show(t):
        return names[t["atom"]] if "atom" in t else "(%s)^(%s)" % (show(t["pow"][0]), show(t["pow"][1]))
    trees = [label(sh, [0]) for k in (1, 2, 3) for sh in shapes(k)]
    answers = driver_batch([{"op": "powtext", "tree": t} for t in trees])
    for t, a in zip(trees, answers):
        case = {"power_tree": show(t)}
        ctx.begin_case(case)
        if "error" in a:
            ctx.broke("corr_C13_driver", dict(case, error=a["error"]))
            return
        ast = ast_of(t)
        printed = libsbml.formulaToL3String(ast).replace(" ", "")
        model_text = a["text"]
        for i, nm in enumerate(names):
            model_text = model_text.replace("x%d" % i, nm)
        if printed != model_text:
            ctx.broke("corr_C13_power_text_print", dict(case, libsbml=printed, model=model_text))
        if a["read"] != a["readBack"]:
            ctx.broke("corr_C13_power_text_reader_vs_theorem", dict(case, read=a["read"], readBack=a["readBack"]))
        doc = libsbml.SBMLDocument(3, 2)
        m = doc.createModel(); m.setId("power_text")
        c = m.createCompartment(); c.setId("cell"); c.setSize(1.0); c.setConstant(True); c.setSpatialDimensions(3)
        for sname in ("A", "B", "P"):
            sp = m.createSpecies(); sp.setId(sname); sp.setCompartment("cell"); sp.setConstant(False); sp.setBoundaryCondition(False)
            sp.setHasOnlySubstanceUnits(False); sp.setInitialAmount(1.0)
        for g in ("p", "q"):
            par = m.createParameter(); par.setId(g); par.setConstant(True); par.setValue(vals[g])
        r = m.createReaction(); r.setId("r0"); r.setReversible(False)
        pr = r.createProduct(); pr.setSpecies("P"); pr.setStoichiometry(1.0); pr.setConstant(True)
        for mod in ("A", "B"):
            mr = r.createModifier(); mr.setSpecies(mod)
        r.createKineticLaw().setMath(ast)
        path = os.path.join(tmpdir, "power_text.xml")
        libsbml.writeSBMLToFile(doc, path)
        M = Model(sbml_filename=path, sbml_warnings=False)
        sl = M.get_species_list()
        I = ModelCSimInterface(M)
        I.py_prep_deterministic_simulation()
        x = {"A": vals["A"], "B": vals["B"], "P": 0.0}
        dx = np.zeros(len(sl))
        I.py_calculate_deterministic_derivative(np.array([x[s_] for s_ in sl]), dx, 0.0)
        got = float(dx[sl.index("P")])
        ctx.evaluated()
        if relerr(got, value(a["readBack"])) > 1e-9:
            ctx.broke("corr_C13_power_text_read", dict(case, implementation=got, model=value(a["readBack"]), model_tree=show(a["readBack"])))
        want = value(t)
        if relerr(got, want) > 1e-9:
            ctx.violation("rate-equation/left-nested-power" if not a["leftAtomic"] else "rate-equation/nested-power",
                          "kinetic law %s (MathML) is imported with rate %r; the document's mathematics give %r (libsbml writes it as %s)"
                          % (show(t), got, want, printed), dict(case, got=got, want=want, printed_by_libsbml=printed))
        else:
            ctx.count("power_trees_imported_as_written")
        ctx.count("power_trees")
        ctx.nontriv(("power_text", show(t)))


def both_attributes(ctx, tmpdir):
    """species that carry an initialAmount *and* an initialConcentration (files written by other tools; libsbml reads both):
    a non-zero amount takes precedence however small it is, an amount of exactly 0 gives way to the concentration."""
    from bioscrape.types import Model
    cases = [("S_both", 3.0, 7.0, 3.0), ("S_milli", 1e-3, 7.0, 1e-3), ("S_micro", 1.5e-6, 1.5, 1.5e-6), ("S_nano", 2e-9, 0.002, 2e-9),
             ("S_pico", 5e-12, 1.0, 5e-12), ("S_zero", 0.0, 4.0, 4.0)]
    doc = libsbml.SBMLDocument(3, 2)
    m = doc.createModel(); m.setId("both_attributes")
    c = m.createCompartment(); c.setId("cell"); c.setSize(1.0); c.setConstant(True); c.setSpatialDimensions(3)
    for sid, am, _, _ in cases:
        sp = m.createSpecies(); sp.setId(sid); sp.setCompartment("cell"); sp.setConstant(False); sp.setBoundaryCondition(False)
        sp.setHasOnlySubstanceUnits(False); sp.setInitialAmount(am)
    p_ = m.createParameter(); p_.setId("k"); p_.setValue(1.0); p_.setConstant(True)
    r = m.createReaction(); r.setId("r0"); r.setReversible(False)
    sr = r.createReactant(); sr.setSpecies("S_both"); sr.setStoichiometry(1.0); sr.setConstant(True)
    r.createKineticLaw().setMath(libsbml.parseL3Formula("k * S_both"))
    path = os.path.join(tmpdir, "both.xml")
    txt = libsbml.writeSBMLToString(doc)
    for sid, am, conc, _ in cases:
        pos = txt.index('id="%s"' % sid)
        end = txt.index(">", pos)
        txt = txt[:pos] + re.sub(r'initialAmount="[^"]*"', 'initialAmount="%r" initialConcentration="%r"' % (am, conc), txt[pos:end]) + txt[end:]
    open(path, "w").write(txt)
    case = {"document": "species with both initial attributes", "species": [(sid, am, conc) for sid, am, conc, _ in cases]}
    ctx.begin_case(case)
    sd = Model(sbml_filename=path, sbml_warnings=False).get_species_dictionary()
    ctx.evaluated()
    for sid, am, conc, want in cases:
        if sid not in sd or float(sd[sid]) != want:
            ctx.violation("initial-value/both-attributes", "species %s (initialAmount=%r, initialConcentration=%r) is imported with %r, the amount %s gives %r"
                          % (sid, am, conc, sd.get(sid), "is non-zero and" if am != 0 else "is zero: the concentration", want), dict(case, imported={k: float(v) for k, v in sd.items()}))
            return
    ctx.count("both_attribute_species", len(cases))


def run(ctx):
    warnings.filterwarnings("ignore")
    n = 60 if ctx.quick() else 2000
    with tempfile.TemporaryDirectory(prefix="verif_c13_") as d:
        for i in range(n):
            one(ctx, ctx.rng, d)
        left_nested_power(ctx, d)
        power_text(ctx, d)
        reversible_attribute(ctx, d)
        duplicate_reactions(ctx, d)
        both_attributes(ctx, d)


def replay(ctx, obj):
    run(ctx)


def describe(ctx):
    rule = ("SBML Level 3 documents generated directly through libsbml (one compartment of size 1): 6 species with initial amount, "
            "concentration, both, or zero amount + concentration; 4 global parameters; 1-4 reactions with stoichiometries 1..3, modifiers, "
            "kinetic laws over + - * / ^ exp abs, and local parameters that shadow globals and each other; 0-5 assignment and rate rules in "
            "any order (on species and on parameters): imported initial values, imported rules (kind, order, frequency), number of reactions, "
            "and the derivative at sampled states against the document's semantics evaluated by an independent libsbml-AST evaluator; the "
            "Lean import model (rules, initial values) on the same documents. distinct = (reactions, rule kinds in order, local parameter counts).")
    return rule, {}, False, ["libsbml parsing and formulaToL3String -> sympy (C02) are trusted", "FreshRenames: a renamed local id_rxnId is assumed not to be an existing id"]
