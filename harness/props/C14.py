"""C14 - exported kinetic laws equal the model's own rate laws."""
import os
import tempfile
import warnings

import numpy as np

from common import driver_batch, f2b, b2f, relerr
import sbml_eval

HILL = ["hillpositive", "hillnegative", "proportionalhillpositive", "proportionalhillnegative"]
SP = ["A", "B", "C"]


# general rates: rational, exponential, natural logarithm, a unary minus in front of a power, min / max / abs, a step function
GENERAL = ["k%d*A/(1+B)", "k%d*A^2 + C", "k%d*exp(-B/4)*C", "k%d*log(A+1)", "k%d*exp(-A^2/8)", "k%d*A + Max(B - C, 0)", "k%d*Min(A, B + 1)",
           "k%d*Abs(A-B)", "0.5*A*2^(-B^2/4) + k%d", "k%d*Heaviside(A-2.5)*B"]


def gen_model(rng):
    spec = gen_model_(rng)
    if rng.chance(1, 2):
        # parameter names as people write them: some contain an underscore followed by the whole name of another parameter
        # (K_d next to d, k_on next to on), one is called k like the key of the propensity dictionaries
        from props.C12 import rename
        spec = rename(spec, {"k1": "d", "K1": "K_d", "k2": "on", "K2": "k_on", "k3": "k", "n3": "k_n"})
    return spec


def gen_model_(rng):
    rx = []
    # one parameter dictionary object handed to several reactions, as a script that defines `params = {"k": ...}` once does
    shared = {"k": rng.choice(["k0", 0.5, 2.0])} if rng.chance(1, 3) else None
    for j in range(rng.randint(1, 4)):
        c = rng.below(10)
        k = rng.choice(["k%d" % j, rng.choice([0.5, 2.0, 0.0])])         # named or numeric parameter
        if c < 6:
            reac = [rng.choice(SP) for _ in range(rng.randint(0, 4))]
            if rng.chance(1, 5):
                # two different species each taken twice, in some order
                reac = rng.choice([["A", "A", "B", "B"], ["A", "B", "A", "B"], ["C", "B", "B", "C"], ["B", "A", "A", "B"]])
            prods = [rng.choice(SP) for _ in range(rng.randint(0, 3))]
            rx.append((reac, prods, "massaction", shared if shared is not None else {"k": k}))
        elif c < 8:
            t = rng.choice(HILL)
            pd = {"k": k, "K": rng.choice(["K%d" % j, 3.0]), "n": rng.choice(["n%d" % j, 2.0]), "s1": rng.choice(SP)}
            if "proportional" in t:
                pd["d"] = rng.choice(SP)
            rx.append(([], [rng.choice(SP)], t, pd))
        else:
            rx.append(([rng.choice(SP)] if rng.chance(1, 2) else [], [rng.choice(SP)], "general",
                       {"rate": rng.choice(GENERAL) % j}))
    params = {}
    for j in range(4):
        params["k%d" % j] = rng.choice([0.5, 1.0, 2.0, 0.0]); params["K%d" % j] = rng.choice([2.0, 3.0]); params["n%d" % j] = rng.choice([1.0, 2.0])      # (0: a switched-off reaction)
    return dict(species=list(SP), reactions=rx, parameters=params, initial_condition_dict={"A": 4, "B": 3, "C": 5})


def delayed_exports(ctx, tmpdir):
    """reactions with a delay (every delay type; reactants taken once, twice adjacent, twice interleaved, three times) next to
    one without, written in both forms: the kinetic law is the rate of the reaction whether or not its products are delayed."""
    delays = [("fixed", {"delay": "tau"}), ("gaussian", {"mean": "tau", "std": 0.1}), ("gamma", {"k": 2.0, "theta": "tau"}), ("none", {})]
    reactants = [["A", "A"], ["A", "B", "A"], ["A", "B"], ["B", "B", "B"], ["C"]]
    states = [{"A": 1.0, "B": 1.0, "C": 2.0}, {"A": 1.0, "B": 3.0, "C": 0.0}, {"A": 2.0, "B": 2.0, "C": 5.0}, {"A": 5.0, "B": 4.0, "C": 1.0}]
    for dtype, dpar in delays:
        rx = [(list(re), [], "massaction", {"k": "k%d" % (j % 4) if j % 2 == 0 else 0.5 + j}, dtype, [], ["C"], dict(dpar)) for j, re in enumerate(reactants)]
        rx.append((["B", "B"], ["C"], "massaction", {"k": "k1"}))
        params = {"k0": 0.3, "k1": 2.0, "k2": 0.02, "k3": 1.5, "tau": 0.7}
        spec = dict(species=list(SP), reactions=rx, parameters=params, initial_condition_dict={"A": 4, "B": 3, "C": 5})
        for stochastic in (True, False):
            one(ctx, None, tmpdir, spec=spec, stochastic=stochastic, states=[dict(st) for st in states])
            ctx.count("delayed_exports")


def one(ctx, rng, tmpdir, spec=None, stochastic=None, states=None):
    from bioscrape.types import Model
    from bioscrape.simulator import ModelCSimInterface
    if spec is None:
        spec = gen_model(rng)
        stochastic = rng.chance(1, 2)
    rep = {"spec": {k: (list(v) if isinstance(v, tuple) else v) for k, v in spec.items()}, "stochastic_export": stochastic}
    ctx.begin_case(rep)
    M = Model(**spec)
    path = os.path.join(tmpdir, "m.xml")
    M.write_sbml_model(path, stochastic_model=stochastic)
    doc, sm = sbml_eval.read_doc(path)
    defined = set(s.getId() for s in sm.getListOfSpecies()) | set(p.getId() for p in sm.getListOfParameters())
    pvals = {p.getId(): p.getValue() for p in sm.getListOfParameters()}
    novalue = sorted(p.getId() for p in sm.getListOfParameters() if not p.isSetValue() or p.getValue() != p.getValue())
    if novalue:
        ctx.violation("kinetic-law/parameter-without-value", "the document defines the parameters %s without a value (the model's values: %s): a kinetic law that mentions them has no value"
                      % (novalue, {q: float(dict(zip(M.get_param_list(), M.get_parameter_values())).get(q, float("nan"))) for q in novalue}), dict(rep, parameters=novalue))
        return
    I = ModelCSimInterface(M)
    sl = M.get_species_list()
    if states is None:
        states = [{s: float(rng.randint(0, 7)) for s in SP} for _ in range(3)]
        if not stochastic:
            states.append({s: rng.choice([0.5, 1.25, 3.75]) for s in SP})
    jobs = []
    for ri, r in enumerate(sm.getListOfReactions()):
        reac, prods, ptype, pd = spec["reactions"][ri][:4]
        ctx.evaluated()
        kl = r.getKineticLaw().getMath()
        names = sbml_eval.ast_names(kl)
        sig_t = ptype + ("/stochastic" if stochastic else "/deterministic")
        # ---- the property on the written file
        undefined = sorted(n for n in names if n not in defined)
        if undefined:
            ctx.violation("kinetic-law/undefined-identifier/" + ptype + ("/" + "+".join(undefined) if ptype == "general" else ""), "the kinetic law of reaction %d (%s) mentions %s, which the document does not define" % (ri, ptype, undefined),
                          dict(rep, reaction=ri, law=sbml_eval.libsbml.formulaToL3String(kl)))
        else:
            for st in states:
                env = dict(pvals); env.update(st)
                x = np.array([st[s] for s in sl])
                want = float(I.py_verif_compute_propensities(x.copy(), "stoch" if stochastic else "det", 1.0, 0.0)[ri])
                got = sbml_eval.ast_eval(kl, env)
                if relerr(got, want) > 1e-9 and abs(got - want) > 1e-9:
                    ctx.violation("kinetic-law/value/" + sig_t, "kinetic law of reaction %d (%s) evaluates to %r at %s, the model's rate is %r" % (ri, ptype, got, st, want),
                                  dict(rep, reaction=ri, state=st, law=sbml_eval.libsbml.formulaToL3String(kl)))
                    break
        docR = {sr.getSpecies(): int(sr.getStoichiometry()) for sr in r.getListOfReactants()}
        docP = {sr.getSpecies(): int(sr.getStoichiometry()) for sr in r.getListOfProducts()}
        if docR != {s: reac.count(s) for s in set(reac)} or docP != {s: prods.count(s) for s in set(prods)}:
            ctx.violation("document-stoichiometry", "stoichiometries written for reaction %d differ from the reaction's multiplicities" % ri,
                          dict(rep, reaction=ri, written=[docR, docP]))
        # ---- correspondence with the Lean construction of the law
        annot = r.getAnnotationString()
        def pname(key):
            # the identifier written for a propensity parameter (dummy variables for numeric ones)
            import re
            m = re.search(r"\b%s=(\S+?)(?:\s|<)" % key, annot)
            return m.group(1) if m else None
        for st in states[:2]:
            env = dict(pvals); env.update(st)
            job = {"op": "klaw", "num": "float", "type": ptype, "stochastic": stochastic, "env": {k: f2b(v) for k, v in env.items()}}
            if ptype == "massaction":
                job.update({"k": pname("k"), "reactants": list(reac)})
            elif ptype == "general":
                job.update({"rate": pd["rate"]})
            else:
                job.update({"k": pname("k"), "K": pname("K"), "n": pname("n"), "s1": pd["s1"], "d": pd.get("d", "")})
            try:
                real = sbml_eval.ast_eval(kl, env)
            except sbml_eval.Undefined:
                real = None
            jobs.append((job, real, ri, ptype, docR))
        ctx.count("law:" + sig_t)
        ctx.nontriv((sig_t, len(reac), max([reac.count(s) for s in reac] or [0])))
    ans = driver_batch([j for j, _, _, _, _ in jobs])
    for (job, real, ri, ptype, docR), a in zip(jobs, ans):
        if "error" in a:
            ctx.broke("corr_C14_driver", {"job": job, "error": a["error"]})
            continue
        mv = None if a["value"] is None else b2f(a["value"])
        if (mv is None) != (real is None) or (mv is not None and relerr(mv, real) > 1e-9 and abs(mv - real) > 1e-9):
            ctx.broke("corr_C14_kinetic_law_construction", {"reaction": ri, "type": ptype, "model": mv, "document": real, "spec": rep})
        if ptype == "massaction" and {k: v for k, v in a["stoich"]} != docR:
            ctx.broke("corr_C14_document_stoichiometry", {"reaction": ri, "model": a["stoich"], "document": docR})
    ctx.sample({"reactions": [(r[2], r[0]) for r in spec["reactions"]], "stochastic_export": stochastic}, cap=4)


def run(ctx):
    warnings.filterwarnings("ignore")
    n = 40 if ctx.quick() else 1200
    with tempfile.TemporaryDirectory(prefix="verif_c14_") as d:
        for i in range(n):
            one(ctx, ctx.rng, d)
        delayed_exports(ctx, d)


def replay(ctx, obj):
    run(ctx)


def describe(ctx):
    rule = ("random models (1-4 reactions: mass action of order 0..4 with repeats, the four Hill types, general rates; named and numeric "
            "parameters) written with write_sbml_model in deterministic and stochastic form; every kinetic law is read back with libsbml and "
            "evaluated as plain SBML mathematics by an independent evaluator over the exported species and global parameters: it must refer "
            "only to defined identifiers and equal the model's deterministic / stochastic rate (guarded hook) at integer (and real) states; "
            "written stoichiometries = multiplicities; the Lean construction of the law is evaluated in the same environments. "
            "distinct = (type/export, order, max multiplicity).")
    return rule, {}, False, ["libsbml parse/print of formulas is trusted; Hill kinetic laws are a recorded known finding (undefined identifier n; K instead of K^n)"]
