"""C15 - the inference cost is the stated posterior on correctly aligned data."""
import math
import warnings

import numpy as np

from common import driver_batch, f2b, b2f, relerr


def make_model(rng):
    from bioscrape.types import Model
    spec = dict(species=["A", "B", "C"], parameters={"k": rng.choice([0.5, 1.0, 2.0]), "d": rng.choice([0.2, 0.7]), "g": rng.choice([0.3, 1.5])},
                reactions=[(["A"], ["B"], "massaction", {"k": "k"}), (["B"], ["C"], "massaction", {"k": "d"}),
                           (["C"], [], "massaction", {"k": "g"}), ([], ["A"], "massaction", {"k": 0.4})],
                initial_condition_dict={"A": 10.0, "B": 0.0, "C": 2.0})
    if rng.chance(1, 3):
        # a parameter that the model's own rule moves during a simulation (a decaying activity driving production): every
        # trajectory still starts from the model's value of it
        spec["parameters"]["act"] = rng.choice([1.0, 2.0])
        spec["reactions"][3] = ([], ["A"], "general", {"rate": "0.4*act"})
        spec["rules"] = [("ode", {"equation": "-0.3*act", "target": "act"})]
    return spec


def gen_case(rng):
    import pandas as pd
    spec = make_model(rng)
    N = rng.randint(1, 4)
    M = rng.randint(1, 3)
    meas = rng.shuffle(["A", "B", "C"])[:M]
    T = rng.choice([3, 5, 8])
    frames, ics, pcs = [], [], []
    pc_kind = rng.below(3)          # none / same keys / different key sets
    common = np.linspace(0, rng.choice([1.0, 3.0]), T)
    for n in range(N):
        t = np.sort(np.array([0.0] + [round(rng.uniform() * 4 + 0.05, 3) for _ in range(T - 1)])) if rng.chance(1, 2) else np.linspace(0, rng.choice([1.0, 3.0]), T)
        if spec.get("rules"):
            # (the effect of a dt rule inside the ODE solver depends on the solver's step bound, which is derived from the
            # time grids: with one common grid the single-trajectory runs of the composition oracle see the same bound)
            t = common
        cols = {"time": t}
        for s in ["A", "B", "C"]:
            cols[s] = np.array([round(rng.uniform() * 10, 3) for _ in range(T)])
        cols["junk"] = np.arange(T, dtype=float)
        order = rng.shuffle(list(cols))
        frames.append(pd.DataFrame({c: cols[c] for c in order}))
        ics.append({"A": float(rng.randint(1, 12)), "B": float(rng.randint(0, 3))} if rng.chance(2, 3) else {"C": float(rng.randint(0, 5))})
        if pc_kind == 1:
            pcs.append({"d": rng.choice([0.1, 0.9])})
        elif pc_kind == 2:
            pcs.append({rng.choice(["d", "g"]): rng.choice([0.1, 0.9, 2.0])})
    case = {"spec": spec, "frames": frames, "measurements": meas, "ics": ics, "pcs": pcs if pc_kind else None,
            "norm": rng.choice([1, 2, 3]), "prior": {"k": ["uniform", 0.0, 10.0]},
            "thetas": [rng.choice([0.3, 1.0, 2.5, 7.0, 11.0, -1.0]) for _ in range(rng.randint(2, 5))]}
    case["thetas"].append(case["thetas"][0])      # a repeat
    return case


def build_inference(case, frames=None, meas=None, ics=None, pcs=None):
    from bioscrape.types import Model
    from bioscrape.inference_setup import InferenceSetup
    M = Model(**case["spec"])
    frames = case["frames"] if frames is None else frames
    inf = InferenceSetup(Model=M, exp_data=list(frames) if len(frames) > 1 else frames[0],
                         measurements=list(case["measurements"] if meas is None else meas), time_column="time",
                         params_to_estimate=["k"], prior=case["prior"],
                         initial_conditions=list(case["ics"] if ics is None else ics) if len(frames) > 1 else (case["ics"] if ics is None else ics)[0],
                         parameter_conditions=(None if (case["pcs"] if pcs is None else pcs) is None else
                                               (list(case["pcs"] if pcs is None else pcs) if len(frames) > 1 else (case["pcs"] if pcs is None else pcs)[0])),
                         norm_order=case["norm"], sim_type="deterministic")
    return M, inf


def fresh_sim(case, params, x0, times):
    """the implementation's own deterministic simulator on a freshly built model with exactly these values."""
    from bioscrape.types import Model
    from bioscrape.simulator import py_simulate_model
    M = Model(**case["spec"])
    pl = M.get_param_list()
    M.set_params({p: float(v) for p, v in zip(pl, params)})
    sl = M.get_species_list()
    M.set_species({s: float(v) for s, v in zip(sl, x0)})
    res = py_simulate_model(np.array(times, dtype=float), Model=M, stochastic=False, return_dataframe=False,
                            hmax=float(hmax_of(times)))
    return np.array(res.py_get_result())


def hmax_of(times):
    t = np.array(times)
    dt = t[-1] - t[0]
    for i in range(1, len(t) - 1):
        dt = min(dt, t[i] - t[i - 1])
    return dt


def oracle_cost(case, theta):
    """the stated formula, recomputed from the data frames with fresh simulations."""
    if theta < 0 or theta > 10:
        return -math.inf
    from bioscrape.types import Model
    M = Model(**case["spec"])
    pl, sl = M.get_param_list(), M.get_species_list()
    base = dict(zip(pl, [float(v) for v in M.get_parameter_values()]))
    x0d = dict(zip(sl, [float(v) for v in M.get_species_array()]))
    total = 0.0
    for n, df in enumerate(case["frames"]):
        p = dict(base, k=theta)
        if case["pcs"] is not None:
            p.update(case["pcs"][n])
        x0 = dict(x0d)
        x0.update(case["ics"][n])
        t = np.array(df["time"], dtype=float)
        rows = fresh_sim(case, [p[q] for q in pl], [x0[s] for s in sl], t)
        for m in case["measurements"]:
            total += float(np.sum(np.abs(np.array(df[m], dtype=float) - rows[:, sl.index(m)]) ** case["norm"]))
    return math.log(1 / 10.0) - total ** (1.0 / case["norm"])


def one_case(ctx, case):
    warnings.filterwarnings("ignore")
    rep = {"measurements": case["measurements"], "ics": case["ics"], "pcs": case["pcs"], "norm": case["norm"], "thetas": case["thetas"],
           "frames": [{c: [float(v) for v in df[c]] for c in df.columns} for df in case["frames"]], "spec": {k: (v if not isinstance(v, dict) else dict(v)) for k, v in case["spec"].items()}}
    ctx.begin_case(rep)
    M, inf = build_inference(case)
    pl, sl = M.get_param_list(), M.get_species_list()
    N, Mn, T = len(case["frames"]), len(case["measurements"]), len(case["frames"][0])
    # ---------------- data alignment (exact)
    LL = np.array(inf.LL_data, dtype=float).reshape(N, T, Mn)
    ctx.evaluated()
    for n, df in enumerate(case["frames"]):
        for mi, m in enumerate(case["measurements"]):
            if not np.array_equal(LL[n, :, mi], np.array(df[m], dtype=float)):
                ctx.violation("data-alignment/M=%d" % Mn, "LL_data[%d][:, %d] is not the column %s of trajectory %d" % (n, mi, m, n), dict(rep, LL_data=LL.tolist()))
                return
    # ---------------- cost: formula, history freeness, permutations
    defaults = [float(v) for v in M.get_parameter_values()]
    vals = []
    ruled = bool(case["spec"].get("rules"))
    for theta in case["thetas"]:
        v = float(inf.cost_function([theta]))
        if ruled:
            # (how a rule of frequency dt acts inside the ODE solver depends on the solver's own steps, so there is no
            # independent reference trajectory; what the statement still fixes is that the error is a sum over trajectories,
            # each simulated from theta and the model's parameters: the cost composes from the single-trajectory costs)
            if theta < 0 or theta > 10:
                want = -math.inf
            else:
                lp = math.log(1 / 10.0)
                tot = 0.0
                for n in range(N):
                    single = build_inference(case, frames=[case["frames"][n]], ics=[case["ics"][n]],
                                             pcs=None if case["pcs"] is None else [case["pcs"][n]])[1]
                    tot += (lp - float(single.cost_function([theta]))) ** case["norm"]
                want = lp - tot ** (1.0 / case["norm"])
        else:
            want = oracle_cost(case, theta)
        ctx.evaluated()
        if (math.isfinite(v) != math.isfinite(want)) or (math.isfinite(v) and relerr(v, want) > 1e-6 and abs(v - want) > 1e-6):
            sig = "cost/formula" + ("/param-conditions" if case["pcs"] is not None and len(set(tuple(sorted(p)) for p in case["pcs"])) > 1 else "")
            ctx.violation(sig, "cost_function(%g) = %r, stated formula gives %r" % (theta, v, want), dict(rep, theta=theta))
            return
        vals.append((theta, v))
    for (t1, v1) in vals:
        for (t2, v2) in vals:
            if t1 == t2 and v1 != v2 and not (math.isnan(v1) and math.isnan(v2)):
                ctx.violation("cost/history", "the same theta=%g gave %r and %r at different points of the evaluation history" % (t1, v1, v2), rep)
                return
    theta = next((t for t in case["thetas"] if 0 <= t <= 10), None)
    if theta is not None:
        base_v = float(build_inference(case)[1].cost_function([theta]))
        if Mn > 1:
            meas2 = list(reversed(case["measurements"]))
            v = float(build_inference(case, meas=meas2)[1].cost_function([theta]))
            if relerr(v, base_v) > 1e-9:
                ctx.violation("cost/measurement-order", "cost depends on the order of the measured species (%r vs %r)" % (base_v, v), dict(rep, theta=theta))
                return
            # the same re-ordering applied to an existing set-up through its setters (data already extracted once)
            inf3 = build_inference(case)[1]
            inf3.cost_function([theta])
            inf3.set_measurements(list(meas2))
            inf3.prepare_inference()
            inf3.setup_cost_function()
            v3 = float(inf3.cost_function([theta]))
            ctx.evaluated()
            if relerr(v3, base_v) > 1e-9:
                ctx.violation("cost/measurement-order/setter", "after set_measurements(%s) on a set-up that had been used with %s the cost is %r, a fresh set-up gives %r"
                              % (meas2, case["measurements"], v3, base_v), dict(rep, theta=theta))
                return
        if N > 1:
            perm = list(reversed(range(N)))
            v = float(build_inference(case, frames=[case["frames"][i] for i in perm], ics=[case["ics"][i] for i in perm],
                                      pcs=None if case["pcs"] is None else [case["pcs"][i] for i in perm])[1].cost_function([theta]))
            if relerr(v, base_v) > 1e-9:
                ctx.violation("cost/trajectory-order", "cost depends on the order of the trajectories (%r vs %r)" % (base_v, v), dict(rep, theta=theta))
                return
    # ---------------- correspondence with the Lean model
    sidx = {s: i for i, s in enumerate(sl)}
    pidx = {p: i for i, p in enumerate(pl)}
    from bioscrape.types import Model as _Model
    x0d = [float(v) for v in _Model(**case["spec"]).get_species_array()]     # (the likelihood writes trajectory states into M)
    def traj_json(n, df):
        x0 = list(x0d)
        for s, v in case["ics"][n].items():
            x0[sidx[s]] = float(v)
        cond = [] if case["pcs"] is None else [[pidx[k], f2b(v)] for k, v in case["pcs"][n].items()]
        return {"x0": [f2b(v) for v in x0], "cond": cond, "times": [f2b(v) for v in np.array(df["time"], dtype=float)]}
    for theta in ([] if ruled else case["thetas"][:3]):
        job = {"op": "infer", "num": "float", "measurements": case["measurements"], "T": T,
               "frames": [{"order": list(df.columns), "cols": {c: [f2b(v) for v in df[c]] for c in df.columns}} for df in case["frames"]],
               "pi": f2b(math.pi), "norm": f2b(float(case["norm"])), "measIdx": [sidx[m] for m in case["measurements"]],
               "defaults": [[i, f2b(v)] for i, v in enumerate(defaults)], "thetaIdx": [pidx["k"]], "theta": [f2b(theta)],
               "current": [f2b(v) for v in M.get_parameter_values()],
               "priors": [{"type": "uniform", "args": [f2b(0.0), f2b(10.0)], "positive": False}],
               "trajs": [traj_json(n, df) for n, df in enumerate(case["frames"])]}
        a1 = driver_batch([job])[0]
        if "error" in a1:
            ctx.broke("corr_C15_driver", {"case": rep, "error": a1["error"]})
            return
        md = np.array([[[b2f(v) for v in row] for row in fr] for fr in a1["data"]], dtype=float).reshape(N, T, Mn)
        if not np.array_equal(md, LL):
            ctx.broke("corr_C15_LL_data", {"case": rep, "model": md.tolist(), "implementation": LL.tolist()})
            return
        simrows = []
        for n, df in enumerate(case["frames"]):
            pv = [b2f(v) for v in a1["params"][n]]
            x0 = [b2f(v) for v in job["trajs"][n]["x0"]]
            rows = fresh_sim(case, pv, x0, np.array(df["time"], dtype=float))
            simrows.append([[f2b(v) for v in row] for row in rows])
        a2 = driver_batch([dict(job, simrows=simrows)])[0]
        real = float(inf.cost_function([theta]))
        mc = -math.inf if a2.get("cost") is None else b2f(a2["cost"])
        ctx.evaluated()
        if (math.isfinite(mc) != math.isfinite(real)) or (math.isfinite(mc) and relerr(mc, real) > 1e-6 and abs(mc - real) > 1e-6):
            ctx.broke("corr_C15_cost", {"case": rep, "theta": theta, "model": mc, "implementation": real})
            return
    ctx.nontriv((N, Mn, T, case["norm"], None if case["pcs"] is None else tuple(tuple(sorted(p)) for p in case["pcs"])))
    ctx.count("N=%d,M=%d" % (N, Mn))
    if case["spec"].get("rules"):
        ctx.count("model_with_parameter_rule")
    ctx.sample({k: rep[k] for k in ("measurements", "ics", "pcs", "norm", "thetas")}, cap=3)


def two_parameters(ctx):
    """two estimated parameters whose priors are declared in another order than `params_to_estimate` (a dictionary has no
    order that matters): theta[i] is the value of params_to_estimate[i] and is judged by that parameter's prior."""
    import pandas as pd
    from bioscrape.types import Model
    from bioscrape.inference_setup import InferenceSetup
    spec = dict(species=["A", "B", "C"], parameters={"k": 1.0, "d": 0.7, "g": 0.3},
                reactions=[(["A"], ["B"], "massaction", {"k": "k"}), (["B"], ["C"], "massaction", {"k": "d"}),
                           (["C"], [], "massaction", {"k": "g"}), ([], ["A"], "massaction", {"k": 0.4})],
                initial_condition_dict={"A": 10.0, "B": 0.0, "C": 2.0})
    frames = [pd.DataFrame({"time": np.linspace(0, 3.0, 5), "B": [0.0, 3.1, 4.0, 3.7, 3.0], "C": [2.0, 2.2, 2.9, 3.5, 3.8]}),
              pd.DataFrame({"time": np.array([0.0, 0.4, 1.1, 2.0, 2.6]), "B": [1.0, 2.0, 2.6, 2.2, 1.9], "C": [0.0, 0.3, 0.9, 1.4, 1.6]})]
    ics = [{"A": 10.0, "B": 0.0, "C": 2.0}, {"A": 6.0, "B": 1.0, "C": 0.0}]
    case = {"spec": spec, "frames": frames, "measurements": ["B", "C"], "ics": ics, "pcs": None, "norm": 2}
    priors = {"d": ["uniform", 0.0, 10.0], "k": ["gaussian", 1.0, 2.0]}
    for order in (("d", "k"), ("k", "d")):
        prior = {n: priors[n] for n in order}
        M = Model(**spec)
        inf = InferenceSetup(Model=M, exp_data=list(frames), measurements=["B", "C"], time_column="time", params_to_estimate=["d", "k"], prior=prior,
                             initial_conditions=list(ics), norm_order=2, sim_type="deterministic")
        inf.prepare_inference()
        inf.setup_cost_function()
        # (10.0 and 0.0 are the end points of d's uniform prior: inside its support)
        for theta in ([0.5, 2.0], [2.0, 0.5], [0.5, 2.0], [12.0, 2.0], [1.5, 9.0], [10.0, 2.0], [0.0, 2.0]):
            rep = {"scenario": "two estimated parameters", "params_to_estimate": ["d", "k"], "prior_declared_as": list(order), "theta": theta}
            ctx.begin_case(rep)
            got = float(inf.cost_function(np.array(theta)))
            ctx.evaluated()
            dv, kv = theta
            if dv < 0 or dv > 10:          # closed interval: the end points belong to the support
                want = -math.inf
            else:
                lp = math.log(1 / 10.0) + (-0.5 * ((kv - 1.0) / 2.0) ** 2 - math.log(2.0 * math.sqrt(2 * math.pi)))
                total = 0.0
                Mf = Model(**spec)
                pl, sl = Mf.get_param_list(), Mf.get_species_list()
                for df, ic in zip(frames, ics):
                    p = dict(zip(pl, [float(v_) for v_ in Mf.get_parameter_values()]))
                    p.update({"k": kv, "d": dv})
                    rows = fresh_sim(case, [p[q] for q in pl], [ic[s_] for s_ in sl], np.array(df["time"], dtype=float))
                    for m in ("B", "C"):
                        total += float(np.sum(np.abs(np.array(df[m], dtype=float) - rows[:, sl.index(m)]) ** 2))
                want = lp - total ** 0.5
            bad = (got != want) if not math.isfinite(want) else (not math.isfinite(got) or abs(got - want) > 1e-5 * (1 + abs(want)))
            if bad:
                ctx.violation("cost/two-parameters/prior-order", "params_to_estimate [d, k], prior declared as %s: cost_function(%s) = %r, the stated posterior is %r" % (list(order), theta, got, want), rep)
                return
            ctx.count("two_parameter_evaluations")


def grids_aba(ctx):
    """three trajectories whose first and last share a time grid while the middle one has another of the same length: each
    trajectory is compared with the simulation at its own time points, whatever the order of the trajectories."""
    import pandas as pd
    spec = dict(species=["A", "B", "C"], parameters={"k": 1.0, "d": 0.7, "g": 0.3},
                reactions=[(["A"], ["B"], "massaction", {"k": "k"}), (["B"], ["C"], "massaction", {"k": "d"}),
                           (["C"], [], "massaction", {"k": "g"}), ([], ["A"], "massaction", {"k": 0.4})],
                initial_condition_dict={"A": 10.0, "B": 0.0, "C": 2.0})
    gA, gB = np.linspace(0, 3.0, 5), np.array([0.0, 0.2, 0.5, 1.1, 4.0])
    vals = [[0.0, 3.1, 4.0, 3.7, 3.0], [1.0, 2.0, 2.6, 2.2, 1.9], [0.5, 2.5, 3.3, 3.1, 2.4]]
    for order in ((0, 1, 2), (0, 2, 1), (1, 0, 2)):
        grids = [gA, gB, gA]
        frames = [pd.DataFrame({"time": grids[i], "B": vals[i], "C": [v / 2 for v in vals[i]]}) for i in order]
        ics = [[{"A": 10.0, "B": 0.0}, {"A": 6.0, "B": 1.0}, {"A": 8.0, "B": 0.5}][i] for i in order]
        case = {"spec": spec, "frames": frames, "measurements": ["B", "C"], "ics": ics, "pcs": None, "norm": 2, "prior": {"k": ["uniform", 0.0, 10.0]}}
        M, inf = build_inference(case)
        inf.prepare_inference()
        inf.setup_cost_function()
        for theta in (0.8, 0.5, 0.8):
            rep = {"scenario": "time grids A, B, A", "trajectory_order": list(order), "theta": theta}
            ctx.begin_case(rep)
            got = float(inf.cost_function(np.array([theta])))
            want = oracle_cost(case, theta)
            ctx.evaluated()
            if not (abs(got - want) <= 1e-5 * (1 + abs(want))):
                ctx.violation("cost/time-alignment/grids-aba", "trajectories in the order %s (grids %s): cost_function(%g) = %r, the stated posterior is %r"
                              % (list(order), ["AB"[int(i == 1)] for i in order], theta, got, want), rep)
                return
            ctx.count("grids_aba_evaluations")


def run(ctx):
    n = 25 if ctx.quick() else 600
    for i in range(n):
        one_case(ctx, gen_case(ctx.rng))
    two_parameters(ctx)
    grids_aba(ctx)


def replay(ctx, obj):
    run(ctx)


def describe(ctx):
    rule = ("3-species linear network; 1..4 trajectories x 1..3 measured species (random subset and order) x norm 1..3 x uniform / "
            "irregular time grids per trajectory x data frames with shuffled column order and unrelated columns x per-trajectory "
            "initial conditions x parameter conditions (none / same key / different key sets) x sequences of 3..6 evaluation points "
            "incl. a repeat and out-of-support values; checked: LL_data[n][t][m] = frame_n[measurement m][row t] exactly; "
            "cost_function(theta) = log-prior - (sum |data - sim|^p)^(1/p) with fresh simulations (1e-6); same theta -> same value along "
            "the history; reversed measurement list and reversed trajectory list give the same cost; and the Lean model's data array "
            "(exact) and cost (fed with the implementation's own simulations of the parameter vectors the model requests).")
    return rule, {}, False, ["LSODA is not re-implemented: the model's cost is computed from the implementation's own simulations of the requested parameter vectors",
                             "stochastic cost: alignment/permutation parts are covered by the shared extract_data and loop structure; not separately sampled here"]
