"""C16 - built-in priors are the log-densities they are named after."""
import math

import numpy as np

from common import driver_batch, f2b, b2f, relerr

USES_GENERATED = True     # Properties/C16.lean states a theorem about Generated/PriorDispatch.lean

FAMILIES = ["uniform", "gaussian", "exponential", "gamma", "beta", "log-uniform", "log-gaussian"]


def gen_prior(rng, fam):
    if fam == "uniform":
        lb = rng.choice([-2.0, 0.0, 0.5, 3.0]); return [fam, lb, lb + rng.choice([0.5, 1.0, 4.0, 10.0])]
    if fam == "gaussian":
        return [fam, rng.choice([-1.0, 0.0, 2.5]), rng.choice([0.1, 1.0, 3.0])]
    if fam == "exponential":
        return [fam, rng.choice([0.25, 1.0, 2.0, 7.5])]
    if fam == "gamma":
        return [fam, rng.choice([1.0, 1.5, 3.0, 6.5]), rng.choice([0.5, 2.0, 4.0])]
    if fam == "beta":
        return [fam, rng.choice([1.0, 2.0, 3.5]), rng.choice([1.0, 3.0, 5.5])]
    if fam == "log-uniform":
        lb = rng.choice([0.01, 0.5, 2.0]); return [fam, lb, lb * rng.choice([2.0, 10.0, 1000.0])]
    return [fam, rng.choice([-1.0, 0.0, 1.5]), rng.choice([0.2, 1.0, 2.0])]


def support(prior):
    f = prior[0]
    if f in ("uniform", "log-uniform"):
        return prior[1], prior[2]
    if f == "gaussian":
        return -math.inf, math.inf
    if f == "beta":
        return 0.0, 1.0
    return 0.0, math.inf


def gen_value(rng, prior, inside):
    lo, hi = support(prior)
    f = prior[0]
    if inside:
        if f == "gaussian":
            return prior[1] + prior[2] * rng.choice([-3.0, -1.0, -0.1, 0.0, 0.5, 2.5])
        if math.isinf(hi):
            if f == "exponential":
                scale = 1 / prior[1]
            elif f == "gamma":
                scale = prior[1] / prior[2]
            else:
                scale = math.exp(prior[1])
            return scale * rng.choice([1e-6, 0.01, 0.3, 1.0, 2.5, 8.0])
        c = rng.below(6)
        eps = 1e-6 * (hi - lo)
        return [lo + eps, hi - eps, lo + 0.25 * (hi - lo), lo + 0.5 * (hi - lo), lo + 0.9 * (hi - lo), lo + rng.uniform() * (hi - lo)][c]
    # outside the support
    cands = []
    if not math.isinf(lo):
        cands += [lo - 1e-6 * max(1.0, abs(lo)), lo - 1.0, lo - 50.0]
    if not math.isinf(hi):
        cands += [hi + 1e-6 * max(1.0, abs(hi)), hi + 0.5, hi * 3 + 1]
    return rng.choice(cands) if cands else None


def scipy_logpdf(prior, x):
    from scipy import stats
    f = prior[0]
    if f == "uniform":
        return stats.uniform(prior[1], prior[2] - prior[1]).logpdf(x)
    if f == "gaussian":
        return stats.norm(prior[1], prior[2]).logpdf(x)
    if f == "exponential":
        return stats.expon(scale=1 / prior[1]).logpdf(x)
    if f == "gamma":
        return stats.gamma(prior[1], scale=1 / prior[2]).logpdf(x)
    if f == "beta":
        return stats.beta(prior[1], prior[2]).logpdf(x)
    if f == "log-uniform":
        return stats.loguniform(prior[1], prior[2]).logpdf(x)
    return stats.lognorm(s=prior[2], scale=math.exp(prior[1])).logpdf(x)


def to_item(prior, positive, x):
    from scipy import special
    args = list(prior[1:])
    if prior[0] == "gamma":
        args.append(float(special.gamma(prior[1])))
    if prior[0] == "beta":
        args.append(float(special.beta(prior[1], prior[2])))
    return {"type": prior[0], "args": [f2b(a) for a in args], "positive": positive, "x": f2b(x)}


def run(ctx):
    import warnings
    warnings.filterwarnings("ignore")
    from bioscrape.types import Model
    from bioscrape.pid_interfaces import DeterministicInference
    import pandas as pd
    rng = ctx.rng
    M = Model(species=["A"], parameters={"p0": 1.0, "p1": 1.0, "p2": 1.0, "p3": 1.0},
              reactions=[(["A"], [], "massaction", {"k": "p0"})], initial_condition_dict={"A": 1})
    n = 600 if ctx.quick() else 20000
    jobs, meta = [], []
    # the 'positive' flag with every family whose support reaches below zero, alone and inside vectors
    for pr, x in ((["uniform", -5.0, 5.0], -1.0), (["uniform", -5.0, 5.0], -4.99), (["uniform", -2.0, -1.0], -1.5),
                  (["gaussian", 0.2, 20.0], -1.0), (["gaussian", -3.0, 1.0], -3.0)):
        for extra in ({}, {"p1": (["gamma", 3.0, 2.0], 1.0)}, {"p1": (["uniform", 0.0, 10.0], 4.0), "p2": (["beta", 2.0, 2.0], 0.5)}):
            for first in (True, False):
                items = [("p0", (pr + ["positive"], x))] + [(k, (v[0], v[1])) for k, v in extra.items()]
                if not first:
                    items = items[::-1]
                priors = {k: v[0] for k, v in items}
                vals = {k: v[1] for k, v in items}
                case = {"priors": priors, "values": vals}
                ctx.begin_case(case)
                lp = float(DeterministicInference(list(priors), M, priors).check_prior(dict(vals)))
                ctx.evaluated()
                if math.isfinite(lp):
                    ctx.violation("prior/support/positive-flag", "a negative value under the 'positive' flag gets the finite log-prior %r" % lp, case)
                    return
                ctx.count("positive_flag_rejected")
    # values exactly on the boundary of the support where the density is finite and not zero
    from scipy import stats
    for pr, x, want in ((["gamma", 1.0, 2.5], 0.0, math.log(2.5)), (["gamma", 1.0, 4.0], 0.0, math.log(4.0)), (["exponential", 2.5], 0.0, math.log(2.5)),
                        (["beta", 1.0, 3.0], 0.0, float(stats.beta(1, 3).logpdf(0.0))), (["beta", 3.0, 1.0], 1.0, float(stats.beta(3, 1).logpdf(1.0))),
                        (["beta", 1.0, 1.0], 0.0, 0.0), (["beta", 1.0, 1.0], 1.0, 0.0),
                        (["uniform", 0.5, 2.0], 0.5, -math.log(1.5)), (["uniform", 0.5, 2.0], 2.0, -math.log(1.5)),
                        (["log-uniform", 0.5, 2.0], 0.5, -math.log(0.5 * math.log(4.0))), (["log-uniform", 0.5, 2.0], 2.0, -math.log(2.0 * math.log(4.0)))):
        for extra in (None, ["uniform", 0.1, 10.0]):
            priors = {"p0": pr} if extra is None else {"p0": pr, "p1": extra}
            vals = {"p0": x} if extra is None else {"p0": x, "p1": 1.0}
            w = want + (0.0 if extra is None else -math.log(9.9))
            case = {"priors": priors, "values": vals}
            ctx.begin_case(case)
            try:
                lp = float(DeterministicInference(list(priors), M, priors).check_prior(dict(vals)))
            except ZeroDivisionError:
                lp = float("nan")
            ctx.evaluated()
            if not math.isfinite(lp) or abs(lp - w) > 1e-9:
                ctx.violation("prior/boundary/" + pr[0], "log-prior %r at the boundary point %r of %s, the density there gives %r" % (lp, x, pr, w), case)
                return
            ctx.count("boundary_points")
    live = {}
    # prior specifications written with integers (as the documentation's examples are), some of them large: the log-density
    # is that of the named distribution whatever the Python type of the numbers
    for pr, x in ((["gamma", 2, 4], 0.7), (["gamma", 20, 10], 2.1), (["gamma", 32, 4], 8.5), (["gamma", 70, 2], 33.0), (["beta", 30, 40], 0.4),
                  (["beta", 2, 3], 0.5), (["exponential", 3], 1), (["uniform", 0, 5], 2), (["gaussian", 3, 2], 4), (["log-uniform", 1, 100], 7),
                  (["log-gaussian", 1, 2], 3)):
        case = {"priors": {"p0": pr}, "values": {"p0": x}, "integer_typed": True}
        ctx.begin_case(case)
        lp = float(DeterministicInference(["p0"], M, {"p0": pr}).check_prior({"p0": x}))
        want = float(scipy_logpdf([pr[0]] + [float(q) for q in pr[1:]], float(x)))
        ctx.evaluated()
        if not math.isfinite(lp) or (relerr(lp, want) > 1e-9 and abs(lp - want) > 1e-9):
            ctx.violation("prior/value/integer-typed/" + pr[0], "log-prior %r of the value %r under %s, the named density gives %r" % (lp, x, pr, want), case)
            return
        ctx.count("integer_typed_specs")
    for i in range(n):
        k = 1 if i % 3 else rng.randint(2, 4)
        names = ["p%d" % j for j in range(k)]
        priors, vals, inside_all = {}, {}, True
        for nm in names:
            fam = FAMILIES[rng.below(7)] if k > 1 else FAMILIES[i % 7]
            pr = gen_prior(rng, fam)
            inside = not rng.chance(1, 3)
            x = gen_value(rng, pr, inside)
            if x is None:
                inside, x = True, gen_value(rng, pr, True)
            positive = rng.chance(1, 4)
            priors[nm] = pr + (["positive"] if positive else [])
            vals[nm] = float(x)
            lo, hi = support(pr)
            ok = (lo <= x <= hi) and not (positive and x < 0)
            if pr[0] in ("log-gaussian",) and x <= 0:
                ok = False
            inside_all = inside_all and ok
        if i % 2:
            # the prior dictionary and the dictionary of values need not list the parameters in the same order
            vals = dict(reversed(list(vals.items())))
        case = {"priors": priors, "values": vals}
        ctx.begin_case(case)
        P = DeterministicInference(names, M, priors)
        lp = P.check_prior(dict(vals))
        lp = float(lp)
        ctx.evaluated()
        # the same evaluation on an interface that lives through the whole run and whose prior is revised in between
        # (by assignment, or by editing the dictionary it holds): the log-prior is that of the prior named *now*
        if k not in live:
            live[k] = DeterministicInference(names, M, dict(priors))
        L = live[k]
        if i % 2:
            L.prior = dict(priors)
        else:
            for nm in names:
                L.prior[nm] = priors[nm]
        lp_live = float(L.check_prior(dict(vals)))
        ctx.evaluated()
        if lp_live != lp and not (math.isnan(lp_live) and math.isnan(lp)):
            ctx.violation("prior/live-interface/" + "+".join(sorted(set(p[0] for p in priors.values()))),
                          "an interface evaluated earlier under other priors gives log-prior %r, a fresh interface with the same priors %r" % (lp_live, lp), case)
            continue
        ctx.count("live_interface_revisions")
        # ---------------- oracle: log of the named density, summed; rejected outside the support
        if inside_all:
            want = sum(float(scipy_logpdf([q for q in priors[nm] if q != "positive"], vals[nm])) for nm in names)
            if math.isfinite(want) and abs(want) < 600:
                if not math.isfinite(lp) or relerr(lp, want) > 1e-9 and abs(lp - want) > 1e-9:
                    ctx.violation("prior/value/" + "+".join(sorted(set(p[0] for p in priors.values()))),
                                  "log-prior %r differs from the sum of the named log-densities %r" % (lp, want), case)
                    continue
        else:
            if math.isfinite(lp):
                fam = "+".join(sorted(set(p[0] for p in priors.values())))
                ctx.violation("prior/support/" + fam, "a value outside the support (or negative under 'positive') gets the finite log-prior %r" % lp, case)
                continue
        jobs.append({"op": "prior", "num": "float", "pi": f2b(math.pi),
                     "items": [to_item([q for q in priors[nm] if q != "positive"], "positive" in priors[nm], vals[nm]) for nm in names]})
        meta.append((case, lp, inside_all))
        ctx.nontriv((tuple(sorted(p[0] for p in priors.values())), inside_all, tuple("positive" in p for p in priors.values())))
        ctx.count(("inside:" if inside_all else "outside:") + (priors[names[0]][0] if k == 1 else "vector"))
        ctx.sample(case, cap=4)
    ans = driver_batch(jobs)
    for (case, lp, inside_all), a in zip(meta, ans):
        if "error" in a:
            ctx.broke("corr_C16_driver", {"case": case, "error": a["error"]})
            continue
        m = None if a["lp"] is None else b2f(a["lp"])
        if m is None or not math.isfinite(m):
            if math.isfinite(lp):
                ctx.broke("corr_C16_model_rejects_implementation_accepts", {"case": case, "implementation": lp})
        else:
            if not math.isfinite(lp) or (relerr(m, lp) > 1e-12 and abs(m - lp) > 1e-12):
                ctx.broke("corr_C16_model_vs_check_prior", {"case": case, "model": m, "implementation": lp})
    # the posterior outside the support is -inf
    from bioscrape.inference_setup import InferenceSetup
    tt = np.linspace(0, 1, 5)
    data = pd.DataFrame({"time": tt, "A": np.exp(-tt)})
    for pr, theta, want_finite in ((["exponential", 2.0], -1.0, False), (["exponential", 2.0], 0.7, True),
                                   (["gamma", 3.0, 2.0], -1.0, False), (["beta", 2.0, 3.0], 1.5, False),
                                   (["uniform", 0.0, 2.0, "positive"], 0.5, True), (["gaussian", 0.0, 1.0, "positive"], -0.5, False)):
        inf = InferenceSetup(Model=M, exp_data=data, measurements=["A"], time_column="time", params_to_estimate=["p0"],
                             prior={"p0": pr}, initial_conditions={"A": 1.0})
        v = float(inf.cost_function([theta]))
        ctx.evaluated()
        if (math.isfinite(v) if want_finite else v == -math.inf) is False:
            ctx.violation("posterior/support/" + pr[0], "posterior at theta=%g under prior %s is %r" % (theta, pr, v), {"prior": pr, "theta": theta, "posterior": v})
    # the 'positive' flag speaks about the parameter's *value*: whether the sampler works on the value or on its logarithm, and
    # whichever simulator computes the likelihood, a positive in-support value under the flag has the posterior it has without it
    from bioscrape.random import py_seed_random
    for sim_type in ("deterministic", "stochastic"):
        for log_space in (False, True):
            for value in (0.5, 0.9, 2.0):
                got = []
                for pr in (["gamma", 3.0, 2.0, "positive"], ["gamma", 3.0, 2.0]):
                    case = {"scenario": "positive flag and sampler coordinates", "sim_type": sim_type, "log_space_parameters": log_space, "prior": pr, "value": value}
                    ctx.begin_case(case)
                    inf = InferenceSetup(Model=M, exp_data=data, measurements=["A"], time_column="time", params_to_estimate=["p0"],
                                         prior={"p0": pr}, initial_conditions={"A": 1.0}, sim_type=sim_type)
                    inf.setup_cost_function(log_space_parameters=log_space)
                    py_seed_random(4242)
                    got.append(float(inf.cost_function([math.log(value) if log_space else value])))
                    ctx.evaluated()
                if not math.isfinite(got[0]) or got[0] != got[1]:
                    ctx.violation("posterior/positive-flag/" + sim_type + ("/log-space" if log_space else ""),
                                  "value %g of a gamma(3, 2) prior (%s inference, log_space_parameters=%s): posterior %r under the 'positive' flag, %r without it"
                                  % (value, sim_type, log_space, got[0], got[1]), dict(case, with_flag=got[0], without_flag=got[1]))
                    return
                ctx.count("positive_flag_sampler_coordinates")
    # vectors: one component outside its support (rejected) together with components inside their support where the
    # density is zero or underflows (log-density -inf): the posterior is minus infinity - not NaN, not finite
    outside = [(["uniform", 0.0, 10.0], 11.0), (["log-uniform", 1.0, 10.0], 11.0), (["exponential", 1.0], -1.0), (["gamma", 3.0, 2.0], -1.0),
               (["beta", 2.0, 3.0], 1.5), (["gaussian", 2.0, 1.0, "positive"], -0.5), (["log-gaussian", 0.0, 1.0], -1.0)]
    zero = [(["beta", 2.0, 2.0], 0.0), (["beta", 2.0, 3.0], 1.0), (["gamma", 3.0, 2.0], 0.0), (["gaussian", 0.5, 0.01], 1.0),
            (["exponential", 1.0], 800.0), (["uniform", 0.0, 2.0], 0.5)]
    for io, (po, xo) in enumerate(outside):
        for iz, (pz, xz) in enumerate(zero):
            for order in (0, 1):
                prs = {"p0": po, "p1": pz} if order == 0 else {"p0": pz, "p1": po}
                theta = [xo, xz] if order == 0 else [xz, xo]
                if (io + iz) % 3 == 0:                       # a third parameter well inside its support
                    prs["p2"] = ["gaussian", 1.0, 1.0]
                    theta = theta + [1.2]
                case = {"priors": prs, "theta": theta}
                ctx.begin_case(case)
                inf = InferenceSetup(Model=M, exp_data=data, measurements=["A"], time_column="time", params_to_estimate=list(prs),
                                     prior=(prs if (io + iz) % 2 else dict(reversed(list(prs.items())))), initial_conditions={"A": 1.0})
                v = float(inf.cost_function(list(theta)))
                ctx.evaluated()
                if v != -math.inf:
                    ctx.violation("posterior/support/vector", "posterior of a vector with a component outside its prior's support is %r, not -inf" % v,
                                  dict(case, posterior=v))
                    return
                ctx.count("posterior_vectors_rejected")
    # check_prior is handed parameter *values* whatever coordinates the sampler works in: the 'positive' flag rejects a
    # negative value on every interface class, created with or without log_space_parameters
    from bioscrape.pid_interfaces import PIDInterface, StochasticInference
    prior2 = {"p0": ["gaussian", 0.5, 2.0, "positive"], "p1": ["uniform", -10.0, 10.0, "positive"]}
    for cls in (PIDInterface, DeterministicInference, StochasticInference):
        for log_space in (False, True):
            obj = cls(["p0", "p1"], M, prior2, log_space_parameters=True) if log_space else cls(["p0", "p1"], M, prior2)
            for vals, rejected in (({"p0": -0.3, "p1": 2.0}, True), ({"p0": 1.0, "p1": -4.0}, True), ({"p0": -1.0, "p1": -1.0}, True), ({"p0": 1.0, "p1": 11.0}, True),
                                   ({"p0": 1.0, "p1": 2.0}, False)):
                case = {"scenario": "check_prior on values", "class": cls.__name__, "log_space_parameters": log_space, "priors": prior2, "values": vals}
                ctx.begin_case(case)
                lp = float(obj.check_prior(dict(vals)))
                ctx.evaluated()
                want = float(scipy_logpdf(["gaussian", 0.5, 2.0], vals["p0"]) + scipy_logpdf(["uniform", -10.0, 10.0], vals["p1"]))
                if rejected and math.isfinite(lp):
                    ctx.violation("prior/support/positive-flag/log-space-interface" if log_space else "prior/support/positive-flag",
                                  "%s(log_space_parameters=%s).check_prior(%s) = %r: a negative value under the 'positive' flag (or a value outside the support) gets a finite log-prior"
                                  % (cls.__name__, log_space, vals, lp), case)
                    return
                if not rejected and not (abs(lp - want) <= 1e-9 * (1 + abs(want))):
                    ctx.violation("prior/density/log-space-interface", "%s(log_space_parameters=%s).check_prior(%s) = %r, the log-densities sum to %r" % (cls.__name__, log_space, vals, lp, want), case)
                    return
                ctx.count("check_prior_on_values")


def replay(ctx, obj):
    run(ctx)


def describe(ctx):
    rule = ("all seven families x parameter ranges x values inside the support (incl. within 1e-6 of the boundary) and outside it, "
            "single parameters (each family in turn) and vectors of 2..4 parameters with mixed families, with and without the "
            "'positive' flag: PIDInterface.check_prior against (oracle) the sum of scipy.stats log-densities / rejection, and "
            "against the Lean model run in Float (1e-12); every case also on an interface kept alive through the run whose prior is revised before each evaluation; posterior at an out-of-support theta. distinct = (families, inside?, flags).")
    return rule, {}, False, ["scipy.special.gamma/beta are taken to compute the Gamma and Beta functions (their values are inputs of the model)",
                             "far-tail in-support values where the density underflows to 0 are excluded (|log pdf| < 600)"]
