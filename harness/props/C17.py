"""C17 - copies and pickles of models and results behave like the original."""
import copy
import pickle
import warnings

import numpy as np

import common
from extract import pickle_tables

USES_GENERATED = True      # Properties/C17.lean: tablesOk_* obligations over Generated/PickleTables.lean

GENERAL = ["k1*A^2/(1+B+A^2) + exp(-t)*volume", "max(A, B, 3) + min(A, 2)", "k1*Heaviside(A-2) + abs(B-k2)", "log(A+1)*k1 + (A+B)^0.5"]


def gen_model_spec(rng):
    rx = []
    kinds = rng.shuffle(["massaction0", "massaction3", "hillpositive", "hillnegative", "proportionalhillpositive",
                         "proportionalhillnegative", "general", "general"])[:rng.randint(2, 5)]
    for j, kd in enumerate(kinds):
        if kd == "massaction0":
            r = ([], ["A"], "massaction", {"k": rng.choice([0.5, 2.0])})
        elif kd == "massaction3":
            r = (["A", "A", "B"], ["C"], "massaction", {"k": "k1"})
        elif kd.startswith("prop") or kd.startswith("hill"):
            pd = {"k": "k1", "K": rng.choice([2.0, "k2"]), "n": rng.choice([1.0, 2.0, 1.5]), "s1": rng.choice(["A", "B"])}
            if kd.startswith("prop"):
                pd["d"] = rng.choice(["B", "C"])
            r = ([], [rng.choice(["A", "B", "C"])], kd, pd)
        else:
            r = ([], ["B"], "general", {"rate": rng.choice(GENERAL)})      # (consuming reactions only with mass-action rates: counts stay non-negative)
        d = rng.below(5)
        if d == 1:
            r = r + ("fixed", [], ["C"], {"delay": rng.choice([0.5, "tau"])})
        elif d == 2:
            r = r + ("gaussian", [], ["A"], {"mean": 1.0, "std": 0.2})
        elif d == 3:
            r = r + ("gamma", [], ["B"], {"k": 2.0, "theta": 0.3})
        rx.append(r)
    rules = []
    if rng.chance(2, 3):
        rules.append(("additive", {"equation": "S = A + B"}))
    if rng.chance(1, 2):
        rules.append(("assignment", {"equation": "R = 2*S + k2"}, rng.choice(["repeated", "dt", 1.0])))
    if rng.chance(1, 3):
        rules.append(("ode", {"equation": "k1", "target": "W"}))
    return dict(species=["A", "B", "C", "S", "R", "W"], reactions=rx, parameters={"k1": 0.7, "k2": 1.5, "tau": 0.4},
                rules=rules, initial_condition_dict={"A": 12, "B": 5, "C": 1, "S": 0, "R": 0, "W": 0})


def observe_model(M, seed):
    """everything the property lists, from one model object."""
    from bioscrape.simulator import ModelCSimInterface, py_simulate_model
    from bioscrape.random import py_seed_random
    out = {}
    out["species"] = dict(M.get_species2index())
    out["species_values"] = [float(v) for v in M.get_species_array()]
    out["params"] = dict(M.get_params2index())
    out["param_values"] = [float(v) for v in M.get_parameter_values()]
    out["rules"] = repr(M.get_rules())
    I = ModelCSimInterface(M)
    out["U"] = np.array(M.py_get_update_array()).tolist()
    out["D"] = np.array(M.py_get_delay_update_array()).tolist()
    props = []
    for x in ([3.0, 2.0, 1.0, 0, 0, 0], [7.0, 0.0, 4.0, 1.0, 2.0, 3.0]):
        xv = np.array(x[:len(out["species_values"])], dtype=float)
        for mode in ("det", "vol", "stoch", "svol"):
            props.append([float(v) for v in I.py_verif_compute_propensities(xv.copy(), mode, 2.0, 0.5)])
    out["propensities"] = props
    py_seed_random(seed)
    out["delays"] = [(type(d).__name__, float(d.py_get_delay(np.zeros(len(out["species_values"])), M.get_parameter_values()))) for d in M.get_delays()]
    T = np.linspace(0, 2.0, 9)
    for mode, kw in (("ssa", dict(stochastic=True)), ("delay", dict(stochastic=True, delay=True)), ("det", dict(stochastic=False))):
        py_seed_random(seed)
        try:
            r = py_simulate_model(T.copy(), Model=M, return_dataframe=False, **kw)
            out["sim_" + mode] = np.array(r.py_get_result()).tolist()
        except (RuntimeError, TypeError) as e:
            out["sim_" + mode] = "error:" + type(e).__name__
    return out


def diff_obs(a, b):
    for k in a:
        if k.startswith("sim_det"):
            if isinstance(a[k], str) or isinstance(b[k], str):
                if a[k] != b[k]:
                    return k
            elif not np.allclose(np.array(a[k]), np.array(b[k]), rtol=1e-9, atol=1e-12, equal_nan=True):
                return k
        elif a[k] != b[k]:
            if isinstance(a[k], list) and np.array(a[k], dtype=object).shape == np.array(b[k], dtype=object).shape:
                try:
                    if np.array_equal(np.array(a[k], dtype=float), np.array(b[k], dtype=float), equal_nan=True):
                        continue
                except (ValueError, TypeError):
                    pass
            return k
    return None


def model_case(ctx, rng):
    from bioscrape.types import Model
    from bioscrape.simulator import py_simulate_model
    spec = gen_model_spec(rng)
    init = not rng.chance(1, 4)
    recipe = {"spec": {k: (list(v) if isinstance(v, tuple) else v) for k, v in spec.items()}, "initialize_model": init}
    ctx.begin_case(recipe)
    M = Model(initialize_model=init, **spec)
    steps = []
    if rng.chance(1, 2):      # pickled after a simulation
        py_simulate_model(np.linspace(0, 1, 5), Model=M, stochastic=True)
        steps.append("simulated")
    if rng.chance(1, 2):      # and after an edit
        M.set_parameter("k1", 1.1)
        M.create_reaction(["B"], ["A"], "massaction", {"k": 0.3})
        steps.append("edited")
        if rng.chance(1, 2):
            # ... a reaction with a delayed part of its own, and the model put to use again (so it is initialised, with
            # everything rebuilt, when the copy is taken)
            M.create_reaction(["A"], [], "massaction", {"k": 0.7}, delay_type="fixed", delay_reactants=[], delay_products=["B"],
                              delay_param_dict={"delay": 0.4})
            py_simulate_model(np.linspace(0, 1, 5), Model=M, stochastic=True)
            steps.append("delayed reaction added, simulated again")
    seed = rng.randint(1, 10**6)
    how = rng.choice(["pickle", "deepcopy", "pickle-of-pickle", "deepcopy-of-pickle", "deepcopy-of-deepcopy"])
    if how == "pickle":
        C = pickle.loads(pickle.dumps(M))
    elif how == "deepcopy":
        C = copy.deepcopy(M)
    elif how == "deepcopy-of-deepcopy":
        C = copy.deepcopy(copy.deepcopy(M))
    elif how == "pickle-of-pickle":
        C = pickle.loads(pickle.dumps(pickle.loads(pickle.dumps(M))))
    else:
        C = copy.deepcopy(pickle.loads(pickle.dumps(M)))
    recipe.update({"steps": steps, "how": how, "seed": seed})
    ctx.evaluated()
    # table lengths seen at run time agree with the translator
    if len(M.__getstate__()) != len(TABLES["Model"]["getstate"]):
        ctx.broke("translator_C17_getstate_length", {"class": "Model", "runtime": len(M.__getstate__()), "translator": len(TABLES["Model"]["getstate"])})
    a, b = observe_model(M, seed), observe_model(C, seed)
    k = diff_obs(a, b)
    if k is not None:
        ctx.violation("model-copy/" + k.split("_")[0], "a %s of the model differs from the original in %s" % (how, k), dict(recipe, original=str(a[k])[:400], copy=str(b[k])[:400]))
        return
    # independence: editing one does not affect the other
    before = observe_model(M, seed)
    C.set_parameter("k1", 9.0)
    C.set_species({"A": 99})
    C.create_reaction(["A"], [], "massaction", {"k": 5.0})
    after = observe_model(M, seed)
    k = diff_obs(before, after)
    if k is not None:
        ctx.violation("model-copy/independence", "editing the %s changed the original (%s)" % (how, k), recipe)
        return
    ctx.nontriv((how, tuple(steps), init, tuple(sorted(set(r[2] for r in spec["reactions"]))), tuple(sorted(set((r[4] if len(r) > 4 else "none") for r in spec["reactions"]))), len(spec["rules"])))
    ctx.count("how:" + how)
    ctx.sample({"how": how, "steps": steps, "propensities": [r[2] for r in spec["reactions"]], "rules": [r[0] for r in spec["rules"]]}, cap=4)


def lineage_case(ctx, rng):
    from bioscrape.lineage import LineageModel, LineageVolumeSplitter, py_SimulateCellLineage, LineageVolumeCellState, py_SimulateSingleCell
    from bioscrape.random import py_seed_random
    warnings.filterwarnings("ignore")
    recipe = {"lineage": True}
    M = LineageModel(species=["A", "B", "G"], parameters={"k": 2.0, "d": 0.5, "g": 0.4},
                     reactions=[([], ["A"], "massaction", {"k": "k"}), (["A"], ["B"], "massaction", {"k": "d"}),
                                (["B"], [], "general", {"rate": "d*B/(1+A)"})],
                     rules=[("additive", {"equation": "G = A + B"})] if rng.chance(1, 2) else [],
                     initial_condition_dict={"A": 5, "B": 2, "G": 0})
    choice = rng.below(4)
    feats = []
    if choice in (0, 2):
        M.create_volume_rule("ode", {"equation": "volume*g"}); feats.append("volume-rule/ode")
    else:
        M.create_volume_event("linear volume", {"growth_rate": 0.3}, "massaction", {"k": 2.0, "species": ""}); feats.append("volume-event/linear")
    vs = LineageVolumeSplitter(M, options={"default": "binomial", "G": "duplicate", "B": rng.choice(["perfect", "binomial"])},
                               partition_noise=rng.choice([0.0, 0.2]))
    if choice in (0, 1):
        M.create_division_rule("deltaV", {"threshold": 1.0}, vs); feats.append("division-rule/deltaV")
    elif choice == 2:
        M.create_division_rule("volume", {"threshold": 2.0}, vs); feats.append("division-rule/volume")
    else:
        M.create_division_event("division", {}, "massaction", {"k": 0.5, "species": ""}, vs); feats.append("division-event")
    if rng.chance(1, 2):
        M.create_death_event("death", {}, "hillpositive", {"k": 0.3, "s1": "B", "n": 2, "K": 20}); feats.append("death-event")
    else:
        M.create_death_rule("species", {"specie": "B", "threshold": 60, "comp": ">"}); feats.append("death-rule/species")
    M.py_initialize()
    recipe["features"] = feats
    # "pickled before or after simulations and edits": what happened to the model before it is copied
    history = rng.choice(["fresh", "simulated", "simulated-edited-simulated", "initialised-twice"])
    recipe["history"] = history
    ctx.begin_case(recipe)
    T = np.arange(0, 4.0, 0.05)
    if history != "fresh":
        py_seed_random(5)
        if history == "initialised-twice":
            M.py_initialize()
        else:
            py_SimulateCellLineage(T[:20], Model=M)
            if history == "simulated-edited-simulated":
                M.create_parameter("zz_unused", 1.0)          # clears `initialized`: the next use re-initialises
                py_SimulateCellLineage(T[:20], Model=M)
    how = rng.choice(["pickle", "deepcopy", "pickle-of-pickle"])
    C = copy.deepcopy(M) if how == "deepcopy" else pickle.loads(pickle.dumps(M))
    if how == "pickle-of-pickle":
        C = pickle.loads(pickle.dumps(C))
    if (C.py_get_event_counts(), C.py_get_rule_counts()) != (M.py_get_event_counts(), M.py_get_rule_counts()):
        ctx.evaluated()
        ctx.violation("lineage-model-copy/counts", "a %s of a lineage model (%s; %s) reports event/rule counts %s, the original %s"
                      % (how, feats, history, (C.py_get_event_counts(), C.py_get_rule_counts()), (M.py_get_event_counts(), M.py_get_rule_counts())),
                      dict(recipe, how=how))
        return
    seed = rng.randint(1, 10**6)

    def lin(model):
        py_seed_random(seed)
        L = py_SimulateCellLineage(T, Model=model)
        out = []
        for i in range(L.py_size()):
            s = L.py_get_schnitz(i)
            out.append((np.array(s.py_get_time()).tolist(), np.array(s.py_get_data()).tolist(), np.array(s.py_get_volume()).tolist()))
        return L, out
    La, a = lin(M)
    Lb, b = lin(C)
    ctx.evaluated()
    if len(M.__getstate__()) != len(TABLES["LineageModel"]["getstate"]):
        ctx.broke("translator_C17_getstate_length", {"class": "LineageModel", "runtime": len(M.__getstate__()), "translator": len(TABLES["LineageModel"]["getstate"])})
    if a != b:
        ctx.violation("lineage-model-copy", "a %s of a lineage model (%s) simulates a different lineage from the same seed" % (how, feats), dict(recipe, how=how, seed=seed, n_original=len(a), n_copy=len(b)))
        return
    # lineages / schnitzes / cell states survive pickling with links intact
    L2 = pickle.loads(pickle.dumps(La))
    if L2.py_size() != La.py_size():
        ctx.violation("lineage-pickle/size", "a pickled lineage has %d schnitzes instead of %d" % (L2.py_size(), La.py_size()), recipe)
        return
    idx = {id(La.py_get_schnitz(i)): i for i in range(La.py_size())}
    idx2 = {id(L2.py_get_schnitz(i)): i for i in range(L2.py_size())}
    for i in range(La.py_size()):
        s, s2 = La.py_get_schnitz(i), L2.py_get_schnitz(i)
        if not (np.array_equal(s.py_get_data(), s2.py_get_data()) and np.array_equal(s.py_get_time(), s2.py_get_time()) and np.array_equal(s.py_get_volume(), s2.py_get_volume())):
            ctx.violation("lineage-pickle/data", "schnitz %d of a pickled lineage has different data" % i, recipe)
            return
        links = lambda sch, ix: (ix.get(id(sch.py_get_parent())) if sch.py_get_parent() is not None else None,
                                 tuple(ix.get(id(d)) if d is not None else None for d in sch.py_get_daughters()))
        if links(s, idx) != links(s2, idx2):
            ctx.violation("lineage-pickle/links", "schnitz %d of a pickled lineage has different mother/daughter links (%s vs %s)" % (i, links(s, idx), links(s2, idx2)), recipe)
            return
        d1, d2 = s2.py_get_daughters()
        if d1 is not None and (d1.py_get_parent() is not s2 or d2.py_get_parent() is not s2):
            ctx.violation("lineage-pickle/mutual", "daughter of pickled schnitz %d does not point back to it" % i, recipe)
            return
    # every attribute of a cell state, with every kind of flag value (alive, divided by rule 0 / 1, dead by rule 0 / event 2):
    # constructed positionally (which validates the parameter -> attribute table of the Lean model), pickled, copied
    rt = TABLES.get("__reduce__", {}).get("LineageVolumeCellState")
    for divided, dead in ((-1, -1), (0, -1), (1, -1), (-1, 0), (-1, 2), (1, 1)):
        vals = {"v0": 1.5, "t0": 0.25, "state": np.array([3.0, 2.0, 5.0]), "volume": 2.0, "time": 1.0, "divided": divided, "dead": dead}
        c0 = LineageVolumeCellState(*[vals[p_] for p_ in (rt["initParams"] if rt else list(vals))])
        target = {"v0": "initial_volume", "t0": "initial_time"}
        g0 = c0.__getstate__()
        names = rt["getstate"] if rt else []
        same = lambda u, v: (np.array_equal(u, v) if isinstance(u, np.ndarray) or isinstance(v, np.ndarray) else u == v)
        if rt and (len(g0) != len(names) or any(not same(g0[names.index(target.get(p_, p_))], vals[p_]) for p_ in vals if target.get(p_, p_) in names)):
            ctx.broke("translator_C17_init_targets", {"class": "LineageVolumeCellState", "getstate": str(g0), "names": names, "constructed_with": str(vals)})
        # ... and the same cell moved to time 0 of an axis on which it was born earlier (a burn-in on negative times)
        cz = LineageVolumeCellState(v0=1.0, t0=-2.5, state=np.array([3.0, 7.0, 0.0]), volume=1.8, time=-0.5, divided=divided, dead=dead)
        cz.py_set_time(0.0)
        gz = cz.__getstate__()
        for how2, c2 in (("pickle", pickle.loads(pickle.dumps(cz))), ("deepcopy", copy.deepcopy(cz))):
            g2 = c2.__getstate__()
            ctx.evaluated()
            if gz[names.index("time")] != 0.0 or len(g2) != len(gz) or any(not same(u, v) for u, v in zip(gz, g2)):
                ctx.violation("cellstate-pickle/time-zero", "a %s of a LineageVolumeCellState born at t=-2.5 and now at t=0 has the data %s, the original %s" % (how2, g2, gz),
                              dict(recipe, how=how2, divided=divided, dead=dead))
                return
        for how2, c2 in (("pickle", pickle.loads(pickle.dumps(c0))), ("deepcopy", copy.deepcopy(c0)), ("pickle of pickle", pickle.loads(pickle.dumps(pickle.loads(pickle.dumps(c0)))))):
            g2 = c2.__getstate__()
            ctx.evaluated()
            if len(g2) != len(g0) or any(not same(u, v) for u, v in zip(g0, g2)):
                ctx.violation("cellstate-pickle/flags", "a %s of a LineageVolumeCellState (divided=%d, dead=%d) has the data %s, the original %s" % (how2, divided, dead, g2, g0),
                              dict(recipe, how=how2, divided=divided, dead=dead))
                return
        ctx.count("cellstate_flag_combinations")
    cs = LineageVolumeCellState(v0=1.5, t0=0.25, state=np.array([3.0, 2.0, 5.0]), volume=2.0, time=1.0, divided=1, dead=-1)
    for c2 in (pickle.loads(pickle.dumps(cs)), copy.deepcopy(cs)):
        ok = (c2.py_get_volume() == 2.0 and c2.py_get_time() == 1.0 and np.array_equal(c2.py_get_state(), cs.py_get_state())
              and c2.py_get_initial_volume() == 1.5 and c2.py_get_initial_time() == 0.25)
        if not ok:
            ctx.violation("cellstate-pickle", "a pickled LineageVolumeCellState differs from the original", recipe)
            return
        c2.py_get_state()[0] = 77.0
        if cs.py_get_state()[0] == 77.0:
            ctx.violation("cellstate-pickle/independence", "a copied cell state shares its state array with the original", recipe)
            return
    ctx.nontriv(("lineage", how, history, tuple(feats), len(a) > 1))
    ctx.count("lineage:" + how)


def tracked_lineages(ctx):
    """lineages as a cell tracker produces them: a mother may have lost one of its daughters (one link set, the other
    None); every link survives pickling and deep copying, in both directions."""
    from bioscrape.types import Schnitz, ExperimentalLineage

    def cell(t0, n, val):
        t = np.linspace(t0, t0 + 1.0, n)
        return Schnitz(t, np.full((n, 2), float(val)), np.linspace(1.0, 2.0, n))
    for shape in ("both daughters", "first daughter only", "second daughter only"):
        m, d1, d2, g1, g2 = cell(0, 4, 1), cell(1, 3, 2), cell(1, 3, 3), cell(2, 2, 4), cell(2, 2, 5)
        if shape == "both daughters":
            m.py_set_daughters(d1, d2); d1.py_set_parent(m); d2.py_set_parent(m)
            cells = [m, d1, d2]
        else:
            first = shape.startswith("first")
            m.py_set_daughters(d1 if first else None, None if first else d1); d1.py_set_parent(m)
            d1.py_set_daughters(g1, g2); g1.py_set_parent(d1); g2.py_set_parent(d1)
            cells = [m, d1, g1, g2]
        L = ExperimentalLineage({"X": 0, "Y": 1})
        for c in cells:
            L.py_add_schnitz(c)

        def links(Lx):
            sch = [Lx.py_get_schnitz(i) for i in range(Lx.py_size())]
            pos = {id(c): i for i, c in enumerate(sch)}
            return [(pos.get(id(c.py_get_parent()), -1) if c.py_get_parent() is not None else None,
                     tuple(pos.get(id(d), -1) if d is not None else None for d in c.py_get_daughters()),
                     np.array(c.py_get_data()).tolist(), np.array(c.py_get_time()).tolist()) for c in sch]
        want = links(L)
        for how, C in (("pickle", pickle.loads(pickle.dumps(L))), ("deepcopy", copy.deepcopy(L)), ("pickle of pickle", pickle.loads(pickle.dumps(pickle.loads(pickle.dumps(L)))))):
            case = {"tracked_lineage": shape, "how": how}
            ctx.begin_case(case)
            got = links(C)
            ctx.evaluated()
            if got != want:
                ctx.violation("lineage-pickle/one-daughter" if shape != "both daughters" else "lineage-pickle/links",
                              "a %s of a tracked lineage (%s) has the links %s, the original %s" % (how, shape, [g[:2] for g in got], [w[:2] for w in want]), case)
                return
        ctx.count("tracked_lineage_shapes")
    # ---- links kept in one direction only, and a single cell taken out of its tree
    for shape in ("mother links only", "daughter links only"):
        m, d1, d2, g1 = cell(0, 4, 1), cell(1, 3, 2), cell(1, 3, 3), cell(2, 2, 4)
        if shape == "mother links only":          # what a tracker that records "came from" writes
            d1.py_set_parent(m); d2.py_set_parent(m); g1.py_set_parent(d1)
        else:
            m.py_set_daughters(d1, d2); d1.py_set_daughters(g1, None)
        L = ExperimentalLineage({"X": 0, "Y": 1})
        for c in (m, d1, d2, g1):
            L.py_add_schnitz(c)
        want = links(L)
        for how, C in (("pickle", pickle.loads(pickle.dumps(L))), ("deepcopy", copy.deepcopy(L))):
            case = {"tracked_lineage": shape, "how": how}
            ctx.begin_case(case)
            got = links(C)
            ctx.evaluated()
            if got != want:
                ctx.violation("lineage-pickle/one-directional-links", "a %s of a tracked lineage (%s) has the links %s, the original %s"
                              % (how, shape, [g[:2] for g in got], [w[:2] for w in want]), case)
                return
        ctx.count("tracked_lineage_shapes")
    m, d1, d2 = cell(0, 4, 1), cell(1, 3, 2), cell(1, 3, 3)
    m.py_set_daughters(d1, d2); d1.py_set_parent(m); d2.py_set_parent(m)
    for how, c in (("pickle", pickle.loads(pickle.dumps(d1))), ("deepcopy", copy.deepcopy(d1))):
        case = {"single_cell_of_a_tree": how}
        ctx.begin_case(case)
        ctx.evaluated()
        mo = c.py_get_parent()
        ok = (mo is not None and np.array_equal(np.array(mo.py_get_data()), np.array(m.py_get_data())) and np.array_equal(np.array(mo.py_get_time()), np.array(m.py_get_time()))
              and mo.py_get_daughters()[0] is c and mo.py_get_daughters()[1] is not None
              and np.array_equal(np.array(mo.py_get_daughters()[1].py_get_data()), np.array(d2.py_get_data())) and mo.py_get_daughters()[1].py_get_parent() is mo)
        if not ok:
            ctx.violation("lineage-pickle/single-cell", "a %s of one daughter cell taken on its own: its mother is %s (the original's mother holds %d rows and both daughters)"
                          % (how, "missing" if mo is None else "not the same tree", len(m.py_get_time())), case)
            return
    ctx.count("single_cells_of_a_tree")


def copies_of_used_models(ctx):
    """copies of models whose stored values are what a session left behind: a parameter that an assignment rule owns, left at
    NaN (0/0) by a run in which both species died out; a signal species set to -1 after the model was initialised.  The
    original simulates from these values (its rules recompute the parameter at t = 0); so does every copy, identically."""
    from bioscrape.types import Model
    from bioscrape.simulator import py_simulate_model
    from bioscrape.random import py_seed_random

    def run_(M, T, stochastic):
        py_seed_random(1234)
        with warnings.catch_warnings():
            warnings.simplefilter("ignore")
            return np.array(py_simulate_model(T.copy(), Model=M, stochastic=stochastic, return_dataframe=False).py_get_result())
    MB = Model(species=["A", "B", "S"], reactions=[(["A"], [], "massaction", {"k": 1.0}), (["B"], [], "massaction", {"k": 1.0})], parameters={"fA": 0.5},
               rules=[("assignment", {"equation": "_fA = A/(A+B)"}), ("assignment", {"equation": "S = 100*fA"})], initial_condition_dict={"A": 5, "B": 5, "S": 0})
    run_(MB, np.linspace(0, 30, 301), True)
    MC = Model(species=["X", "u"], reactions=[([], ["X"], "general", {"rate": "k*(2+u)"}), (["X"], [], "massaction", {"k": 0.1})], parameters={"k": 1.0},
               initial_condition_dict={"X": 0, "u": 0})
    MC.py_initialize()
    MC.set_species({"u": -1.0})
    for name, M, T, modes in (("rule-owned parameter left at NaN by an earlier run", MB, np.linspace(0, 30, 301), (True,)),
                              ("species set to -1 after initialisation", MC, np.linspace(0, 10, 101), (False, True))):
        for stochastic in modes:
            cs = [("pickle", pickle.loads(pickle.dumps(M))), ("deepcopy", copy.deepcopy(M)), ("pickle of pickle", pickle.loads(pickle.dumps(pickle.loads(pickle.dumps(M)))))]
            before = {k: float(v) for k, v in dict(M.get_species_dictionary()).items()}
            ref = run_(M, T, stochastic)
            for how, C in cs:
                case = {"scenario": "copy of a used model", "model": name, "how": how, "stochastic": stochastic}
                ctx.begin_case(case)
                try:
                    out = run_(C, T, stochastic)
                except Exception as e:
                    out = "%s: %s" % (type(e).__name__, str(e)[:120])
                ctx.evaluated()
                if isinstance(out, str) or out.shape != ref.shape or not np.array_equal(out, ref, equal_nan=True):
                    ctx.violation("copy/used-model", "%s (%s): the original simulates from the values %s, its %s %s" % (name, "stochastic" if stochastic else "deterministic", before, how,
                                  ("raises " + out) if isinstance(out, str) else "gives another trajectory (largest difference %g)" % float(np.nanmax(np.abs(out - ref)))), case)
                    return
                ctx.count("copies_of_used_models")


TABLES = {}


def run(ctx):
    warnings.filterwarnings("ignore")
    TABLES.update(pickle_tables.build_tables(common.REPO))
    TABLES["__reduce__"] = pickle_tables.build_reduce_tables(common.REPO)
    rng = ctx.rng
    tracked_lineages(ctx)
    copies_of_used_models(ctx)
    n = 40 if ctx.quick() else 800
    for i in range(n):
        model_case(ctx, rng)
    for i in range(8 if ctx.quick() else 150):
        lineage_case(ctx, rng)


def replay(ctx, obj):
    run(ctx)


def describe(ctx):
    rule = ("models drawn over every propensity type (incl. general rates exercising every expression node: sum, product, power, exp, "
            "log, abs, Heaviside, min, max, time, volume), every delay type, additive / assignment (repeated, dt, timed) / ODE rules, "
            "initialised or not, after simulations and after edits; copies by pickle, deepcopy, pickle of pickle, deepcopy of pickle, "
            "deepcopy of deepcopy (a shallow copy.copy shares its arrays with the original and is not claimed): dictionaries, update arrays, propensities in four modes at two states, rules, delay draws, seeded SSA / delay / "
            "deterministic output; independence under edits; lineage models over volume rules/events, division rules/events, death "
            "rules/events and splitter options: seeded lineages identical; pickled lineages keep data and mutual mother/daughter "
            "links; cell states. The tables behind Properties/C17.lean are regenerated from the source by a translator and their "
            "tuple lengths cross-checked against __getstate__() at run time.")
    return rule, {}, False, ["CPython pickle/deepcopy and Cython auto-pickle internals are trusted",
                             "transient attributes (allow-list in Model/Pickle.lean): Model.txt_dict, VolumeCellState.volume_object"]
