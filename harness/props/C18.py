"""C18 - reported Jacobians and parameter sensitivities match analytic derivatives."""
import math

import numpy as np

from common import driver_batch, f2b, b2f
from modelspec import build_model, sim_job

METHODS = ["fourth_order_central_difference", "central_difference", "forward_difference", "backward_difference"]
SP = ["A", "B", "C"]


def gen_smooth_network(rng):
    """mass action of any order, Hill families, general rational / exponential rates; returns spec and a
    sympy expression per reaction (built from the generator's own description)."""
    import sympy
    A, B, C = sympy.symbols("A B C")
    sym = {"A": A, "B": B, "C": C}
    rx, params, exprs, psyms = [], {}, [], {}
    n = rng.randint(1, 4)
    for j in range(n):
        k = sympy.Symbol("k%d" % j); psyms["k%d" % j] = k
        params["k%d" % j] = rng.choice([0.1, 0.5, 1.0, 2.5])
        c = rng.below(10)
        if c < 5:
            reac = [rng.choice(SP) for _ in range(rng.randint(0, 4))]
            prods = [rng.choice(SP) for _ in range(rng.randint(0, 2))]
            rx.append({"reactants": reac, "products": prods, "prop": {"type": "massaction", "k": "k%d" % j}})
            e = k
            for s in reac:
                e = e * sym[s]
            exprs.append(e)
        elif c < 8:
            t = rng.choice(["hillpositive", "hillnegative", "proportionalhillpositive", "proportionalhillnegative"])
            K = sympy.Symbol("K%d" % j); nn = sympy.Symbol("n%d" % j); psyms["K%d" % j] = K; psyms["n%d" % j] = nn
            params["K%d" % j] = rng.choice([1.0, 2.0, 5.0]); params["n%d" % j] = rng.choice([1.0, 2.0, 1.5, 3.0])
            s1 = rng.choice(SP)
            pr = {"type": t, "k": "k%d" % j, "K": "K%d" % j, "n": "n%d" % j, "s1": s1}
            u = (sym[s1] / K) ** nn
            e = k * u / (1 + u) if "positive" in t else k / (1 + u)
            if "proportional" in t:
                d = rng.choice(SP); pr["d"] = d; e = e * sym[d]
            rx.append({"reactants": [], "products": [rng.choice(SP)], "prop": pr})
            exprs.append(e)
        else:
            form = rng.choice(["%s*A/(1+B)", "%s*A*B/(2+C)", "%s*exp(-B/4)", "%s*A^2/(9+A^2)", "%s*(A-2*B)", "%s*(C-A)/(1+B^2)"])
            rate = form % ("k%d" % j)
            rx.append({"reactants": [], "products": [rng.choice(SP)], "prop": {"type": "general", "rate": rate}})
            exprs.append(sympy.sympify(rate.replace("^", "**"), {"A": A, "B": B, "C": C, "k%d" % j: k}))
    spec = {"species": list(SP), "reactions": rx, "params": params, "ic": {"A": 1, "B": 1, "C": 1}}
    return spec, exprs, sym, psyms


def bound(method, h, dmax):
    return {"fourth_order_central_difference": h ** 4 / 30, "central_difference": h ** 2 / 6,
            "forward_difference": h / 2, "backward_difference": h / 2}[method] * dmax


def one(ctx, rng):
    import sympy
    from bioscrape.analysis import py_get_jacobian, py_get_sensitivity_to_parameter
    spec, exprs, sym, psyms = gen_smooth_network(rng)
    ctx.begin_case({"spec": spec})
    M = build_model(spec)
    sl, pl = M.get_species_list(), M.get_param_list()
    U = np.array(M.py_get_update_array()) + np.array(M.py_get_delay_update_array())
    x = np.array([rng.choice([0.75, 1.0, 2.5, 4.0, 7.5]) for _ in sl])
    fractional = any(r["prop"]["type"] != "massaction" and float(spec["params"].get(r["prop"].get("n", ""), 1.0)) % 1 for r in spec["reactions"])
    if not fractional and rng.chance(1, 3):
        # interior states closer to the boundary than the reach of the stencils (2h = 0.02): the rate laws are smooth across
        # zero (polynomial, rational, exponential, integer Hill exponents), so the schemes keep their accuracy there
        x = np.array([rng.choice([0.004, 0.015, 0.5, 1.0, 3.0]) for _ in sl])
        ctx.count("state_within_stencil_reach_of_boundary")
    if any(r["prop"]["type"] == "general" and ("(A-2*B)" in r["prop"]["rate"] or "(C-A)" in r["prop"]["rate"]) for r in spec["reactions"]):
        ctx.count("net_rate_law_" + ("negative" if any(("(A-2*B)" in r["prop"]["rate"] and x[sl.index("A")] < 2 * x[sl.index("B")]) or ("(C-A)" in r["prop"]["rate"] and x[sl.index("C")] < x[sl.index("A")]) for r in spec["reactions"] if r["prop"]["type"] == "general") else "positive"))
    p_before = dict(zip(pl, [float(v) for v in M.get_parameter_values()]))
    # analytic rate equations f = S * rate, from the generator's own description
    f = [sum(int(U[i, j]) * exprs[j] for j in range(len(exprs))) for i in range(len(sl))]
    subs = {sym[s]: float(v) for s, v in zip(sl, x)}
    subs.update({psyms[k]: float(v) for k, v in spec["params"].items()})
    h = 0.01
    # the state as a non-contiguous float view of a longer buffer (a row of a result table, a column of an array) in half
    # of the cases: the state is the array's elements, whatever its memory layout
    strided = rng.chance(1, 2)
    xin = (lambda: np.repeat(x, 2)[::2]) if strided else (lambda: x.copy())
    if strided:
        ctx.count("state_as_strided_view")
    for method in METHODS:
        J = np.array(py_get_jacobian(M, xin(), method=method))
        ctx.evaluated()
        Jt = np.zeros_like(J)
        for i in range(len(sl)):
            for j in range(len(sl)):
                d1 = sympy.diff(f[i], sym[sl[j]])
                Jt[i, j] = float(d1.subs(subs))
                order = {"fourth_order_central_difference": 5, "central_difference": 3}.get(method, 2)
                dk = sympy.diff(f[i], sym[sl[j]], order)
                # sup of the k-th derivative over [x-2h, x+2h], sampled
                dmax = max(abs(float(dk.subs({**subs, sym[sl[j]]: float(x[j]) + s}))) for s in (-2 * h, -h, 0, h, 2 * h))
                tol = 10 * bound(method, h, dmax) + 1e-9
                if abs(J[i, j] - Jt[i, j]) > tol:
                    ctx.violation("jacobian/" + method, "J[%d][%d] = %r, analytic d f_%s / d %s = %r (tolerance %g)" % (i, j, J[i, j], sl[i], sl[j], Jt[i, j], tol),
                                  {"spec": spec, "state": x.tolist(), "method": method, "i": i, "j": j})
                    return
        pname = rng.choice(sorted(spec["params"]))
        Z = np.array(py_get_sensitivity_to_parameter(M, xin(), pname, method=method)).flatten()
        ctx.evaluated()
        for i in range(len(sl)):
            zt = float(sympy.diff(f[i], psyms[pname]).subs(subs))
            order = {"fourth_order_central_difference": 5, "central_difference": 3}.get(method, 2)
            dk = sympy.diff(f[i], psyms[pname], order)
            dmax = max(abs(float(dk.subs({**subs, psyms[pname]: float(spec["params"][pname]) + s}))) for s in (-2 * h, -h, 0, h, 2 * h))
            tol = 10 * bound(method, h, dmax) + 1e-9
            if abs(Z[i] - zt) > tol:
                ctx.violation("sensitivity/" + method, "d f_%s / d %s = %r, analytic %r (tolerance %g)" % (sl[i], pname, Z[i], zt, tol),
                              {"spec": spec, "state": x.tolist(), "method": method, "param": pname, "i": i})
                return
        p_after = dict(zip(pl, [float(v) for v in M.get_parameter_values()]))
        if p_after != p_before:
            ctx.violation("params-changed/" + method, "computing J / Z_j changed the model's parameters", {"spec": spec, "before": p_before, "after": p_after, "method": method})
            return
        # ---- correspondence with the Lean model (same stencils on the Lean derivative)
        job = sim_job(M, "ssa", [0.0, 1.0], 1, 0.01, spec=spec)
        job.update({"op": "sens", "x": [f2b(v) for v in x], "t": f2b(0.0), "h": f2b(h), "method": method, "pj": pl.index(pname)})
        a = driver_batch([job])[0]
        if "error" in a:
            ctx.broke("corr_C18_driver", {"spec": spec, "error": a["error"]})
            return
        Jm = np.array([[b2f(v) for v in row] for row in a["J"]])
        Zm = np.array([b2f(v) for v in a["Z"]])
        if np.max(np.abs(Jm - J)) > 2e-10 * max(1.0, np.max(np.abs(J))) or np.max(np.abs(Zm - Z)) > 2e-10 * max(1.0, np.max(np.abs(Z))):
            ctx.broke("corr_C18_stencils", {"spec": spec, "state": x.tolist(), "method": method, "param": pname,
                                            "model_J": Jm.tolist(), "implementation_J": J.tolist(), "model_Z": Zm.tolist(), "implementation_Z": Z.tolist()})
            return
        ctx.nontriv((method, tuple(sorted(r["prop"]["type"] for r in spec["reactions"])), pname[0]))
    for r in spec["reactions"]:
        ctx.count("prop:" + r["prop"]["type"])
    ctx.sample({"spec": spec, "state": x.tolist()}, cap=3)


def reused_analysis_object(ctx, rng):
    """one SensitivityAnalysis object kept while the model's parameters are changed (a parameter sweep): the Jacobian is the
    one of the parameters the model has now, and computing it leaves them as they are."""
    import sympy
    from bioscrape.analysis import SensitivityAnalysis
    spec = {"species": ["A", "B", "C"], "reactions": [
        {"reactants": ["A", "B"], "products": ["C"], "prop": {"type": "massaction", "k": "kb"}},
        {"reactants": ["C"], "products": ["A", "B"], "prop": {"type": "massaction", "k": "ku"}},
        {"reactants": [], "products": ["A"], "prop": {"type": "hillpositive", "k": "k", "K": "K", "n": "n", "s1": "C"}},
        {"reactants": ["A"], "products": [], "prop": {"type": "massaction", "k": "d"}}],
        "params": {"kb": 0.5, "ku": 1.0, "k": 2.0, "K": 2.0, "n": 2.0, "d": 0.3}, "ic": {"A": 1, "B": 1, "C": 1}}
    M = build_model(spec)
    sl = M.get_species_list()
    A, B, C, kb = sympy.symbols("A B C kb")
    sym = {"A": A, "B": B, "C": C}
    f = {"A": -kb * A * B + 1.0 * C + 2.0 * (C / 2.0) ** 2 / (1 + (C / 2.0) ** 2) - 0.3 * A, "B": -kb * A * B + 1.0 * C, "C": kb * A * B - 1.0 * C}
    x = np.array([2.0, 3.0, 1.5])
    # the same sweep through the module-level functions (the model object stays the same, its parameters change)
    from bioscrape.analysis import py_get_jacobian, py_get_sensitivity_to_parameter
    for kb_now in (0.5, 2.0, 0.25):
        M.set_params({"kb": kb_now})
        subs = {sym[s_]: float(v_) for s_, v_ in zip(sl, x)}
        subs[kb] = kb_now
        for method in METHODS[:2]:
            case = {"scenario": "module-level functions across set_params on one model", "kb": kb_now, "method": method}
            ctx.begin_case(case)
            Z = np.array(py_get_sensitivity_to_parameter(M, x.copy(), "kb", method=method)).flatten()
            J = np.array(py_get_jacobian(M, x.copy(), method=method))
            ctx.evaluated()
            Zt = np.array([float(sympy.diff(f[si], kb).subs(subs)) for si in sl])
            Jt = np.array([[float(sympy.diff(f[si], sym[sj]).subs(subs)) for sj in sl] for si in sl])
            now = float(dict(M.get_parameter_dictionary())["kb"])
            if np.max(np.abs(Z - Zt)) > 1e-3 or np.max(np.abs(J - Jt)) > 1e-3 or now != kb_now:
                ctx.violation("sensitivity/after-set-params/" + method, "kb set to %g on a model analysed before: d f / d kb = %s (analytic %s), max |J - analytic| = %g, kb after the calls = %g"
                              % (kb_now, Z.tolist(), Zt.tolist(), float(np.max(np.abs(J - Jt))), now), case)
                return
            ctx.count("wrapper_sweep_cases")
    M.set_params({"kb": 0.5})
    sa = SensitivityAnalysis(M)
    for kb_now in (0.5, 1.0, 4.0):
        M.set_params({"kb": kb_now})
        for method in METHODS:
            case = {"scenario": "analysis object reused after set_params", "kb": kb_now, "method": method}
            ctx.begin_case(case)
            J = np.array(sa.compute_J(x.copy(), method=method))
            ctx.evaluated()
            subs = {sym[s]: float(v) for s, v in zip(sl, x)}
            subs[kb] = kb_now
            Jt = np.array([[float(sympy.diff(f[si], sym[sj]).subs(subs)) for sj in sl] for si in sl])
            tol = {"fourth_order_central_difference": 1e-6, "central_difference": 1e-3}.get(method, 5e-2)
            now = float(dict(M.get_parameter_dictionary())["kb"])
            if np.max(np.abs(J - Jt)) > tol or now != kb_now:
                ctx.violation("jacobian/reused-object/" + method, "analysis object kept while kb was set to %g: max |J - analytic| = %g (tolerance %g); kb after the call = %g"
                              % (kb_now, float(np.max(np.abs(J - Jt))), tol, now), dict(case, J=J.tolist(), analytic=Jt.tolist(), kb_after=now))
                return
            ctx.count("reused_object_cases")


def time_dependent_rates(ctx):
    """a model with an explicitly time-dependent rate, analysed at t = 0 and at later times, with every scheme: the Jacobian
    and the sensitivity to every parameter are the analytic derivatives of the rate equations *at that time*."""
    import sympy
    from bioscrape.analysis import py_get_jacobian, py_get_sensitivity_to_parameter, SensitivityAnalysis
    spec = {"species": ["A", "B"], "reactions": [
        {"reactants": [], "products": ["A"], "prop": {"type": "general", "rate": "k*exp(-g*t)/(1+(B/K)^2)"}},
        {"reactants": ["A"], "products": [], "prop": {"type": "massaction", "k": "d1"}},
        {"reactants": [], "products": ["B"], "prop": {"type": "massaction", "k": "b"}},
        {"reactants": ["B"], "products": [], "prop": {"type": "massaction", "k": "d2"}}],
        "params": {"k": 3.0, "g": 0.4, "K": 2.0, "d1": 0.5, "b": 1.0, "d2": 1.5}, "ic": {"A": 1, "B": 1}}
    M = build_model(spec)
    sl = M.get_species_list()
    A, B, t = sympy.symbols("A B t")
    ps = {n: sympy.Symbol(n) for n in spec["params"]}
    f = {"A": ps["k"] * sympy.exp(-ps["g"] * t) / (1 + (B / ps["K"]) ** 2) - ps["d1"] * A, "B": ps["b"] - ps["d2"] * B}
    sym = {"A": A, "B": B}
    x = np.array([2.0 if s_ == "A" else 1.0 for s_ in sl])
    sa = SensitivityAnalysis(M)
    for tv in (0.0, 3.0, 1.25):
        subs = {sym[s_]: float(v_) for s_, v_ in zip(sl, x)}
        subs.update({ps[n]: v for n, v in spec["params"].items()})
        subs[t] = tv
        Jt = np.array([[float(sympy.diff(f[si], sym[sj]).subs(subs)) for sj in sl] for si in sl])
        for method in list(METHODS) + [None]:
            # (method=None, as a wrapper with its own optional `method` argument passes it on, means the documented default)
            tol = {"fourth_order_central_difference": 1e-6, "central_difference": 1e-3, None: 1e-6}.get(method, 5e-2)
            for via in ("module", "object"):
                case = {"scenario": "time-dependent rate", "time": tv, "method": method, "via": via}
                ctx.begin_case(case)
                J = np.array(py_get_jacobian(M, x.copy(), time=tv, method=method) if via == "module" else sa.compute_J(x.copy(), time=tv, method=method))
                ctx.evaluated()
                if np.max(np.abs(J - Jt)) > tol:
                    ctx.violation("jacobian/time-dependent/" + str(method), "at t = %g, method=%s: max |J - analytic| = %g (tolerance %g)" % (tv, method, float(np.max(np.abs(J - Jt))), tol),
                                  dict(case, J=J.tolist(), analytic=Jt.tolist()))
                    return
                for pname in spec["params"]:
                    Z = np.array(py_get_sensitivity_to_parameter(M, x.copy(), pname, time=tv, method=method) if via == "module"
                                 else sa.compute_Zj(x.copy(), pname, time=tv, method=method)).flatten()
                    ctx.evaluated()
                    Zt = np.array([float(sympy.diff(f[si], ps[pname]).subs(subs)) for si in sl])
                    if np.max(np.abs(Z - Zt)) > tol * 3:
                        ctx.violation("sensitivity/time-dependent/" + str(method), "at t = %g, method=%s: d f / d %s = %s, analytic %s (tolerance %g)" % (tv, method, pname, Z.tolist(), Zt.tolist(), tol * 3),
                                      dict(case, param=pname))
                        return
                now = {n: float(v) for n, v in dict(M.get_parameter_dictionary()).items()}
                if any(now[n] != float(v) for n, v in spec["params"].items()):
                    ctx.violation("params-changed/time-dependent/" + str(method), "the analysis at t = %g changed the model's parameters: %s" % (tv, now), case)
                    return
                ctx.count("time_dependent_cases")


def run(ctx):
    time_dependent_rates(ctx)
    reused_analysis_object(ctx, ctx.rng)
    n = 25 if ctx.quick() else 500
    for i in range(n):
        one(ctx, ctx.rng)


def replay(ctx, obj):
    run(ctx)


def describe(ctx):
    rule = ("random smooth networks over 3 species (mass action of order 0..4, four Hill types with integer and fractional exponents, "
            "general rational / exponential rates incl. net (signed) rates), interior states incl. states nearer to zero than the stencil reach, parameters >= 0.1, one randomly chosen parameter name per scheme, the "
            "four difference schemes: py_get_jacobian and py_get_sensitivity_to_parameter against sympy-differentiated rate equations "
            "(tolerance 10 x the scheme's bound h^4/30 f5, h^2/6 f3, h/2 f2 + 1e-9), parameter dictionary before/after, and against the "
            "Lean stencils applied to the Lean derivative (2e-10, np.round). distinct = (scheme, propensity types, parameter kind).")
    return rule, {}, False, ["general C^k error bounds (Taylor remainder) are not formalised; the derivative bounds for Hill/general rates are evaluated numerically by the oracle",
                             "np.round half-even detail within 1e-10"]
