"""C19 - division conserves molecules and volume; lineage records are consistent."""
import math
import warnings

import numpy as np

from common import driver_batch, f2b, b2f
from modelspec import dump_prop, dump_rule, dump_term, props_from_spec, TWO_PI

ALARM_P = 1e-9
SPECIES = ["A", "B", "C", "S"]
FUEL, CELL_FUEL = 3000, 60000


# ---------------------------------------------------------------- splitters

def _cell(state, vol, t=0.0):
    from bioscrape.simulator import VolumeCellState
    v = VolumeCellState()
    v.py_set_state(np.array(state, dtype=float))
    v.py_set_volume(float(vol))
    v.py_set_time(float(t))
    return v


def gen_modes(rng):
    modes = {}
    for s in SPECIES:
        modes[s] = rng.choice(["binomial", "binomial", "perfect", "duplicate"])
    return modes


def lineage_splitter(M, modes, volume, noise, default=None):
    from bioscrape.lineage import LineageVolumeSplitter
    opts = dict(modes)
    opts["volume"] = volume
    if default is not None:
        opts["default"] = default
    return LineageVolumeSplitter(M, options=opts, partition_noise=noise)


def splitter_json(M, modes, volume, noise):
    idx = M.get_species2index()
    order = list(idx)             # the splitter walks the species dictionary in this order
    return {"volume": volume, "noise": f2b(noise),
            "perfect": [int(idx[s]) for s in order if modes.get(s, "binomial") == "perfect"],
            "binomial": [int(idx[s]) for s in order if modes.get(s, "binomial") == "binomial"]}


def check_partition(ctx, rep, kind, modes, volume, state, vol, d, e, dv, ev, names):
    """the property on one partition (d, e of the mother `state`)."""
    state, d, e = np.asarray(state, float), np.asarray(d, float), np.asarray(e, float)
    for i, s in enumerate(names):
        mode = modes.get(s, "binomial")
        if mode == "duplicate":
            if d[i] != state[i] or e[i] != state[i]:
                ctx.violation("partition/duplicate", "a duplicated species is not copied to both daughters", dict(rep, species=s, mother=state.tolist(), d=d.tolist(), e=e.tolist()))
                return False
        else:
            if d[i] + e[i] != state[i]:
                ctx.violation("partition/conservation/" + mode, "a %s species is not conserved at division" % mode, dict(rep, species=s, mother=state.tolist(), d=d.tolist(), e=e.tolist()))
                return False
            if d[i] < 0 or e[i] < 0 or d[i] != math.floor(d[i]):
                ctx.violation("partition/count/" + mode, "a daughter receives a negative or fractional count", dict(rep, species=s, mother=state.tolist(), d=d.tolist(), e=e.tolist()))
                return False
            if mode == "perfect":
                p = 1.0 if volume == "duplicate" else dv / vol
                if abs(d[i] - p * state[i]) >= 1.0 + 1e-9:
                    ctx.violation("partition/perfect", "a perfectly partitioned species is further than one molecule from its share", dict(rep, species=s, share=p * state[i], d=d.tolist()))
                    return False
    if volume == "duplicate":
        ok = dv == vol and ev == vol
    else:
        ok = abs(dv + ev - vol) <= 1e-12 * abs(vol) and dv > 0 and ev > 0
    if not ok:
        ctx.violation("partition/volume/" + volume, "daughter volumes do not add up to the mother's (or are not positive)", dict(rep, vol=vol, dVol=dv, eVol=ev))
        return False
    return True


def splitter_corr(ctx, rng, n):
    from bioscrape.types import Model
    from bioscrape.simulator import PerfectBinomialVolumeSplitter, GeneralVolumeSplitter
    from bioscrape.random import py_seed_random
    M = Model(species=SPECIES, parameters={"k": 1.0}, reactions=[([], ["A"], "massaction", {"k": "k"})],
              initial_condition_dict={s: 0 for s in SPECIES})
    idx = M.get_species2index()
    names = sorted(idx, key=lambda s: idx[s])
    jobs, cases = [], []
    general_sp = GeneralVolumeSplitter()
    for i in range(n):
        kind = rng.choice(["perfectbinomial", "general", "lineage", "lineage"])
        state = [float(rng.choice([0, 1, 2, 3, 7, 10, 37, 100, rng.randint(0, 400)])) for _ in names]
        vol = rng.choice([1.0, 2.0, 0.7, 3.25, 1.0 + rng.randint(0, 1000) / 257.0])
        seed = rng.randint(1, 2**31)
        modes = gen_modes(rng)
        noise = rng.choice([0.0, 0.1, 0.3, 0.5])
        volume = "binomial"
        job = {"op": "partition", "kind": kind, "state": [f2b(v) for v in state], "vol": f2b(vol), "seed": seed, "eps8": f2b(1e-8)}
        if kind == "perfectbinomial":
            sp = PerfectBinomialVolumeSplitter()
            modes = {s: "binomial" for s in names}
            volume, noise = "perfect", 0.0
        elif kind == "general":
            # one splitter object re-configured from case to case, as the API allows; a mode with no species may be left
            # out of the options altogether
            sp = general_sp
            opts = {"perfect": [s for s in names if modes[s] == "perfect"], "duplicate": [s for s in names if modes[s] == "duplicate"]}
            for key in ("perfect", "duplicate"):
                if not opts[key] and rng.chance(1, 2):
                    del opts[key]
            if rng.chance(1, 4):
                opts["binomial"] = [s for s in names if modes[s] == "binomial"]
            sp.py_set_partitioning(opts, M)
            sp.py_set_partition_noise(noise)
            # perfect in option order; "everything else" binomial in the order of list(set(...)): ascending for small ints
            job.update({"noise": f2b(noise), "perfect": [int(idx[s]) for s in opts.get("perfect", [])],
                        "binomial": sorted(int(idx[s]) for s in names if modes[s] == "binomial")})
        else:
            volume = rng.choice(["binomial", "binomial", "perfect", "duplicate"])
            noise = rng.choice([0.0, 0.2, 0.5, 1.0])
            # the options name a default mode and list the species that deviate from it - or list a species explicitly even
            # though it has the default mode, or has the mode that would be the default if none were named (binomial)
            default = rng.choice([None, None, "binomial", "duplicate", "perfect"])
            explicit = {s_: m_ for s_, m_ in modes.items() if m_ != (default or "binomial") or rng.chance(1, 2)}
            sp = lineage_splitter(M, explicit, volume, noise, default=default)
            job.update(splitter_json(M, modes, volume, noise))
        case = {"splitter": kind, "modes": modes, "volume": volume, "noise": noise, "state": state, "vol": vol, "seed": seed,
                "options": opts if kind == "general" else (dict(explicit, default=default) if kind == "lineage" else None), "reconfigured_object": kind == "general"}
        ctx.begin_case(case)
        py_seed_random(seed)
        d, e = sp.py_partition(_cell(state, vol, 1.5))
        ctx.evaluated()
        real = (np.array(d.py_get_state()), np.array(e.py_get_state()), d.py_get_volume(), e.py_get_volume(), d.py_get_time(), e.py_get_time())
        if real[4] != 1.5 or real[5] != 1.5:
            ctx.violation("partition/time", "a daughter is not born at its mother's time", dict(case, times=[real[4], real[5]]))
            return
        if not check_partition(ctx, case, kind, modes, volume, state, vol, real[0], real[1], real[2], real[3], names):
            return
        jobs.append(job)
        cases.append((case, real))
        ctx.nontriv((kind, volume, noise, tuple(sorted(set(modes.values()))), sum(state) > 50))
        ctx.count("partition:" + kind)
    for (case, real), a in zip(cases, driver_batch(jobs)):
        if "error" in a:
            ctx.broke("corr_C19_partition_bit_exact", dict(case, model=a["error"]))
            return
        model = ([b2f(v) for v in a["d"]], [b2f(v) for v in a["e"]], b2f(a["dVol"]), b2f(a["eVol"]))
        if model[0] != real[0].tolist() or model[1] != real[1].tolist() or model[2] != real[2] or model[3] != real[3]:
            ctx.broke("corr_C19_partition_bit_exact", dict(case, model=[model[0], model[1], model[2], model[3]],
                                                           implementation=[real[0].tolist(), real[1].tolist(), real[2], real[3]]))
            # is it a violation on the implementation side?  the oracle above already passed for this case
            return


def binomial_statistics(ctx, rng, nsamples):
    """binomial counts follow Binomial(n, p) with p the daughter's volume fraction (standardised sum and
    dispersion over many seeded partitions; fixed p also gets a G-test of the whole histogram)."""
    from bioscrape.types import Model
    from bioscrape.lineage import LineageVolumeSplitter
    from bioscrape.simulator import GeneralVolumeSplitter, PerfectBinomialVolumeSplitter
    from bioscrape.random import py_seed_random
    from scipy import stats
    M = Model(species=["A"], parameters={"k": 1.0}, reactions=[([], ["A"], "massaction", {"k": "k"})], initial_condition_dict={"A": 0})
    for label, make in [("perfectbinomial", lambda: PerfectBinomialVolumeSplitter()),
                        ("general/noise=0.3", lambda: _general(M, 0.3)),
                        ("lineage/noise=0", lambda: LineageVolumeSplitter(M, options={"volume": "binomial"}, partition_noise=0.0)),
                        ("lineage/noise=0.6", lambda: LineageVolumeSplitter(M, options={"volume": "binomial"}, partition_noise=0.6))]:
        sp = make()
        n = rng.choice([12, 20, 33])
        z, disp, hist, pfix = 0.0, 0.0, np.zeros(n + 1), None
        for i in range(nsamples):
            py_seed_random(rng.randint(1, 2**31))
            d, e = sp.py_partition(_cell([float(n)], 2.0))
            p = d.py_get_volume() / 2.0
            k = d.py_get_state()[0]
            z += (k - n * p)
            disp += (k - n * p) ** 2 / (n * p * (1 - p))
            hist[int(k)] += 1
            pfix = p if (pfix is None or pfix == p) else -1.0
        ctx.evaluated(nsamples)
        # mean: sum of independent centred counts, variance sum n p (1-p) <= nsamples*n/4; dispersion: chi^2_nsamples approx
        zs = z / math.sqrt(nsamples * n * 0.25)
        pz = 2 * stats.norm.sf(abs(zs))
        pd = 2 * min(stats.chi2.sf(disp, nsamples), stats.chi2.cdf(disp, nsamples))
        rep = {"splitter": label, "n": n, "samples": nsamples, "z": zs, "dispersion": disp / nsamples, "p_mean": pz, "p_dispersion": pd}
        if pfix is not None and pfix > 0:
            exp = stats.binom.pmf(np.arange(n + 1), n, pfix) * nsamples
            keep = exp >= 5
            o = np.append(hist[keep], hist[~keep].sum())
            ex = np.append(exp[keep], exp[~keep].sum())
            m = ex > 0
            g, pg = stats.power_divergence(o[m], ex[m], lambda_="log-likelihood")
            rep["p_histogram"] = pg
        else:
            pg = 1.0
        ctx.count("binomial_statistics:" + label, nsamples)
        if min(pd, pg) < ALARM_P or (pfix is not None and pfix > 0 and pz < ALARM_P):
            ctx.violation("partition/binomial-law", "binomial partition counts do not follow Binomial(n, volume fraction)", rep)
            return
        ctx.sample(rep, cap=6)


def _general(M, noise):
    from bioscrape.simulator import GeneralVolumeSplitter
    sp = GeneralVolumeSplitter()
    sp.py_set_partitioning({}, M)
    sp.py_set_partition_noise(noise)
    return sp


# ---------------------------------------------------------------- lineage models

def gen_lineage(rng, allow_noise=True):
    """a lineage model description: reactions, growth, division, death, events, splitters, grid."""
    closed = rng.chance(1, 3)                 # closed: A -> B only, so A + B is constant and the propensity reaches 0
    k = 0.0 if closed else rng.choice([0.0, 1.0, 4.0])
    params = {"k": k, "d": rng.choice([0.5, 2.0]), "e": rng.choice([0.0, 0.3]), "g": rng.choice([0.25, 0.5, 1.0]), "gn": 0.05,
              "tthr": rng.choice([1.0, 1.5, 2.5]), "vthr": rng.choice([1.6, 2.0, 3.0]), "dthr": rng.choice([0.75, 1.0]), "tn": 0.05,
              "bthr": float(rng.choice([6, 12, 40])), "kv": rng.choice([0.5, 1.0]), "kd": rng.choice([0.2, 0.6]), "kx": rng.choice([0.02, 0.1]),
              "zero": 0.0, "c": 2.0}
    rx = [([], ["A"], "massaction", {"k": "k"}), (["A"], ["B"], "massaction", {"k": "d"})]
    if not closed:
        rx.append((["B"], [], "massaction", {"k": "e"}))
        if rng.chance(1, 3):
            rx.append((["A", "A"], ["B"], "massaction", {"k": "k2"}))       # a repeated reactant: falling factorial A(A-1)/V
            params["k2"] = rng.choice([0.02, 0.1])
    nz = lambda: allow_noise and rng.chance(1, 4)
    vol_rules = []
    for _ in range(rng.choice([0, 1, 1, 1, 2])):
        t = rng.choice(["linear", "multiplicative", "ode", "assignment"])
        if t == "linear":
            vol_rules.append(("linear", dict({"growth_rate": "g"}, **({"noise": "gn"} if nz() else {}))))
        elif t == "multiplicative":
            vol_rules.append(("multiplicative", dict({"growth_rate": "g"}, **({"noise": "gn"} if nz() else {}))))
        elif t == "ode":
            vol_rules.append(("ode", {"equation": rng.choice(["g*volume", "g", "g + 0.01*A"])}))
        else:
            vol_rules.append(("assignment", {"equation": rng.choice(["volume + 0.1", "1 + g*t"])}))
    div_rules, death_rules = [], []
    for _ in range(rng.choice([0, 1, 1, 2])):
        t = rng.choice(["time", "volume", "delta", "general"])
        if t == "time":
            div_rules.append(("time", dict({"threshold": "tthr"}, **({"noise": "tn"} if nz() else {}))))
        elif t == "volume":
            div_rules.append(("volume", dict({"threshold": "vthr"}, **({"noise": "tn"} if nz() else {}))))
        elif t == "delta":
            div_rules.append(("delta", dict({"threshold": "dthr"}, **({"noise": "tn"} if nz() else {}))))
        else:
            div_rules.append(("general", {"equation": rng.choice(["volume - vthr", "A + B - bthr"])}))
    if rng.chance(1, 3):
        t = rng.choice(["species", "param", "general"])
        if t == "species":
            death_rules.append(("species", dict({"specie": "B", "threshold": "bthr", "comp": rng.choice([">", ">", "=", "<"])}, **({"noise": "tn"} if nz() else {}))))
        elif t == "param":
            death_rules.append(("param", {"param": "c", "threshold": "bthr", "comp": ">"}))
        else:
            death_rules.append(("generalgeneraldeathrule", {"equation": "B - bthr"}))
    vol_events, div_events, death_events = [], [], []
    if rng.chance(1, 3):
        t = rng.choice(["linear", "multiplicative", "general"])
        ep = {"equation": "volume + 0.25"} if t == "general" else {"growth_rate": "g"}
        # a multiplicative jump at a rate proportional to the volume blows up in finite time: constant rate there
        if t == "linear" and rng.chance(1, 2):
            vol_events.append((t, ep, "massaction", {"k": "kv", "species": ""}))
        else:
            vol_events.append((t, ep, "general", {"rate": "kv"}))
    if rng.chance(1, 3):
        if rng.chance(1, 2):
            div_events.append(("division", {}, "massaction", {"k": "kd", "species": ""}))
        else:
            div_events.append(("division", {}, "general", {"rate": "kd*volume"}))
    if rng.chance(1, 4):
        death_events.append(("death", {}, "massaction", {"k": "kx", "species": rng.choice(["", "B"])}))
    rules = []
    if rng.chance(1, 3):
        rules.append(("additive", {"equation": "S = A + B"}))
    if rng.chance(1, 6):
        rules.append(("assignment", {"equation": "c = c + 1"}, "dt"))      # a parameter written by a rule: shared by all cells
    splitters = []
    for _ in range(len(div_rules) + len(div_events)):
        volume = rng.choice(["binomial", "binomial", "perfect", "duplicate"])
        splitters.append({"modes": gen_modes(rng), "volume": volume, "noise": rng.choice([0.0, 0.2, 0.5, 1.0])})
    dt = rng.choice([0.125, 0.25, 0.5])
    npts = rng.choice([5, 9, 17, 25])
    x0 = {"A": float(rng.choice([0, 3, 10, 30])), "B": float(rng.choice([0, 5])), "C": float(rng.choice([0, 1, 8])), "S": 0.0}
    return {"params": params, "reactions": [list(r) for r in rx], "vol_rules": vol_rules, "div_rules": div_rules, "death_rules": death_rules,
            "vol_events": vol_events, "div_events": div_events, "death_events": death_events, "rules": [list(r) for r in rules],
            "splitters": splitters, "dt": dt, "npts": npts, "x0": x0, "vol0": rng.choice([1.0, 1.5]), "closed": closed}


def build_lineage(spec):
    from bioscrape.lineage import LineageModel
    M = LineageModel(species=SPECIES, parameters=dict(spec["params"]), reactions=[tuple(r) for r in spec["reactions"]],
                     rules=[tuple(r) for r in spec["rules"]], initial_condition_dict=dict(spec["x0"]))
    sps = [lineage_splitter(M, s["modes"], s["volume"], s["noise"]) for s in spec["splitters"]]
    for t, p in spec["vol_rules"]:
        M.create_volume_rule(t, dict(p))
    for i, (t, p) in enumerate(spec["div_rules"]):
        M.create_division_rule(t, dict(p), sps[i])
    for t, p in spec["death_rules"]:
        M.create_death_rule(t, dict(p))
    for t, ep, pt, pp in spec["vol_events"]:
        M.create_volume_event(t, dict(ep), pt, dict(pp))
    for j, (t, ep, pt, pp) in enumerate(spec["div_events"]):
        M.create_division_event(t, dict(ep), pt, dict(pp), sps[len(spec["div_rules"]) + j])
    for t, ep, pt, pp in spec["death_events"]:
        M.create_death_event(t, dict(ep), pt, dict(pp))
    M.py_initialize()
    return M, sps


COMP = {"=": 0, "equal": 0, "<": -1, "less": -1, ">": 1, "greater": 1}


def lineage_job(spec, M, T, seed, single):
    enc = f2b
    pi = M.get_params2index()
    si = M.get_species2index()
    U = np.array(M.py_get_update_array())
    term = lambda eq: dump_term(M.parse_general_expression(eq), enc)
    opt = lambda p, key="noise": ({"noise": int(pi[p[key]])} if key in p else {})
    vr = []
    for t, p in spec["vol_rules"]:
        if t in ("linear", "multiplicative"):
            vr.append(dict({"type": t, "growth": int(pi[p["growth_rate"]])}, **opt(p)))
        else:
            vr.append({"type": t, "term": term(p["equation"])})
    dr = []
    for t, p in spec["div_rules"]:
        if t == "general":
            dr.append({"type": "general", "term": term(p["equation"])})
        else:
            dr.append(dict({"type": {"time": "time", "volume": "volume", "delta": "deltaV"}[t], "thr": int(pi[p["threshold"]])}, **opt(p)))
    de = []
    for t, p in spec["death_rules"]:
        if t == "species":
            de.append(dict({"type": "species", "sp": int(si[p["specie"]]), "thr": int(pi[p["threshold"]]), "comp": COMP[p.get("comp", ">")]}, **opt(p)))
        elif t == "param":
            de.append(dict({"type": "param", "par": int(pi[p["param"]]), "thr": int(pi[p["threshold"]]), "comp": COMP[p.get("comp", ">")]}, **opt(p)))
        else:
            de.append({"type": "general", "term": term(p["equation"])})
    ve = []
    for t, ep, pt, pp in spec["vol_events"]:
        ve.append({"type": t, "term": term(ep["equation"])} if t == "general" else {"type": t, "growth": int(pi[ep["growth_rate"]])})
    st = M.__getstate__()
    rules = st[22 + 6]
    nrule = len(spec["div_rules"])
    sj = [splitter_json(M, s["modes"], s["volume"], s["noise"]) for s in spec["splitters"]]
    x0 = np.array(M.get_species_array(), dtype=float)
    return {"op": "lineage", "num": "float", "single": bool(single), "nSpecies": int(U.shape[0]),
            "props": props_from_spec([dump_prop(q, enc) for q in M.get_propensities()], spec if "reactions" in spec else None, M),
            "evProps": [dump_prop(q, enc) for q in M.py_get_lineage_propensities()],
            "U": [[int(v) for v in U[:, j]] for j in range(U.shape[1])],
            "rules": [dump_rule(r, enc) for r in rules], "volRules": vr, "divRules": dr, "deathRules": de, "volEvents": ve,
            "nDivEvents": len(spec["div_events"]), "nDeathEvents": len(spec["death_events"]),
            "twoPi": enc(TWO_PI), "eps9": enc(1e-9), "tol": enc(10e-8), "eps8": enc(1e-8), "eps12": enc(1e-12),
            "p": [enc(v) for v in M.get_parameter_values()], "times": [enc(v) for v in T],
            "cells": [{"state": [enc(v) for v in x0], "vol": enc(spec["vol0"]), "time": enc(T[0]), "v0": enc(spec["vol0"]), "t0": enc(T[0])}],
            "ruleSplitters": sj[:nrule], "eventSplitters": sj[nrule:], "fuel": FUEL, "cellFuel": CELL_FUEL, "seed": int(seed)}


_LINEAGE_SIM = None


def run_real(spec, T, seed, single, safe=False):
    """returns ("ok", nodes) | ("raised", message); nodes: list of dicts with numpy arrays and link indices."""
    from bioscrape.lineage import LineageVolumeCellState, LineageCSimInterface, SafeLineageCSimInterface, LineageSSASimulator
    from bioscrape.random import py_seed_random
    M, sps = build_lineage(spec)
    I = (SafeLineageCSimInterface if safe else LineageCSimInterface)(M)
    I.py_set_initial_time(float(T[0]))
    v = LineageVolumeCellState(v0=spec["vol0"], t0=float(T[0]), state=np.array(M.get_species_array(), dtype=float))
    # one simulator object serves the lineage simulations of the whole run, as in a session that keeps it around
    global _LINEAGE_SIM
    if single or "_LINEAGE_SIM" not in globals() or _LINEAGE_SIM is None:
        sim = LineageSSASimulator()
    else:
        sim = _LINEAGE_SIM
    if not single:
        _LINEAGE_SIM = sim
    py_seed_random(seed)
    with warnings.catch_warnings():
        warnings.simplefilter("ignore")
        try:
            if single:
                r = sim.py_SimulateSingleCell(np.array(T, dtype=float), Model=M, interface=I, v=v)
                return "ok", [{"times": np.array(r.py_get_timepoints(), float), "rows": np.array(r.py_get_result(), float),
                               "vols": np.array(r.py_get_volume(), float), "parent": None, "daughters": None,
                               "divided": int(r.py_get_divided()), "dead": int(r.py_get_dead())}], M
            L = sim.py_SimulateCellLineage(np.array(T, dtype=float), [v], I)
        except ValueError as ex:
            return "raised", str(ex), M
    sch = [L.py_get_schnitz(i) for i in range(L.py_size())]
    pos = {id(s): i for i, s in enumerate(sch)}
    nodes = []
    for s in sch:
        par = s.py_get_parent()
        da = s.py_get_daughters()
        nodes.append({"times": np.array(s.py_get_time(), float), "rows": np.array(s.py_get_data(), float), "vols": np.array(s.py_get_volume(), float),
                      "parent": None if par is None else pos.get(id(par), -1),
                      "daughters": None if (da is None or da[0] is None) else [pos.get(id(da[0]), -1), pos.get(id(da[1]), -1)]})
    return "ok", nodes, M


def compare_nodes(real, model, single):
    if len(real) != len(model):
        return "number of cells: implementation %d, model %d" % (len(real), len(model))
    for i, (r, m) in enumerate(zip(real, model)):
        mt = [b2f(v) for v in m["times"]]
        if r["times"].tolist() != mt:
            return "cell %d time axis: implementation %s model %s" % (i, r["times"].tolist(), mt)
        mr = [[b2f(v) for v in row] for row in m["rows"]]
        if r["rows"].tolist() != mr:
            for k, (a, b) in enumerate(zip(r["rows"].tolist(), mr)):
                if a != b:
                    return "cell %d row %d: implementation %s model %s" % (i, k, a, b)
            return "cell %d rows differ" % i
        mv = [b2f(v) for v in m["vols"]]
        if r["vols"].tolist() != mv:
            return "cell %d volume trace: implementation %s model %s" % (i, r["vols"].tolist(), mv)
        if single:
            if (r["divided"], r["dead"]) != (m["divided"], m["dead"]):
                return "divided/dead flags: implementation %s model %s" % ((r["divided"], r["dead"]), (m["divided"], m["dead"]))
        else:
            if r["parent"] != m["parent"] or r["daughters"] != m["daughters"]:
                return "cell %d links: implementation parent=%s daughters=%s, model parent=%s daughters=%s" % (i, r["parent"], r["daughters"], m["parent"], m["daughters"])
    return None


def lineage_oracle(ctx, spec, T, seed, nodes, M, single, safe, only_splitter=None):
    """the property on implementation output.  only_splitter: the index of the one splitter every division of this model must
    have used (models in which only one division rule / event can fire)."""
    rep = {"spec": spec, "grid": [float(t) for t in T], "seed": seed, "single": single, "safe": safe, "only_splitter": only_splitter}
    si = M.get_species2index()
    names = sorted(si, key=lambda s: si[s])
    grid = [float(t) for t in T]
    rule_targets = {"S"} if any(r[1].get("equation", "").startswith("S") for r in spec["rules"]) else set()
    for i, nd in enumerate(nodes):
        n = len(nd["times"])
        if n == 0 or nd["rows"].shape[0] != n or len(nd["vols"]) != n:
            ctx.violation("lineage/shape", "a cell's time axis, rows and volume trace have different lengths (or are empty)", dict(rep, cell=i, lengths=[n, int(nd["rows"].shape[0]), len(nd["vols"])]))
            return False
        if np.any(nd["vols"] <= 0) or not np.all(np.isfinite(nd["vols"])):
            ctx.violation("lineage/positive-volume", "a reported row has nonpositive volume", dict(rep, cell=i, volume=nd["vols"].tolist(), rows=nd["rows"].tolist()[:6]))
            return False
        # the rows of one cell are consecutive grid points
        if nd["times"][0] not in grid:
            ctx.violation("lineage/grid", "a cell's first time is not a grid point", dict(rep, cell=i, times=nd["times"].tolist()))
            return False
        k0 = grid.index(nd["times"][0])
        if nd["times"].tolist() != grid[k0:k0 + n]:
            ctx.violation("lineage/grid", "a cell's rows are not consecutive grid points", dict(rep, cell=i, times=nd["times"].tolist()))
            return False
        if np.any(nd["rows"] < 0):
            ctx.violation("lineage/negative-count", "a reported count is negative", dict(rep, cell=i, rows=nd["rows"].tolist()[:6]))
            return False
        if spec["closed"]:
            tot = nd["rows"][:, si["A"]] + nd["rows"][:, si["B"]]
            if np.any(tot != tot[0]):
                ctx.violation("lineage/simulated-rows", "A + B changes within one cell although the only reaction is A -> B: a reported row was not simulated",
                              dict(rep, cell=i, rows=nd["rows"].tolist()[:12]))
                return False
            cc = nd["rows"][:, si["C"]]
            if np.any(cc != cc[0]):
                ctx.violation("lineage/simulated-rows", "an inert species changes within one cell", dict(rep, cell=i, rows=nd["rows"].tolist()[:12]))
                return False
    if single:
        return True
    nrule = len(spec["div_rules"])
    for i, nd in enumerate(nodes):
        if nd["parent"] is not None:
            p = nd["parent"]
            if p < 0 or p >= len(nodes) or nodes[p]["daughters"] is None or i not in nodes[p]["daughters"]:
                ctx.violation("lineage/links", "a cell names a mother that does not list it as a daughter", dict(rep, cell=i, parent=p))
                return False
        if nd["daughters"] is not None:
            a, b = nd["daughters"]
            if a == b or min(a, b) < 0 or nodes[a]["parent"] != i or nodes[b]["parent"] != i:
                ctx.violation("lineage/links", "a mother lists a daughter whose parent link does not point back", dict(rep, cell=i, daughters=[a, b]))
                return False
            da, db = nodes[a], nodes[b]
            tm = nd["times"][-1]
            if da["times"][0] != tm or db["times"][0] != tm:
                ctx.violation("lineage/birth-time", "a daughter does not start at its mother's division time", dict(rep, cell=i, mother_last=tm, births=[da["times"][0], db["times"][0]]))
                return False
            x = nd["rows"][-1]
            vol = nd["vols"][-1]
            # which splitter: every splitter of the model must agree with the observation when they differ, so test against
            # the candidates and require one to fit (the model comparison pins the exact one)
            fits = False
            for s in (spec["splitters"] if only_splitter is None else [spec["splitters"][only_splitter]]):
                class _C:    # collect instead of reporting
                    def __init__(self): self.bad = None
                    def violation(self, sig, what, r): self.bad = (sig, what, r)
                c = _C()
                modes = {k: v for k, v in s["modes"].items() if k not in rule_targets}
                nm = [n_ for n_ in names]
                xs, d_, e_ = x.copy(), da["rows"][0].copy(), db["rows"][0].copy()
                for t_ in rule_targets:          # species written by a repeated rule are recomputed at birth
                    xs[si[t_]] = d_[si[t_]] = e_[si[t_]] = 0.0
                    modes[t_] = "duplicate"
                if check_partition(c, {}, "lineage", modes, s["volume"], xs, vol, d_, e_, da["vols"][0], db["vols"][0], nm):
                    fits = True
                    break
                last = c.bad
            if not fits:
                ctx.violation("lineage/" + last[0], "at a division in a lineage: " + last[1], dict(rep, cell=i, mother_last_row=x.tolist(), mother_volume=vol,
                                                                                         d=da["rows"][0].tolist(), e=db["rows"][0].tolist(), dVol=da["vols"][0], eVol=db["vols"][0]))
                return False
    roots = [i for i, nd in enumerate(nodes) if nd["parent"] is None]
    if roots != [0]:
        ctx.violation("lineage/roots", "the lineage of one initial cell does not have exactly that cell as its root", dict(rep, roots=roots))
        return False
    return True


def splitter_selection(ctx, rng):
    """a division uses the splitter registered with the rule or event that caused it.  Models with division rules *and* a
    division event whose splitters treat the inert species C (and the volume) differently, built so that only one of them
    can fire: every division in the lineage must then fit that one splitter."""
    base = {"params": {"k": 1.0, "d": 0.5, "e": 0.0, "g": 0.5, "gn": 0.05, "tthr": 1.0, "vthr": 1e9, "dthr": 1e9, "tn": 0.05, "bthr": 1e9,
                       "kv": 0.5, "kd": 0.8, "kx": 0.0, "zero": 0.0, "c": 2.0},
            "reactions": [[[], ["A"], "massaction", {"k": "k"}], [["A"], ["B"], "massaction", {"k": "d"}]],
            "vol_rules": [("linear", {"growth_rate": "g"})], "death_rules": [], "vol_events": [], "death_events": [], "rules": [],
            "dt": 0.25, "npts": 17, "x0": {"A": 10.0, "B": 5.0, "C": 40.0, "S": 0.0}, "vol0": 1.0, "closed": False}
    never_v = ("volume", {"threshold": "vthr"})
    never_d = ("delta", {"threshold": "dthr"})
    fires_t = ("time", {"threshold": "tthr"})
    ev_on = ("division", {}, "massaction", {"k": "kd", "species": ""})
    ev_off = ("division", {}, "massaction", {"k": "zero", "species": ""})
    binom = {"modes": {"A": "binomial", "B": "binomial", "C": "binomial", "S": "binomial"}, "volume": "binomial", "noise": 0.5}
    dupl = {"modes": {"A": "binomial", "B": "perfect", "C": "duplicate", "S": "binomial"}, "volume": "duplicate", "noise": 0.0}
    perf = {"modes": {"A": "perfect", "B": "binomial", "C": "perfect", "S": "binomial"}, "volume": "perfect", "noise": 0.0}
    cases = [("one idle rule, the event divides", [never_v], [ev_on], [binom, dupl], 1),
             ("two idle rules, the event divides", [never_v, never_d], [ev_on], [binom, perf, dupl], 2),
             ("the rule divides, the event is idle", [fires_t], [ev_off], [perf, dupl], 0),
             ("second rule divides, first rule and event idle", [never_v, fires_t], [ev_off], [binom, dupl, perf], 1),
             # two rules that become true in the same step: the rules are checked in the order they were added and the first
             # that holds divides the cell (`apply_division_rules`), so every division fits the first rule's splitter
             ("both rules hold in the same step, the first one added divides", [fires_t, ("time", {"threshold": "tthr"})], [ev_off], [dupl, binom, perf], 0),
             ("both rules hold in the same step (other order of splitters)", [("time", {"threshold": "tthr"}), fires_t], [ev_off], [perf, dupl, binom], 0)]
    for ci, (name, drs, des, sps, which) in enumerate(cases):
        spec = dict(base, div_rules=drs, div_events=des, splitters=sps)
        T = [j * spec["dt"] for j in range(spec["npts"])]
        for safe in (False, True):
            # (the cases added later take fixed seeds, so that the random stream of everything after them is what it was)
            seed = rng.randint(1, 2**31) if ci < 4 else 7919 * (ci + 1) + int(safe)
            ctx.begin_case({"spec": spec, "grid": T, "seed": seed, "single": False, "safe": safe, "only_splitter": which, "scenario": name})
            status, nodes, Mr = run_real(spec, T, seed, False, safe=safe)
            ctx.evaluated()
            if status == "raised":
                ctx.broke("corr_C19_lineage_exception", {"spec": spec, "grid": T, "seed": seed, "single": False, "safe": safe, "difference": "implementation raised %r" % nodes})
                return
            if not lineage_oracle(ctx, spec, T, seed, nodes, Mr, False, safe, only_splitter=which):
                return
            ndiv = sum(1 for nd in nodes if nd["daughters"] is not None)
            ctx.count("splitter_selection_divisions", ndiv)
            if ndiv == 0:
                ctx.notes.append("splitter_selection '%s': no division observed" % name)


def model_finite(nodes):
    for nd in nodes:
        for v in nd["vols"]:
            if not (abs(b2f(v)) < 1e12):
                return False
    return True


def lineage_corr(ctx, rng, nmodels, nseeds):
    for i in range(nmodels):
        spec = gen_lineage(rng)
        T = [j * spec["dt"] for j in range(spec["npts"])]
        if i % 3 == 2:
            # an uneven grid whose steps grow slowly (the first step is the finest)
            T = [j * spec["dt"] * (1 + 0.01 * j) for j in range(spec["npts"])]
            ctx.count("uneven_grids")
        seeds = [rng.randint(1, 2**31) for _ in range(nseeds)]
        M, _ = build_lineage(spec)
        for single in (True, False):
            if not single and not (spec["div_rules"] or spec["div_events"]):
                continue
            jobs = [lineage_job(spec, M, T, s, single) for s in seeds]
            ans = driver_batch(jobs)
            for s, a in zip(seeds, ans):
                case = {"spec": spec, "grid": T, "seed": s, "single": single, "safe": False}
                ctx.begin_case(case)
                if "error" in a:
                    ctx.broke("corr_C19_lineage_model_run", dict(case, difference=a["error"]))
                    return
                if a["status"] in ("out-of-fuel", "bad"):
                    ctx.count("discarded:" + a["status"])
                    continue
                if a["status"] == "ok" and not model_finite([a] if single else a["nodes"]):
                    ctx.count("discarded:non-finite-volume")          # numerical blow-up: outside the property
                    continue
                status, nodes, Mr = run_real(spec, T, s, single)
                ctx.evaluated()
                if a["status"] in ("raised", "too-fast"):
                    if status != "raised":
                        ctx.broke("corr_C19_lineage_exception", dict(case, difference="model: %s; implementation returned a result" % a["status"]))
                        return
                    ctx.count("both_raise:" + a["status"])
                    continue
                if status == "raised":
                    ctx.broke("corr_C19_lineage_exception", dict(case, difference="implementation raised %r; model returned a result" % nodes))
                    return
                if not lineage_oracle(ctx, spec, T, s, nodes, Mr, single, False):
                    return
                model_nodes = [a] if single else a["nodes"]
                d = compare_nodes(nodes, model_nodes, single)
                if d is not None:
                    ctx.broke("corr_C19_single_cell_bit_exact" if single else "corr_C19_lineage_forest_bit_exact", dict(case, difference=d))
                    return
                ctx.count("single_cell_runs" if single else "lineage_runs")
                ctx.count("cells", len(nodes))
                ctx.nontriv(("single" if single else "lineage", min(len(nodes), 8), spec["closed"], spec["params"]["k"] == 0,
                             tuple(sorted(t for t, _ in spec["vol_rules"])), tuple(sorted(t for t, _ in spec["div_rules"])),
                             bool(spec["death_rules"]), bool(spec["vol_events"]), bool(spec["div_events"]), bool(spec["death_events"]),
                             any(len(nd["times"]) < len(T) for nd in nodes)))
        ctx.sample({"spec": spec}, cap=3)


def lineage_oracle_only(ctx, rng, nmodels):
    """the safe interface: the oracle, and the plain model's run (see below)."""
    for i in range(nmodels):
        spec = gen_lineage(rng)
        T = [j * spec["dt"] for j in range(spec["npts"])]
        s = rng.randint(1, 2**31)
        single = not (spec["div_rules"] or spec["div_events"]) or rng.chance(1, 3)
        ctx.begin_case({"spec": spec, "grid": T, "seed": s, "single": single, "safe": True})
        # bounded growth: skip what the plain model cannot finish
        M, _ = build_lineage(spec)
        a = driver_batch([lineage_job(spec, M, T, s, single)])[0]
        if a.get("status") in ("out-of-fuel", "bad") or "error" in a or (a.get("status") == "ok" and not model_finite([a] if single else a["nodes"])):
            ctx.count("discarded:safe")
            continue
        status, nodes, Mr = run_real(spec, T, s, single, safe=True)
        ctx.evaluated()
        if status == "raised":
            ctx.count("safe_raised")
            continue
        if not lineage_oracle(ctx, spec, T, s, nodes, Mr, single, True):
            return
        # every reaction here is mass action with non-negative constants: at non-negative integer counts the safe interface's
        # guard (enough reactants?) zeroes exactly the rates the falling factorial zeroes, so the safe run is the plain
        # model's run bit for bit
        if a.get("status") == "ok":
            d = compare_nodes(nodes, [a] if single else a["nodes"], single)
            if d is not None:
                ctx.broke("corr_C19_safe_lineage_bit_exact", {"spec": spec, "grid": T, "seed": s, "single": single, "safe": True, "difference": d})
                return
            ctx.count("safe_runs_bit_exact")
        ctx.count("safe_runs")


def birth_edge_cases(ctx):
    """cells whose division or death rule already holds when they are born; models with no possible reaction."""
    base = {"params": {"k": 0.0, "d": 1.0, "e": 0.0, "g": 0.5, "gn": 0.05, "tthr": 1.0, "vthr": 0.5, "dthr": 1.0, "tn": 0.05, "bthr": 2.0,
                       "kv": 1.0, "kd": 0.5, "kx": 0.1, "zero": 0.0, "c": 2.0},
            "reactions": [[[], ["A"], "massaction", {"k": "k"}], [["A"], ["B"], "massaction", {"k": "d"}]],
            "vol_rules": [("linear", {"growth_rate": "g"})], "div_rules": [], "death_rules": [], "vol_events": [], "div_events": [], "death_events": [],
            "rules": [], "splitters": [], "dt": 0.25, "npts": 9, "x0": {"A": 4.0, "B": 5.0, "C": 3.0, "S": 0.0}, "vol0": 1.0, "closed": True}
    variants = []
    v = dict(base, death_rules=[("species", {"specie": "B", "threshold": "bthr", "comp": ">"})])        # dead at birth
    variants.append(("dead-at-birth", v, True))
    v = dict(base, div_rules=[("volume", {"threshold": "vthr"})], splitters=[{"modes": {}, "volume": "binomial", "noise": 0.0}])   # divides at birth
    variants.append(("divides-at-birth", v, True))
    v = dict(base, div_rules=[("time", {"threshold": "tthr"})], death_rules=[("species", {"specie": "B", "threshold": "bthr", "comp": "<"})],
             x0={"A": 0.0, "B": 8.0, "C": 3.0, "S": 0.0}, splitters=[{"modes": {"B": "binomial"}, "volume": "binomial", "noise": 0.0}])
    variants.append(("daughter-dead-at-birth", v, False))
    v = dict(base, x0={"A": 0.0, "B": 3.0, "C": 1.0, "S": 0.0})                                            # nothing can ever fire
    variants.append(("no-reaction-possible", v, True))
    v = dict(base, div_rules=[("time", {"threshold": "tthr"})], x0={"A": 0.0, "B": 8.0, "C": 3.0, "S": 0.0},
             splitters=[{"modes": {}, "volume": "binomial", "noise": 0.2}])
    variants.append(("no-reaction-possible-lineage", v, False))
    for name, spec, single in variants:
        T = [j * spec["dt"] for j in range(spec["npts"])]
        for seed in (11, 12, 13):
            ctx.begin_case({"spec": spec, "grid": T, "seed": seed, "single": single, "safe": False, "edge": name})
            M, _ = build_lineage(spec)
            a = driver_batch([lineage_job(spec, M, T, seed, single)])[0]
            status, nodes, Mr = run_real(spec, T, seed, single)
            ctx.evaluated()
            if status == "raised":
                if a.get("status") not in ("raised", "too-fast"):
                    ctx.broke("corr_C19_lineage_exception", {"spec": spec, "grid": T, "seed": seed, "single": single, "safe": False,
                                                             "difference": "implementation raised %r; model %s" % (nodes, a.get("status"))})
                    return
                ctx.count("edge:" + name + ":raised")
                continue
            if not lineage_oracle(ctx, spec, T, seed, nodes, Mr, single, False):
                return
            if a.get("status") != "ok":
                ctx.broke("corr_C19_lineage_exception", {"spec": spec, "grid": T, "seed": seed, "single": single, "safe": False,
                                                         "difference": "model %s; implementation returned a result" % a.get("status", a.get("error"))})
                return
            d = compare_nodes(nodes, [a] if single else a["nodes"], single)
            if d is not None:
                ctx.broke("corr_C19_single_cell_bit_exact" if single else "corr_C19_lineage_forest_bit_exact",
                          {"spec": spec, "grid": T, "seed": seed, "single": single, "safe": False, "difference": d})
                return
            ctx.count("edge:" + name)
            ctx.nontriv(("edge", name, len(nodes)))


def noise_validation(ctx):
    """partition noise outside [0, 1] must be rejected, not turned into negative volumes."""
    from bioscrape.types import Model
    from bioscrape.lineage import LineageVolumeSplitter
    from bioscrape.random import py_seed_random
    M = Model(species=["A"], parameters={"k": 1.0}, reactions=[([], ["A"], "massaction", {"k": "k"})], initial_condition_dict={"A": 0})
    for noise in (1.5, 3.0):
        ctx.begin_case({"partition_noise": noise})
        try:
            sp = LineageVolumeSplitter(M, options={"volume": "binomial"}, partition_noise=noise)
        except ValueError:
            ctx.count("noise_rejected")
            continue
        for seed in range(1, 40):
            py_seed_random(seed)
            d, e = sp.py_partition(_cell([10.0], 1.0))
            ctx.evaluated()
            if d.py_get_volume() <= 0 or e.py_get_volume() <= 0:
                ctx.violation("partition/noise-validation", "a partition noise above 1 is accepted and produces a daughter of nonpositive volume",
                              {"partition_noise": noise, "seed": seed, "dVol": d.py_get_volume(), "eVol": e.py_get_volume()})
                return


def incremental_lineage_models(ctx, rng, n):
    """a lineage model whose growth / division / death rules and events were added one at a time, with initialisations and
    simulations in between, behaves like the same definition built at once."""
    from bioscrape.random import py_seed_random
    for i in range(n):
        spec = gen_lineage(rng, allow_noise=False)
        parts = ([("vol_rules", j) for j in range(len(spec["vol_rules"]))] + [("div_rules", j) for j in range(len(spec["div_rules"]))] +
                 [("death_rules", j) for j in range(len(spec["death_rules"]))] + [("vol_events", j) for j in range(len(spec["vol_events"]))] +
                 [("div_events", j) for j in range(len(spec["div_events"]))] + [("death_events", j) for j in range(len(spec["death_events"]))])
        if len(parts) < 2:
            continue
        # a rule that writes a parameter makes the runs in between part of the model's state: outside this comparison
        spec["rules"] = [r for r in spec["rules"] if not r[1].get("equation", "").startswith("c =")]
        T = [j * spec["dt"] for j in range(spec["npts"])]
        seed = rng.randint(1, 2**31)
        case = {"spec": spec, "grid": T, "seed": seed, "incremental": True}
        ctx.begin_case(case)
        a = driver_batch([lineage_job(spec, build_lineage(spec)[0], T, seed, True)])[0]
        if a.get("status") != "ok" or not model_finite([a]):
            ctx.count("discarded:incremental")
            continue
        status, ref, _ = run_real(spec, T, seed, True)
        if status != "ok":
            continue
        # incremental construction: same order of creation, an initialisation and a short run after every addition
        from bioscrape.lineage import LineageModel, LineageVolumeCellState, LineageCSimInterface, LineageSSASimulator
        M = LineageModel(species=SPECIES, parameters=dict(spec["params"]), reactions=[tuple(r) for r in spec["reactions"]],
                         rules=[tuple(r) for r in spec["rules"]], initial_condition_dict=dict(spec["x0"]))
        sps = [lineage_splitter(M, s_["modes"], s_["volume"], s_["noise"]) for s_ in spec["splitters"]]

        def poke():
            # (half of the time no explicit initialisation: the interface initialises a model that says it needs it)
            if rng.chance(1, 2):
                M.py_initialize()
            if rng.chance(1, 2):
                I0 = LineageCSimInterface(M)
                with warnings.catch_warnings():
                    warnings.simplefilter("ignore")
                    try:
                        LineageSSASimulator().py_SimulateSingleCell(np.array(T[:3], dtype=float), Model=M, interface=I0,
                                                                    v=LineageVolumeCellState(v0=spec["vol0"], t0=T[0], state=np.array(M.get_species_array(), dtype=float)))
                    except ValueError:
                        pass
        for t_, p_ in spec["vol_rules"]:
            M.create_volume_rule(t_, dict(p_)); poke()
        for j, (t_, p_) in enumerate(spec["div_rules"]):
            M.create_division_rule(t_, dict(p_), sps[j]); poke()
        for t_, p_ in spec["death_rules"]:
            M.create_death_rule(t_, dict(p_)); poke()
        for t_, ep, pt, pp in spec["vol_events"]:
            M.create_volume_event(t_, dict(ep), pt, dict(pp)); poke()
        for j, (t_, ep, pt, pp) in enumerate(spec["div_events"]):
            M.create_division_event(t_, dict(ep), pt, dict(pp), sps[len(spec["div_rules"]) + j]); poke()
        for t_, ep, pt, pp in spec["death_events"]:
            M.create_death_event(t_, dict(ep), pt, dict(pp)); poke()
        if i % 2:
            M.py_initialize()
        I = LineageCSimInterface(M)
        I.py_set_initial_time(float(T[0]))
        py_seed_random(seed)
        with warnings.catch_warnings():
            warnings.simplefilter("ignore")
            try:
                r = LineageSSASimulator().py_SimulateSingleCell(np.array(T, dtype=float), Model=M, interface=I,
                                                                v=LineageVolumeCellState(v0=spec["vol0"], t0=float(T[0]), state=np.array(M.get_species_array(), dtype=float)))
            except ValueError as ex:
                ctx.violation("lineage/incremental-edits", "a lineage model built by adding its rules and events one at a time raises %r; built at once it simulates" % str(ex)[:120], case)
                return
        ctx.evaluated()
        got = (np.array(r.py_get_timepoints(), float).tolist(), np.array(r.py_get_result(), float).tolist(), np.array(r.py_get_volume(), float).tolist())
        want = (ref[0]["times"].tolist(), ref[0]["rows"].tolist(), ref[0]["vols"].tolist())
        if got != want:
            ctx.violation("lineage/incremental-edits", "a lineage model built by adding its rules and events one at a time (initialising in between) simulates "
                          "differently from the same definition built at once: volume trace %s vs %s" % (got[2][:6], want[2][:6]),
                          dict(case, incremental_volume=got[2][:12], at_once_volume=want[2][:12]))
            return
        ctx.count("incremental_lineage_models")
        ctx.nontriv(("incremental", len(parts), tuple(sorted(set(p_[0] for p_ in parts)))))


def parameter_free_rules(ctx):
    """a lineage rule that names no species and no parameter (its formula reads only the volume or the time), added to a model
    that is already initialised and has been simulated, with no explicit initialisation afterwards: the next simulation uses
    it, as it does when the same definition is built at once."""
    from bioscrape.lineage import LineageModel, LineageVolumeCellState, LineageCSimInterface, LineageSSASimulator
    from bioscrape.random import py_seed_random
    T = np.linspace(0, 3.0, 13)

    def base(init):
        return LineageModel(species=["A"], parameters={"k": 1.0}, reactions=[([], ["A"], "massaction", {"k": "k"})],
                            initial_condition_dict={"A": 0}, initialize_model=init)

    def run_(M):
        I = LineageCSimInterface(M)
        v = LineageVolumeCellState(v0=1.0, t0=0.0, state=np.array(M.get_species_array(), dtype=float))
        py_seed_random(5)
        with warnings.catch_warnings():
            warnings.simplefilter("ignore")
            r = LineageSSASimulator().py_SimulateSingleCell(T, Model=M, interface=I, v=v)
        return np.array(r.py_get_timepoints(), float).tolist(), np.array(r.py_get_volume(), float).tolist()

    def add(M, what):
        if what == "volume assignment":
            M.create_volume_rule("assignment", {"equation": "volume + 0.25"})
        elif what == "volume ode":
            M.create_volume_rule("ode", {"equation": "1"})
        elif what == "division general":
            M.create_volume_rule("ode", {"equation": "1"})
            M.create_division_rule("general", {"equation": "volume - 2"}, lineage_splitter(M, {"A": "binomial"}, "binomial", 0.0))
    for what in ("volume assignment", "volume ode", "division general"):
        for used in ("initialised", "simulated"):
            case = {"scenario": "parameter-free lineage rule added to a model already " + used, "rule": what}
            ctx.begin_case(case)
            ref = base(False); add(ref, what)
            want = run_(ref)
            M = base(True); M.py_initialize()
            if used == "simulated":
                run_(M)
            add(M, what)
            got = run_(M)
            ctx.evaluated()
            if got != want:
                ctx.violation("lineage/incremental-edits", "a lineage rule without species or parameters (%s) added to a model already %s is not used by the next "
                              "simulation: volume trace %s (time axis of %d rows), the definition built at once gives %s (%d rows)"
                              % (what, used, got[1][:6], len(got[0]), want[1][:6], len(want[0])), dict(case, incremental=got[1][:13], at_once=want[1][:13]))
                return
            ctx.count("parameter_free_rule_cases")


def run(ctx):
    rng = ctx.rng
    q = ctx.quick()
    birth_edge_cases(ctx)
    noise_validation(ctx)
    splitter_selection(ctx, rng)
    splitter_corr(ctx, rng, 400 if q else 6000)
    binomial_statistics(ctx, rng, 1500 if q else 20000)
    lineage_corr(ctx, rng, 30 if q else 500, 2 if q else 4)
    lineage_oracle_only(ctx, rng, 15 if q else 300)
    incremental_lineage_models(ctx, rng, 25 if q else 400)
    parameter_free_rules(ctx)
    event_added_after_a_run(ctx)


def event_added_after_a_run(ctx):
    """a lineage model used with one division event, then given a second one with another splitter (and the first switched
    off through its species): every division is made by the second event and fits *its* splitter - X copied to both
    daughters, Y split perfectly, Z and the volume conserved - exactly as when both events are there from the start."""
    import warnings
    from bioscrape.lineage import LineageModel, LineageVolumeSplitter, py_SimulateCellLineage
    from bioscrape.random import py_seed_random
    T = np.linspace(0, 10, 201)

    def base():
        M = LineageModel(species=["X", "Y", "Z", "S"], reactions=[([], ["Z"], "massaction", {"k": 5.0})], initial_condition_dict={"X": 40, "Y": 41, "Z": 10, "S": 0})
        M.create_volume_rule("linear", {"growth_rate": 0.4})
        return M

    def stress(M):
        M.create_division_event("division", {}, "massaction", {"k": 0.2, "species": "S"}, LineageVolumeSplitter(M, options={"default": "binomial"}, partition_noise=0.2))

    def regular(M):
        M.create_division_event("division", {}, "massaction", {"k": 0.25, "species": ""},
                                LineageVolumeSplitter(M, options={"default": "binomial", "X": "duplicate", "Y": "perfect"}, partition_noise=0.2))

    def sim(M, seed):
        py_seed_random(seed); np.random.seed(seed)
        with warnings.catch_warnings():
            warnings.simplefilter("ignore")
            return py_SimulateCellLineage(T, Model=M)
    for seed in (11, 12):
        for how in ("both events from the start", "second event added after a run"):
            case = {"scenario": "division events with different splitters", "built": how, "seed": seed}
            ctx.begin_case(case)
            M = base(); stress(M)
            if how.startswith("both"):
                regular(M)
            else:
                M.set_species({"S": 5}); sim(M, seed); M.set_species({"S": 0}); regular(M)
            L = sim(M, seed)
            ctx.evaluated()
            iX, iY, iZ = (M.get_species_index(s_) for s_ in "XYZ")
            ndiv = 0
            for i in range(L.py_size()):
                m = L.py_get_schnitz(i)
                d1, d2 = m.py_get_daughters()
                if d1 is None and d2 is None:
                    continue
                ndiv += 1
                ml, a, b = m.py_get_data()[-1], d1.py_get_data()[0], d2.py_get_data()[0]
                mv, av, bv = m.py_get_volume()[-1], d1.py_get_volume()[0], d2.py_get_volume()[0]
                problems = []
                if abs(av + bv - mv) > 1e-9 * mv or av <= 0 or bv <= 0:
                    problems.append("volume %g + %g != %g" % (av, bv, mv))
                if not (a[iX] == ml[iX] and b[iX] == ml[iX]):
                    problems.append("X (duplicate): mother %g -> daughters %g, %g" % (ml[iX], a[iX], b[iX]))
                if a[iY] + b[iY] != ml[iY] or abs(a[iY] - av / mv * ml[iY]) > 1.0 + 1e-9:
                    problems.append("Y (perfect): mother %g -> daughters %g, %g (volume fraction %.3f)" % (ml[iY], a[iY], b[iY], av / mv))
                if a[iZ] + b[iZ] != ml[iZ]:
                    problems.append("Z (binomial): mother %g -> daughters %g, %g" % (ml[iZ], a[iZ], b[iZ]))
                if problems:
                    ctx.violation("division/event-splitter/" + ("incremental" if not how.startswith("both") else "at-once"),
                                  "%s: the division of cell %d does not fit the splitter of the event that caused it: %s" % (how, i, "; ".join(problems)), dict(case, cell=i))
                    return
            ctx.count("event_splitter_divisions", ndiv)
            if ndiv == 0:
                ctx.notes.append("event_added_after_a_run: no division observed (%s, seed %d)" % (how, seed))


def replay(ctx, obj):
    if "spec" in obj and "grid" in obj:
        status, nodes, M = run_real(obj["spec"], obj["grid"], obj["seed"], obj.get("single", False), obj.get("safe", False))
        if status == "raised":
            return
        lineage_oracle(ctx, obj["spec"], obj["grid"], obj["seed"], nodes, M, obj.get("single", False), obj.get("safe", False), only_splitter=obj.get("only_splitter"))
    else:
        run(ctx)


def describe(ctx):
    rule = ("py_partition of PerfectBinomialVolumeSplitter, GeneralVolumeSplitter and LineageVolumeSplitter (per-species modes, volume modes, "
            "partition noise 0..1) on random mother states/volumes/seeds, py_SimulateSingleCell and py_SimulateCellLineage on generated lineage "
            "models (reactions incl. closed A->B networks whose propensity reaches 0 and k=0 models, growth rules linear/multiplicative/ode/"
            "assignment with and without noise, division rules time/volume/deltaV/general, death rules species/param/general, volume/division/"
            "death events, repeated and dt rules writing species and parameters, cells that divide or die at birth) reproduced bit for bit by the "
            "compiled Lean model on the same seeds: every cell's time axis, rows, volume trace, divided/dead flags, parent and daughter indices, "
            "and the same exceptions. The property itself evaluated on implementation output (also with the safe interface): conservation per "
            "mode, duplication, perfect share within one molecule, volume sum / duplication, positive volume in every row, rows on consecutive "
            "grid points, non-negative counts, A+B and inert species constant within a cell of a closed model, mutual links, single root, "
            "daughters born at the mother's last time from a partition of her last row; standardised-sum, dispersion and G tests of binomial "
            "counts against Binomial(n, volume fraction); partition noise above 1 must be rejected. distinct = structural class of the case.")
    return rule, {}, False, ["custom partition functions and the interacting-lineage / turbidostat / propagate drivers are not modelled",
                             "SafeLineageCSimInterface is covered by the oracle only",
                             "the binomial-law tests are statistical support for binomTrials_count (counts = number of uniforms below p), not a proof about MT19937",
                             "GeneralVolumeSplitter option lists naming a species twice are outside the Nodup hypothesis of partitionGeneral_spec"]
