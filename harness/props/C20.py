"""C20 - the delay queue delivers each entry once, in order, at the nearest grid time."""
import itertools
import math
from fractions import Fraction

import numpy as np

from common import f2b, b2f, r2s, s2r, driver_batch

DTS = [Fraction(1, 4), Fraction(1, 2), Fraction(1), Fraction(2)]


# ------------------------------------------------------------------ reference (the property, stated directly)
class RefQueue:
    """Dictionary of pending entries keyed by absolute slot number; nearest-grid insertion."""

    def __init__(self, nrx, ncols, dt, t0):
        self.nrx, self.ncols, self.dt = nrx, ncols, Fraction(dt)
        self.next = Fraction(t0) + self.dt
        self.base = 0
        self.pend = {}

    def add(self, t, r, a):
        y = (Fraction(t) - self.next) / self.dt
        k = math.floor(y + Fraction(1, 2))       # nearest (never exactly half-way in generated inputs)
        k = min(max(k, 0), self.ncols - 1)
        key = (self.base + k, r)
        self.pend[key] = self.pend.get(key, 0) + Fraction(a)

    def read(self):
        return self.next, [self.pend.get((self.base, r), Fraction(0)) for r in range(self.nrx)]

    def advance(self):
        for r in range(self.nrx):
            self.pend.pop((self.base, r), None)
        self.base += 1
        self.next += self.dt

    def set(self, t):
        self.next = Fraction(t) + self.dt

    def dump(self):
        return self.next, [[self.pend.get((self.base + j, r), Fraction(0)) for r in range(self.nrx)] for j in range(self.ncols)]

    def copy(self):
        q = RefQueue(self.nrx, self.ncols, self.dt, 0)
        q.next, q.base, q.pend = self.next, self.base, dict(self.pend)
        return q


def real_dump(q, nrx, ncols):
    """pending amounts of a real queue in logical order, read through a copy."""
    c = q.py_copy()
    nxt = c.py_get_next_queue_time()
    rows = []
    for _ in range(ncols):
        a = np.zeros(nrx)
        c.py_get_next_reactions(a)
        rows.append([float(v) for v in a])
        c.py_advance_time()
    return nxt, rows


def run_case(ctx, case):
    """case: dict(nrx, ncols, dt, t0, seed, ops) with ops over a pool of queues."""
    from bioscrape.simulator import ArrayDelayQueue
    from bioscrape.random import py_seed_random
    ctx.begin_case(case)
    nrx, ncols, dt, t0 = case["nrx"], case["ncols"], Fraction(case["dt"]), Fraction(case["t0"])
    py_seed_random(case["seed"])
    # the constructor keeps the array it is given: C-ordered zeros, a transposed (slots x reactions) array, or a slice of a
    # wider array (which of the three follows from the case's seed)
    backing = [np.zeros((nrx, ncols)), np.zeros((ncols, nrx)).T, np.zeros((nrx, ncols + 3))[:, :ncols]][case["seed"] % 3]
    real = [ArrayDelayQueue(backing, float(dt), float(t0))]
    ref = [RefQueue(nrx, ncols, dt, t0)]
    part_of = {}           # index of partition children -> parent snapshot (ref)
    outs_real, fails = [], []
    jops = []
    for op in case["ops"]:
        tag, qi = op[0], op[1]
        if tag == "add":
            _, _, t, r, a = op
            real[qi].py_add_reaction(float(Fraction(t)), r, float(Fraction(a)))
            if ref[qi] is not None:
                ref[qi].add(t, r, a)
            jops.append(["add", qi, Fraction(t), r, Fraction(a)])
            outs_real.append("ok")
        elif tag == "read":
            arr = np.zeros(nrx)
            real[qi].py_get_next_reactions(arr)
            nxt = real[qi].py_get_next_queue_time()
            outs_real.append({"next": nxt, "rx": [float(v) for v in arr]})
            if ref[qi] is not None:
                rn, rr = ref[qi].read()
                if float(rn) != nxt or [float(v) for v in rr] != [float(v) for v in arr]:
                    fails.append(("read", len(outs_real) - 1, {"expected": [str(rn), [str(v) for v in rr]], "got": [nxt, [float(v) for v in arr]]}))
            jops.append(["read", qi])
        elif tag == "advance":
            real[qi].py_advance_time()
            if ref[qi] is not None:
                ref[qi].advance()
            jops.append(["advance", qi])
            outs_real.append("ok")
        elif tag == "set":
            real[qi].py_set_current_time(float(Fraction(op[2])))
            if ref[qi] is not None:
                ref[qi].set(op[2])
            jops.append(["set", qi, Fraction(op[2])])
            outs_real.append("ok")
        elif tag == "copy":
            real.append(real[qi].py_copy())
            ref.append(ref[qi].copy() if ref[qi] is not None else None)
            jops.append(["copy", qi])
            outs_real.append("ok")
        elif tag == "partition":
            before = real_dump(real[qi], nrx, ncols)
            arr = real[qi].py_binomial_partition(float(Fraction(op[2])))
            real.extend([arr[0], arr[1]])
            after = real_dump(real[qi], nrx, ncols)
            d1, d2 = real_dump(arr[0], nrx, ncols), real_dump(arr[1], nrx, ncols)
            ssum = [[a + b for a, b in zip(r1, r2)] for r1, r2 in zip(d1[1], d2[1])]
            if before != after:
                fails.append(("partition-changed-original", len(outs_real), {"before": before, "after": after}))
            if ssum != before[1] or d1[0] != before[0] or d2[0] != before[0]:
                fails.append(("partition-does-not-sum", len(outs_real), {"parent": before, "parts": [d1, d2]}))
            if any(v < 0 or v != int(v) for row in d1[1] + d2[1] for v in row):
                fails.append(("partition-not-counts", len(outs_real), {"parts": [d1, d2]}))
            ref.extend([None, None])     # contents are random; checked through the sum and through the model
            jops.append(["partition", qi, Fraction(op[2])])
            outs_real.append("ok")
        elif tag == "dump":
            d = real_dump(real[qi], nrx, ncols)
            outs_real.append({"next": d[0], "pending": d[1]})
            if ref[qi] is not None:
                rn, rp = ref[qi].dump()
                if float(rn) != d[0] or [[float(v) for v in row] for row in rp] != d[1]:
                    fails.append(("dump", len(outs_real) - 1, {"expected": [str(rn), [[str(v) for v in row] for row in rp]], "got": d}))
            jops.append(["dump", qi])
    final_real = [real_dump(q, nrx, ncols) for q in real]
    # copies are independent: covered by ops after "copy" acting on one and dumping the other
    return jops, outs_real, final_real, fails


def to_driver(case, jops, num):
    enc = f2b if num == "float" else r2s

    def e(v):
        return enc(float(v)) if num == "float" else enc(v)
    ops = []
    for op in jops:
        if op[0] == "add":
            ops.append(["add", op[1], e(op[2]), op[3], e(op[4])])
        elif op[0] in ("set", "partition"):
            ops.append([op[0], op[1], e(op[2])])
        else:
            ops.append(list(op))
    return {"op": "dq", "num": num, "numRxn": case["nrx"], "numCols": case["ncols"], "dt": e(Fraction(case["dt"])),
            "t0": e(Fraction(case["t0"])), "seed": case["seed"], "ops": ops}


def compare(ctx, case, jops, outs_real, final_real, ans, num):
    dec = b2f if num == "float" else (lambda s: float(s2r(s)))
    if "error" in ans:
        ctx.broke("corr_C20_driver_error", {"case": case, "error": ans["error"]})
        return
    if num == "rat" and any(op[0] == "partition" for op in jops):
        return    # the rat job has no twister; histories with partitions are compared in float only
    for i, (o, m) in enumerate(zip(outs_real, ans["outs"])):
        if isinstance(o, str):
            continue
        if "rx" in o:
            mm = {"next": dec(m["next"]), "rx": [dec(v) for v in m["rx"]]}
        else:
            mm = {"next": dec(m["next"]), "pending": [[dec(v) for v in row] for row in m["pending"]]}
        if mm != o:
            ctx.broke("corr_C20_%s_model_vs_implementation" % num, {"case": case, "op_index": i, "model": mm, "implementation": o})
            return
    for qi, (fr, fm) in enumerate(zip(final_real, ans["final"])):
        mm = (dec(fm["next"]), [[dec(v) for v in row] for row in fm["pending"]])
        if mm != (fr[0], fr[1]):
            ctx.broke("corr_C20_%s_model_vs_implementation_final" % num, {"case": case, "queue": qi, "model": mm, "implementation": fr})
            return


# ------------------------------------------------------------------ generators
def time_points(dt, t0, ncols):
    """requested times: before, on, between (never half-way) and beyond the grid."""
    nxt = t0 + dt
    return [nxt - 3 * dt, nxt - dt / 4, nxt, nxt + dt / 4, nxt + dt * 3 / 4, nxt + dt, nxt + dt * (ncols - 1),
            nxt + dt * (ncols - 1) + dt / 4, nxt + dt * (ncols + 3)]


def exhaustive_cases(ctx, maxlen):
    for nrx in (1, 2):
        for ncols in (2, 3, 4):
            dt, t0 = Fraction(1, 2), Fraction(1)
            tps = time_points(dt, t0, ncols)
            alphabet = [("add", i, r) for i in range(len(tps)) for r in range(nrx)] + [("ra",)]
            for L in range(1, maxlen + 1):
                for seq in itertools.product(alphabet, repeat=L):
                    if nrx == 2 and ncols == 4 and L > maxlen - 1:
                        continue
                    ops, shift = [], 0
                    for s in seq:
                        if s[0] == "add":
                            ops.append(["add", 0, str(tps[s[1]] + shift * dt), s[2], "1"])
                        else:
                            ops += [["read", 0], ["advance", 0]]
                            shift += 1
                    ops.append(["dump", 0])
                    yield {"nrx": nrx, "ncols": ncols, "dt": str(dt), "t0": str(t0), "seed": 1, "ops": ops}


def random_case(rng, maxlen, shape=None):
    nrx, ncols = shape if shape is not None else (rng.randint(1, 2), rng.randint(2, 4))
    dt = rng.choice(DTS)
    t0 = Fraction(rng.randint(-4, 8), 4)
    nq, ops, now = 1, [], {0: t0 + dt}
    for _ in range(rng.randint(1, maxlen)):
        qi = rng.below(nq)
        k = rng.below(100)
        if k < 50:
            off = Fraction(rng.randint(-12, 4 * ncols + 12), 4)
            if (off * 2) % 2 == 1 and off.denominator == 2:
                off += Fraction(1, 4)          # never exactly half-way
            t = now[qi] + off * dt
            # (now and then a crowded cell: dozens of pending occurrences of one reaction in one slot)
            ops.append(["add", qi, str(t), rng.below(nrx), str(rng.choice([1, 1, 1, 2, 3, 25, 40]))])
        elif k < 80:
            ops += [["read", qi], ["advance", qi]]
            now[qi] += dt
        elif k < 86:
            ops.append(["dump", qi])
        elif k < 91 and nq < 6:
            ops.append(["copy", qi]); now[nq] = now[qi]; nq += 1
        elif k < 96 and nq < 6:
            ops.append(["partition", qi, str(rng.choice([Fraction(1, 2), Fraction(1, 4), Fraction(3, 4), Fraction(1, 16), Fraction(15, 16)]))])
            now[nq] = now[qi]; now[nq + 1] = now[qi]; nq += 2
        elif k < 98:
            t = Fraction(rng.randint(-4, 12), 4)
            ops.append(["set", qi, str(t)]); now[qi] = t + dt
        else:
            ops.append(["read", qi])
    for qi in range(nq):
        ops.append(["dump", qi])
    return {"nrx": nrx, "ncols": ncols, "dt": str(dt), "t0": str(t0), "seed": rng.randint(1, 10**6), "ops": ops}


def process(ctx, cases):
    batch_jobs, meta = [], []
    for case in cases:
        jops, outs_real, final_real, fails = run_case(ctx, case)
        ctx.evaluated()
        for kind, idx, detail in fails:
            ctx.violation("queue/" + kind, "delay queue %s at op %d of the history in the replay" % (kind, idx),
                          {"case": case, "op_index": idx, "detail": detail})
        batch_jobs.append(to_driver(case, jops, "float"))
        batch_jobs.append(to_driver(case, jops, "rat"))
        meta.append((case, jops, outs_real, final_real))
        kinds = sorted(set(op[0] for op in case["ops"]))
        ctx.count("ops:" + "+".join(kinds))
        nadd = sum(1 for op in case["ops"] if op[0] == "add")
        nadv = sum(1 for op in case["ops"] if op[0] == "advance")
        if nadd and nadv:
            ctx.nontriv((case["nrx"], case["ncols"], tuple((op[0], op[2] if op[0] == "add" else None) for op in case["ops"][:6]), nadd, nadv))
        ctx.sample(case, cap=3)
    ans = driver_batch(batch_jobs)
    for i, (case, jops, outs_real, final_real) in enumerate(meta):
        compare(ctx, case, jops, outs_real, final_real, ans[2 * i], "float")
        compare(ctx, case, jops, outs_real, final_real, ans[2 * i + 1], "rat")


def run(ctx):
    maxlen = 3 if ctx.quick() else 4
    cases = list(exhaustive_cases(ctx, maxlen))
    ctx.count("exhaustive_histories", len(cases))
    for i in range(0, len(cases), 2000):
        process(ctx, cases[i:i + 2000])
    n = 400 if ctx.quick() else 6000
    rnd = [random_case(ctx.rng, 40 if ctx.quick() else 200) for _ in range(n)]
    for i in range(0, len(rnd), 500):
        process(ctx, rnd[i:i + 500])
    # beyond the property's own range of shapes (the model and its theorems hold for every shape): queues with as many or more
    # reactions than slots, from a generator of their own so that the histories above stay what they were
    from common import SplitMix64
    wide_rng = SplitMix64(ctx.seed * 7919 + 20)
    wide = [random_case(wide_rng, 40, shape=sh) for sh in ((3, 2), (4, 2), (5, 3), (6, 4), (3, 3), (4, 3)) for _ in range(20 if ctx.quick() else 200)]
    process(ctx, wide)
    ctx.count("histories_with_as_many_or_more_reactions_than_slots", len(wide))
    # requested times far beyond (and far before) the queue: further than a 32-bit integer can count grid steps
    far = []
    for nrx, ncols, dt, t0 in ((1, 4, Fraction(1), Fraction(0)), (2, 3, Fraction(1, 4), Fraction(3, 2)), (1, 2, Fraction(1, 2), Fraction(-1))):
        for big in (10**9, 3 * 10**9, 2**31, 2**31 - 1, 2**33 + 5, 10**15, -3 * 10**9, -10**15):
            ops = [["add", 0, str(t0 + dt + big * dt), 0, "1"], ["add", 0, str(t0 + dt + dt), nrx - 1, "2"], ["dump", 0]]
            for _ in range(ncols + 1):
                ops += [["read", 0], ["advance", 0]]
            ops.append(["dump", 0])
            far.append({"nrx": nrx, "ncols": ncols, "dt": str(dt), "t0": str(t0), "seed": len(far), "ops": ops})
    process(ctx, far)
    ctx.count("histories_with_far_away_requested_times", len(far))


def replay(ctx, obj):
    rep = obj.get("replay") or obj["broken"][0]["detail"]
    process(ctx, [rep["case"]])


def describe(ctx):
    rule = ("exhaustive: every sequence of length <= %d over {add(9 requested times: before/on/between/last/beyond, reaction), "
            "read-and-advance} on queues with 1..2 reactions, 2..4 slots, dt=1/2; random: histories up to length %d over "
            "{add, read+advance, dump, copy, partition, set time, read} on a pool of queues, dyadic dt, requested times never "
            "half-way. Non-trivial = has at least one insertion and one advance; distinct by (shape, op prefix, counts). "
            "Each history runs on the real ArrayDelayQueue, on a dictionary reference (oracle) and on the Lean model in Float and Rat."
            % (3 if ctx.quick() else 4, 40 if ctx.quick() else 200))
    return rule, {}, True, ["half-way ties and non-representable dt are excluded by the property"]
