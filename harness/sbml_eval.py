"""Independent evaluator of SBML mathematics (libsbml ASTs) as plain mathematics over an environment of
identifiers -> values.  Unknown identifiers raise KeyError (so a kinetic law that mentions an identifier the
document does not define is detected)."""
import math

import libsbml


class Undefined(KeyError):
    pass


def ast_eval(node, env):
    t = node.getType()
    n = node.getNumChildren()
    ch = [node.getChild(i) for i in range(n)]
    if t in (libsbml.AST_INTEGER,):
        return float(node.getInteger())
    if t in (libsbml.AST_REAL, libsbml.AST_REAL_E, libsbml.AST_RATIONAL):
        return float(node.getReal())
    if t == libsbml.AST_NAME:
        name = node.getName()
        if name not in env:
            raise Undefined(name)
        return float(env[name])
    if t == libsbml.AST_NAME_TIME:
        return float(env.get("__time__", 0.0))
    if t == libsbml.AST_PLUS:
        return sum(ast_eval(c, env) for c in ch) if ch else 0.0
    if t == libsbml.AST_TIMES:
        out = 1.0
        for c in ch:
            out *= ast_eval(c, env)
        return out
    if t == libsbml.AST_MINUS:
        return -ast_eval(ch[0], env) if n == 1 else ast_eval(ch[0], env) - ast_eval(ch[1], env)
    if t == libsbml.AST_DIVIDE:
        return ast_eval(ch[0], env) / ast_eval(ch[1], env)
    if t in (libsbml.AST_POWER, libsbml.AST_FUNCTION_POWER):
        return math.pow(ast_eval(ch[0], env), ast_eval(ch[1], env))
    if t == libsbml.AST_FUNCTION_EXP:
        return math.exp(ast_eval(ch[0], env))
    if t == libsbml.AST_FUNCTION_LN:
        return math.log(ast_eval(ch[0], env))
    if t == libsbml.AST_FUNCTION_LOG:
        return math.log10(ast_eval(ch[-1], env)) if n == 1 else math.log(ast_eval(ch[1], env), ast_eval(ch[0], env))
    if t == libsbml.AST_FUNCTION_ABS:
        return abs(ast_eval(ch[0], env))
    if t == libsbml.AST_FUNCTION_MAX:
        return max(ast_eval(c, env) for c in ch)
    if t == libsbml.AST_FUNCTION_MIN:
        return min(ast_eval(c, env) for c in ch)
    if t == libsbml.AST_CONSTANT_E:
        return math.e
    if t == libsbml.AST_CONSTANT_PI:
        return math.pi
    if t == libsbml.AST_FUNCTION:
        raise Undefined(node.getName() + "(...)")
    raise ValueError("unsupported SBML math node type %d (%s)" % (t, libsbml.formulaToL3String(node)))


def ast_names(node, acc=None):
    acc = set() if acc is None else acc
    if node.getType() == libsbml.AST_NAME:
        acc.add(node.getName())
    if node.getType() == libsbml.AST_FUNCTION:
        acc.add(node.getName() + "(...)")          # a call of a function the document would have to define
    for i in range(node.getNumChildren()):
        ast_names(node.getChild(i), acc)
    return acc


def read_doc(path):
    doc = libsbml.SBMLReader().readSBML(path)
    return doc, doc.getModel()
