"""Bit-exact trajectory correspondence between the real simulators and the Lean loop models
(shared by C05, C06, C09, C10, C11)."""
from fractions import Fraction

import numpy as np

from common import f2b, b2f, driver_batch
from modelspec import build_model, sim_job, dump_term

FUEL = 60000     # loop iterations after which a generated network counts as unbounded and is discarded
RATES = [0.05, 0.1, 0.25, 0.5, 1.0, 2.0, 3.5]
HILLN = [1.0, 2.0, 1.5, 3.0]


def _ma(reactants, products, k):
    return {"reactants": reactants, "products": products, "prop": {"type": "massaction", "k": k}}


def gen_network(rng, allow_general=True, allow_hill=True, nmax=4):
    """A small network over A, B, C (all propensity types, orders 0..3 with homodimers, catalysts)."""
    templates = [
        lambda k: _ma(["A"], ["B"], k), lambda k: _ma(["B"], ["A"], k),
        lambda k: _ma(["A", "A"], ["B"], k), lambda k: _ma(["B"], ["A", "A"], k),
        lambda k: _ma([], ["A"], k), lambda k: _ma(["A"], [], k),
        lambda k: _ma(["A", "B"], ["C"], k), lambda k: _ma(["C"], ["A", "B"], k),
        lambda k: _ma(["A", "B"], ["A", "C"], k), lambda k: _ma(["C"], ["B"], k),
        lambda k: _ma(["A", "A", "B"], ["C", "C"], k), lambda k: _ma(["C", "C"], ["A", "A", "B"], k),
        lambda k: _ma(["A", "A", "A"], ["C"], k), lambda k: _ma([], ["B"], k), lambda k: _ma(["B"], [], k),
        # the same multisets written with the repeated species not next to each other
        lambda k: _ma(["A", "B", "A"], ["C", "C"], k), lambda k: _ma(["C", "C"], ["A", "B", "A"], k),
    ]
    rx, params = [], {}
    n = rng.randint(1, nmax)
    for j in range(n):
        k = "k%d" % j
        params[k] = rng.choice(RATES)
        c = rng.below(10)
        if c < 6 or not (allow_general or allow_hill):
            if j > 0 and rng.chance(1, 4):
                k = "k0"            # several reactions governed by one rate constant (and, in user code, one dict object)
            rx.append(rng.choice(templates)(k))
        elif c < 8 and allow_hill:
            t = rng.choice(["hillpositive", "hillnegative", "proportionalhillpositive", "proportionalhillnegative"])
            pr = {"type": t, "k": k, "K": "K%d" % j, "n": "n%d" % j, "s1": rng.choice(["A", "B", "C"])}
            if "proportional" in t:
                pr["d"] = rng.choice(["A", "B", "C"])
            params["K%d" % j] = rng.choice([1.0, 2.0, 5.0])
            params["n%d" % j] = rng.choice(HILLN)
            prods = [rng.choice(["A", "B", "C"])]
            reac = [] if rng.chance(2, 3) else [rng.choice(["A", "B", "C"])]
            rx.append({"reactants": reac, "products": prods, "prop": pr})
        elif allow_general:
            rate = rng.choice(["%s*A/(1+B)", "%s*(A+B)", "%s*C^2/(4+C^2)", "%s*Heaviside(A-2)", "%s*abs(A-B)",
                               "%s*max(A,B)", "%s*exp(-B/4)"]) % k
            reac = [] if rng.chance(1, 2) else [rng.choice(["A", "B", "C"])]
            prods = [rng.choice(["A", "B", "C"])]
            if rng.chance(1, 3):          # a catalyst: on both sides, not necessarily in the rate
                c = rng.choice(["A", "B", "C"])
                reac, prods = reac + [c], prods + [c]
            rx.append({"reactants": reac, "products": prods, "prop": {"type": "general", "rate": rate}})
        else:
            rx.append(rng.choice(templates)(k))
    ic = {"A": rng.randint(0, 12), "B": rng.randint(0, 8), "C": rng.randint(0, 5)}
    # consuming reactions with non-mass-action rates may leave the non-negative domain outside safe mode
    needs_safe = any(r["prop"]["type"] != "massaction" and r["reactants"] for r in rx)
    return {"species": ["A", "B", "C"], "reactions": rx, "params": params, "ic": ic, "needs_safe": needs_safe}


def gen_grid(rng):
    c = rng.below(5)
    if c == 4:     # a grid that starts after the interface's initial time 0: the first row is not the initial state
        t0 = rng.choice([0.5, 1.0, 2.5])
        return t0 + np.linspace(0, rng.choice([1.0, 5.0]), rng.choice([5, 21]))
    if c == 0:
        return np.linspace(0, rng.choice([1.0, 5.0, 20.0]), rng.choice([5, 21, 51]))
    if c == 1:     # many grid points between two events
        return np.linspace(0, 2.0, 201)
    if c == 2:     # few grid points, many events between them
        return np.linspace(0, 30.0, 4)
    pts = sorted(set([0.0] + [round(rng.uniform() * 10, 3) for _ in range(rng.randint(2, 12))]))
    return np.array(pts) if len(pts) >= 2 else np.array([0.0, 1.0])


def dump_real_queue(q, nrx, ncols):
    c = q.py_copy()
    nxt = c.py_get_next_queue_time()
    rows = []
    for _ in range(ncols):
        a = np.zeros(nrx)
        c.py_get_next_reactions(a)
        rows.append([float(v) for v in a])
        c.py_advance_time()
    return nxt, rows


def run_real(M, kind, T, seed, dt, safe=False, vol0=1.0, volume_factory=None, qlen=None, t0=0.0):
    """Run one real simulator; returns dict(rows, volume, divided, queue)."""
    from bioscrape.simulator import (ModelCSimInterface, SafeModelCSimInterface, SSASimulator, DelaySSASimulator,
                                     VolumeSSASimulator, DelayVolumeSSASimulator, ArrayDelayQueue)
    from bioscrape.types import Volume
    from bioscrape.random import py_seed_random
    I = (SafeModelCSimInterface if safe else ModelCSimInterface)(M)
    I.py_set_dt(float(dt))
    if t0:
        I.py_set_initial_time(float(t0))
    nrx = I.py_get_num_reactions()
    py_seed_random(int(seed))
    out = {}
    T = np.array(T, dtype=float)
    if int(seed) % 2:
        # the same grid as a non-contiguous view (every other element of a longer buffer), as slicing a finer grid or a
        # column of a table gives: the requested times are the array's elements, whatever its memory layout
        T = np.repeat(T, 2)[::2]
    if kind in ("volume", "delayvolume"):
        if volume_factory is None:
            v = Volume()
            v.py_set_volume(float(vol0))
        else:
            v = volume_factory(M)
    if kind in ("delay", "delayvolume"):
        ql = qlen if qlen is not None else len(T)
        q = ArrayDelayQueue.setup_queue(nrx, ql, float(dt))
    if kind == "ssa":
        r = SSASimulator().py_simulate(I, T)
    elif kind == "delay":
        r = DelaySSASimulator().py_delay_simulate(I, q, T)
        out["queue"] = dump_real_queue(r.py_get_delay_queue(), nrx, ql)
    elif kind == "volume":
        r = VolumeSSASimulator().py_volume_simulate(I, v, T)
    elif kind == "delayvolume":
        r = DelayVolumeSSASimulator().py_delay_volume_simulate(I, q, v, T)
        out["queue"] = dump_real_queue(r.py_get_delay_queue(), nrx, ql)
    out["rows"] = np.array(r.py_get_result(), dtype=float)
    if kind in ("volume", "delayvolume"):
        out["volume"] = np.array(r.py_get_volume(), dtype=float)
        out["divided"] = bool(r.py_cell_divided())
        out["times"] = np.array(r.py_get_timepoints(), dtype=float)
    out["params_after"] = np.array(I.py_get_param_values(), dtype=float).copy()
    return out


def decode_rows(ans):
    if not ans["rows"]:
        return np.zeros((0, 0))        # (a run that ends before the first requested time reports no row)
    return np.array([[b2f(v) for v in row] for row in ans["rows"]], dtype=float).reshape(len(ans["rows"]), -1)


def compare(real, ans, kind):
    """-> None if identical, else a short description of the first difference."""
    if "error" in ans:
        return "driver error: " + ans["error"]
    if ans.get("status") != "ok":
        return "model status " + str(ans.get("status"))
    rows = decode_rows(ans)
    r = real["rows"]
    if rows.shape[0] != r.shape[0]:
        return "row count model %d implementation %d" % (rows.shape[0], r.shape[0])
    if r.size and not np.array_equal(rows.reshape(r.shape), r):
        i = int(np.argwhere(rows.reshape(r.shape) != r)[0][0])
        return "row %d: model %s implementation %s" % (i, rows.reshape(r.shape)[i].tolist(), r[i].tolist())
    if kind in ("volume", "delayvolume"):
        vt = np.array([b2f(v) for v in ans["volume"]])
        if vt.shape != real["volume"].shape or not np.array_equal(vt, real["volume"]):
            return "volume trace differs: model %s implementation %s" % (vt.tolist()[:6], real["volume"].tolist()[:6])
        if bool(ans["divided"]) != real["divided"]:
            return "divided flag model %s implementation %s" % (ans["divided"], real["divided"])
    if kind in ("delay", "delayvolume"):
        mq = (b2f(ans["queue"]["next"]), [[b2f(v) for v in row] for row in ans["queue"]["pending"]])
        if mq[0] != real["queue"][0] or mq[1] != real["queue"][1]:
            return "final delay queue differs: model %s implementation %s" % (str(mq)[:300], str(real["queue"])[:300])
    return None
