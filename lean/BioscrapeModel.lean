import BioscrapeModel.Model.Num
import BioscrapeModel.Model.Term
import BioscrapeModel.Model.Propensity
import BioscrapeModel.Model.Network
import BioscrapeModel.Proofs.Laws
import BioscrapeModel.Proofs.Propensity
import BioscrapeModel.Properties.C01
