def hello := "world"
