import BioscrapeModel.Generated.CreateVectors

/-
`Model._create_vectors` / `LineageModel._create_vectors` as a straight-line program over named containers (C vectors
of borrowed pointers and the Python lists they mirror): statements wipe a container or add one loop's worth of items
to it.  The program text is regenerated from the source on every run (`Generated/CreateVectors.lean`).
-/
namespace Bioscrape.CreateVectors
open Bioscrape.Generated

def isWipe (k : String) : Bool := k == "clear" || k == "reset"
def isFill (k : String) : Bool := k == "push" || k == "append"

/-- contents of every container. -/
abbrev Store (I : Type) := String → List I

def Store.set {I : Type} (st : Store I) (n : String) (v : List I) : Store I := fun m => if m = n then v else st m

@[simp] theorem Store.set_same {I : Type} (st : Store I) (n : String) (v : List I) : st.set n v n = v := by
  simp [Store.set]

theorem Store.set_other {I : Type} (st : Store I) (n m : String) (v : List I) (h : m ≠ n) : st.set n v m = st m := by
  simp [Store.set, h]

/-- run the statements in order; the `i`-th statement, when it fills, adds the items `out i` (what its loop produces
from the definition lists). -/
def runOps {I : Type} : List (String × String) → (Nat → List I) → Nat → Store I → Store I
  | [], _, _, st => st
  | (k, n) :: rest, out, i, st =>
    let st' := if isWipe k then st.set n [] else if isFill k then st.set n (st n ++ out i) else st
    runOps rest out (i + 1) st'

/-- container `n` is wiped before the first statement that fills it. -/
def wipedFirst : List (String × String) → String → Bool
  | [], _ => false
  | (k, m) :: rest, n =>
    if m = n then (if isWipe k then true else if isFill k then false else wipedFirst rest n) else wipedFirst rest n

/-- the regenerated obligation: every statement was recognised, and every container that is filled is wiped first. -/
def programOk (p : VecProgram) : Bool :=
  p.ops.all (fun o => isWipe o.1 || isFill o.1) && (p.ops.filter (fun o => isFill o.1)).all (fun o => wipedFirst p.ops o.2)

def programOf (cls : String) : VecProgram :=
  (vecPrograms.find? (fun p => p.cls == cls)).getD { cls := "", ops := [("unparsed", "missing")] }

end Bioscrape.CreateVectors
