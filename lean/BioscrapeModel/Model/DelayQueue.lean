import BioscrapeModel.Model.Random

/-
`ArrayDelayQueue` (`bioscrape/simulator.pyx` 117-248): a ring buffer of
`num_cols` time slots × `num_reactions` pending amounts.
-/

namespace Bioscrape

structure DQ (α : Type) where
  dt      : α
  next    : α                 -- `next_queue_time`
  numCols : Nat
  numRxn  : Nat
  start   : Nat               -- `start_index`
  cells   : Nat → Nat → α     -- physical column → reaction → amount (`queue[rxn, col]`)

section
variable {α : Type} [Zero α] [One α] [Add α] [Sub α] [Mul α] [Div α] [NatCast α] [Trunc α]
  [LT α] [DecidableLT α]

/-- `ArrayDelayQueue(np.zeros((num_reactions, queue_length)), dt, current_time)`. -/
def DQ.new (numRxn numCols : Nat) (dt current : α) : DQ α :=
  { dt := dt, next := current + dt, numCols := numCols, numRxn := numRxn, start := 0,
    cells := fun _ _ => 0 }

/-- `setup_queue(num_reactions, queue_length, dt)` (current time `0.0`). -/
def DQ.setup (numRxn numCols : Nat) (dt : α) : DQ α := DQ.new numRxn numCols dt 0

def DQ.setCurrentTime (q : DQ α) (t : α) : DQ α := { q with next := t + q.dt }

/-- the logical slot an insertion goes to: `int((time - next)/dt + 0.5)` clamped to
`[0, num_cols - 1]`. -/
def DQ.slotOf (q : DQ α) (time : α) : Nat :=
  let i : Int := Trunc.trunc ((time - q.next) / q.dt + 1 / ((2 : Nat) : α))
  if i < 0 then 0 else if i ≥ (q.numCols : Int) then q.numCols - 1 else i.toNat

/-- `add_reaction(time, rxn_id, amount)`. -/
def DQ.add (q : DQ α) (time : α) (rxn : Nat) (amount : α) : DQ α :=
  let col := (q.slotOf time + q.start) % q.numCols
  { q with cells := fun c r => if c = col ∧ r = rxn then q.cells c r + amount else q.cells c r }

/-- `get_next_reactions`. -/
def DQ.nextReactions (q : DQ α) : List α := (List.range q.numRxn).map (q.cells q.start)

/-- `advance_time`: `next += dt`, clear the delivered column, rotate. -/
def DQ.advance (q : DQ α) : DQ α :=
  { q with next := q.next + q.dt,
           cells := fun c r => if c = q.start then 0 else q.cells c r,
           start := (q.start + 1) % q.numCols }

/-- pending amount of reaction `r` due at `next + j·dt`. -/
def DQ.pending (q : DQ α) (j r : Nat) : α := q.cells ((q.start + j) % q.numCols) r

/-- `copy()`: same configuration and contents (an independent array in the implementation). -/
def DQ.copy (q : DQ α) : DQ α := { q with cells := fun c r => q.cells c r }

/-- `binomial_partition(p)`: each cell (time outer loop, reaction inner loop) is split by
`binom_rnd_f(cell, p)`; the second queue gets the remainder. -/
def DQ.partition {σ : Type} (g : Gen σ α) (q : DQ α) (p : α) (s : σ) : (DQ α × DQ α) × σ :=
  let (cols, s) := (List.range q.numCols).foldl (fun (acc : List (List α) × σ) c =>
    let (col, s) := (List.range q.numRxn).foldl (fun (acc2 : List α × σ) r =>
      let n := (Trunc.trunc (q.cells c r + 1 / ((2 : Nat) : α))).toNat
      let (k, s) := binomTrials g n p acc2.2
      (acc2.1 ++ [((k : Nat) : α)], s)) ([], acc.2)
    (acc.1 ++ [col], s)) ([], s)
  let c1 : Nat → Nat → α := fun c r => (cols.getD c []).getD r 0
  (({ q with cells := fun c r => if c < q.numCols ∧ r < q.numRxn then c1 c r else 0 },
    { q with cells := fun c r => if c < q.numCols ∧ r < q.numRxn then q.cells c r - c1 c r else 0 }), s)

end
end Bioscrape
