import BioscrapeModel.Model.Sensitivity

/-
The deterministic simulator (`bioscrape/simulator.pyx` `rhs_global` 1459-1471,
`DeterministicSimulator._helper_simulate` 1516-1576): what is handed to the integrator, the retry
ladder on `mxstep`, failure reporting and the re-application of rules to the output rows.  The
integrator (scipy `odeint`, LSODA) is a parameter.
-/

namespace Bioscrape

section
variable {α : Type} [Zero α] [One α] [Add α] [Sub α] [Mul α] [Div α] [Neg α] [NatCast α] [IntCast α]
  [LT α] [LE α] [DecidableLT α] [DecidableLE α] [Transc α] [Trunc α]

/-- `rule_step = (<int>(t / dt)) == (t / dt)`. -/
def detRuleStep (t dt : α) : Bool := feq (((Trunc.trunc (t / dt) : Int) : α)) (t / dt)

/-- `rhs_global(state, t)`: rules are applied to the state the integrator passes in, then the
deterministic derivative is computed from the rule-updated state and parameters. -/
def rhsGlobal (m : SimModel α) (x p : List α) (t : α) : List α × List α × List α :=
  let xp := applyRules m.rules x p 1 t m.dt (detRuleStep t m.dt)
  (derivative m.nSpecies m.U m.D m.props (vecGet xp.1) (vecGet xp.2) t, xp.1, xp.2)

end

/-- the `mxstep` values tried: 500, then ×10 each time, capped at `maxStep`, the cap being the last. -/
def mxstepLadder (maxStep : Nat) : Nat → Nat → List Nat
  | 0, _ => []
  | fuel + 1, cur =>
    if cur ≥ maxStep then [cur]
    else cur :: mxstepLadder maxStep fuel (min (cur * 10) maxStep)

/-- `_helper_simulate`: the first successful integration is the result; if none succeeds the result is
"all NaN" (`none`), never numbers.  With rules the reported rows are the integrator's rows with the
rules re-applied (as a rule step) at each row's time. -/
def detSimulate {Rows : Type} (solve : Nat → Option Rows) (rerule : Rows → Rows) (hasRules : Bool)
    (ladder : List Nat) : Option Rows :=
  match ladder.findSome? solve with
  | some rows => some (if hasRules then rerule rows else rows)
  | none => none

end Bioscrape
