import BioscrapeModel.Model.Random
import BioscrapeModel.Model.Rules

/-
Cell division: `PerfectBinomialVolumeSplitter`, `GeneralVolumeSplitter` (`bioscrape/simulator.pyx`
1217-1371) and `LineageVolumeSplitter` (`lineage/lineage.pyx` 1407-1559), over an abstract uniform source.
-/

namespace Bioscrape

/-- how a `LineageVolumeSplitter` splits the volume. -/
inductive VolSplit | binomial | duplicate | perfect
  deriving DecidableEq, Repr, Inhabited

structure Daughters (α : Type) where
  dState : List α
  eState : List α
  dVol : α
  eVol : α

section
variable {σ α : Type} [Zero α] [One α] [Add α] [Sub α] [Mul α] [Div α] [Neg α] [NatCast α] [IntCast α]
  [LT α] [LE α] [DecidableLT α] [DecidableLE α] [Transc α] [Trunc α]

/-- `binom_rnd_f(N, p)` as a double: `int(N + 0.5)` Bernoulli trials. -/
def binomRndF (g : Gen σ α) (N p : α) (s : σ) : Nat × σ :=
  binomTrials g (Trunc.trunc (N + 1 / ((2 : Nat) : α))).toNat p s

/-- one species split binomially: `dstate[i] = binom(dstate[i], p); estate[i] -= dstate[i]`. -/
def splitBinomial (g : Gen σ α) (p : α) (acc : List α × List α × σ) (i : Nat) : List α × List α × σ :=
  let (k, s) := binomRndF g (vecGet acc.1 i) p acc.2.2
  let dv : α := (k : α)
  (acc.1.set i dv, acc.2.1.set i (vecGet acc.2.1 i - dv), s)

/-- `PerfectBinomialVolumeSplitter.partition`: every species binomial with `p = 1/2`, volume halved. -/
def partitionPerfectBinomial (g : Gen σ α) (state : List α) (vol : α) (s : σ) : Daughters α × σ :=
  let half : α := 1 / ((2 : Nat) : α)
  let r := (List.range state.length).foldl (splitBinomial g half) (state, state, s)
  ({ dState := r.1, eState := r.2.1, dVol := vol / ((2 : Nat) : α), eVol := vol / ((2 : Nat) : α) }, r.2.2)

/-- perfect splitting of one species in `GeneralVolumeSplitter`:
`d = p*x; amount = (int)(d + 0.5); if |d - amount| <= 1e-8: amount else (uniform <= p ? (int)d + 1 : (int)d)`. -/
def splitPerfectGeneral (g : Gen σ α) (p eps : α) (acc : List α × List α × σ) (i : Nat) : List α × List α × σ :=
  let d := p * vecGet acc.1 i
  let amount : α := ((Trunc.trunc (d + 1 / ((2 : Nat) : α)) : Int) : α)
  let diff := d - amount
  let adiff := if diff < 0 then -diff else diff
  let (dv, s) :=
    if adiff ≤ eps then (amount, acc.2.2)
    else
      let (u, s) := g acc.2.2
      let fl : α := ((Trunc.trunc d : Int) : α)
      (if u ≤ p then fl + 1 else fl, s)
  (acc.1.set i dv, acc.2.1.set i (vecGet acc.2.1 i - dv), s)

/-- `GeneralVolumeSplitter.partition`: `p = 0.5 - uniform*noise`, perfect species, then binomial species;
everything else is duplicated (both daughters keep the parent's count). -/
def partitionGeneral (g : Gen σ α) (noise eps : α) (perfect binomial : List Nat) (state : List α) (vol : α) (s : σ) :
    Daughters α × σ :=
  let (u, s) := g s
  let p := 1 / ((2 : Nat) : α) - u * noise
  let q := 1 - p
  let r := perfect.foldl (splitPerfectGeneral g p eps) (state, state, s)
  let r := binomial.foldl (splitBinomial g p) r
  ({ dState := r.1, eState := r.2.1, dVol := vol * p, eVol := vol * q }, r.2.2)

/-- perfect splitting of one species in `LineageVolumeSplitter`:
`d = p*x; amount = (int)d; if d - amount <= 1e-8 and amount >= 0: amount else (uniform <= p ? (int)d+1 : (int)d)`. -/
def splitPerfectLineage (g : Gen σ α) (p eps : α) (acc : List α × List α × σ) (i : Nat) : List α × List α × σ :=
  let d := p * vecGet acc.1 i
  let ai : Int := Trunc.trunc d
  let amount : α := (ai : α)
  let (dv, s) :=
    if d - amount ≤ eps ∧ ai ≥ 0 then (amount, acc.2.2)
    else
      let (u, s) := g acc.2.2
      (if u ≤ p then amount + 1 else amount, s)
  (acc.1.set i dv, acc.2.1.set i (vecGet acc.2.1 i - dv), s)

/-- `LineageVolumeSplitter.partition` (without custom partition functions). -/
def partitionLineage (g : Gen σ α) (vs : VolSplit) (noise eps : α) (perfect binomial : List Nat) (state : List α)
    (vol : α) (s : σ) : Daughters α × σ :=
  let (p, q, vd, ve, s) : α × α × α × α × σ :=
    match vs with
    | .binomial =>
      let (u, s) := g s
      let p := 1 / ((2 : Nat) : α) - u * noise / ((2 : Nat) : α)
      (p, 1 - p, vol * p, vol * (1 - p), s)
    | .duplicate => (1, 1, vol, vol, s)
    | .perfect => (1 / ((2 : Nat) : α), 1 / ((2 : Nat) : α), vol * (1 / ((2 : Nat) : α)), vol * (1 / ((2 : Nat) : α)), s)
  let _ := q
  let r := perfect.foldl (splitPerfectLineage g p eps) (state, state, s)
  let r := binomial.foldl (splitBinomial g p) r
  ({ dState := r.1, eState := r.2.1, dVol := vd, eVol := ve }, r.2.2)

end
end Bioscrape
