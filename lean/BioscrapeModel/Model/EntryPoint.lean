import BioscrapeModel.Generated.ResultFields

/-
`py_simulate_model` (`bioscrape/simulator.pyx`, the user-facing wrapper): option handling, simulator
dispatch, result class and labelling.  The result classes' constructors come from the translator
(`Generated/ResultFields.lean`, regenerated from the source on every run).
-/

namespace Bioscrape.Entry
open Bioscrape.Generated

/-- how the `volume` keyword was given. -/
inductive VolOpt | off | flagTrue | number | object
  deriving DecidableEq, Repr

structure Options where
  model      : Bool        -- `Model=` given
  interface  : Bool        -- `Interface=` given
  stochastic : Bool
  delay      : Bool        -- `delay` truthy
  safe       : Bool
  volume     : VolOpt
  dataframe  : Bool
  deriving DecidableEq, Repr

inductive Simulator | deterministic | ssa | delaySSA | volumeSSA | delayVolumeSSA | delayVolumeAbstract
  deriving DecidableEq, Repr

inductive InterfaceKind | plain | safe | given
  deriving DecidableEq, Repr

inductive Outcome where
  | optionError (msg : String)            -- explicit error about the options
  | internalError (what : String)         -- failure from inside
  | result (cls : ResultClass) (sim : Simulator) (iface : InterfaceKind) (hasVolume : Bool)
           (named : Bool) (dataframe : Bool)
  deriving DecidableEq, Repr

/-- is the local `v` bound after the volume ladder, and to a volume? (`none` = unbound). -/
def volumeLadder : VolOpt → Option Bool
  | .object => some true          -- `v = volume`
  | .off => some false            -- `v = None`
  | .flagTrue => some true        -- `Volume()` with volume 1
  | .number => some true          -- `Volume()` with the given positive volume

def simulateModel (o : Options) : Outcome :=
  if !o.model && !o.interface then .optionError "requires either a Model or CSimInterface"
  else if o.model && o.interface then .optionError "requires either a Model OR a CSimInterface, not both"
  else
    let iface := if o.interface then InterfaceKind.given else if o.safe then .safe else .plain
    match volumeLadder o.volume with
    | none => .internalError "UnboundLocalError: v"
    | some hasV =>
      let named := o.model      -- `py_get_dataframe(Model = Model)`: names only when a Model was passed
      if o.delay then
        if !hasV then .result .DelaySSAResult .delaySSA iface false named o.dataframe
        else .result .DelayVolumeSSAResult .delayVolumeSSA iface true named o.dataframe
      else if o.stochastic then
        if !hasV then .result .SSAResult .ssa iface false named o.dataframe
        else .result .VolumeSSAResult .volumeSSA iface true named o.dataframe
      else .result .SSAResult .deterministic iface false named o.dataframe

/-- attributes set by constructing an object of class `c` (own assignments, plus the base class's when
`__init__` delegates). -/
def fieldsSet : ResultClass → List String
  | .SSAResult => (ownAssigns .SSAResult).map (·.1)
  | .DelaySSAResult =>
      (ownAssigns .DelaySSAResult).map (·.1) ++ (if callsSuper .DelaySSAResult then (ownAssigns .SSAResult).map (·.1) else [])
  | .VolumeSSAResult =>
      (ownAssigns .VolumeSSAResult).map (·.1) ++ (if callsSuper .VolumeSSAResult then (ownAssigns .SSAResult).map (·.1) else [])
  | .DelayVolumeSSAResult =>
      (ownAssigns .DelayVolumeSSAResult).map (·.1) ++
        (if callsSuper .DelayVolumeSSAResult then
          (ownAssigns .VolumeSSAResult).map (·.1) ++ (if callsSuper .VolumeSSAResult then (ownAssigns .SSAResult).map (·.1) else [])
         else [])

/-- the time axis of a result is the requested time points when its constructor stores the
`timepoints` argument under `timepoints`. -/
def storesTimeAxis (c : ResultClass) : Bool :=
  match c with
  | .SSAResult => (ownAssigns .SSAResult).contains ("timepoints", "timepoints")
  | .DelaySSAResult => (ownAssigns .DelaySSAResult).contains ("timepoints", "timepoints")
      || (callsSuper .DelaySSAResult && (ownAssigns .SSAResult).contains ("timepoints", "timepoints"))
  | .VolumeSSAResult => (ownAssigns .VolumeSSAResult).contains ("timepoints", "timepoints")
      || (callsSuper .VolumeSSAResult && (ownAssigns .SSAResult).contains ("timepoints", "timepoints"))
  | .DelayVolumeSSAResult => (ownAssigns .DelayVolumeSSAResult).contains ("timepoints", "timepoints")
      || (callsSuper .DelayVolumeSSAResult && ((ownAssigns .VolumeSSAResult).contains ("timepoints", "timepoints")
          || (callsSuper .VolumeSSAResult && (ownAssigns .SSAResult).contains ("timepoints", "timepoints"))))

/-- column labels of the returned data frame: species in index order (names when a Model was passed,
positions otherwise), then `time`, then `volume` for volume results. -/
def columns (species : List String) (named hasVolume : Bool) : List String :=
  (if named then species else (List.range species.length).map toString) ++ ["time"] ++ (if hasVolume then ["volume"] else [])

/-- the full option lattice of the property. -/
def lattice : List Options :=
  [true, false].flatMap fun stochastic =>
  [true, false].flatMap fun delay =>
  [true, false].flatMap fun safe =>
  [VolOpt.off, .flagTrue, .number, .object].flatMap fun volume =>
  [true, false].flatMap fun dataframe =>
  [true, false].map fun useModel =>
    { model := useModel, interface := !useModel, stochastic, delay, safe, volume, dataframe }

end Bioscrape.Entry
