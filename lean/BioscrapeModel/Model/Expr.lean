import BioscrapeModel.Model.Term

/-
The *written* formula of a general propensity, rule right-hand side, growth law or SBML kinetic law:
its grammar (an independent recursive-descent parser), its mathematical meaning (`Expr.eval`) and the
translation to the evaluation tree (`translate`, modelling `sympy_recursion` of `types.pyx` 797-896 on an
un-simplified tree, including the name resolution order species → parameter → `volume` → `t` → error and
the leading-underscore strip).
-/

namespace Bioscrape

inductive Expr (α : Type) where
  | num (v : α)
  | ident (s : String)
  | add (a b : Expr α)
  | sub (a b : Expr α)
  | mul (a b : Expr α)
  | div (a b : Expr α)
  | pow (a b : Expr α)
  | neg (a : Expr α)
  | exp (a : Expr α)
  | log (a : Expr α)
  | abs (a : Expr α)
  | step (a : Expr α)                    -- Heaviside
  | max (args : List (Expr α))
  | min (args : List (Expr α))
  deriving Inhabited

/-- the values an identifier can take: `none` = not defined. -/
abbrev Env (α : Type) := String → Option α

section
variable {α : Type} [Zero α] [One α] [Add α] [Sub α] [Mul α] [Div α] [Neg α]
  [LT α] [LE α] [DecidableLT α] [DecidableLE α] [Transc α]

mutual
/-- the mathematical meaning of the written formula; `none` when it mentions an undefined name. -/
def Expr.eval (env : Env α) : Expr α → Option α
  | .num v => some v
  | .ident s => env s
  | .add a b => do let x ← Expr.eval env a; let y ← Expr.eval env b; pure (x + y)
  | .sub a b => do let x ← Expr.eval env a; let y ← Expr.eval env b; pure (x - y)
  | .mul a b => do let x ← Expr.eval env a; let y ← Expr.eval env b; pure (x * y)
  | .div a b => do let x ← Expr.eval env a; let y ← Expr.eval env b; pure (x / y)
  | .pow a b => do let x ← Expr.eval env a; let y ← Expr.eval env b; pure (Transc.pow x y)
  | .neg a => do let x ← Expr.eval env a; pure (-x)
  | .exp a => do let x ← Expr.eval env a; pure (Transc.exp x)
  | .log a => do let x ← Expr.eval env a; pure (Transc.log x)
  | .abs a => do let x ← Expr.eval env a; pure (Transc.abs x)
  | .step a => do let x ← Expr.eval env a; pure (if x ≥ 0 then 1 else 0)
  | .max args => do let vs ← Expr.evalList env args; pure (maxLoop vs)
  | .min args => do let vs ← Expr.evalList env args; pure (minLoop vs)
def Expr.evalList (env : Env α) : List (Expr α) → Option (List α)
  | [] => some []
  | a :: rest => do let x ← Expr.eval env a; let xs ← Expr.evalList env rest; pure (x :: xs)
end

/-- `if name[0] == '_': name = name[1:]`. -/
def stripName (name : String) : String := if name.startsWith "_" then (name.drop 1).toString else name

/-- the name `sympy_recursion` looks up: a leading underscore is stripped unless a species or parameter is
declared under exactly the name as written. -/
def lookupName (species params : List String) (name : String) : String :=
  if name ∈ species ∨ name ∈ params then name else stripName name

/-- name resolution of `sympy_recursion`: species, then parameter, then the built-ins `volume` and `t`;
anything else is an error. -/
def resolveName (species params : List String) (name : String) : Except String (Term α) :=
  let name := lookupName species params name
  match species.idxOf? name with
  | some i => .ok (.species i)
  | none =>
    match params.idxOf? name with
    | some i => .ok (.param i)
    | none =>
      if name = "volume" then .ok .volume
      else if name = "t" then .ok .time
      else .error s!"Unknown term {name} not found in Species, Parameters, or built-in-terms."

mutual
/-- the evaluation tree built for a formula (subtraction, division and negation become the sums,
products and powers a symbolic-algebra tree uses for them). -/
def translate (species params : List String) : Expr α → Except String (Term α)
  | .num v => .ok (.const v)
  | .ident s => resolveName species params s
  | .add a b => do let x ← translate species params a; let y ← translate species params b; pure (.sum [x, y])
  | .sub a b => do
      let x ← translate species params a; let y ← translate species params b
      pure (.sum [x, .prod [.const (-1), y]])
  | .mul a b => do let x ← translate species params a; let y ← translate species params b; pure (.prod [x, y])
  | .div a b => do
      let x ← translate species params a; let y ← translate species params b
      pure (.prod [x, .pow y (.const (-1))])
  | .pow a b => do let x ← translate species params a; let y ← translate species params b; pure (.pow x y)
  | .neg a => do let x ← translate species params a; pure (.prod [.const (-1), x])
  | .exp a => do let x ← translate species params a; pure (.exp x)
  | .log a => do let x ← translate species params a; pure (.log x)
  | .abs a => do let x ← translate species params a; pure (.abs x)
  | .step a => do let x ← translate species params a; pure (.step x)
  | .max args => do let xs ← translateList species params args; pure (.max xs)
  | .min args => do let xs ← translateList species params args; pure (.min xs)
def translateList (species params : List String) : List (Expr α) → Except String (List (Term α))
  | [] => .ok []
  | a :: rest => do
      let x ← translate species params a
      let xs ← translateList species params rest
      pure (x :: xs)
end

/-- identifiers mentioned by a formula. -/
def Expr.idents : Expr α → List String
  | .num _ => []
  | .ident s => [s]
  | .add a b | .sub a b | .mul a b | .div a b | .pow a b => a.idents ++ b.idents
  | .neg a | .exp a | .log a | .abs a | .step a => a.idents
  | .max args | .min args => identsList args
where
  identsList : List (Expr α) → List String
    | [] => []
    | a :: rest => a.idents ++ identsList rest

end

/-! ### the grammar: `+ - * / ^` (`^` right-associative and binding tighter than unary minus), calls
`exp log abs Heaviside heaviside min max`, numbers, identifiers (letters, digits, `_`; `|` reads `_`) -/

inductive Tok where
  | num (s : String)
  | id (s : String)
  | op (c : Char)
  | lpar | rpar | comma
  deriving Repr, BEq, Inhabited

def isIdStart (c : Char) : Bool := c.isAlpha || c == '_' || c == '|'
def isIdChar (c : Char) : Bool := c.isAlphanum || c == '_' || c == '|'

partial def tokenize (cs : List Char) (acc : Array Tok) : Except String (Array Tok) :=
  match cs with
  | [] => .ok acc
  | c :: rest =>
    if c.isWhitespace then tokenize rest acc
    else if c.isDigit || c == '.' then
      let rec takeNum (cs : List Char) (s : String) (seenE : Bool) : String × List Char :=
        match cs with
        | d :: r =>
          if d.isDigit || d == '.' then takeNum r (s.push d) seenE
          else if (d == 'e' || d == 'E') && !seenE then
            match r with
            | s1 :: r2 => if s1 == '-' || s1 == '+' then takeNum r2 ((s.push d).push s1) true
                          else if s1.isDigit then takeNum r (s.push d) true else (s, cs)
            | [] => (s, cs)
          else (s, cs)
        | [] => (s, [])
      let (n, r) := takeNum cs "" false
      tokenize r (acc.push (.num n))
    else if isIdStart c then
      let idc := cs.takeWhile isIdChar
      let name := String.ofList (idc.map (fun ch => if ch == '|' then '_' else ch))
      tokenize (cs.drop idc.length) (acc.push (.id name))
    else if c == '(' then tokenize rest (acc.push .lpar)
    else if c == ')' then tokenize rest (acc.push .rpar)
    else if c == ',' then tokenize rest (acc.push .comma)
    else if c == '*' then
      match rest with
      | '*' :: r2 => tokenize r2 (acc.push (.op '^'))     -- `**` is `^`
      | _ => tokenize rest (acc.push (.op '*'))
    else if c == '+' || c == '-' || c == '/' || c == '^' then tokenize rest (acc.push (.op c))
    else .error s!"unexpected character {c}"

/-- decimal literal → number, through the number type's own arithmetic (`mantissa / 10^k · 10^e`). -/
def parseNumber {α : Type} [NatCast α] [Mul α] [Div α] (s : String) : Option α :=
  let (mant, ex) := match s.toList.span (fun c => c != 'e' && c != 'E') with
    | (m, []) => (m, ([] : List Char))
    | (m, _ :: e) => (m, e)
  let (ip, fp) := match mant.span (· != '.') with
    | (i, []) => (i, ([] : List Char))
    | (i, _ :: f) => (i, f)
  if (ip ++ fp).isEmpty || !(ip ++ fp).all Char.isDigit then none
  else
    let digits := (String.ofList (ip ++ fp)).toNat!
    let base : α := (digits : α) / ((10 ^ fp.length : Nat) : α)
    match ex with
    | [] => some base
    | '-' :: e => (String.ofList e).toNat?.map (fun k => base / ((10 ^ k : Nat) : α))
    | '+' :: e => (String.ofList e).toNat?.map (fun k => base * ((10 ^ k : Nat) : α))
    | e => (String.ofList e).toNat?.map (fun k => base * ((10 ^ k : Nat) : α))

section parser
variable {α : Type} [NatCast α] [Mul α] [Div α]

abbrev P (α : Type) (β : Type) := Array Tok → Nat → Except String (β × Nat)

mutual
partial def parseExpr : P α (Expr α) := fun ts i => do
  let (lhs, i) ← parseTerm ts i
  parseExprRest ts i lhs
partial def parseExprRest (ts : Array Tok) (i : Nat) (lhs : Expr α) : Except String (Expr α × Nat) :=
  match ts[i]? with
  | some (.op '+') => do let (r, j) ← parseTerm ts (i + 1); parseExprRest ts j (.add lhs r)
  | some (.op '-') => do let (r, j) ← parseTerm ts (i + 1); parseExprRest ts j (.sub lhs r)
  | _ => .ok (lhs, i)
partial def parseTerm : P α (Expr α) := fun ts i => do
  let (lhs, i) ← parseUnary ts i
  parseTermRest ts i lhs
partial def parseTermRest (ts : Array Tok) (i : Nat) (lhs : Expr α) : Except String (Expr α × Nat) :=
  match ts[i]? with
  | some (.op '*') => do let (r, j) ← parseUnary ts (i + 1); parseTermRest ts j (.mul lhs r)
  | some (.op '/') => do let (r, j) ← parseUnary ts (i + 1); parseTermRest ts j (.div lhs r)
  | _ => .ok (lhs, i)
partial def parseUnary : P α (Expr α) := fun ts i =>
  match ts[i]? with
  | some (.op '-') => do let (e, j) ← parseUnary ts (i + 1); pure (.neg e, j)
  | some (.op '+') => parseUnary ts (i + 1)
  | _ => parsePower ts i
partial def parsePower : P α (Expr α) := fun ts i => do
  let (base, i) ← parseAtom ts i
  match ts[i]? with
  | some (.op '^') => do
      -- right-associative; the exponent may carry its own sign
      let (e, j) ← parseUnaryPow ts (i + 1)
      pure (.pow base e, j)
  | _ => pure (base, i)
partial def parseUnaryPow : P α (Expr α) := fun ts i =>
  match ts[i]? with
  | some (.op '-') => do let (e, j) ← parseUnaryPow ts (i + 1); pure (.neg e, j)
  | some (.op '+') => parseUnaryPow ts (i + 1)
  | _ => parsePower ts i
partial def parseArgs (ts : Array Tok) (i : Nat) (acc : List (Expr α)) : Except String (List (Expr α) × Nat) := do
  let (e, i) ← parseExpr ts i
  match ts[i]? with
  | some .comma => parseArgs ts (i + 1) (acc ++ [e])
  | some .rpar => pure (acc ++ [e], i + 1)
  | _ => .error "expected , or )"
partial def parseAtom : P α (Expr α) := fun ts i =>
  match ts[i]? with
  | some (.num s) =>
    match parseNumber (α := α) s with
    | some v => .ok (.num v, i + 1)
    | none => .error s!"bad number {s}"
  | some .lpar => do
    let (e, j) ← parseExpr ts (i + 1)
    match ts[j]? with
    | some .rpar => pure (e, j + 1)
    | _ => .error "expected )"
  | some (.id name) =>
    match ts[i + 1]? with
    | some .lpar => do
      let (args, j) ← parseArgs ts (i + 2) []
      match name, args with
      | "exp", [a] => pure (.exp a, j)
      | "log", [a] => pure (.log a, j)
      | "ln", [a] => pure (.log a, j)
      | "abs", [a] => pure (.abs a, j)
      | "Abs", [a] => pure (.abs a, j)
      | "Heaviside", [a] => pure (.step a, j)
      | "heaviside", [a] => pure (.step a, j)
      | "max", as => pure (.max as, j)
      | "Max", as => pure (.max as, j)
      | "min", as => pure (.min as, j)
      | "Min", as => pure (.min as, j)
      | "pow", [a, b] => pure (.pow a b, j)
      | f, _ => .error s!"unsupported function {f}"
    | _ => .ok (.ident name, i + 1)
  | _ => .error "unexpected token"
end

/-- the whole string must be one formula. -/
def parseFormula (s : String) : Except String (Expr α) := do
  let ts ← tokenize s.trimAscii.toString.toList #[]
  let (e, i) ← parseExpr (α := α) ts 0
  if i = ts.size then pure e else .error "trailing input"

end parser
end Bioscrape
