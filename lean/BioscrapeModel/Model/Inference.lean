import BioscrapeModel.Model.Priors

/-
Data alignment and the deterministic inference cost
(`bioscrape/inference_setup.py` `extract_data` 328-400; `bioscrape/inference.pyx`
`DeterministicLikelihood.get_log_likelihood` 380-431; `pid_interfaces.py`
`DeterministicInference.get_likelihood_function` 322-353).  The simulator is a parameter.
-/

namespace Bioscrape

/-! ### numpy arrays as flat row-major lists -/

/-- `np.array(list_of_M_arrays_of_length_T)` flattened in row-major order. -/
def flatten2 {α : Type} (rows : List (List α)) : List α := rows.foldr (· ++ ·) []

/-- `np.transpose` of an `(M, T)` array given flat: the result `(T, M)`, flat. -/
def transposeFlat {α : Type} [Inhabited α] (M T : Nat) (flat : List α) : List α :=
  (List.range (T * M)).map (fun k => flat.getD ((k % M) * T + k / M) default)

/-- `np.reshape(flat, (T, M))[t][m]`. -/
def reshapeGet {α : Type} [Inhabited α] (M : Nat) (flat : List α) (t m : Nat) : α := flat.getD (t * M + m) default

/-- a data frame: column name ↦ column. -/
abbrev Frame (α : Type) := List (String × List α)

def Frame.col {α : Type} (f : Frame α) (name : String) : List α :=
  match f.find? (fun c => c.1 = name) with
  | some c => c.2
  | none => []

/-- `extract_data` for one frame: `data_list = [df[m] for m in measurements]`,
`np.transpose(np.array(data_list))` reshaped to `(T, M)`; entry `[t][m]`. -/
def extractFrame {α : Type} [Inhabited α] (f : Frame α) (measurements : List String) (T : Nat) : List (List α) :=
  let M := measurements.length
  let flat := transposeFlat M T (flatten2 (measurements.map f.col))
  (List.range T).map (fun t => (List.range M).map (fun m => reshapeGet M flat t m))

/-- the pinned tree's version (`np.reshape` of the `(M, T)` array to `(T, M)` without transposing), kept
to state what was wrong. -/
def extractFrameReshapeOnly {α : Type} [Inhabited α] (f : Frame α) (measurements : List String) (T : Nat) : List (List α) :=
  let M := measurements.length
  let flat := flatten2 (measurements.map f.col)
  (List.range T).map (fun t => (List.range M).map (fun m => reshapeGet M flat t m))

/-! ### the likelihood -/

/-- `Model.set_params(dict)` on the shared parameter array (indices instead of names). -/
def applyDict {α : Type} (p : List α) (d : List (Nat × α)) : List α := d.foldl (fun p kv => p.set kv.1 kv.2) p

structure Traj (α : Type) where
  x0    : List α                 -- initial state of this trajectory
  cond  : List (Nat × α)         -- parameter condition of this trajectory
  times : List α
  data  : List (List α)          -- `[t][m]`

section
variable {α : Type} [Zero α] [One α] [Add α] [Sub α] [Mul α] [Div α] [Neg α] [NatCast α]
  [LT α] [LE α] [DecidableLT α] [DecidableLE α] [Transc α]

/-- `dif = data - sim; if dif < 0: dif = -dif; error += dif**norm_order`, over measurements (outer) and
time points (inner), accumulated onto `acc`. -/
def trajError (norm : α) (measIdx : List Nat) (rows : List (List α)) (data : List (List α)) (nT : Nat) (acc : α) : α :=
  (List.range measIdx.length).foldl (fun acc i =>
    (List.range nT).foldl (fun acc t =>
      let d := (data.getD t []).getD i 0 - (rows.getD t []).getD (measIdx.getD i 0) 0
      let d := (if d < 0 then -d else d)
      acc + Transc.pow d norm) acc) acc

/-- `get_log_likelihood`: every trajectory is simulated from its own initial state with the evaluation's
parameters overridden by its own parameter condition, at its own time points. -/
def logLikelihood (sim : List α → List α → List α → List (List α)) (norm : α) (measIdx : List Nat)
    (base : List α) (trajs : List (Traj α)) : α :=
  let err := trajs.foldl (fun acc tr =>
    trajError norm measIdx (sim (applyDict base tr.cond) tr.x0 tr.times) tr.data tr.times.length acc) 0
  Neg.neg (Transc.pow err (1 / norm))

/-- `get_likelihood_function(θ)`: prior; reset every parameter to the defaults captured at construction;
write θ; likelihood.  `none` = −∞. -/
def cost (sim : List α → List α → List α → List (List α)) (pi norm : α) (measIdx : List Nat)
    (defaults : List (Nat × α)) (priors : List (PriorSpec α × Bool)) (thetaIdx : List Nat)
    (trajs : List (Traj α)) (current : List α) (theta : List α) : Option α :=
  match checkPrior pi ((priors.zip theta).map (fun pt => (pt.1.1, pt.1.2, pt.2))) with
  | none => none
  | some lp =>
    let base := applyDict (applyDict current defaults) (thetaIdx.zip theta)
    some (lp + logLikelihood sim norm measIdx base trajs)

end
end Bioscrape
