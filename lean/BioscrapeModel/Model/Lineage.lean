import BioscrapeModel.Model.Loops
import BioscrapeModel.Model.Division

/-
Lineage simulation (`lineage/lineage.pyx`): volume / division / death rules and events (44-545),
`LineageCSimInterface` (1048-1170), `LineageSSASimulator.SimulateSingleCell` (1802-2078),
`SingleCellSSAResult.get_final_cell_state` (1380-1391), `simulate_cell_list`,
`simulate_daughter_cells`, `SimulateCellLineage` (2127-2264).
-/

namespace Bioscrape

inductive VolRule (α : Type) where
  | linear (growth : Nat) (noise : Option Nat)
  | mult (growth : Nat) (noise : Option Nat)
  | assign (e : Term α)
  | ode (e : Term α)
  deriving Inhabited

inductive DivRule (α : Type) where
  | time (thr : Nat) (noise : Option Nat)
  | volume (thr : Nat) (noise : Option Nat)
  | deltaV (thr : Nat) (noise : Option Nat)
  | general (e : Term α)
  deriving Inhabited

inductive DeathRule (α : Type) where
  | species (sp thr : Nat) (comp : Int) (noise : Option Nat)
  | param (par thr : Nat) (comp : Int) (noise : Option Nat)
  | general (e : Term α)
  deriving Inhabited

inductive VolEvent (α : Type) where
  | linear (growth : Nat)
  | mult (growth : Nat)
  | general (e : Term α)
  deriving Inhabited

/-- what `LineageCSimInterface` exposes to the simulator. -/
structure CellModel (α : Type) where
  nSpecies : Nat
  props : List (Propensity α)          -- reactions
  evProps : List (Propensity α)        -- volume events, division events, death events, in that order
  U : List (List Int)
  rules : List (Rule α)
  volRules : List (VolRule α)
  divRules : List (DivRule α)
  deathRules : List (DeathRule α)
  volEvents : List (VolEvent α)
  nDivEvents : Nat
  nDeathEvents : Nat
  twoPi : α
  eps : α                              -- `1E-9`
  tol : α                              -- `10e-8`

/-- `LineageVolumeCellState`. -/
structure Cell (α : Type) where
  state : List α
  vol : α
  time : α
  v0 : α
  t0 : α
  divided : Int
  dead : Int
  deriving Inhabited

/-- `SingleCellSSAResult` (what a `Schnitz` is built from) plus the exit status. -/
structure CellResult (α : Type) where
  times : List α
  rows : List (List α)
  vols : List α
  divided : Int
  dead : Int
  raised : Bool           -- a `ValueError` was raised (nonpositive volume, bad grid)
  bad : Bool              -- `sample_discrete` returned `-1`, or the model ran out of fuel
  deriving Inhabited

structure CellLoop (σ α : Type) where
  x : List α
  p : List α
  vol : α
  t : α
  idx : Nat
  nextQ : α
  ruleStep : Bool
  results : List (List α × α)    -- `c_results` / `c_volume_trace`, allocated up front
  g : σ
  divided : Int
  dead : Int
  stop : Bool
  raised : Bool
  bad : Bool

section
variable {σ α : Type} [Zero α] [One α] [Add α] [Sub α] [Mul α] [Div α] [Neg α] [NatCast α] [IntCast α]
  [LT α] [LE α] [DecidableLT α] [DecidableLE α] [Transc α] [Trunc α]

def noiseDraw (g : Gen σ α) (twoPi : α) (p : List α) (noise : Option Nat) (s : σ) : α × σ :=
  match noise with
  | none => (0, s)
  | some i => normalRv g twoPi 0 (vecGet p i) s

/-- `VolumeRule.get_volume`. -/
def VolRule.apply (g : Gen σ α) (twoPi : α) (x p : List α) (vol t dt : α) (s : σ) : VolRule α → α × σ
  | .linear gi none => (vol + vecGet p gi * dt, s)
  | .linear gi (some ni) => let (z, s) := normalRv g twoPi 0 (vecGet p ni) s; (vol + (vecGet p gi + z) * dt, s)
  | .mult gi none => (vol + vol * vecGet p gi * dt, s)
  | .mult gi (some ni) => let (z, s) := normalRv g twoPi 0 (vecGet p ni) s; (vol + vol * (vecGet p gi + z) * dt, s)
  | .assign e => (e.volEval (vecGet x) (vecGet p) vol t, s)
  | .ode e => (vol + e.volEval (vecGet x) (vecGet p) vol t * dt, s)

/-- `apply_volume_rules`: every volume rule in order, each seeing the previous one's volume. -/
def applyVolRules (g : Gen σ α) (twoPi : α) (rules : List (VolRule α)) (x p : List α) (vol t dt : α) (s : σ) : α × σ :=
  rules.foldl (fun (acc : α × σ) r => r.apply g twoPi x p acc.1 t dt acc.2) (vol, s)

/-- `DivisionRule.check_divide`. -/
def DivRule.check (g : Gen σ α) (twoPi eps : α) (x p : List α) (t vol t0 v0 : α) (s : σ) : DivRule α → Bool × σ
  | .time thr none => (decide (t - t0 ≥ vecGet p thr - eps), s)
  | .time thr (some ni) => let (z, s) := normalRv g twoPi 0 (vecGet p ni) s; (decide (t - t0 ≥ vecGet p thr + z), s)
  | .volume thr none => (decide (vol ≥ vecGet p thr - eps), s)
  | .volume thr (some ni) => let (z, s) := normalRv g twoPi 0 (vecGet p ni) s; (decide (vol ≥ vecGet p thr + z), s)
  | .deltaV thr none => (decide (vol - v0 ≥ vecGet p thr - eps), s)
  | .deltaV thr (some ni) => let (z, s) := normalRv g twoPi 0 (vecGet p ni) s; (decide (vol - v0 ≥ vecGet p thr + z), s)
  | .general e => (decide (e.volEval (vecGet x) (vecGet p) vol t > 0), s)

def compCheck (eps v thr : α) (comp : Int) : Bool :=
  if v > thr - eps ∧ v < thr + eps ∧ comp = 0 then true
  else if v > thr - eps ∧ comp = 1 then true
  else if v < thr + eps ∧ comp = -1 then true
  else false

/-- `DeathRule.check_dead`. -/
def DeathRule.check (g : Gen σ α) (twoPi eps : α) (x p : List α) (t vol : α) (s : σ) : DeathRule α → Bool × σ
  | .species sp thr comp noise =>
    let (z, s) := match noise with
      | none => ((vecGet p thr), s)
      | some ni => let (z, s) := normalRv g twoPi 0 (vecGet p ni) s; (vecGet p thr + z, s)
    (compCheck eps (vecGet x sp) z comp, s)
  | .param par thr comp noise =>
    let (z, s) := match noise with
      | none => ((vecGet p thr), s)
      | some ni => let (z, s) := normalRv g twoPi 0 (vecGet p ni) s; (vecGet p thr + z, s)
    (compCheck eps (vecGet p par) z comp, s)
  | .general e => (decide (e.volEval (vecGet x) (vecGet p) vol t > 0), s)

/-- `apply_death_rules` / `apply_division_rules`: index of the first rule that holds, `-1` otherwise. -/
def firstRule {ρ : Type} (check : ρ → σ → Bool × σ) : List ρ → Nat → σ → Int × σ
  | [], _, s => (-1, s)
  | r :: rest, i, s =>
    let (b, s) := check r s
    if b then ((i : Int), s) else firstRule check rest (i + 1) s

/-- `VolumeEvent.get_volume`. -/
def VolEvent.apply (x p : List α) (vol t : α) : VolEvent α → α
  | .linear gi => vol + vecGet p gi
  | .mult gi => vol * (1 + vecGet p gi)
  | .general e => e.volEval (vecGet x) (vecGet p) vol t

/-- `compute_lineage_propensities`. -/
def CellModel.propensities (m : CellModel α) (x p : List α) (vol t : α) : List α :=
  computePropensities .svol m.props (vecGet x) (vecGet p) vol t ++
  computePropensities .svol m.evProps (vecGet x) (vecGet p) vol t

/-- the recording loop: `k` rows `(x, vol)` written at `idx, idx+1, …`. -/
def writeRows (res : List (List α × α)) (idx k : Nat) (row : List α × α) : List (List α × α) :=
  (List.range k).foldl (fun res (j : Nat) => res.set (idx + j) row) res

/-- the head of an iteration: repeated rules, then death rules, then division rules. -/
structure CellPre (σ α : Type) where
  x : List α
  p : List α
  dead : Int
  dv : Int
  g : σ

def cellPre (g : Gen σ α) (m : CellModel α) (dt t0 v0 : α) (s : CellLoop σ α) : CellPre σ α :=
  let (x, p) := applyRules m.rules s.x s.p s.vol s.t dt s.ruleStep
  let (dead, gs) := firstRule (fun r gs => r.check g m.twoPi m.eps x p s.t s.vol gs) m.deathRules 0 s.g
  let (dv, gs) := firstRule (fun r gs => r.check g m.twoPi m.eps x p s.t s.vol t0 v0 gs) m.divRules 0 gs
  { x := x, p := p, dead := dead, dv := dv, g := gs }

/-- propensities, waiting time and where the clock moves to. -/
structure CellTiming (σ α : Type) where
  a : List α
  Lambda : α
  tNew : α
  nextQ : α
  toQ : Bool
  rstep : Bool
  g : σ

def cellTiming (g : Gen σ α) (m : CellModel α) (dt final : α) (s : CellLoop σ α) (pre : CellPre σ α) : CellTiming σ α :=
  let a := m.propensities pre.x pre.p s.vol s.t
  let Lambda := arraySum a
  let (proposed, rstep, gs) :=
    if feq Lambda 0 then (s.t + dt, true, pre.g)
    else let (w, gs) := exponentialRv g Lambda pre.g; (s.t + w, false, gs)
  let (tNew, nextQ, toQ, rstep) :=
    if s.nextQ ≤ proposed ∧ s.nextQ < final then (s.nextQ, s.nextQ + dt, true, true)
    else if proposed > final - m.tol then (final, s.nextQ, true, true)
    else (proposed, s.nextQ, feq Lambda 0, rstep)
  { a := a, Lambda := Lambda, tNew := tNew, nextQ := nextQ, toQ := toQ, rstep := rstep, g := gs }

/-- the recording loop: the state the clock just passed through is written to every grid row up to the new
time, with the volume it had. -/
def cellRecorded (times : List α) (s : CellLoop σ α) (pre : CellPre σ α) (tm : CellTiming σ α) : CellLoop σ α :=
  let k := recordCount tm.tNew (times.drop s.idx)
  { s with x := pre.x, p := pre.p, t := tm.tNew, idx := s.idx + k, nextQ := tm.nextQ, ruleStep := tm.rstep,
           results := writeRows s.results s.idx k (pre.x, s.vol), g := tm.g, dead := pre.dead, divided := pre.dv }

/-- a time step: the volume rules; a nonpositive volume raises. -/
def cellVolStep (g : Gen σ α) (m : CellModel α) (dt : α) (b : CellLoop σ α) : CellLoop σ α :=
  let (vol, gs) := applyVolRules g m.twoPi m.volRules b.x b.p b.vol b.t dt b.g
  { b with vol := vol, g := gs, raised := decide (vol ≤ 0) }

/-- a reaction or event: reactions first, then volume events, division events, death events. -/
def cellEventStep (g : Gen σ α) (m : CellModel α) (a : List α) (Lambda : α) (b : CellLoop σ α) : CellLoop σ α :=
  let (choice, gs) := sampleDiscrete g a Lambda b.g
  let nR := m.props.length
  let nVE := m.volEvents.length
  if choice < 0 then { b with g := gs, bad := true }
  else
    let c := choice.toNat
    if c < nR then { b with x := addCol b.x (colOf m.U c), g := gs }
    else if c < nR + nVE then
      let vol := (m.volEvents.getD (c - nR) default).apply b.x b.p b.vol b.t
      { b with vol := vol, g := gs, raised := decide (vol ≤ 0) }
    else if c < nR + nVE + m.nDivEvents then
      { b with g := gs, divided := ((c - nR - nVE + m.divRules.length : Nat) : Int), stop := true }
    else
      { b with g := gs, dead := ((c - nR - nVE - m.nDivEvents + m.deathRules.length : Nat) : Int), stop := true }

/-- one pass through the `while current_index < num_timepoints` loop of `SimulateSingleCell`. -/
def cellIter (g : Gen σ α) (m : CellModel α) (times : List α) (dt final t0 v0 : α) (s : CellLoop σ α) : CellLoop σ α :=
  let pre := cellPre g m dt t0 v0 s
  if pre.dead ≥ 0 ∧ pre.dv ≥ 0 then
    { s with x := pre.x, p := pre.p, g := pre.g, dead := pre.dead, divided := -1, stop := true }
  else if pre.dead ≥ 0 ∨ pre.dv ≥ 0 then
    { s with x := pre.x, p := pre.p, g := pre.g, dead := pre.dead, divided := pre.dv, stop := true }
  else
    let tm := cellTiming g m dt final s pre
    let b := cellRecorded times s pre tm
    if tm.toQ then cellVolStep g m dt b else cellEventStep g m tm.a tm.Lambda b

def CellLoop.running (s : CellLoop σ α) (n : Nat) : Bool :=
  decide (s.idx < n) && !s.stop && !s.raised && !s.bad

def runCell (iter : CellLoop σ α → CellLoop σ α) (n : Nat) : Nat → CellLoop σ α → Option (CellLoop σ α)
  | 0, s => if s.running n then none else some s
  | fuel + 1, s => if s.running n then runCell iter n fuel (iter s) else some s

/-- after the loop: when the cell divided or died the current state is pushed to the next row when the
event fell before that row's time **or when no row has been written yet**, and the arrays are cut there. -/
def cellPush (times : List α) (s : CellLoop σ α) : CellLoop σ α :=
  if s.idx = 0 ∨ s.t < times.getD s.idx 0 then
    { s with results := s.results.set s.idx (s.x, s.vol), idx := s.idx + 1 }
  else s

def cellFinish (times : List α) (s : CellLoop σ α) : CellLoop σ α × Nat :=
  if s.divided ≥ 0 ∨ s.dead ≥ 0 then
    (cellPush times s, if (cellPush times s).idx = 0 then 1 else min (cellPush times s).idx times.length)
  else (s, times.length)

/-- the loop state `SimulateSingleCell` starts from: result arrays allocated (zeros), nothing written. -/
def cellInit (m : CellModel α) (p0 times : List α) (v : Cell α) (gs : σ) : CellLoop σ α :=
  { x := v.state, p := p0, vol := v.vol, t := v.time, idx := 0, nextQ := times.getD 1 0, ruleStep := true,
    results := List.replicate times.length (List.replicate m.nSpecies 0, 0), g := gs, divided := -1, dead := -1,
    stop := false, raised := false, bad := false }

/-- `SimulateSingleCell(v, timepoints, mode = 1)` for grids of at least two points. -/
def simulateCell (g : Gen σ α) (m : CellModel α) (p0 : List α) (times : List α) (v : Cell α) (fuel : Nat) (gs : σ) :
    CellResult α × List α × σ :=
  let n := times.length
  let dt := times.getD 1 0 - times.getD 0 0
  let final := times.getD (n - 1) 0
  if times.getD 0 0 > final ∨ v.vol ≤ 0 then
    ({ times := [], rows := [], vols := [], divided := -1, dead := -1, raised := true, bad := false }, p0, gs)
  else
    match runCell (cellIter g m times dt final v.t0 v.v0) n fuel (cellInit m p0 times v gs) with
    | none => ({ times := [], rows := [], vols := [], divided := -1, dead := -1, raised := false, bad := true }, p0, gs)
    | some s =>
      let (s, len) := cellFinish times s
      ({ times := times.take len, rows := (s.results.take len).map (·.1), vols := (s.results.take len).map (·.2),
         divided := s.divided, dead := s.dead, raised := s.raised, bad := s.bad }, s.p, s.g)

/-- `SingleCellSSAResult.get_final_cell_state`. -/
def CellResult.finalCell (r : CellResult α) : Cell α :=
  let k := r.times.length - 1
  { state := r.rows.getD k [], vol := r.vols.getD k 0, time := r.times.getD k 0,
    v0 := r.vols.getD 0 0, t0 := r.times.getD 0 0, divided := r.divided, dead := r.dead }

/-- `truncate_timepoints_less_than(array, value)`. -/
def truncateLess (times : List α) (value : α) : List α := times.dropWhile (fun t => decide (t < value))

end

/-! ### The lineage work list -/

/-- a `Schnitz` in the `Lineage`, by position. -/
structure Node (ρ : Type) where
  result : ρ
  parent : Option Nat
  daughters : Option (Nat × Nat)

structure Forest (κ ρ : Type) where
  nodes : List (Node ρ)                 -- `lineage.schnitzes`
  queue : List (κ × Nat)                -- `old_cell_states` zipped with `old_schnitzes` (positions in `nodes`)
  pos : Nat                             -- `list_index`

/-- what the work list does with a queued final cell state. -/
inductive Fate | done | dead | divide | tooFast | unreachable
  deriving DecidableEq, Repr

/-- one turn of `while list_index < len(old_cell_states)`; `sim` runs one cell from the daughter state on
the grid cut at the mother's last time and returns the result, its final cell state and whether that state is kept in
the queue (`d.get_time() < final_time + 1E-12`); `split` partitions. The threaded `γ` carries whatever
changes between calls (random stream, parameters). -/
def forestStep {κ ρ γ : Type} (fate : κ → Fate) (split : κ → γ → (κ × κ) × γ)
    (sim : κ → κ → γ → (ρ × κ × Bool) × γ) (f : Forest κ ρ) (c : γ) : Option (Forest κ ρ × γ) :=
  match f.queue[f.pos]? with
  | none => none
  | some (cs, sid) =>
    match fate cs with
    | .divide =>
      let ((d1, d2), c) := split cs c
      let ((r1, f1, keep1), c) := sim cs d1 c
      let ((r2, f2, keep2), c) := sim cs d2 c
      let i1 := f.nodes.length
      let i2 := i1 + 1
      let queue := f.queue ++ ((if keep1 then [(f1, i1)] else []) ++ (if keep2 then [(f2, i2)] else []))
      let nodes := (f.nodes.modify sid (fun nd => { nd with daughters := some (i1, i2) })) ++
        [{ result := r1, parent := some sid, daughters := none }, { result := r2, parent := some sid, daughters := none }]
      some ({ nodes := nodes, queue := queue, pos := f.pos + 1 }, c)
    | _ => some ({ f with pos := f.pos + 1 }, c)

/-- `simulate_cell_list`: the initial cells, each a root. -/
def forestInit {κ ρ γ : Type} (sim0 : κ → γ → (ρ × κ) × γ) (cells : List κ) (c : γ) : Forest κ ρ × γ :=
  cells.foldl (fun (acc : Forest κ ρ × γ) v =>
    let ((r, fin), c) := sim0 v acc.2
    ({ nodes := acc.1.nodes ++ [{ result := r, parent := none, daughters := none }],
       queue := acc.1.queue ++ [(fin, acc.1.nodes.length)], pos := 0 }, c)) ({ nodes := [], queue := [], pos := 0 }, c)

def forestRun {κ ρ γ : Type} (fate : κ → Fate) (split : κ → γ → (κ × κ) × γ)
    (sim : κ → κ → γ → (ρ × κ × Bool) × γ) : Nat → Forest κ ρ → γ → Option (Forest κ ρ × γ)
  | 0, f, c => if f.pos < f.queue.length then none else some (f, c)
  | fuel + 1, f, c =>
    match forestStep fate split sim f c with
    | none => some (f, c)
    | some (f, c) => forestRun fate split sim fuel f c

/-! ### `SimulateCellLineage` with the concrete cell simulator and splitters -/

/-- a `LineageVolumeSplitter` (without custom partition functions). -/
structure Splitter (α : Type) where
  vs : VolSplit
  noise : α
  perfect : List Nat
  binomial : List Nat
  deriving Inhabited

/-- what is threaded through a lineage simulation: the random stream, the interface's parameter array
(rules may write to it, and it is shared by all cells) and whether an exception ended the run. -/
structure Thread (σ α : Type) where
  g : σ
  p : List α
  raised : Bool
  bad : Bool

section
variable {σ α : Type} [Zero α] [One α] [Add α] [Sub α] [Mul α] [Div α] [Neg α] [NatCast α] [IntCast α]
  [LT α] [LE α] [DecidableLT α] [DecidableLE α] [Transc α] [Trunc α]

/-- `interface.partition(divided, cs)`: the splitter of the division rule or event that fired; the
daughters are born at the mother's time with their share of the volume as birth volume. -/
def splitCell (g : Gen σ α) (eps8 : α) (ruleSplitters eventSplitters : List (Splitter α)) (cs : Cell α)
    (c : Thread σ α) : (Cell α × Cell α) × Thread σ α :=
  let ind := cs.divided.toNat
  let sp := if ind < ruleSplitters.length then ruleSplitters.getD ind ⟨.binomial, 0, [], []⟩
            else eventSplitters.getD (ind - ruleSplitters.length) ⟨.binomial, 0, [], []⟩
  let (d, gs) := partitionLineage g sp.vs sp.noise eps8 sp.perfect sp.binomial cs.state cs.vol c.g
  (({ state := d.dState, vol := d.dVol, time := cs.time, v0 := d.dVol, t0 := cs.time, divided := -1, dead := -1 },
    { state := d.eState, vol := d.eVol, time := cs.time, v0 := d.eVol, t0 := cs.time, divided := -1, dead := -1 }),
   { c with g := gs })

def fateOf (final eps : α) (cs : Cell α) : Fate :=
  if cs.time ≥ final - eps then .done
  else if cs.dead ≥ 0 then .dead
  else if cs.divided ≥ 0 then (if feq cs.t0 cs.time then .tooFast else .divide)
  else .unreachable

def simOne (g : Gen σ α) (m : CellModel α) (times : List α) (fuel : Nat) (v : Cell α) (c : Thread σ α) :
    (CellResult α × Cell α) × Thread σ α :=
  if c.raised ∨ c.bad then ((⟨[], [], [], -1, -1, c.raised, c.bad⟩, ⟨[], 0, 0, 0, 0, -1, -1⟩), c)
  else
    let (r, p, gs) := simulateCell g m c.p times v fuel c.g
    ((r, r.finalCell), { g := gs, p := p, raised := r.raised, bad := r.bad })

/-- `simulate_daughter_cells` for one daughter: simulated on the grid cut at the mother's last time; its final
state stays in the queue unless it went over the final time. -/
def simDaughter (g : Gen σ α) (m : CellModel α) (eps12 : α) (times : List α) (cellFuel : Nat) (cs d : Cell α)
    (c : Thread σ α) : (CellResult α × Cell α × Bool) × Thread σ α :=
  let out := simOne g m (truncateLess times cs.time) cellFuel d c
  ((out.1.1, out.1.2, decide (out.1.2.time < times.getD (times.length - 1) 0 + eps12)), out.2)

/-- `py_SimulateCellLineage`. -/
def simulateLineage (g : Gen σ α) (m : CellModel α) (eps8 eps12 : α) (ruleSplitters eventSplitters : List (Splitter α))
    (times : List α) (cells : List (Cell α)) (p0 : List α) (fuel cellFuel : Nat) (gs : σ) :
    Option (Forest (Cell α) (CellResult α) × Thread σ α) :=
  let final := times.getD (times.length - 1) 0
  let (f0, c0) := forestInit (simOne g m times cellFuel) cells { g := gs, p := p0, raised := false, bad := false }
  forestRun (fateOf final m.eps) (splitCell g eps8 ruleSplitters eventSplitters)
    (simDaughter g m eps12 times cellFuel) fuel f0 c0

end
end Bioscrape
