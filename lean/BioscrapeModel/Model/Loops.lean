import BioscrapeModel.Model.Network
import BioscrapeModel.Model.Rules
import BioscrapeModel.Model.DelayQueue

/-
The stochastic simulation loops of `bioscrape/simulator.pyx`:
`SSASimulator.simulate` (1587-1657), `DelaySSASimulator.delay_simulate` (1682-1794),
`VolumeSSASimulator.volume_simulate` (1819-1932),
`DelayVolumeSSASimulator.delay_volume_simulate` (1958-2100), the delay types
(`types.pyx` 1004-1076) and the volume models (`types.pyx` 1287-1497).

One loop iteration is a function `LoopState → LoopState`; `run` iterates it with fuel
(a simulation may fire unboundedly often before the next grid point).  Every flag of
the implementation (`reaction_fired`, `rule_step`, `move_to_queued_time`, `step_type`)
is kept.  The state carries a ghost log the implementation does not have.
-/

namespace Bioscrape

inductive DelayKind (α : Type) where
  | none
  | fixed (delay : Nat)
  | gaussian (mean std : Nat)
  | gamma (k theta : Nat)
  deriving Inhabited

inductive VolModel (α : Type) where
  | const                                                   -- base `Volume`: no growth, never divides
  | timeThreshold (growthRate divisionTime : α)             -- `StochasticTimeThresholdVolume`
  | stateDep (growth : Term α) (divisionVolume : α)         -- `StateDependentVolume`
  deriving Inhabited

/-- what the simulation interface exposes to a simulator. -/
structure SimModel (α : Type) where
  nSpecies : Nat
  props  : List (Propensity α)
  U      : List (List Int)        -- `update_array` (columns)
  D      : List (List Int)        -- `delay_update_array` (columns)
  R      : List (List Nat)        -- reactant multiplicities per reaction (immediate + delayed), columns
  rules  : List (Rule α)
  delays : List (DelayKind α)
  safe   : Bool                   -- `SafeModelCSimInterface`
  dt     : α                      -- interface `dt`
  t0     : α                      -- interface initial time
  twoPi  : α                      -- the constant `2*3.14159…` of `normal_rv`

/-- ghost events. -/
inductive Event (α : Type) where
  | fire (j : Nat) (t : α) (delay : α) (queued : Bool)
  | deliver (t : α) (amounts : List α)
  | tick (t : α)
  | rules (t : α) (ruleStep : Bool)
  | wait (u : α)
  | choose (u : α)

structure LoopState (σ α : Type) where
  x : List α
  p : List α
  t : α
  idx : Nat
  ruleStep : Bool
  rows : List (List α)
  g : σ
  bad : Bool                -- `sample_discrete` returned -1 (uniform exactly 0) or the gamma loop ran out of fuel
  vol : α
  volTrace : List α
  nextTick : α              -- `next_queue_time` of the volume loop / `next_vol_time`
  q : DQ α
  divided : Bool
  stop : Bool               -- `break` taken
  log : List (Event α)      -- newest first

section
variable {σ α : Type} [Zero α] [One α] [Add α] [Sub α] [Mul α] [Div α] [Neg α] [NatCast α] [IntCast α]
  [LT α] [LE α] [DecidableLT α] [DecidableLE α] [Transc α] [Trunc α]

def colOf (S : List (List Int)) (j : Nat) : List α := (S.getD j []).map (fun (v : Int) => (v : α))

/-- `for s: state[s] += stoich[s, j]`. -/
def addCol (x : List α) (col : List α) : List α := List.zipWith (· + ·) x col

/-- `for s: state[s] += amount * stoich[s, j]`. -/
def addScaledCol (x : List α) (amount : α) (col : List α) : List α :=
  List.zipWith (fun xi c => xi + amount * c) x col

/-- the interface's `compute_stochastic_propensities` / `…_volume_propensities`. -/
def SimModel.propensities (m : SimModel α) (mode : Mode) (x p : List α) (V t : α) : List α :=
  if m.safe then computePropensitiesSafe mode m.nSpecies m.U m.D m.R m.props (vecGet x) (vecGet p) V t
  else computePropensities mode m.props (vecGet x) (vecGet p) V t

/-- number of leading grid times `≤ t`: the `while … c_timepoints[current_index] <= current_time`
recording loop writes that many rows. -/
def recordCount (t : α) : List α → Nat
  | [] => 0
  | T :: rest => if T ≤ t then recordCount t rest + 1 else 0

def replicateRow (k : Nat) (x : List α) : List (List α) := List.replicate k x

/-- `sim.compute_delay(state, reaction_choice)`; `none` only when the gamma rejection loop runs
out of model fuel. -/
def computeDelay (g : Gen σ α) (m : SimModel α) (p : List α) (j : Nat) (s : σ) : Option (α × σ) :=
  match m.delays.getD j .none with
  | .none => some (0, s)
  | .fixed d => some (vecGet p d, s)
  | .gaussian mu sd => some (normalRv g m.twoPi (vecGet p mu) (vecGet p sd) s)
  | .gamma k th => gammaRv g m.twoPi (vecGet p k) (vecGet p th) 10000 s

/-! ### SSASimulator.simulate -/

def ssaIter (g : Gen σ α) (m : SimModel α) (times : List α) (s : LoopState σ α) : LoopState σ α :=
  let (x, p) := applyRules m.rules s.x s.p 1 s.t m.dt s.ruleStep
  let a := m.propensities .stoch x p 1 s.t
  let Lambda := arraySum a
  let Tcur := times.getD s.idx 0
  -- sample the next reaction time
  let (proposed, fired, rstep, gs, log1) :=
    if feq Lambda 0 then (Tcur, false, true, s.g, s.log)
    else
      let (u, gs) := g s.g
      (s.t + (-1 / Lambda * Transc.log u), true, false, gs, Event.wait u :: s.log)
  -- go to the next reaction or the next time point, whichever is closer
  let (tNew, fired, rstep) :=
    if proposed > Tcur then (Tcur, false, true) else (proposed, fired, rstep)
  -- record rows for every grid time passed
  let k := recordCount tNew (times.drop s.idx)
  let rows := s.rows ++ replicateRow k x
  let idx := s.idx + k
  -- choose a reaction and update
  if Lambda > 0 ∧ fired then
    let (u, gs) := g gs
    let choice := sampleDiscreteFrom a (u * Lambda)
    if choice < 0 then
      { s with x := x, p := p, t := tNew, idx := idx, ruleStep := rstep, rows := rows, g := gs, bad := true,
               log := Event.choose u :: log1 }
    else
      let j := choice.toNat
      { s with x := addCol x (addCol (colOf m.U j) (colOf m.D j)), p := p, t := tNew, idx := idx,
               ruleStep := rstep, rows := rows, g := gs,
               log := Event.fire j tNew 0 false :: Event.choose u :: log1 }
  else
    { s with x := x, p := p, t := tNew, idx := idx, ruleStep := rstep, rows := rows, g := gs, log := log1 }

/-! ### DelaySSASimulator.delay_simulate -/

/-- the scheduling half of one delay-loop iteration: rules, propensities, the proposed reaction
time, and the decision between the next grid time, the next queue time and the reaction. -/
structure DelayDecision (σ α : Type) where
  x : List α
  p : List α
  a : List α
  Lambda : α
  tNew : α
  toQueue : Bool       -- `move_to_queued_time`
  fired : Bool         -- `reaction_fired`
  rstep : Bool         -- `rule_step` for the next iteration
  gs : σ
  log : List (Event α)

def delayDecide (g : Gen σ α) (m : SimModel α) (times : List α) (s : LoopState σ α) : DelayDecision σ α :=
  let xp := applyRules m.rules s.x s.p 1 s.t m.dt s.ruleStep
  let a := m.propensities .stoch xp.1 xp.2 1 s.t
  let Lambda := arraySum a
  let Tcur := times.getD s.idx 0
  -- `if Lambda == 0: proposed = T; fired = 0; rule_step = 1 else: proposed = t + Exp(Lambda); fired = 1; rule_step = 0`
  let zero := feq Lambda 0
  let ug := g s.g
  let proposed0 := if zero then Tcur else s.t + (-1 / Lambda * Transc.log ug.1)
  let gs := if zero then s.g else ug.2
  let log1 := if zero then s.log else Event.wait ug.1 :: s.log
  -- `if proposed > T: proposed = T; fired = 0; rule_step = 1`
  let capped := decide (proposed0 > Tcur)
  let proposed := if capped then Tcur else proposed0
  let fired := !zero && !capped
  let rstep := zero || capped
  -- `if next_queue_time < proposed: t = next_queue_time; move_to_queued_time = 1; fired = 0; rule_step = 0`
  let toQ := decide (s.q.next < proposed)
  { x := xp.1, p := xp.2, a := a, Lambda := Lambda,
    tNew := if toQ then s.q.next else proposed, toQueue := toQ,
    fired := if toQ then false else fired, rstep := if toQ then false else rstep, gs := gs, log := log1 }

/-- the acting half: record rows, then deliver the queue slot / fire the reaction / do nothing. -/
def delayApply (g : Gen σ α) (m : SimModel α) (times : List α) (s : LoopState σ α)
    (d : DelayDecision σ α) : LoopState σ α :=
  let k := recordCount d.tNew (times.drop s.idx)
  let rows := s.rows ++ replicateRow k d.x
  let idx := s.idx + k
  if d.toQueue then
    let amts := s.q.nextReactions
    let x := (List.range m.props.length).foldl
      (fun x r => addScaledCol x (amts.getD r 0) (colOf m.D r)) d.x
    { s with x := x, p := d.p, t := d.tNew, idx := idx, ruleStep := d.rstep, rows := rows, g := d.gs,
             q := s.q.advance, log := Event.deliver d.tNew amts :: d.log }
  else if d.fired then
    let ug := g d.gs
    let choice := sampleDiscreteFrom d.a (ug.1 * d.Lambda)
    if choice < 0 then
      { s with x := d.x, p := d.p, t := d.tNew, idx := idx, ruleStep := d.rstep, rows := rows, g := ug.2, bad := true,
               log := Event.choose ug.1 :: d.log }
    else
      let j := choice.toNat
      match computeDelay g m d.p j ug.2 with
      | none => { s with x := d.x, p := d.p, t := d.tNew, idx := idx, ruleStep := d.rstep, rows := rows, g := ug.2, bad := true }
      | some (delay, gs) =>
        let x := addCol d.x (colOf m.U j)
        if delay > 0 then
          { s with x := x, p := d.p, t := d.tNew, idx := idx, ruleStep := d.rstep, rows := rows, g := gs,
                   q := s.q.add (d.tNew + delay) j 1,
                   log := Event.fire j d.tNew delay true :: Event.choose ug.1 :: d.log }
        else
          { s with x := addCol x (colOf m.D j), p := d.p, t := d.tNew, idx := idx, ruleStep := d.rstep,
                   rows := rows, g := gs, log := Event.fire j d.tNew delay false :: Event.choose ug.1 :: d.log }
  else
    { s with x := d.x, p := d.p, t := d.tNew, idx := idx, ruleStep := d.rstep, rows := rows, g := d.gs, log := d.log }

def delayIter (g : Gen σ α) (m : SimModel α) (times : List α) (s : LoopState σ α) : LoopState σ α :=
  delayApply g m times s (delayDecide g m times s)

/-! ### Volume models -/

/-- `get_volume_step(state, params, time, volume, dt)`. -/
def VolModel.step (vm : VolModel α) (x p : List α) (t vol dt : α) : α :=
  match vm with
  | .const => 0
  | .timeThreshold gr _ => (Transc.exp (gr * dt) - 1) * vol
  | .stateDep growth _ => (Transc.exp (growth.eval (vecGet x) (vecGet p) t * dt) - 1) * vol

/-- `cell_divided(state, params, time, volume, dt)`. -/
def VolModel.divided (vm : VolModel α) (t vol dt : α) : Bool :=
  match vm with
  | .const => false
  | .timeThreshold _ divT => decide (divT > t - dt) && decide (divT ≤ t)
  | .stateDep _ divV => decide (vol > divV)

/-- `StochasticTimeThresholdVolume(cell_cycle_time, average_division_volume, division_noise)` followed by
`initialize(state, params, time, volume)`: growth rate `0.69314718056 / cycle`; the time left to division
`log(avg / volume) / growth_rate` is multiplied by one `normal_rv(1, noise)` draw. -/
def initTimeThreshold (g : Gen σ α) (twoPi ln2 cycle avg noise t0 vol0 : α) (s : σ) : VolModel α × σ :=
  let gr := ln2 / cycle
  let timeLeft := Transc.log (avg / vol0) / gr
  let (z, s) := normalRv g twoPi 1 noise s
  (.timeThreshold gr (t0 + z * timeLeft), s)

/-- `StateDependentVolume.setup(avg, noise, growth, model)` followed by `initialize`: the division volume
is `avg * normal_rv(1, noise)`. -/
def initStateDep (g : Gen σ α) (twoPi avg noise : α) (growth : Term α) (s : σ) : VolModel α × σ :=
  let (z, s) := normalRv g twoPi 1 noise s
  (.stateDep growth (avg * z), s)

/-! ### VolumeSSASimulator.volume_simulate -/

def volumeIter (g : Gen σ α) (m : SimModel α) (vm : VolModel α) (times : List α) (s : LoopState σ α) :
    LoopState σ α :=
  let (x, p) := applyRules m.rules s.x s.p s.vol s.t m.dt s.ruleStep
  let a := m.propensities .svol x p s.vol s.t
  let Lambda := arraySum a
  let Tcur := times.getD s.idx 0
  let (proposed, fired, rstep, toQ, gs, log1) :=
    if feq Lambda 0 then (Tcur, false, false, false, s.g, s.log)
    else
      let (u, gs) := g s.g
      (s.t + (-1 / Lambda * Transc.log u), true, false, false, gs, Event.wait u :: s.log)
  let (tNew, nextTick, toQ, fired, rstep) :=
    if s.nextTick < proposed then (s.nextTick, s.nextTick + m.dt, true, false, true)
    else (proposed, s.nextTick, toQ, fired, rstep)
  let k := recordCount tNew (times.drop s.idx)
  let rows := s.rows ++ replicateRow k x
  let volTrace := s.volTrace ++ List.replicate k s.vol
  let idx := s.idx + k
  if toQ then
    let vol := s.vol + vm.step x p tNew s.vol m.dt
    let dv := vm.divided tNew vol m.dt
    { s with x := x, p := p, t := tNew, idx := idx, ruleStep := rstep, rows := rows, volTrace := volTrace,
             g := gs, vol := vol, nextTick := nextTick, divided := dv, stop := dv,
             log := Event.tick tNew :: log1 }
  else if fired then
    let (u, gs) := g gs
    let choice := sampleDiscreteFrom a (u * Lambda)
    if choice < 0 then
      { s with x := x, p := p, t := tNew, idx := idx, ruleStep := rstep, rows := rows, volTrace := volTrace,
               g := gs, nextTick := nextTick, bad := true, log := Event.choose u :: log1 }
    else
      let j := choice.toNat
      { s with x := addCol x (addCol (colOf m.U j) (colOf m.D j)), p := p, t := tNew, idx := idx,
               ruleStep := rstep, rows := rows, volTrace := volTrace, g := gs, nextTick := nextTick,
               log := Event.fire j tNew 0 false :: Event.choose u :: log1 }
  else
    { s with x := x, p := p, t := tNew, idx := idx, ruleStep := rstep, rows := rows, volTrace := volTrace,
             g := gs, nextTick := nextTick, log := log1 }

/-! ### DelayVolumeSSASimulator.delay_volume_simulate -/

/-- the scheduling half of one delay+volume iteration: rules (they see the current volume), volume-scaled
propensities, the proposed reaction time, and the choice between the reaction (`step_type` 0, or 3 when no reaction can
fire: only move to the requested time), the next volume tick (1) and the next queue time (2). -/
structure DVDecision (σ α : Type) where
  x : List α
  p : List α
  a : List α
  Lambda : α
  tNew : α
  nextTick : α         -- `next_vol_time` after this iteration
  stepType : Nat
  rstep : Bool         -- `rule_step` for the next iteration: set by volume ticks only
  gs : σ
  log : List (Event α)

/-- rules, propensities and the proposed time of the next reaction (the requested time when nothing can fire). -/
structure DVProposal (σ α : Type) where
  x : List α
  p : List α
  a : List α
  Lambda : α
  proposed : α
  gs : σ
  log : List (Event α)

def dvPropose (g : Gen σ α) (m : SimModel α) (times : List α) (s : LoopState σ α) : DVProposal σ α :=
  let xp := applyRules m.rules s.x s.p s.vol s.t m.dt s.ruleStep
  let a := m.propensities .svol xp.1 xp.2 s.vol s.t
  let Lambda := arraySum a
  let Tcur := times.getD s.idx 0
  let zero := feq Lambda 0
  let ug := g s.g
  { x := xp.1, p := xp.2, a := a, Lambda := Lambda,
    proposed := if zero then Tcur else s.t + (-1 / Lambda * Transc.log ug.1),
    gs := if zero then s.g else ug.2,
    log := if zero then s.log else Event.wait ug.1 :: s.log }

def dvDecide (g : Gen σ α) (m : SimModel α) (times : List α) (s : LoopState σ α) : DVDecision σ α :=
  let pr := dvPropose g m times s
  let nextQ := s.q.next
  let react := decide (pr.proposed < s.nextTick ∧ pr.proposed < nextQ)
  let tick := !react && decide (s.nextTick < nextQ)
  { x := pr.x, p := pr.p, a := pr.a, Lambda := pr.Lambda,
    tNew := if react then pr.proposed else if tick then s.nextTick else nextQ,
    nextTick := if tick then s.nextTick + m.dt else s.nextTick,
    stepType := if react then (if pr.Lambda > 0 then 0 else 3) else if tick then 1 else 2,
    rstep := tick, gs := pr.gs, log := pr.log }

/-- the acting half: record rows and the volume trace, then fire / tick / deliver / do nothing. -/
def dvApply (g : Gen σ α) (m : SimModel α) (vm : VolModel α) (times : List α) (s : LoopState σ α)
    (d : DVDecision σ α) : LoopState σ α :=
  let k := recordCount d.tNew (times.drop s.idx)
  let rows := s.rows ++ replicateRow k d.x
  let volTrace := s.volTrace ++ List.replicate k s.vol
  let idx := s.idx + k
  if d.stepType = 0 then
    let ug := g d.gs
    let choice := sampleDiscreteFrom d.a (ug.1 * d.Lambda)
    if choice < 0 then
      { s with x := d.x, p := d.p, t := d.tNew, idx := idx, ruleStep := d.rstep, rows := rows, volTrace := volTrace,
               g := ug.2, nextTick := d.nextTick, bad := true, log := Event.choose ug.1 :: d.log }
    else
      let j := choice.toNat
      match computeDelay g m d.p j ug.2 with
      | none => { s with x := d.x, p := d.p, t := d.tNew, idx := idx, ruleStep := d.rstep, rows := rows,
                         volTrace := volTrace, g := ug.2, nextTick := d.nextTick, bad := true }
      | some (delay, gs) =>
        let x := addCol d.x (colOf m.U j)
        if delay > 0 then
          { s with x := x, p := d.p, t := d.tNew, idx := idx, ruleStep := d.rstep, rows := rows, volTrace := volTrace,
                   g := gs, nextTick := d.nextTick, q := s.q.add (d.tNew + delay) j 1,
                   log := Event.fire j d.tNew delay true :: Event.choose ug.1 :: d.log }
        else
          { s with x := addCol x (colOf m.D j), p := d.p, t := d.tNew, idx := idx, ruleStep := d.rstep, rows := rows,
                   volTrace := volTrace, g := gs, nextTick := d.nextTick,
                   log := Event.fire j d.tNew delay false :: Event.choose ug.1 :: d.log }
  else if d.stepType = 1 then
    let vol := s.vol + vm.step d.x d.p d.tNew s.vol m.dt
    let dv := vm.divided d.tNew vol m.dt
    { s with x := d.x, p := d.p, t := d.tNew, idx := idx, ruleStep := d.rstep, rows := rows, volTrace := volTrace,
             g := d.gs, vol := vol, nextTick := d.nextTick, divided := dv, stop := dv,
             log := Event.tick d.tNew :: d.log }
  else if d.stepType = 2 then
    let amts := s.q.nextReactions
    let x := (List.range m.props.length).foldl
      (fun x r => addScaledCol x (amts.getD r 0) (colOf m.D r)) d.x
    { s with x := x, p := d.p, t := d.tNew, idx := idx, ruleStep := d.rstep, rows := rows, volTrace := volTrace,
             g := d.gs, nextTick := d.nextTick, q := s.q.advance, log := Event.deliver d.tNew amts :: d.log }
  else
    -- step_type 3: no reaction can fire, only move to the requested time point
    { s with x := d.x, p := d.p, t := d.tNew, idx := idx, ruleStep := d.rstep, rows := rows, volTrace := volTrace,
             g := d.gs, nextTick := d.nextTick, log := d.log }

def delayVolumeIter (g : Gen σ α) (m : SimModel α) (vm : VolModel α) (times : List α)
    (s : LoopState σ α) : LoopState σ α :=
  dvApply g m vm times s (dvDecide g m times s)

/-! ### Running a loop -/

/-- `while current_index < num_timepoints` (and no `break`), at most `fuel` iterations. -/
def runLoop (iter : LoopState σ α → LoopState σ α) (n : Nat) : Nat → LoopState σ α → Option (LoopState σ α)
  | 0, s => if s.idx < n ∧ ¬ s.stop ∧ ¬ s.bad then none else some s
  | fuel + 1, s =>
    if s.idx < n ∧ ¬ s.stop ∧ ¬ s.bad then runLoop iter n fuel (iter s) else some s

def initState (m : SimModel α) (x0 p0 : List α) (g0 : σ) (vol0 : α) (q0 : DQ α) : LoopState σ α :=
  { x := x0, p := p0, t := m.t0, idx := 0, ruleStep := true, rows := [], g := g0, bad := false,
    vol := vol0, volTrace := [], nextTick := m.dt + m.t0, q := q0, divided := false, stop := false,
    log := [] }

end
end Bioscrape
