import BioscrapeModel.Model.Network

/-
The bookkeeping of a `Model` object under incremental edits (`bioscrape/types.pyx`:
`_add_species` 1705-1720, `_add_param` 1951-1967, `set_parameter`/`create_parameter` 2007-2017,
`set_species` 2290-2302, `_param_dict_check` 2050-2068, `create_reaction` (mass action) 1849-1947,
`check_parameters`/`check_species` 2020-2044, `_initialize` 1644-1658) as a state machine.
-/

namespace Bioscrape

structure MState (α : Type) where
  species     : List String          -- index order (`species2index`)
  speciesVals : List α               -- `species_values` (`-1` = not yet set)
  params      : List String          -- index order (`params2index`)
  paramVals   : List (Option α)      -- `params_values` (`none` = NaN = no value)
  dummy       : Nat                  -- `_dummy_param_counter`
  initialized : Bool
  rxns        : List (RxnDef × String)   -- stoichiometric definition and the name of the rate parameter
  rules       : List (String × List String) := []   -- additive rules `dest = Σ srcs` (`rule_definitions`)
  deriving Inhabited

/-- a rate constant given as a parameter name or as a number. -/
inductive KArg (α : Type) where
  | name (s : String)
  | num (v : α)

inductive MOp (α : Type) where
  | addSpecies (s : String)
  | createParameter (name : String) (v : α)
  | setParameter (name : String) (v : α)
  | setSpecies (vals : List (String × α))
  | createMassAction (reactants products : List String) (k : KArg α)
  | createDelayed (reactants products : List String) (k : KArg α) (dProducts : List String) (delayParam : String)
  | createAdditiveRule (dest : String) (srcs : List String)
  | initialize

inductive MResult where
  | ok
  | error (what : String)
  deriving Repr, DecidableEq

section
variable {α : Type} [Zero α] [One α] [Neg α] [LT α] [DecidableLT α]

def MState.empty : MState α :=
  { species := [], speciesVals := [], params := [], paramVals := [], dummy := 0, initialized := false, rxns := [] }

/-- `_add_species`: `initialized = False`; a new non-empty name gets the next index and the value `-1`. -/
def MState.addSpecies (m : MState α) (s : String) : MState α :=
  if s ∈ m.species ∨ s = "" then { m with initialized := false }
  else { m with species := m.species ++ [s], speciesVals := m.speciesVals ++ [(-1 : α)], initialized := false }

/-- `_add_param`: error if the name is a species; a new name gets the next index and NaN. -/
def MState.addParam (m : MState α) (p : String) : Except String (MState α) :=
  if p ∈ m.species then .error "param_name is the same as the name of a species"
  else if p ∈ m.params then .ok { m with initialized := false }
  else .ok { m with params := m.params ++ [p], paramVals := m.paramVals ++ [none], initialized := false }

/-- `set_parameter`: adds the parameter when unknown, then writes the value (`initialized` is cleared
only when the parameter had to be added). -/
def MState.setParameter (m : MState α) (p : String) (v : α) : Except String (MState α) := do
  let m ← if p ∈ m.params then pure m else m.addParam p
  pure { m with paramVals := m.paramVals.set (m.params.idxOf p) (some v) }

/-- `create_parameter = _add_param; set_parameter`. -/
def MState.createParameter (m : MState α) (p : String) (v : α) : Except String (MState α) := do
  let m ← m.addParam p
  m.setParameter p v

/-- `set_species`: known names are written, unknown names only warn. -/
def MState.setSpecies (m : MState α) (vals : List (String × α)) : MState α :=
  vals.foldl (fun m sv =>
    if sv.1 ∈ m.species then { m with speciesVals := m.speciesVals.set (m.species.idxOf sv.1) sv.2 } else m) m

/-- the propensity class chosen for a mass-action reaction, as used in dummy parameter names. -/
def massActionClass (reactants : List String) : String :=
  match (reactants.filter (· ≠ "")).length with
  | 0 => "ConstitutivePropensity"
  | 1 => "UnimolecularPropensity"
  | 2 => "BimolecularPropensity"
  | _ => "MassActionPropensity"

/-- `_param_dict_check` for the key `k`: a numeric value becomes the dummy parameter
`DummyVar_<class>_k_<counter>` (error if it already exists) and the counter is incremented. -/
def MState.resolveK (m : MState α) (reactants : List String) (k : KArg α) : Except String (MState α × String) :=
  match k with
  | .name s => .ok (m, s)
  | .num v =>
    let nm := "DummyVar_" ++ massActionClass reactants ++ "_k_" ++ toString m.dummy
    if nm ∈ m.params then .error "Trying to create a dummy parameter that already exists"
    else do
      let m ← m.addParam nm
      let m ← m.setParameter nm v
      pure ({ m with dummy := m.dummy + 1 }, nm)

/-- `create_reaction(reactants, products, 'massaction', {'k': …})`. -/
def MState.createMassAction (m : MState α) (reactants products : List String) (k : KArg α) : Except String (MState α) := do
  let m := addAllSpecies (addAllSpecies { m with initialized := false } reactants) products
  let (m, kname) ← m.resolveK reactants k
  -- `_add_reaction`: the propensity's parameters are added
  let m ← m.addParam kname
  pure { m with rxns := m.rxns ++ [({ reactants := reactants, products := products }, kname)], initialized := false }
where
  addAllSpecies (m : MState α) (ss : List String) : MState α := ss.foldl MState.addSpecies m

/-- `create_reaction(reactants, products, 'massaction', {'k': …}, delay_type='fixed', delay_products=dp,
delay_param_dict={'delay': <name>})`: the delayed products are added as species after the propensity's parameters
were checked, and the delay's parameter after the propensity's. -/
def MState.createDelayed (m : MState α) (reactants products : List String) (k : KArg α) (dProducts : List String)
    (delayParam : String) : Except String (MState α) := do
  let m := MState.createMassAction.addAllSpecies (MState.createMassAction.addAllSpecies { m with initialized := false } reactants) products
  let (m, kname) ← m.resolveK reactants k
  let m := MState.createMassAction.addAllSpecies m dProducts
  let m ← m.addParam kname
  let m ← m.addParam delayParam
  pure { m with rxns := m.rxns ++ [({ reactants := reactants, products := products, dProducts := dProducts }, kname)],
                initialized := false }

/-- `create_rule('additive', {'equation': 'dest = s1 + s2 + …'})`: `initialized = False` first; no species is added
(the rule object's `initialize` raises `KeyError` for a name that is not a species); the rule is appended. -/
def MState.createAdditiveRule (m : MState α) (dest : String) (srcs : List String) : Except String (MState α) :=
  if dest ∈ m.species ∧ srcs.all (· ∈ m.species) then
    .ok { m with rules := m.rules ++ [(dest, srcs)], initialized := false }
  else .error "KeyError: a name in the rule is not a species"

/-- `_initialize`: `check_parameters` (error when some parameter has no value), `check_species`
(unset species default to 0), `initialized = True`. -/
def MState.initialize (m : MState α) : Except String (MState α) :=
  match (m.params.zip m.paramVals).find? (fun pv => pv.2.isNone) with
  | some pv => .error ("Unspecified Parameters: " ++ pv.1)
  | none =>
    .ok { m with speciesVals := m.speciesVals.map (fun v => if feq' v (-1) then 0 else v), initialized := true }
where
  feq' (a b : α) : Bool := decide (¬ a < b) && decide (¬ b < a)

def MState.step (m : MState α) : MOp α → Except String (MState α)
  | .addSpecies s => .ok (m.addSpecies s)
  | .createParameter p v => m.createParameter p v
  | .setParameter p v => m.setParameter p v
  | .setSpecies vals => .ok (m.setSpecies vals)
  | .createMassAction r p k => m.createMassAction r p k
  | .createDelayed r p k dp tau => m.createDelayed r p k dp tau
  | .createAdditiveRule d ss => m.createAdditiveRule d ss
  | .initialize => m.initialize

/-- a history: an operation that raises leaves the model as it was (the Python call has no effect
that we observe after the exception for these operations, except `initialized`, which edits clear
first). -/
def MState.run (m : MState α) (ops : List (MOp α)) : MState α × List MResult :=
  ops.foldl (fun (acc : MState α × List MResult) op =>
    match acc.1.step op with
    | .ok m' => (m', acc.2 ++ [.ok])
    | .error e => (acc.1, acc.2 ++ [.error e])) (m, [])

end
end Bioscrape
