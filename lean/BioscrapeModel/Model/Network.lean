import BioscrapeModel.Model.Propensity

/-
Reaction lists, species indexing, stoichiometric matrices and the net rate
equations (`Model.create_reaction`, `_add_species`,
`_create_stochiometric_matrices`: types.pyx 1705-1720, 1849-1947, 2071-2089;
`CSimInterface.prep_deterministic_simulation`,
`calculate_deterministic_derivative`: simulator.pyx 371-407; plain and safe
`compute_*propensities`: simulator.pyx 449-467, 515-595).
-/

namespace Bioscrape

/-- The stoichiometric part of one reaction as written by the user: names with
repeats; the delayed lists are empty for a reaction without delayed part. -/
structure RxnDef where
  reactants  : List String
  products   : List String
  dReactants : List String := []
  dProducts  : List String := []
  deriving Repr, Inhabited

/-- `Model._add_species`: a new name gets the next index; `''` is ignored. -/
def addSpecies (idx : List String) (s : String) : List String :=
  if s ∈ idx ∨ s = "" then idx else idx ++ [s]

def addAll (idx : List String) (ss : List String) : List String := ss.foldl addSpecies idx

/-- Species order of a model built by `Model(species=decl, reactions=rxns,
initial_condition_dict=ic)`: declared species first, then every reaction's
reactants, products, delayed reactants, delayed products in order of appearance,
then the keys of the initial-condition dictionary. -/
def speciesOrder (decl : List String) (rxns : List RxnDef) (ic : List String) : List String :=
  let idx := addAll [] decl
  let idx := rxns.foldl (fun idx r =>
    addAll (addAll (addAll (addAll idx r.reactants) r.products) r.dReactants) r.dProducts) idx
  addAll idx ic

/-- `reaction_update_dict`: insertion-ordered dictionary, `-1` per reactant then
`+1` per product. -/
def bump (d : List (String × Int)) (s : String) (δ : Int) : List (String × Int) :=
  match d with
  | [] => [(s, δ)]
  | (k, v) :: rest => if k = s then (k, v + δ) :: rest else (k, v) :: bump rest s δ

def updateDict (reactants products : List String) : List (String × Int) :=
  products.foldl (fun d s => bump d s 1) (reactants.foldl (fun d s => bump d s (-1)) [])

def dictGet (d : List (String × Int)) (s : String) : Int :=
  match d with
  | [] => 0
  | (k, v) :: rest => if k = s then v else dictGet rest s

/-- One column of `update_array`: for each species of the index (none of which is
`''`) the dictionary entry, `0` when absent. -/
def stoichColumn (idx : List String) (reactants products : List String) : List Int :=
  idx.map (dictGet (updateDict reactants products))

/-- `update_array` as a list of columns (one per reaction). -/
def stoichCols (idx : List String) (rxns : List RxnDef) : List (List Int) :=
  rxns.map (fun r => stoichColumn idx r.reactants r.products)

def delayStoichCols (idx : List String) (rxns : List RxnDef) : List (List Int) :=
  rxns.map (fun r => stoichColumn idx r.dReactants r.dProducts)

/-- reactant multiplicities (immediate and delayed) per reaction, as columns over the species index. -/
def reactantCols (idx : List String) (rxns : List RxnDef) : List (List Nat) :=
  rxns.map (fun r => idx.map (fun s => (r.reactants ++ r.dReactants).count s))

/-- entry `[s, r]` of a matrix given by columns. -/
def entry (cols : List (List Int)) (s r : Nat) : Int := (cols.getD r []).getD s 0

section
variable {α : Type} [Zero α] [One α] [Add α] [Sub α] [Mul α] [Div α] [NatCast α] [IntCast α]
  [LT α] [LE α] [DecidableLT α] [DecidableLE α] [Transc α]

/-- `calculate_deterministic_derivative` for species `s`: the compressed row
keeps the reactions `r` with `U[s,r] + D[s,r] ≠ 0`, in increasing `r`;
`dxdt[s] = 0; for j: dxdt[s] += prop[S_indices[s][j]] * S_values[s][j]`. -/
def derivRow (U D : List (List Int)) (rates : List α) (s : Nat) : α :=
  (List.range rates.length).foldl (fun acc r =>
    let v := entry U s r + entry D s r
    if v ≠ 0 then acc + rates.getD r 0 * (v : α) else acc) 0

/-- the four `compute_*_propensities` of the plain `ModelCSimInterface`. -/
inductive Mode | det | vol | stoch | svol
  deriving Repr, DecidableEq, Inhabited

def Propensity.evalMode (m : Mode) (x p : Nat → α) (V t : α) (q : Propensity α) : α :=
  match m with
  | .det => q.det x p t
  | .vol => q.vol x p V t
  | .stoch => q.stoch x p t
  | .svol => q.svol x p V t

def computePropensities (m : Mode) (props : List (Propensity α)) (x p : Nat → α) (V t : α) : List α :=
  props.map (Propensity.evalMode m x p V t)

/-- `calculate_deterministic_derivative` (plain interface). -/
def derivative (nSpecies : Nat) (U D : List (List Int)) (props : List (Propensity α))
    (x p : Nat → α) (t : α) : List α :=
  let rates := computePropensities .det props x p 1 t
  (List.range nSpecies).map (derivRow U D rates)

/-- reactant multiplicities of reaction `r` (immediate and delayed reactants together) per species
index, as `SafeModelCSimInterface.initialize_reaction_inputs` reads them off the model's reaction
definitions. -/
def needOf (R : List (List Nat)) (s r : Nat) : Nat := (R.getD r []).getD s 0

/-- `SafeModelCSimInterface.initialize_reaction_inputs`: for reaction `r` the species that are
consumed by the immediate or the delayed part *or are reactants (catalysts included)*, in species
order, each with the largest amount that could be consumed and never less than the number of
copies needed as reactants. -/
def safeInputs (nSpecies : Nat) (U D : List (List Int)) (R : List (List Nat)) (r : Nat) : List (Nat × Int) :=
  (List.range nSpecies).filterMap (fun s =>
    let u := entry U s r
    let d := entry D s r
    let need : Int := (needOf R s r : Nat)
    if u < 0 ∨ d < 0 ∨ need > 0 then
      let req := if u < 0 ∧ d < 0 then -(u + d) else -(min u d)
      some (s, if need > req then need else req)
    else none)

/-- the `while` scan of the safe interface's stochastic propensities:
zero as soon as one input species is below its requirement. -/
def safeBlocked (inputs : List (Nat × Int)) (x : Nat → α) : Bool :=
  inputs.any (fun si => x si.1 < (si.2 : α))

/-- `SafeModelCSimInterface.compute_stochastic(_volume)_propensities`: blocked
reactions read 0, negative values are clamped to 0 (with a warning). -/
def safeStochOne (m : Mode) (inputs : List (Nat × Int)) (x p : Nat → α) (V t : α)
    (q : Propensity α) : α :=
  if safeBlocked inputs x then 0
  else
    let a := q.evalMode m x p V t
    if a < 0 then 0 else a

/-- `SafeModelCSimInterface.compute_propensities` (deterministic form): the scan
tests `state <= 0 and requirement < 0`; requirements are positive, so nothing is
ever blocked and only the clamp of negative values remains. -/
def safeDetOne (inputs : List (Nat × Int)) (x p : Nat → α) (t : α) (q : Propensity α) : α :=
  if inputs.any (fun si => x si.1 ≤ 0 ∧ si.2 < 0) then 0
  else
    let a := q.det x p t
    if a < 0 then 0 else a

def computePropensitiesSafe (m : Mode) (nSpecies : Nat) (U D : List (List Int)) (R : List (List Nat))
    (props : List (Propensity α)) (x p : Nat → α) (V t : α) : List α :=
  (List.range props.length).zip props |>.map (fun rq =>
    let inputs := safeInputs nSpecies U D R rq.1
    match m with
    | .det => safeDetOne inputs x p t rq.2
    | .vol => rq.2.vol x p V t     -- not overridden by the safe interface
    | .stoch => safeStochOne .stoch inputs x p V t rq.2
    | .svol => safeStochOne .svol inputs x p V t rq.2)

/-- one species' row of `SafeModelCSimInterface.calculate_deterministic_derivative`: as `derivRow`, but a reaction that
consumes the species (`S_values[s][j] <= 0`) is left out while the species is at (or below) zero. -/
def derivRowSafe (U D : List (List Int)) (rates : List α) (xs : α) (s : Nat) : α :=
  (List.range rates.length).foldl (fun acc r =>
    let v := entry U s r + entry D s r
    if v ≠ 0 then (if v ≤ 0 ∧ xs ≤ 0 then acc else acc + rates.getD r 0 * (v : α)) else acc) 0

/-- `SafeModelCSimInterface.calculate_deterministic_derivative`: negative entries of the state are reset to zero, the
(safe, deterministic) propensities are computed, each species' row is summed with the guard, and a species at zero whose
sum is still negative raises (`none`). -/
def derivativeSafe (nSpecies : Nat) (U D : List (List Int)) (R : List (List Nat)) (props : List (Propensity α))
    (x p : Nat → α) (t : α) : Option (List α) :=
  let x' : Nat → α := fun s => if x s < 0 then 0 else x s
  let rates := computePropensitiesSafe .det nSpecies U D R props x' p 1 t
  let rows := (List.range nSpecies).map (fun s => derivRowSafe U D rates (x' s) s)
  if (List.range nSpecies).any (fun s => x' s ≤ 0 ∧ rows.getD s 0 < 0) then none else some rows

end
end Bioscrape
