/-
Numeric layer of the bioscrape model (DESIGN §1.1).

Model definitions are written once, polymorphic in the number type through the
standard notation classes plus the class `Transc` (the libm functions the Cython
code calls).  Instances: `Float` (driver; same libm as the implementation),
`Rat` (driver; exact where the operations are closed), and — in the proof
files only — any linearly ordered field / `ℝ`.

No Mathlib import here: the driver is compiled as a `lean_exe`.
-/

namespace Bioscrape

/-- The libm functions used by bioscrape's Cython code (`pow`, `exp`, `log`,
`fabs`, `sqrt`, `cos`).  They are *parameters* of the model: the theorems assume
only the laws listed in `Proofs/Laws.lean`, which are proved for `ℝ`. -/
class Transc (α : Type) where
  pow  : α → α → α
  exp  : α → α
  log  : α → α
  abs  : α → α
  sqrt : α → α
  cos  : α → α

instance : Transc Float where
  pow := Float.pow
  exp := Float.exp
  log := Float.log
  abs := Float.abs
  sqrt := Float.sqrt
  cos := Float.cos

instance : NatCast Float := ⟨Float.ofNat⟩
instance : IntCast Float := ⟨Float.ofInt⟩

/-- C's conversion `(int) x` of a double: truncation toward zero. -/
class Trunc (α : Type) where
  trunc : α → Int

instance : Trunc Float := ⟨fun x => x.toInt64.toInt⟩
instance : Trunc Rat := ⟨fun x => if x ≥ 0 then x.floor else x.ceil⟩

/-- Cython's `max(a, b)` on C doubles: `(b > a) ? b : a`. -/
@[inline] def cmax {α : Type} [LT α] [DecidableLT α] (a b : α) : α :=
  if b > a then b else a

/-- Cython's `min(a, b)` on C doubles: `(b < a) ? b : a`. -/
@[inline] def cmin {α : Type} [LT α] [DecidableLT α] (a b : α) : α :=
  if b < a then b else a

/-- `for i in range(n): acc = f acc i`. -/
def forRange {β : Type} (n : Nat) (f : β → Nat → β) (init : β) : β :=
  (List.range n).foldl f init

/-- Exact integer power by repeated multiplication (used by the `Rat` instance). -/
def npow {α : Type} [One α] [Mul α] (x : α) : Nat → α
  | 0 => 1
  | n+1 => npow x n * x

/-- `Rat` interpretation of the libm functions: only the closed cases are
meaningful (`pow` with an integer exponent, `abs`).  The driver never sends a
`Rat` job that needs the others; they return `0` and the harness's generator for
`Rat` jobs keeps inside the closed fragment (DESIGN §1.1). -/
instance : Transc Rat where
  pow x y :=
    if y.den = 1 then
      (if y.num ≥ 0 then npow x y.num.toNat else 1 / npow x (-y.num).toNat)
    else 0
  exp _ := 0
  log _ := 0
  abs x := if x < 0 then -x else x
  sqrt _ := 0
  cos _ := 0

end Bioscrape
