import BioscrapeModel.Generated.PickleTables

/-
Hand-kept pickling tables as data (`Generated/PickleTables.lean`, regenerated from the source on every
run) and what it means for them to be consistent.
-/

namespace Bioscrape.Pickle
open Bioscrape.Generated

/-- attributes deliberately not persisted, each with its reason (kept by hand in /verif). -/
def transient : List (String × String) :=
  [("Model", "txt_dict"),                 -- scratch text of the deprecated bioscrape-XML writer; never read after construction
   ("LineageModel", "txt_dict"),
   ("VolumeCellState", "volume_object")]  -- handle to the simulator's Volume model, re-attached by the simulator; not data

/-- the Python list a C vector of borrowed pointers mirrors. -/
def twin : String → String
  | "c_propensities" => "propensities"
  | "c_delays" => "delays"
  | "c_repeat_rules" => "repeat_rules"
  | "c_schnitzes" => "schnitzes"
  | "c_lineage_propensities" => "lineage_propensities"
  | "c_death_events" => "death_events"
  | "c_division_events" => "division_events"
  | "c_volume_events" => "volume_events"
  | "c_other_events" => "other_events"
  | "c_death_rules" => "death_rules"
  | "c_division_rules" => "division_rules"
  | "c_volume_rules" => "volume_rules"
  | other => other

def isDerived (a : String) : Bool := a.startsWith "c_"

def isTransient (t : PickleTable) (a : String) : Bool := transient.contains (t.cls, a)

/-- attributes that must survive a dump/restore. -/
def persistent (t : PickleTable) : List String :=
  t.declared.filter (fun a => !isDerived a && !isTransient t a)

/-- the consistency conditions, as one decidable check:
* every persistent attribute is stored by `__getstate__` and read back by `__setstate__` from the very
  position it was stored at (no drop, no swap, offsets of an inherited prefix/suffix right);
* `__setstate__` reads only positions that exist and only into the attribute stored there;
* every C vector is cleared and rebuilt from the position holding its Python twin;
* the slice handed to the base class's `__setstate__` matches the layout of the tuple. -/
def tablesOk (t : PickleTable) : Bool :=
  (persistent t).all (fun a =>
    match t.setstate.find? (fun e => e.1 == a) with
    | some e => t.getstate[e.2]? == some a
    | none => false)
  && t.setstate.all (fun e => t.getstate[e.2]? == some e.1)
  && (t.declared.filter isDerived).all (fun c =>
    t.cleared.contains c &&
    match t.rebuild.find? (fun e => e.1 == c) with
    | some e => t.getstate[e.2]? == some (twin c)
    | none => false)
  && t.superSliceOk

/-! ### generic dump / restore over a record of named fields -/

/-- an object: a value per attribute. -/
abbrev Obj (V : Type) := String → V

/-- `__getstate__`: the tuple of stored attributes. -/
def dump {V : Type} (t : PickleTable) (o : Obj V) : List V := t.getstate.map o

/-- `__setstate__` on a fresh object (`fresh` gives the values of attributes never written):
each written attribute gets the value at its position; a derived vector gets the value of the position
it is rebuilt from (its twin's list). -/
def restore {V : Type} (t : PickleTable) (fresh : Obj V) (st : List V) : Obj V := fun a =>
  match t.setstate.find? (fun e => e.1 == a) with
  | some e => (st[e.2]?).getD (fresh a)
  | none =>
    match t.rebuild.find? (fun e => e.1 == a) with
    | some e => (st[e.2]?).getD (fresh a)
    | none => fresh a

/-! ### classes pickled through `__reduce__ = (cls, args)`: unpickling calls `cls(*args)` -/

/-- which attribute a parameter of `__init__` is written to (kept by hand; validated at run time by constructing objects
with distinct values and reading every attribute back). -/
def initTarget : String → String
  | "v0" => "initial_volume"
  | "t0" => "initial_time"
  | p => p

/-- attributes not carried by the argument tuple, each with its reason. -/
def reduceTransient : List (String × String) :=
  [("LineageVolumeCellState", "volume_object"),   -- handle re-attached by the simulator
   ("LineageVolumeCellState", "delay_queue")]     -- never set by the lineage simulators (no delays there)

def reducePersistent (t : ReduceTable) : List String :=
  t.declared.filter (fun a => !(reduceTransient.contains (t.cls, a)))

/-- consistency of a `__reduce__` / `__init__` pair: as many arguments as parameters, position `i` carries the attribute
parameter `i` is written to, every persistent attribute is carried, and `__getstate__` (what the harness observes)
lists the same attributes. -/
def reduceOk (t : ReduceTable) : Bool :=
  t.reduceArgs.length == t.initParams.length
  && (t.initParams.zip t.reduceArgs).all (fun pa => initTarget pa.1 == pa.2)
  && (reducePersistent t).all (fun a => t.reduceArgs.contains a)
  && t.getstate == t.reduceArgs

def dumpReduce {V : Type} (t : ReduceTable) (o : Obj V) : List V := t.reduceArgs.map o

/-- `cls(*args)`: parameter `i` receives `args[i]` and is written to its target attribute; attributes no parameter is
written to keep their fresh value. -/
def construct {V : Type} (t : ReduceTable) (fresh : Obj V) (args : List V) : Obj V := fun a =>
  match (t.initParams.zip args).find? (fun pa => initTarget pa.1 == a) with
  | some pa => pa.2
  | none => fresh a

end Bioscrape.Pickle
