/-
The text of a kinetic law or rule formula between the SBML document and the importer, on the power fragment:
`bioscrape/sbmlutil.py` (`import_sbml_reactions`, `import_sbml_rules`) turns the document's MathML into text with libsbml's
`formulaToL3String` and hands that text to the expression parser (sympy: `^` is `**`, right-associative; libsbml's own
`parseL3Formula` reads it the same way).  The printer treats `^` as left-associative: it never parenthesises the base of a
power.  Printer and reader are modelled as executable functions on token lists; the check runs both against the real ones.
-/
namespace Bioscrape.PowText

inductive PowTree | atom (n : Nat) | pow (a b : PowTree)
  deriving DecidableEq, Repr

inductive PTok | id (n : Nat) | hat | lp | rp
  deriving DecidableEq, Repr

/-- the right operand as libsbml's `formulaToL3String` writes it: a power in parentheses. -/
def wrapIfPow (b : PowTree) (text : List PTok) : List PTok :=
  match b with
  | .atom _ => text
  | .pow _ _ => [.lp] ++ text ++ [.rp]

/-- `formulaToL3String` on the power fragment: the left operand is never parenthesised (the printer treats `^`
as left-associative), a right operand that is itself a power is. -/
def printL3 : PowTree → List PTok
  | .atom n => [.id n]
  | .pow a b => printL3 a ++ [.hat] ++ wrapIfPow b (printL3 b)

/-- the reader of that text (libsbml's `parseL3Formula`, sympy's `**`): `E := prim ('^' E)?`, `prim := id | '(' E ')'`
— `^` is right-associative. -/
def readE : Nat → List PTok → Option (PowTree × List PTok)
  | 0, _ => none
  | f + 1, ts =>
    let prim : Option (PowTree × List PTok) :=
      match ts with
      | .id n :: rest => some (.atom n, rest)
      | .lp :: rest =>
        match readE f rest with
        | some (e, .rp :: rest') => some (e, rest')
        | _ => none
      | _ => none
    match prim with
    | none => none
    | some (e, .hat :: rest') =>
      match readE f rest' with
      | some (r, rs) => some (.pow e r, rs)
      | none => none
    | some (e, rest) => some (e, rest)

def size : PowTree → Nat
  | .atom _ => 1
  | .pow a b => size a + size b + 1

/-- every left operand of a power is a plain identifier. -/
def leftAtomic : PowTree → Bool
  | .atom _ => true
  | .pow (.atom _) b => leftAtomic b
  | .pow (.pow _ _) _ => false

/-! ### What the reader returns for every tree -/

/-- the reader's view of `e` followed by `^ tl`: the left spine of `e` re-associated to the right. -/
def tailOf (tl : Option PowTree) (nb : PowTree) : PowTree :=
  match tl with
  | none => nb
  | some t => .pow nb t

def normAcc : PowTree → Option PowTree → PowTree
  | .atom n, none => .atom n
  | .atom n, some t => .pow (.atom n) t
  | .pow a b, tl => normAcc a (some (tailOf tl (normAcc b none)))

def readBack (e : PowTree) : PowTree := normAcc e none


end Bioscrape.PowText
