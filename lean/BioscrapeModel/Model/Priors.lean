import BioscrapeModel.Model.Num

/-
Built-in priors of `bioscrape/pid_interfaces.py` (`PIDInterface.check_prior` and the seven
`*_prior` methods).  `none` is "rejected" (the `np.inf` the code returns, which
`get_likelihood_function` turns into a posterior of −∞).  The values of the special functions
`Γ(α)` and `B(α, β)` (scipy.special) are inputs.
-/

namespace Bioscrape

inductive PriorSpec (α : Type) where
  | uniform (lb ub : α)
  | gaussian (mu sigma : α)
  | exponential (lam : α)
  | gamma (alpha beta gammaAlpha : α)          -- `gammaAlpha = scipy.special.gamma(alpha)`
  | beta (alpha beta betaAB : α)               -- `betaAB = scipy.special.beta(alpha, beta)`
  | logUniform (lb ub : α)
  | logGaussian (mu sigma : α)
  deriving Inhabited

section
variable {α : Type} [Zero α] [One α] [Add α] [Sub α] [Mul α] [Div α] [Neg α] [NatCast α]
  [LT α] [LE α] [DecidableLT α] [DecidableLE α] [Transc α]

/-- `prob = …; if prob < 0: return np.inf else: return np.log(prob)`. -/
def logOfProb (prob : α) : Option α := if prob < 0 then none else some (Transc.log prob)

def sq (x : α) : α := Transc.pow x ((2 : Nat) : α)

/-- the log-prior of one parameter value, `none` when rejected. -/
def logPrior (pi : α) : PriorSpec α → α → Option α
  | .uniform lb ub, x =>
      if x > ub ∨ x < lb then none else some (Transc.log (1 / (ub - lb)))
  | .gaussian mu sigma, x =>
      logOfProb (1 / (Transc.sqrt (((2 : Nat) : α) * pi) * sigma) * Transc.exp (-(1 / ((2 : Nat) : α)) * sq (x - mu) / sq sigma))
  | .exponential lam, x =>
      if x < 0 then none else logOfProb (lam * Transc.exp (-lam * x))
  | .gamma a b gammaA, x =>
      if x < 0 then none
      else logOfProb (Transc.pow b a / gammaA * Transc.pow x (a - 1) * Transc.exp (-1 * b * x))
  | .beta a b betaAB, x =>
      if x < 0 ∨ x > 1 then none
      else logOfProb (Transc.pow x (a - 1) * Transc.pow (1 - x) (b - 1) / betaAB)
  | .logUniform lb ub, x =>
      if x > ub ∨ x < lb then none
      else logOfProb (1 / (x * (Transc.log ub - Transc.log lb)))
  | .logGaussian mu sigma, x =>
      if x ≤ 0 then none
      else logOfProb (1 / (x * Transc.sqrt (((2 : Nat) : α) * pi) * sigma)
                        * Transc.exp (-(1 / ((2 : Nat) : α)) * sq (Transc.log x - mu) / sq sigma))

/-- one step of the loop of `check_prior`. -/
def priorStep (pi : α) (acc : Option α) (it : PriorSpec α × Bool × α) : Option α :=
  match acc with
  | none => none
  | some lp =>
    if it.2.1 = true ∧ it.2.2 < (0 : α) then none
    else match logPrior pi it.1 it.2.2 with
      | some l => some (lp + l)
      | none => none

/-- `check_prior(params_dict)`: `lp = 0.0; for each parameter: lp += log-prior`; a negative value under
the `positive` flag and any rejected value reject the whole vector. -/
def checkPrior (pi : α) (items : List (PriorSpec α × Bool × α)) : Option α :=
  items.foldl (priorStep pi) (some 0)

end
end Bioscrape
