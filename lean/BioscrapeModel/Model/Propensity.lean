import BioscrapeModel.Model.Term

/-
Built-in propensity types of `bioscrape/types.pyx` (lines 106-481, 913-935)
and the construction of a propensity from a reaction's reactant list
(`Model.create_reaction` / `create_propensity`, lines 1808-1828, 1893-1898;
`MassActionPropensity.initialize`, lines 441-466).

Indices are positions in the state / parameter vectors.
-/

namespace Bioscrape

inductive Propensity (α : Type) where
  | constitutive (k : Nat)
  | unimolecular (k s : Nat)
  | bimolecular  (k s1 s2 : Nat)
  | massAction   (k : Nat) (sp : List (Nat × Nat)) (numSpecies : Nat)
  | hillPos      (k K n s1 : Nat)
  | propHillPos  (k K n s1 d : Nat)
  | hillNeg      (k K n s1 : Nat)
  | propHillNeg  (k K n s1 d : Nat)
  | general      (t : Term α)
  deriving Inhabited

section
variable {α : Type} [Zero α] [One α] [Add α] [Sub α] [Mul α] [Div α] [NatCast α]
  [LT α] [LE α] [DecidableLT α] [DecidableLE α] [Transc α]

/-- `MassActionPropensity.get_propensity`:
`ans = k; for i: for j in range(sp_counts[i]): ans *= state[sp_inds[i]]`
(the pinned tree multiplied once per *distinct* species; repaired by the `fix:` commit
recorded in known_findings.jsonl). -/
def massActionDet (x : Nat → α) (k : α) (sp : List (Nat × Nat)) : α :=
  sp.foldl
    (fun ans ic => forRange ic.2 (fun a _ => a * x ic.1) ans) k

/-- `MassActionPropensity.get_stochastic_propensity`:
`ans = k; for i: for j in range(sp_counts[i]): ans *= max(state[sp_inds[i]] - j, 0)`. -/
def massActionStoch (x : Nat → α) (k : α) (sp : List (Nat × Nat)) : α :=
  sp.foldl
    (fun ans ic => forRange ic.2 (fun a j => a * cmax (x ic.1 - (j : α)) 0) ans) k

/-- `get_propensity(state, params, time)`. -/
def Propensity.det (x p : Nat → α) (t : α) : Propensity α → α
  | .constitutive k => p k
  | .unimolecular k s => p k * x s
  | .bimolecular k s1 s2 => p k * x s1 * x s2
  | .massAction k sp _ => massActionDet x (p k) sp
  | .hillPos k K n s1 =>
      p k * Transc.pow (x s1 / p K) (p n) / (1 + Transc.pow (x s1 / p K) (p n))
  | .propHillPos k K n s1 d =>
      p k * x d * Transc.pow (x s1 / p K) (p n) / (1 + Transc.pow (x s1 / p K) (p n))
  | .hillNeg k K n s1 => p k * 1 / (1 + Transc.pow (x s1 / p K) (p n))
  | .propHillNeg k K n s1 d => p k * x d * 1 / (1 + Transc.pow (x s1 / p K) (p n))
  | .general e => e.eval x p t

/-- `get_volume_propensity(state, params, volume, time)`. -/
def Propensity.vol (x p : Nat → α) (V t : α) : Propensity α → α
  | .constitutive k => p k * V
  | .unimolecular k s => p k * x s
  | .bimolecular k s1 s2 => p k * x s1 * x s2 / V
  | .massAction k sp n => massActionDet x (p k) sp / Transc.pow V ((n - 1 : Nat) : α)
  | .hillPos k K n s1 =>
      p k * Transc.pow (x s1 / V / p K) (p n) / (1 + Transc.pow (x s1 / V / p K) (p n))
  | .propHillPos k K n s1 d =>
      x d * p k * Transc.pow (x s1 / V / p K) (p n) / (1 + Transc.pow (x s1 / V / p K) (p n))
  | .hillNeg k K n s1 => p k * 1 / (1 + Transc.pow (x s1 / V / p K) (p n))
  | .propHillNeg k K n s1 d => x d * p k * 1 / (1 + Transc.pow (x s1 / V / p K) (p n))
  | .general e => e.volEval x p V t

/-- `get_stochastic_propensity`: the deterministic form unless overridden
(bimolecular with a repeated species, mass action). -/
def Propensity.stoch (x p : Nat → α) (t : α) : Propensity α → α
  | .bimolecular k s1 s2 =>
      if s1 ≠ s2 then p k * x s1 * x s2 else p k * x s1 * cmax (x s1 - 1) 0
  | .massAction k sp _ => massActionStoch x (p k) sp
  | q => q.det x p t

/-- `get_stochastic_volume_propensity`. -/
def Propensity.svol (x p : Nat → α) (V t : α) : Propensity α → α
  | .bimolecular k s1 s2 =>
      if s1 ≠ s2 then p k * x s1 * x s2 / V else p k * x s1 * cmax (x s1 - 1) 0 / V
  | .massAction k sp n => massActionStoch x (p k) sp / Transc.pow V ((n - 1 : Nat) : α)
  | q => q.vol x p V t

end

/-- One step of the loop in `MassActionPropensity.initialize`: a species seen for the
first time is appended with count 1 (`sp_inds.push_back`, `sp_counts.push_back(1)`),
a species seen before has its count incremented (`sp_counts[sp_ind] += 1`).  The two
parallel vectors `sp_inds`, `sp_counts` are kept as one list of pairs. -/
def bumpCount : List (Nat × Nat) → Nat → List (Nat × Nat)
  | [], s => [(s, 1)]
  | (i, c) :: rest, s => if i = s then (i, c + 1) :: rest else (i, c) :: bumpCount rest s

/-- `MassActionPropensity.initialize`: `sp_inds` (distinct species in first-seen
order) and `sp_counts`, built left to right over the reactant list. -/
def massActionInitLoop (rs : List Nat) : List (Nat × Nat) := rs.foldl bumpCount []

/-- `Model.create_reaction` + `create_propensity` for `propensity_type ==
'massaction'` without an explicit `species` string: the reactant list decides the
class (`ConstitutivePropensity`, `Unimolecular…`, `Bimolecular…`,
`MassActionPropensity`). -/
def createMassAction {α : Type} (k : Nat) (reactants : List Nat) : Propensity α :=
  match reactants with
  | [] => .constitutive k
  | [s] => .unimolecular k s
  | [s1, s2] => .bimolecular k s1 s2
  | rs =>
    let sp := massActionInitLoop rs
    .massAction k sp ((sp.map (·.2)).foldl (· + ·) 0)

end Bioscrape
