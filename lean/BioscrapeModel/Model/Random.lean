import BioscrapeModel.Model.Num

/-
`bioscrape/random.pyx`: the 64-bit Mersenne twister (`mt_seed`, `genrand64`) and the
samplers built on `uniform_rv`.

The samplers are written against an abstract source of uniforms
(`Gen σ α = σ → α × σ`): the driver instantiates it with the concrete twister
(`σ = MT`, `α = Float`), the theorems with an arbitrary stream `ℕ → α`
(`σ = ℕ`, the read position), so that a statement "for every stream" covers every
seed.
-/

namespace Bioscrape

/-! ### MT19937-64 -/

structure MT where
  mt  : Array UInt64
  mti : Nat
  deriving Inhabited

def MT.NN : Nat := 312
def MT.MM : Nat := 156
def MT.MATRIX_A : UInt64 := 0xB5026F5AA96619E9
def MT.UM : UInt64 := 0xFFFFFFFF80000000
def MT.LM : UInt64 := 0x7FFFFFFF

/-- `mt_seed(seed)`: every one of the 312 words and the index are overwritten. -/
def MT.seed (seed : UInt64) : MT :=
  let init : Array UInt64 := #[seed]
  let mt := (List.range (MT.NN - 1)).foldl (fun (a : Array UInt64) (i : Nat) =>
    let prev : UInt64 := a[i]!
    a.push ((6364136223846793005 : UInt64) * (prev ^^^ (prev >>> 62)) + (i + 1).toUInt64)) init
  { mt := mt, mti := MT.NN }

@[inline] def MT.mag (x : UInt64) : UInt64 := if x &&& 1 = 0 then 0 else MT.MATRIX_A

/-- the block regeneration of `genrand64` (`if mti >= NN`). -/
def MT.twist (a : Array UInt64) : Array UInt64 :=
  let a := (List.range (MT.NN - MT.MM)).foldl (fun (a : Array UInt64) i =>
    let x := (a[i]! &&& MT.UM) ||| (a[i+1]! &&& MT.LM)
    a.set! i (a[i + MT.MM]! ^^^ (x >>> 1) ^^^ MT.mag x)) a
  let a := (List.range (MT.MM - 1)).foldl (fun (a : Array UInt64) k =>
    let i := k + (MT.NN - MT.MM)
    let x := (a[i]! &&& MT.UM) ||| (a[i+1]! &&& MT.LM)
    a.set! i (a[i - (MT.NN - MT.MM)]! ^^^ (x >>> 1) ^^^ MT.mag x)) a
  let x := (a[MT.NN - 1]! &&& MT.UM) ||| (a[0]! &&& MT.LM)
  a.set! (MT.NN - 1) (a[MT.MM - 1]! ^^^ (x >>> 1) ^^^ MT.mag x)

/-- `genrand64()`. -/
def MT.next (s : MT) : UInt64 × MT :=
  let s := if s.mti ≥ MT.NN then { mt := MT.twist s.mt, mti := 0 } else s
  let x := s.mt[s.mti]!
  let x := x ^^^ ((x >>> 29) &&& 0x5555555555555555)
  let x := x ^^^ ((x <<< 17) &&& 0x71D67FFFEDA60000)
  let x := x ^^^ ((x <<< 37) &&& 0xFFF7EEE000000000)
  let x := x ^^^ (x >>> 43)
  (x, { s with mti := s.mti + 1 })

/-- `uniform_rv()`: `(genrand64() >> 11) * (1.0/9007199254740991.0)`. -/
def MT.uniform (s : MT) : Float × MT :=
  let (x, s) := s.next
  ((x >>> 11).toFloat * (1.0 / 9007199254740991.0), s)

/-! ### Samplers over an abstract uniform source -/

/-- a source of uniforms with state `σ`. -/
abbrev Gen (σ α : Type) := σ → α × σ

section
variable {σ α : Type} [Zero α] [One α] [Add α] [Sub α] [Mul α] [Div α] [Neg α] [NatCast α]
  [LT α] [LE α] [DecidableLT α] [DecidableLE α] [Transc α]

/-- `exponential_rv(Lambda) = -1.0/Lambda * log(uniform_rv())`. -/
def exponentialRv (g : Gen σ α) (Lambda : α) (s : σ) : α × σ :=
  let (u, s) := g s
  (-1 / Lambda * Transc.log u, s)

/-- `normal_rv(mean, std)`: Box–Muller, cosine branch only (no cached variate). -/
def normalRv (g : Gen σ α) (twoPi : α) (mean std : α) (s : σ) : α × σ :=
  let (u, s) := g s
  let (v, s) := g s
  let R := Transc.sqrt (-((2 : Nat) : α) * Transc.log u)
  let theta := twoPi * v
  (R * Transc.cos theta * std + mean, s)

/-- `gamma_rv(k, theta)`: Marsaglia–Tsang with `d = k - 1/3`; the rejection loop is bounded
by `fuel` in the model (`none` = out of fuel; never a default value). -/
def gammaRv (g : Gen σ α) (twoPi : α) (k theta : α) (fuel : Nat) (s : σ) : Option (α × σ) :=
  let d := k - 1 / ((3 : Nat) : α)
  let c := 1 / Transc.sqrt (((9 : Nat) : α) * d)
  let rec loop (fuel : Nat) (s : σ) : Option (α × σ) :=
    match fuel with
    | 0 => none
    | fuel + 1 =>
      let (x, s) := normalRv g twoPi 0 1 s
      let v := Transc.pow (1 + c * x) ((3 : Nat) : α)
      let (uni, s) := g s
      if v > 0 ∧ Transc.log uni < 1 / ((2 : Nat) : α) * Transc.pow x ((2 : Nat) : α) + d - d * v + d * Transc.log v then
        some (d * v * theta, s)
      else loop fuel s
  loop fuel s

/-- `array_sum(data, length)`. -/
def arraySum (data : List α) : α := data.foldl (· + ·) 0

/-- `sample_discrete(choices, data, Lambda)`:
`q = uniform_rv()*Lambda; i = 0; p_sum = 0; while p_sum < q and i < choices: p_sum += data[i]; i += 1;
return i - 1`.  The result is an `Int` (`-1` when `q ≤ 0`). -/
def sampleDiscreteFrom (data : List α) (q : α) : Int :=
  let rec go (rest : List α) (pSum : α) (i : Nat) : Int :=
    match rest with
    | [] => (i : Int) - 1
    | a :: rest => if pSum < q then go rest (pSum + a) (i + 1) else (i : Int) - 1
  go data 0 0

def sampleDiscrete (g : Gen σ α) (data : List α) (Lambda : α) (s : σ) : Int × σ :=
  let (u, s) := g s
  (sampleDiscreteFrom data (u * Lambda), s)

/-- `binom_rnd_f(N, p)`: `n = int(N + 0.5)` Bernoulli trials `uniform_rv() < p`. -/
def binomTrials (g : Gen σ α) (n : Nat) (p : α) (s : σ) : Nat × σ :=
  (List.range n).foldl (fun (acc : Nat × σ) _ =>
    let (u, s) := g acc.2
    (if u < p then acc.1 + 1 else acc.1, s)) (0, s)

end
end Bioscrape
