import BioscrapeModel.Model.Term

/-
Rules (`bioscrape/types.pyx` 1082-1279) and their application by the simulation
interface (`simulator.pyx` 472-480).
-/

namespace Bioscrape

/-- equality of doubles as the C code tests it (`==`), written with `<` only so that it is
available for `Float` and is ordinary equality in a linear order. -/
@[inline] def feq {α : Type} [LT α] [DecidableLT α] (a b : α) : Bool :=
  decide (¬ a < b) && decide (¬ b < a)

inductive RuleOp (α : Type) where
  | additive (dest : Nat) (srcs : List Nat)
  | assign (toParam : Bool) (dest : Nat) (rhs : Term α)
  | ode (toParam : Bool) (dest : Nat) (rhs : Term α)
  deriving Inhabited

/-- `frequency_flag`: `-1` repeated, `-2` every dt, `t ≥ 0` exactly at time `t` (`"start"` is `0`). -/
structure Rule (α : Type) where
  freq : α
  op : RuleOp α
  deriving Inhabited

section
variable {α : Type} [Zero α] [One α] [Add α] [Mul α] [Neg α] [NatCast α]
  [LT α] [LE α] [DecidableLT α] [DecidableLE α] [Transc α]

def vecGet (v : List α) (i : Nat) : α := v.getD i 0

/-- `rule_volume_operation(state, params, volume, time, dt)`; with `vol = 1` this is
`rule_operation` (the only difference between the two is what `volume` reads in the
right-hand side). Returns the new state and parameter vectors. -/
def RuleOp.apply (x p : List α) (vol t dt : α) : RuleOp α → List α × List α
  | .additive dest srcs =>
      (x.set dest (srcs.foldl (fun acc i => acc + vecGet x i) 0), p)
  | .assign toParam dest rhs =>
      let v := rhs.volEval (vecGet x) (vecGet p) vol t
      if toParam then (x, p.set dest v) else (x.set dest v, p)
  | .ode toParam dest rhs =>
      let v := rhs.volEval (vecGet x) (vecGet p) vol t
      if toParam then (x, p.set dest (vecGet p dest + v * dt)) else (x.set dest (vecGet x dest + v * dt), p)

/-- `execute_rule`: `if flag == -1 or flag == time or (rule_step and flag == -2)`. -/
def Rule.fires (r : Rule α) (t : α) (ruleStep : Bool) : Bool :=
  feq r.freq (-1) || feq r.freq t || (ruleStep && feq r.freq (-((2 : Nat) : α)))

def Rule.execute (r : Rule α) (x p : List α) (vol t dt : α) (ruleStep : Bool) : List α × List α :=
  if r.fires t ruleStep then r.op.apply x p vol t dt else (x, p)

/-- `apply_repeated_(volume_)rules`: every rule in declaration order, each seeing the effect of
the previous ones. -/
def applyRules (rules : List (Rule α)) (x p : List α) (vol t dt : α) (ruleStep : Bool) :
    List α × List α :=
  rules.foldl (fun xp r => r.execute xp.1 xp.2 vol t dt ruleStep) (x, p)

end
end Bioscrape
