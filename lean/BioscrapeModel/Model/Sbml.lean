import BioscrapeModel.Model.Expr
import BioscrapeModel.Model.Propensity
import BioscrapeModel.Model.Network

/-
SBML import and export (`bioscrape/sbmlutil.py`): the parts that are logic rather than libsbml calls.
libsbml's reader/writer and `formulaToL3String` / `parseL3Formula` are the identity on the abstract
document by assumption.
-/

namespace Bioscrape.Sbml
open Bioscrape

/-! ### Export: stoichiometries and mass-action kinetic laws (`add_reaction`, 569-725) -/

/-- `inputs = list(OrderedDict.fromkeys(inputs_list)); input_coefs = [inputs_list.count(i) for i in inputs]`:
distinct names in first-seen order with their multiplicities. -/
def bumpName : List (String × Nat) → String → List (String × Nat)
  | [], s => [(s, 1)]
  | (n, c) :: rest, s => if n = s then (n, c + 1) :: rest else (n, c) :: bumpName rest s

def dedupCount (names : List String) : List (String × Nat) := names.foldl bumpName []

/-- reading a document back: `for i in range(int(stoichiometry)): reactant_list.append(id)`. -/
def expand (refs : List (String × Nat)) : List String := refs.flatMap (fun r => List.replicate r.2 r.1)

section
variable {α : Type} [NatCast α]

/-- the factor a reactant contributes to a mass-action kinetic law:
deterministic export `* s^c` (just `* s` for `c = 1`), stochastic export `* s * ( s - 1 ) * … * ( s - (c-1) )`. -/
def reactantFactors (stochastic : Bool) (s : String) (c : Nat) : List (Expr α) :=
  if stochastic then
    (List.range c).map (fun (i : Nat) => if i = 0 then Expr.ident s else Expr.sub (.ident s) (.num ((i : Nat) : α)))
  else if c > 1 then [Expr.pow (.ident s) (.num ((c : Nat) : α))]
  else [Expr.ident s]

/-- the kinetic law written for a mass-action reaction: `k * f₁ * f₂ * …` (left-associated). -/
def klMassAction (stochastic : Bool) (k : String) (reactants : List String) : Expr α :=
  ((dedupCount reactants).flatMap (fun sc => reactantFactors stochastic sc.1 sc.2)).foldl Expr.mul (.ident k)

/-- the kinetic laws written for the Hill family (`ratestring` of `add_reaction`, as the tree the SBML
formula parser reads): the first exponent is the literal identifier `n`, the constant is `K` (not `K^n`). -/
def klHill (ptype : String) (k K n s1 d : String) : Expr α :=
  let den : Expr α := .add (.pow (.ident s1) (.ident n)) (.ident K)
  match ptype with
  | "hillpositive" => .div (.mul (.ident k) (.pow (.ident s1) (.ident "n"))) den
  | "hillnegative" => .div (.ident k) den
  | "proportionalhillpositive" => .div (.mul (.mul (.ident k) (.ident d)) (.pow (.ident s1) (.ident "n"))) den
  | _ => .div (.mul (.ident k) (.ident d)) den

end

/-! ### Annotations: `" key=value"` tokens joined by spaces, read back with `split(" ")` and `split("=")` -/

/-- `s.split(c)` on character lists. -/
def splitOnChar (c : Char) : List Char → List (List Char)
  | [] => [[]]
  | x :: rest =>
    if x = c then [] :: splitOnChar c rest
    else match splitOnChar c rest with
      | [] => [[x]]
      | w :: ws => (x :: w) :: ws

/-- `sep.join(tokens)`. -/
def joinWith (c : Char) : List (List Char) → List Char
  | [] => []
  | [w] => w
  | w :: ws => w ++ c :: joinWith c ws

/-- the text of an annotation body: `" k1=v1 k2=v2 …"` (each token preceded by a space, as `add_reaction`
concatenates them). -/
def encodeAnnotation (kvs : List (List Char × List Char)) : List Char :=
  kvs.flatMap (fun kv => ' ' :: kv.1 ++ '=' :: kv.2)

/-- `[(i.split("=")[0], i.split("=")[1]) for i in text.split(" ") if "=" in i]`. -/
def decodeAnnotation (text : List Char) : List (List Char × List Char) :=
  (splitOnChar ' ' text).filterMap (fun tok =>
    if '=' ∈ tok then
      match splitOnChar '=' tok with
      | a :: b :: _ => some (a, b)
      | _ => none
    else none)

/-! ### Import of un-annotated documents (`import_sbml_species`, `…_parameters`, `…_reactions`, `…_rules`) -/

inductive RuleKind | assignment | rate | algebraic
  deriving DecidableEq, Repr

structure SbmlRule (α : Type) where
  kind : RuleKind
  var : String
  math : Expr α

/-- what one rule of the document contributes (after the repair: nothing carries over between rules):
an assignment rule becomes a repeated assignment `variable = math`; a rate rule becomes the reaction
`∅ → variable` with the formula as its general rate; other rules are skipped, as are rules whose variable
is neither a species nor a parameter. -/
structure Imported (α : Type) where
  assignments : List (String × Expr α)          -- ("assignment", "var = formula", "repeated")
  rateReactions : List (String × Expr α)        -- ([], [var], "general", formula)

def importStep {α : Type} (known : String → Bool) (acc : Imported α) (r : SbmlRule α) : Imported α :=
  if !known r.var then acc
  else match r.kind with
    | .assignment => { acc with assignments := acc.assignments ++ [(r.var, r.math)] }
    | .rate => { acc with rateReactions := acc.rateReactions ++ [(r.var, r.math)] }
    | .algebraic => acc

def importRules {α : Type} (known : String → Bool) (rules : List (SbmlRule α)) : Imported α :=
  rules.foldl (importStep known) { assignments := [], rateReactions := [] }

/-- `import_sbml_species`: `0`, overwritten by a finite initial amount, overwritten by a finite initial
concentration only when the amount left it at `0`. -/
def initialValue {α : Type} [Zero α] [DecidableEq α] (amount conc : Option α) : α :=
  let v := match amount with | some a => a | none => 0
  match conc with
  | some c => if v = 0 then c else v
  | none => v

/-- renaming of identifiers in a formula (`renameSIdRefs`). -/
def rename {α : Type} (old new : String) : Expr α → Expr α
  | .num v => .num v
  | .ident s => .ident (if s = old then new else s)
  | .add a b => .add (rename old new a) (rename old new b)
  | .sub a b => .sub (rename old new a) (rename old new b)
  | .mul a b => .mul (rename old new a) (rename old new b)
  | .div a b => .div (rename old new a) (rename old new b)
  | .pow a b => .pow (rename old new a) (rename old new b)
  | .neg a => .neg (rename old new a)
  | .exp a => .exp (rename old new a)
  | .log a => .log (rename old new a)
  | .abs a => .abs (rename old new a)
  | .step a => .step (rename old new a)
  | .max args => .max (renameList old new args)
  | .min args => .min (renameList old new args)
where
  renameList {α : Type} (old new : String) : List (Expr α) → List (Expr α)
    | [] => []
    | a :: rest => rename old new a :: renameList old new rest

/-- does the formula contain a step function?  SBML mathematics has none: the exporter writes `Heaviside(x)` as a
call of a function named Heaviside, which the document does not define. -/
def hasStep {α : Type} : Expr α → Bool
  | .num _ => false
  | .ident _ => false
  | .add a b => hasStep a || hasStep b
  | .sub a b => hasStep a || hasStep b
  | .mul a b => hasStep a || hasStep b
  | .div a b => hasStep a || hasStep b
  | .pow a b => hasStep a || hasStep b
  | .neg a => hasStep a
  | .exp a => hasStep a
  | .log a => hasStep a
  | .abs a => hasStep a
  | .step _ => true
  | .max args => hasStepList args
  | .min args => hasStepList args
where
  hasStepList {α : Type} : List (Expr α) → Bool
    | [] => false
    | a :: rest => hasStep a || hasStepList rest

section
variable {α : Type} [Zero α] [One α] [Add α] [Sub α] [Mul α] [Div α] [Neg α]
  [LT α] [LE α] [DecidableLT α] [DecidableLE α] [Transc α]
/-- an exported general law read as plain SBML mathematics over the document's identifiers: the written formula, except
that a call of the undefined function Heaviside has no value. -/
def docEval (env : Env α) (e : Expr α) : Option α :=
  if hasStep e then none else Expr.eval env e
end

/-- local parameters of one reaction: a local whose id is already taken (by a global or an earlier local)
is renamed `id_reactionId` in the kinetic law; every local ends up as a global of the model. -/
def importLocals {α : Type} (rxnId : String) (taken : List String) (locals : List (String × α)) (law : Expr α) :
    List (String × α) × Expr α :=
  locals.foldl (fun (acc : List (String × α) × Expr α) pv =>
    if pv.1 ∈ taken ∨ pv.1 ∈ acc.1.map (·.1) then
      let newid := pv.1 ++ "_" ++ rxnId
      (acc.1 ++ [(newid, pv.2)], rename pv.1 newid acc.2)
    else (acc.1 ++ [pv], acc.2)) ([], law)

end Bioscrape.Sbml
