import BioscrapeModel.Model.Loops

/-
Finite-difference Jacobian and parameter sensitivity (`bioscrape/analysis.py`
`SensitivityAnalysis._evaluate_model`, `compute_J`, `compute_Zj`, lines 83-210).
The final `np.round(·, 10)` is not modelled (the correspondence compares within 2e-10).
-/

namespace Bioscrape

inductive DiffMethod | fourth | central | backward | forward
  deriving DecidableEq, Repr, Inhabited

section
variable {α : Type} [Zero α] [One α] [Add α] [Sub α] [Mul α] [Div α] [Neg α] [NatCast α] [IntCast α]
  [LT α] [LE α] [DecidableLT α] [DecidableLE α] [Transc α]

/-- the difference quotient of a scalar function `f` at `0` offset (i.e. `f s` is the model evaluated with
the chosen coordinate shifted by `s`): the four schemes of `compute_J` / `compute_Zj`. -/
def stencil (m : DiffMethod) (f : α → α) (h : α) : α :=
  match m with
  | .fourth => (-(f (((2 : Nat) : α) * h)) + ((8 : Nat) : α) * f h - ((8 : Nat) : α) * f (-h) + f (-(((2 : Nat) : α) * h))) / (((12 : Nat) : α) * h)
  | .central => (f h - f (-h)) / (((2 : Nat) : α) * h)
  | .backward => (f 0 - f (-h)) / h
  | .forward => (f h - f 0) / h

/-- `_evaluate_model(states, params, time)`: repeated rules (as a rule step), then the deterministic
derivative of the plain interface. -/
def evaluateModel (m : SimModel α) (x p : List α) (t : α) : List α :=
  let xp := applyRules m.rules x p 1 t m.dt true
  derivative m.nSpecies m.U m.D m.props (vecGet xp.1) (vecGet xp.2) t

def shift (v : List α) (j : Nat) (s : α) : List α := v.set j (vecGet v j + s)

/-- `compute_J(x, time)`: `J[i][j]` differentiates equation `i` with respect to state `j`. -/
def computeJ (meth : DiffMethod) (m : SimModel α) (x p : List α) (t h : α) : List (List α) :=
  (List.range m.nSpecies).map (fun i =>
    (List.range m.nSpecies).map (fun j =>
      stencil meth (fun s => vecGet (evaluateModel m (shift x j s) p t) i) h))

/-- `compute_Zj(x, param_name, time)`: the derivative of each equation with respect to one parameter; the
parameters are always `original ± k·h` in that one coordinate. -/
def computeZj (meth : DiffMethod) (m : SimModel α) (x orig : List α) (pj : Nat) (t h : α) : List α :=
  (List.range m.nSpecies).map (fun i =>
    stencil meth (fun s => vecGet (evaluateModel m x (shift orig pj s) t) i) h)

/-- the sequence of `set_params` calls of `compute_Zj` as writes to the model's parameter array: every
path ends with `set_params(original_parameters)`.  Returns the final parameter array. -/
def zjParamTrace (meth : DiffMethod) (orig cur : List α) (pj : Nat) (h : α) (n : Nat) : List α :=
  let write (_ : List α) (v : List α) : List α := v          -- `set_params(dict)` over all original keys
  let cur := write cur orig                                    -- `_evaluate_model(x, params_dict)` with the originals
  (List.range n).foldl (fun cur _ =>
    let cur := write cur (shift orig pj h)
    let cur := write cur orig
    let cur := write cur (shift orig pj (-h))
    let cur := write cur orig
    match meth with
    | .fourth =>
      let cur := write cur (shift orig pj (((2 : Nat) : α) * h))
      let cur := write cur (shift orig pj (-(((2 : Nat) : α) * h)))
      write cur orig
    | _ => cur) cur

end
end Bioscrape
