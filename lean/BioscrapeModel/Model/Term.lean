import BioscrapeModel.Model.Num

/-
Expression trees of `bioscrape/types.pyx` (`Term` and its subclasses,
lines 487-776): the object `parse_expression` builds and general propensities,
assignment/ODE rules and state-dependent growth laws evaluate.
-/

namespace Bioscrape

inductive Term (α : Type) where
  | const   (v : α)
  | species (i : Nat)
  | param   (i : Nat)
  | volume
  | time
  | sum  (ts : List (Term α))
  | prod (ts : List (Term α))
  | max  (ts : List (Term α))
  | min  (ts : List (Term α))
  | pow  (b e : Term α)
  | exp  (a : Term α)
  | log  (a : Term α)
  | step (a : Term α)
  | abs  (a : Term α)
  deriving Inhabited

section
variable {α : Type} [Zero α] [One α] [Add α] [Mul α] [LT α] [LE α] [DecidableLT α] [DecidableLE α]
  [Transc α]

/-- `MaxTerm.evaluate`: `ans = terms[0]; for i in 1..: if temp > ans: ans = temp`.
(sympy never produces a `Max`/`Min` with no argument; the empty case is
unreachable in the implementation and reads `0` here.) -/
def maxLoop : List α → α
  | [] => 0
  | a :: rest => rest.foldl (fun ans temp => if temp > ans then temp else ans) a

def minLoop : List α → α
  | [] => 0
  | a :: rest => rest.foldl (fun ans temp => if temp < ans then temp else ans) a

/-- `SumTerm.evaluate`: `ans = 0.0; for t: ans += t`. -/
def sumLoop (vs : List α) : α := vs.foldl (· + ·) 0

/-- `ProductTerm.evaluate`: `ans = 1.0; for t: ans *= t`. -/
def prodLoop (vs : List α) : α := vs.foldl (· * ·) 1

mutual
/-- `Term.volume_evaluate(species, params, vol, time)`. -/
def Term.volEval (x p : Nat → α) (vol t : α) : Term α → α
  | .const v => v
  | .species i => x i
  | .param i => p i
  | .volume => vol
  | .time => t
  | .sum ts => sumLoop (Term.volEvalList x p vol t ts)
  | .prod ts => prodLoop (Term.volEvalList x p vol t ts)
  | .max ts => maxLoop (Term.volEvalList x p vol t ts)
  | .min ts => minLoop (Term.volEvalList x p vol t ts)
  | .pow b e => Transc.pow (Term.volEval x p vol t b) (Term.volEval x p vol t e)
  | .exp a => Transc.exp (Term.volEval x p vol t a)
  | .log a => Transc.log (Term.volEval x p vol t a)
  | .step a => if Term.volEval x p vol t a ≥ 0 then 1 else 0
  | .abs a => Transc.abs (Term.volEval x p vol t a)
def Term.volEvalList (x p : Nat → α) (vol t : α) : List (Term α) → List α
  | [] => []
  | a :: as => Term.volEval x p vol t a :: Term.volEvalList x p vol t as
end

/-- `Term.evaluate(species, params, time)`: every node evaluates exactly as in
`volume_evaluate` except `VolumeTerm`, which returns `1.0`. -/
def Term.eval (x p : Nat → α) (t : α) (e : Term α) : α := Term.volEval x p 1 t e

end
end Bioscrape
