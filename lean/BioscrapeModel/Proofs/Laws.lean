import Mathlib.Analysis.SpecialFunctions.Pow.Real
import Mathlib.Analysis.SpecialFunctions.Trigonometric.Basic
import BioscrapeModel.Model.Num

/-
The laws of the libm functions that the theorems rely on, as a class over an
ordered field, and the proof that the real numbers satisfy them.  This is the
"assumed contract" of `pow/exp/log/fabs/sqrt/cos` made explicit: the theorems
hold for every number type with these laws, in particular for `ℝ`.
-/
namespace Bioscrape

class LawfulTransc (α : Type) [Field α] [LinearOrder α] [IsStrictOrderedRing α] [Transc α] : Prop where
  pow_natCast : ∀ (x : α) (n : ℕ), 0 < x → Transc.pow x (n : α) = x ^ n
  abs_eq : ∀ x : α, Transc.abs x = |x|
  exp_pos : ∀ x : α, 0 < Transc.exp x
  pow_neg_one : ∀ x : α, Transc.pow x (-1) = x⁻¹
  pow_natCast' : ∀ (x : α) (n : ℕ), Transc.pow x (n : α) = x ^ n
  one_le_exp : ∀ x : α, 0 ≤ x → 1 ≤ Transc.exp x

noncomputable instance : Transc ℝ where
  pow := Real.rpow
  exp := Real.exp
  log := Real.log
  abs := fun x => |x|
  sqrt := Real.sqrt
  cos := Real.cos

instance : LawfulTransc ℝ where
  pow_natCast x n _ := Real.rpow_natCast x n
  abs_eq _ := rfl
  exp_pos x := Real.exp_pos x
  pow_neg_one x := Real.rpow_neg_one x
  pow_natCast' x n := Real.rpow_natCast x n
  one_le_exp x hx := Real.one_le_exp hx

section
variable {α : Type} [LinearOrder α]

@[simp] theorem cmax_eq_max (a b : α) : cmax a b = max a b := by
  unfold cmax
  split
  · rename_i h; exact (max_eq_right (le_of_lt h)).symm
  · rename_i h; exact (max_eq_left (not_lt.mp h)).symm

@[simp] theorem cmin_eq_min (a b : α) : cmin a b = min a b := by
  unfold cmin
  split
  · rename_i h; exact (min_eq_right (le_of_lt h)).symm
  · rename_i h; exact (min_eq_left (not_lt.mp h)).symm

end
end Bioscrape
