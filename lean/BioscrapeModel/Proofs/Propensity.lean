import Mathlib.Algebra.BigOperators.Group.List.Basic
import Mathlib.Data.List.Dedup
import Mathlib.Data.List.Count
import Mathlib.Data.Nat.Factorial.Basic
import Mathlib.Tactic.Ring
import Mathlib.Tactic.FieldSimp
import BioscrapeModel.Proofs.Laws
import BioscrapeModel.Model.Propensity

/-
Helper lemmas for C01: the loops of `MassActionPropensity` against products of
powers / falling factorials, and the `sp_inds / sp_counts` construction against
the multiset of reactants.
-/
set_option linter.unusedSectionVars false
set_option linter.unusedSimpArgs false

namespace Bioscrape

section
variable {α : Type} [Field α] [LinearOrder α] [IsStrictOrderedRing α]

/-- falling factorial with the guard of the implementation: `∏_{j<m} max (y - j) 0`. -/
def ff (y : α) (m : Nat) : α := ((List.range m).map (fun (j : Nat) => max (y - (j : α)) 0)).prod

theorem ff_zero (y : α) : ff y 0 = 1 := by simp [ff]

theorem ff_succ (y : α) (m : Nat) : ff y (m + 1) = ff y m * max (y - (m : α)) 0 := by
  simp [ff, List.range_succ]

theorem forRange_mul_const (n : Nat) (a y : α) :
    forRange n (fun a _ => a * y) a = a * y ^ n := by
  unfold forRange
  induction n generalizing a with
  | zero => simp
  | succ n ih => simp [List.range_succ, List.foldl_append, ih, pow_succ, mul_assoc]

theorem forRange_ff (n : Nat) (a y : α) :
    forRange n (fun a j => a * cmax (y - (j : α)) 0) a = a * ff y n := by
  unfold forRange
  induction n generalizing a with
  | zero => simp [ff]
  | succ n ih =>
    rw [List.range_succ, List.foldl_append, ih, List.foldl_cons, List.foldl_nil, ff_succ,
      cmax_eq_max, mul_assoc]

/-- product of powers over the `(index, count)` pairs. -/
def prodPow (x : Nat → α) (sp : List (Nat × Nat)) : α := (sp.map (fun ic => x ic.1 ^ ic.2)).prod
/-- product of guarded falling factorials over the `(index, count)` pairs. -/
def prodFF (x : Nat → α) (sp : List (Nat × Nat)) : α := (sp.map (fun ic => ff (x ic.1) ic.2)).prod

theorem massActionDet_eq (x : Nat → α) (k : α) (sp : List (Nat × Nat)) :
    massActionDet x k sp = k * prodPow x sp := by
  unfold massActionDet prodPow
  induction sp generalizing k with
  | nil => simp
  | cons ic rest ih =>
    rw [List.foldl_cons, ih, forRange_mul_const, List.map_cons, List.prod_cons, mul_assoc]

theorem massActionStoch_eq (x : Nat → α) (k : α) (sp : List (Nat × Nat)) :
    massActionStoch x k sp = k * prodFF x sp := by
  unfold massActionStoch prodFF
  induction sp generalizing k with
  | nil => simp
  | cons ic rest ih =>
    rw [List.foldl_cons, ih, forRange_ff, List.map_cons, List.prod_cons, mul_assoc]

/-- count recorded for species `s` (first match; `0` when absent). -/
def cnt : List (Nat × Nat) → Nat → Nat
  | [], _ => 0
  | (i, c) :: rest, s => if i = s then c else cnt rest s

theorem prodPow_bump (x : Nat → α) (sp : List (Nat × Nat)) (s : Nat) :
    prodPow x (bumpCount sp s) = prodPow x sp * x s := by
  induction sp with
  | nil => simp [bumpCount, prodPow]
  | cons ic rest ih =>
    obtain ⟨i, c⟩ := ic
    unfold bumpCount
    split
    · rename_i h; subst h; simp [prodPow, pow_succ]; ring
    · simp only [prodPow, List.map_cons, List.prod_cons] at ih ⊢
      rw [ih]; ring

theorem prodFF_bump (x : Nat → α) (sp : List (Nat × Nat)) (s : Nat) :
    prodFF x (bumpCount sp s) = prodFF x sp * max (x s - (cnt sp s : α)) 0 := by
  induction sp with
  | nil => simp [bumpCount, prodFF, cnt, ff]
  | cons ic rest ih =>
    obtain ⟨i, c⟩ := ic
    unfold bumpCount
    split
    · rename_i h; subst h; simp [prodFF, cnt, ff_succ]; ring
    · rename_i h
      simp only [prodFF, List.map_cons, List.prod_cons, cnt, if_neg h] at ih ⊢
      rw [ih]; ring

theorem cnt_bump (sp : List (Nat × Nat)) (s s' : Nat) :
    cnt (bumpCount sp s) s' = cnt sp s' + if s = s' then 1 else 0 := by
  induction sp with
  | nil => by_cases h : s = s' <;> simp [bumpCount, cnt, h]
  | cons ic rest ih =>
    obtain ⟨i, c⟩ := ic
    unfold bumpCount
    split
    · rename_i h; subst h
      by_cases h' : i = s' <;> simp [cnt, h']
    · rename_i h
      by_cases h' : i = s'
      · subst h'; simp [cnt, Ne.symm h]
      · simp [cnt, h', ih]

theorem counts_sum_bump (sp : List (Nat × Nat)) (s : Nat) :
    ((bumpCount sp s).map (·.2)).sum = (sp.map (·.2)).sum + 1 := by
  induction sp with
  | nil => simp [bumpCount]
  | cons ic rest ih =>
    obtain ⟨i, c⟩ := ic
    unfold bumpCount
    split
    · simp; omega
    · simp [ih]; omega

/-- the reactant list processed left to right: each copy of a species sees the
count minus the copies of the same species already used. -/
def seqFF (x : Nat → α) : List Nat → List Nat → α
  | _, [] => 1
  | seen, s :: rest => max (x s - ((seen.count s : Nat) : α)) 0 * seqFF x (s :: seen) rest

theorem foldl_bump_prodPow (x : Nat → α) (R : List Nat) (sp : List (Nat × Nat)) :
    prodPow x (R.foldl bumpCount sp) = prodPow x sp * (R.map x).prod := by
  induction R generalizing sp with
  | nil => simp
  | cons s rest ih => simp [List.foldl_cons, ih, prodPow_bump, mul_assoc]

theorem foldl_bump_sum (R : List Nat) (sp : List (Nat × Nat)) :
    ((R.foldl bumpCount sp).map (·.2)).sum = (sp.map (·.2)).sum + R.length := by
  induction R generalizing sp with
  | nil => simp
  | cons s rest ih => simp [List.foldl_cons, ih, counts_sum_bump]; omega

theorem foldl_bump_prodFF (x : Nat → α) (R seen : List Nat) (sp : List (Nat × Nat))
    (h : ∀ s, cnt sp s = seen.count s) :
    prodFF x (R.foldl bumpCount sp) = prodFF x sp * seqFF x seen R := by
  induction R generalizing sp seen with
  | nil => simp [seqFF]
  | cons s rest ih =>
    rw [List.foldl_cons, ih (s :: seen) (bumpCount sp s)]
    · rw [prodFF_bump, h s]; simp [seqFF, mul_assoc]
    · intro s'
      rw [cnt_bump, h s', List.count_cons]
      by_cases hs : s = s' <;> simp [hs]

end
end Bioscrape
