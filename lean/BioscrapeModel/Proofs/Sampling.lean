import Mathlib.Algebra.BigOperators.Group.List.Basic
import Mathlib.Algebra.Order.BigOperators.Group.List
import Mathlib.Algebra.Order.Field.Basic
import Mathlib.Tactic.Linarith
import Mathlib.Tactic.Ring
import BioscrapeModel.Model.Random

/-
`sample_discrete` chooses the reaction whose cumulative-propensity interval contains `q = u·Λ`.
-/
set_option linter.unusedSectionVars false

namespace Bioscrape

variable {α : Type} [Field α] [LinearOrder α] [IsStrictOrderedRing α]

/-- cumulative sums `c_j = a_0 + … + a_{j-1}`. -/
def cum (a : List α) (j : Nat) : α := (a.take j).sum

theorem go_spec (q : α) (rest : List α) (pSum : α) (i : Nat)
    (hpos : ∀ a ∈ rest, 0 ≤ a) (hlt : pSum < q) (hle : q ≤ pSum + rest.sum) :
    ∃ k, k < rest.length ∧ sampleDiscreteFrom.go q rest pSum i = (i : Int) + k
      ∧ pSum + (rest.take k).sum < q ∧ q ≤ pSum + (rest.take (k + 1)).sum := by
  induction rest generalizing pSum i with
  | nil => simp at hle; exact absurd hlt (not_lt.mpr hle)
  | cons a r ih =>
    unfold sampleDiscreteFrom.go
    simp only [hlt, if_true]
    by_cases h : pSum + a < q
    · have hpos' : ∀ b ∈ r, 0 ≤ b := fun b hb => hpos b (List.mem_cons_of_mem _ hb)
      have hle' : q ≤ pSum + a + r.sum := by simpa [add_assoc] using hle
      obtain ⟨k, hk, hgo, h1, h2⟩ := ih (pSum + a) (i + 1) hpos' h hle'
      refine ⟨k + 1, by simp; omega, ?_, ?_, ?_⟩
      · rw [hgo]; push_cast; omega
      · simpa [add_assoc] using h1
      · simpa [add_assoc] using h2
    · have hq : q ≤ pSum + a := not_lt.mp h
      refine ⟨0, by simp, ?_, by simpa using hlt, by simpa using hq⟩
      cases r with
      | nil => simp [sampleDiscreteFrom.go]
      | cons b r' => simp [sampleDiscreteFrom.go, h]

/-- **choice interval**: with non-negative weights, `0 < q ≤ Σ a`, the index returned by
`sample_discrete` is the `j` with `c_j < q ≤ c_{j+1}`. -/
theorem sampleDiscrete_interval (a : List α) (q : α) (hpos : ∀ v ∈ a, 0 ≤ v) (h0 : 0 < q) (hle : q ≤ a.sum) :
    ∃ j, j < a.length ∧ sampleDiscreteFrom a q = (j : Int) ∧ cum a j < q ∧ q ≤ cum a (j + 1) := by
  obtain ⟨k, hk, hgo, h1, h2⟩ := go_spec q a 0 0 hpos h0 (by simpa using hle)
  exact ⟨k, hk, by simpa [sampleDiscreteFrom] using hgo, by simpa [cum] using h1, by simpa [cum] using h2⟩

theorem cum_succ (a : List α) (j : Nat) (hj : j < a.length) : cum a (j + 1) = cum a j + a[j] := by
  unfold cum
  rw [List.take_succ_eq_append_getElem hj, List.sum_append]
  simp

theorem cum_mono (a : List α) (hpos : ∀ v ∈ a, 0 ≤ v) (i j : Nat) (hij : i ≤ j) : cum a i ≤ cum a j := by
  induction j with
  | zero => have : i = 0 := by omega
            subst this; exact le_refl _
  | succ j ih =>
    by_cases h : i = j + 1
    · subst h; exact le_refl _
    · have hij' : i ≤ j := by omega
      refine le_trans (ih hij') ?_
      by_cases hj : j < a.length
      · rw [cum_succ a j hj]
        have := hpos a[j] (List.getElem_mem hj)
        linarith
      · unfold cum
        rw [List.take_of_length_le (by omega), List.take_of_length_le (by omega)]

/-- the interval determines the index: at most one `j` has `c_j < q ≤ c_{j+1}`. -/
theorem interval_unique (a : List α) (q : α) (hpos : ∀ v ∈ a, 0 ≤ v) (i j : Nat)
    (hi : cum a i < q ∧ q ≤ cum a (i + 1)) (hj : cum a j < q ∧ q ≤ cum a (j + 1)) : i = j := by
  by_contra hne
  rcases Nat.lt_or_gt_of_ne hne with h | h
  · have := cum_mono a hpos (i + 1) j (by omega)
    linarith [hi.2, hj.1]
  · have := cum_mono a hpos (j + 1) i (by omega)
    linarith [hi.1, hj.2]

/-- a reaction with zero propensity is never chosen. -/
theorem zero_weight_not_chosen (a : List α) (q : α) (hpos : ∀ v ∈ a, 0 ≤ v) (h0 : 0 < q) (hle : q ≤ a.sum)
    (j : Nat) (hj : j < a.length) (hz : a[j] = 0) : sampleDiscreteFrom a q ≠ (j : Int) := by
  intro hsel
  obtain ⟨k, hk, hk', h1, h2⟩ := sampleDiscrete_interval a q hpos h0 hle
  have : (k : Int) = j := by rw [← hk', hsel]
  have hkj : k = j := by exact_mod_cast this
  subst hkj
  rw [cum_succ a k hj, hz] at h2
  linarith

end Bioscrape
