import Mathlib.Algebra.BigOperators.Group.Finset.Basic
import Mathlib.Algebra.Order.BigOperators.Group.Finset
import Mathlib.Algebra.Order.BigOperators.Ring.Finset
import Mathlib.Data.Nat.Factorial.Basic
import Mathlib.Data.Nat.Cast.Order.Field
import BioscrapeModel.Proofs.Propensity
import BioscrapeModel.Model.Network

/-
C01 — built-in rate laws equal their documented closed forms.

Property theorems only (helper lemmas live in `Proofs/Propensity.lean`).  They are
stated over any linearly ordered field with lawful `pow` (in particular `ℝ`), for
reactant lists of *any* length; orders 0..4 are instances.
-/
set_option linter.unusedSectionVars false
set_option linter.unusedSimpArgs false

open Finset

namespace Bioscrape.C01
open Bioscrape

variable {α : Type} [Field α] [LinearOrder α] [IsStrictOrderedRing α]

/-! ### The documented closed forms (specification, written independently of the loops) -/

/-- deterministic mass action: `k · ∏_{s ∈ R} x s` (`= k · ∏ x s ^ mult s`). -/
def detSpec (k : α) (x : Nat → α) (R : List Nat) : α := k * (R.map x).prod

/-- stochastic mass action: `k · ∏_{s distinct in R} x_s (x_s − 1) ⋯ (x_s − m_s + 1)`, every
factor clipped at `0`, `m_s` the multiplicity of `s` in `R`. -/
def stochSpec (k : α) (x : Nat → α) (R : List Nat) : α :=
  k * ∏ s ∈ R.toFinset, ff (x s) (R.count s)

/-- volume scaling of an order-`r` mass-action rate: `·V` for `r = 0`, `/V^(r-1)` otherwise. -/
def volScale (V : α) (r : Nat) : α := if r = 0 then V else 1 / V ^ (r - 1)

/-! ### Falling factorial facts -/

/-- fewer than `m` copies present ⇒ the stochastic mass-action factor is zero. -/
theorem ff_eq_zero_of_lt (n m : Nat) (h : n < m) : ff (n : α) m = 0 := by
  unfold ff
  apply List.prod_eq_zero
  simp only [List.mem_map, List.mem_range]
  exact ⟨n, h, by simp⟩

/-- with at least `m` copies the guarded product is the falling factorial `n!/(n-m)!`. -/
theorem ff_nat (n m : Nat) (h : m ≤ n) : ff (n : α) m = (n.descFactorial m : α) := by
  induction m with
  | zero => simp [ff_zero]
  | succ m ih =>
    rw [ff_succ, ih (Nat.le_of_succ_le h), Nat.descFactorial_succ]
    have h1 : (m : α) ≤ (n : α) := by exact_mod_cast Nat.le_of_succ_le h
    rw [max_eq_left (sub_nonneg.mpr h1)]
    push_cast [Nat.cast_sub (Nat.le_of_succ_le h)]
    ring

/-! ### Sequential form of the combinatorial count = product over distinct species -/

/-- `∏_{j<m} max (y − (a+j)) 0`. -/
def ffFrom (y : α) (a m : Nat) : α :=
  ((List.range m).map (fun (j : Nat) => max (y - ((a + j : Nat) : α)) 0)).prod

theorem ffFrom_zero (y : α) (a : Nat) : ffFrom y a 0 = 1 := by simp [ffFrom]

theorem ffFrom_succ' (y : α) (a m : Nat) :
    ffFrom y a (m + 1) = max (y - (a : α)) 0 * ffFrom y (a + 1) m := by
  unfold ffFrom
  rw [List.range_succ_eq_map, List.map_cons, List.prod_cons, List.map_map]
  congr 2
  · simp
    intro j _
    congr 2
    ring

theorem ffFrom_zero_start (y : α) (m : Nat) : ffFrom y 0 m = ff y m := by
  unfold ffFrom ff; simp

theorem seqFF_eq_prod (x : Nat → α) (R seen : List Nat) (F : Finset Nat) (hF : ∀ s ∈ R, s ∈ F) :
    seqFF x seen R = ∏ s ∈ F, ffFrom (x s) (seen.count s) (R.count s) := by
  induction R generalizing seen with
  | nil => simp [seqFF, ffFrom_zero]
  | cons s rest ih =>
    have hs : s ∈ F := hF s (by simp)
    rw [seqFF, ih (s :: seen) (fun s' h' => hF s' (by simp [h'])),
      ← Finset.mul_prod_erase F _ hs, ← Finset.mul_prod_erase F _ hs]
    have e1 : (s :: rest).count s = rest.count s + 1 := by simp
    have e2 : (s :: seen).count s = seen.count s + 1 := by simp
    rw [e1, e2, ffFrom_succ', mul_assoc]
    congr 2
    apply Finset.prod_congr rfl
    intro s' hs'
    have hne : s' ≠ s := (Finset.mem_erase.mp hs').1
    rw [List.count_cons_of_ne (Ne.symm hne), List.count_cons_of_ne (Ne.symm hne)]

/-! ### Mass action built from a reactant list -/

variable [Transc α]

theorem prodPow_nil (x : Nat → α) : prodPow x [] = 1 := by simp [prodPow]
theorem prodFF_nil (x : Nat → α) : prodFF x [] = 1 := by simp [prodFF]

/-- **deterministic mass action**: for a reactant list of any length and any multiplicities,
the propensity built by `create_reaction` evaluates to `k · ∏_{s∈R} x_s`. -/
theorem massAction_det (k : Nat) (R : List Nat) (x p : Nat → α) (t : α) :
    (createMassAction (α := α) k R).det x p t = detSpec (p k) x R := by
  unfold detSpec
  rcases R with _ | ⟨a, _ | ⟨b, _ | ⟨c, rest⟩⟩⟩
  · simp [createMassAction, Propensity.det]
  · simp [createMassAction, Propensity.det]
  · simp [createMassAction, Propensity.det, mul_assoc]
  · simp only [createMassAction, Propensity.det, massActionDet_eq, massActionInitLoop,
      foldl_bump_prodPow, prodPow_nil, one_mul]

/-- **stochastic mass action**: `k · ∏_{s distinct} ff (x_s) (mult s)`, i.e. the falling
factorial `x(x−1)…(x−m+1)` per species, zero when fewer than `m` copies are present
(`ff_eq_zero_of_lt`, `ff_nat`). -/
theorem massAction_stoch (k : Nat) (R : List Nat) (x p : Nat → α) (t : α) (hx : ∀ s, 0 ≤ x s) :
    (createMassAction (α := α) k R).stoch x p t = stochSpec (p k) x R := by
  have key : ∀ R : List Nat, seqFF x [] R = ∏ s ∈ R.toFinset, ff (x s) (R.count s) := by
    intro R
    rw [seqFF_eq_prod x R [] R.toFinset (fun s h => List.mem_toFinset.mpr h)]
    apply Finset.prod_congr rfl
    intro s _
    simp [ffFrom_zero_start]
  unfold stochSpec
  rw [← key]
  rcases R with _ | ⟨a, _ | ⟨b, _ | ⟨c, rest⟩⟩⟩
  · simp [createMassAction, Propensity.stoch, Propensity.det, seqFF]
  · simp [createMassAction, Propensity.stoch, Propensity.det, seqFF, max_eq_left (hx a)]
  · by_cases h : a = b
    · subst h
      simp [createMassAction, Propensity.stoch, seqFF, mul_assoc, max_eq_left (hx a)]
    · have h' : ¬ b = a := fun e => h e.symm
      simp [createMassAction, Propensity.stoch, seqFF, h, h', mul_assoc, max_eq_left (hx a),
        max_eq_left (hx b)]
  · simp only [createMassAction, Propensity.stoch, massActionStoch_eq, massActionInitLoop]
    rw [foldl_bump_prodFF x _ [] [] (by intro s; simp [cnt]), prodFF_nil, one_mul]

/-! ### Sign and support of the stochastic mass-action propensity -/

/-- the clipped falling factorial is never negative, at integer or non-integer amounts. -/
theorem ff_nonneg (y : α) (m : Nat) : 0 ≤ ff y m := by
  induction m with
  | zero => rw [ff_zero]; exact zero_le_one
  | succ m ih => rw [ff_succ]; exact mul_nonneg ih (le_max_right _ _)

/-- **a stochastic mass-action propensity is never negative** when its rate constant is not, for reactant lists of any
length and multiplicity and any non-negative state (the hypothesis under which the SSA loop's choice intervals are
well formed, `C05.choice_measure`). -/
theorem massAction_stoch_nonneg (k : Nat) (R : List Nat) (x p : Nat → α) (t : α) (hx : ∀ s, 0 ≤ x s)
    (hk : 0 ≤ p k) : 0 ≤ (createMassAction (α := α) k R).stoch x p t := by
  rw [massAction_stoch k R x p t hx]
  unfold stochSpec
  exact mul_nonneg hk (Finset.prod_nonneg (fun s _ => ff_nonneg _ _))

/-- **a reaction short of a reactant cannot fire**: if some reactant species is present in fewer whole copies than the
reaction consumes, the propensity is exactly zero (so the SSA never selects it: `zero_weight_not_chosen`). -/
theorem massAction_stoch_zero_of_short (k : Nat) (R : List Nat) (x p : Nat → α) (t : α) (hx : ∀ s, 0 ≤ x s)
    (s : Nat) (hs : s ∈ R) (n : Nat) (hn : x s = (n : α)) (hshort : n < R.count s) :
    (createMassAction (α := α) k R).stoch x p t = 0 := by
  rw [massAction_stoch k R x p t hx]
  unfold stochSpec
  have : ∏ s ∈ R.toFinset, ff (x s) (R.count s) = 0 :=
    Finset.prod_eq_zero (List.mem_toFinset.mpr hs) (by rw [hn]; exact ff_eq_zero_of_lt n _ hshort)
  rw [this, mul_zero]

variable [LawfulTransc α]

theorem initLoop_numSpecies (R : List Nat) :
    ((massActionInitLoop R).map (·.2)).foldl (· + ·) 0 = R.length := by
  have := foldl_bump_sum R []
  simp only [List.map_nil, List.sum_nil, zero_add] at this
  rw [← this, massActionInitLoop]
  generalize (List.foldl bumpCount [] R).map (·.2) = l
  rw [← List.foldr_reverse]  -- sum as foldl
  induction l using List.reverseRecOn with
  | nil => simp
  | append_singleton l a ih => simp [List.foldl_append, ih, List.sum_append]

/-- **volume form**: an order-`r` mass-action rate is divided by `V^(r−1)`; a zero-order rate is
multiplied by `V`. -/
theorem massAction_vol (k : Nat) (R : List Nat) (x p : Nat → α) (V t : α) (hV : 0 < V) :
    (createMassAction (α := α) k R).vol x p V t = detSpec (p k) x R * volScale V R.length := by
  unfold detSpec volScale
  rcases R with _ | ⟨a, _ | ⟨b, _ | ⟨c, rest⟩⟩⟩
  · simp [createMassAction, Propensity.vol]
  · simp [createMassAction, Propensity.vol]
  · simp [createMassAction, Propensity.vol, mul_assoc, div_eq_mul_inv]
  · simp only [createMassAction, Propensity.vol, massActionDet_eq]
    rw [initLoop_numSpecies, LawfulTransc.pow_natCast _ _ hV]
    unfold massActionInitLoop
    rw [foldl_bump_prodPow, prodPow_nil, one_mul]
    simp [div_eq_mul_inv]

/-- **stochastic volume form**. -/
theorem massAction_svol (k : Nat) (R : List Nat) (x p : Nat → α) (V t : α) (hV : 0 < V)
    (hx : ∀ s, 0 ≤ x s) :
    (createMassAction (α := α) k R).svol x p V t = stochSpec (p k) x R * volScale V R.length := by
  rw [← massAction_stoch k R x p t hx]
  unfold volScale
  rcases R with _ | ⟨a, _ | ⟨b, _ | ⟨c, rest⟩⟩⟩
  · simp [createMassAction, Propensity.svol, Propensity.stoch, Propensity.vol, Propensity.det]
  · simp [createMassAction, Propensity.svol, Propensity.stoch, Propensity.vol, Propensity.det]
  · by_cases h : a = b
    · subst h; simp [createMassAction, Propensity.svol, Propensity.stoch, div_eq_mul_inv]
    · simp [createMassAction, Propensity.svol, Propensity.stoch, h, div_eq_mul_inv]
  · simp only [createMassAction, Propensity.svol, Propensity.stoch]
    rw [initLoop_numSpecies, LawfulTransc.pow_natCast _ _ hV]
    simp [div_eq_mul_inv]

/-! ### The rate depends on the reactant *multiset* only -/

/-- **however the reactants are listed** (a repeated species next to its copy or with other species in between), the
deterministic mass-action rate is the same. -/
theorem massAction_det_perm (k : Nat) (R R' : List Nat) (h : R.Perm R') (x p : Nat → α) (t : α) :
    (createMassAction (α := α) k R).det x p t = (createMassAction (α := α) k R').det x p t := by
  rw [massAction_det, massAction_det]
  unfold detSpec
  rw [(h.map x).prod_eq]

/-- the same for the stochastic rate (falling factorials per distinct species). -/
theorem massAction_stoch_perm (k : Nat) (R R' : List Nat) (h : R.Perm R') (x p : Nat → α) (t : α) (hx : ∀ s, 0 ≤ x s) :
    (createMassAction (α := α) k R).stoch x p t = (createMassAction (α := α) k R').stoch x p t := by
  rw [massAction_stoch k R x p t hx, massAction_stoch k R' x p t hx]
  unfold stochSpec
  have hfin : R.toFinset = R'.toFinset := by
    ext s; simp [h.mem_iff]
  rw [hfin]
  congr 1
  apply Finset.prod_congr rfl
  intro s _
  rw [h.count_eq]

example : [0, 1, 0].Perm [0, 0, 1] := by decide

/-! ### Hill family -/

/-- the Hill ratio `u = (s/K)^n`. -/
def hillU (s K n : α) : α := Transc.pow (s / K) n

theorem hillPos_det (k K n s1 : Nat) (x p : Nat → α) (t : α) :
    (Propensity.hillPos (α := α) k K n s1).det x p t
      = p k * hillU (x s1) (p K) (p n) / (1 + hillU (x s1) (p K) (p n)) := rfl

theorem hillNeg_det (k K n s1 : Nat) (x p : Nat → α) (t : α) :
    (Propensity.hillNeg (α := α) k K n s1).det x p t = p k / (1 + hillU (x s1) (p K) (p n)) := by
  simp [Propensity.det, hillU]

theorem propHillPos_det (k K n s1 d : Nat) (x p : Nat → α) (t : α) :
    (Propensity.propHillPos (α := α) k K n s1 d).det x p t
      = p k * x d * hillU (x s1) (p K) (p n) / (1 + hillU (x s1) (p K) (p n)) := rfl

theorem propHillNeg_det (k K n s1 d : Nat) (x p : Nat → α) (t : α) :
    (Propensity.propHillNeg (α := α) k K n s1 d).det x p t
      = p k * x d / (1 + hillU (x s1) (p K) (p n)) := by
  simp [Propensity.det, hillU]

/-- with a volume, Hill terms act on the concentration `s/V` (and only the Hill species is scaled). -/
theorem hillPos_vol (k K n s1 : Nat) (x p : Nat → α) (V t : α) :
    (Propensity.hillPos (α := α) k K n s1).vol x p V t
      = p k * hillU (x s1 / V) (p K) (p n) / (1 + hillU (x s1 / V) (p K) (p n)) := rfl

theorem hillNeg_vol (k K n s1 : Nat) (x p : Nat → α) (V t : α) :
    (Propensity.hillNeg (α := α) k K n s1).vol x p V t
      = p k / (1 + hillU (x s1 / V) (p K) (p n)) := by
  simp [Propensity.vol, hillU]

theorem propHillPos_vol (k K n s1 d : Nat) (x p : Nat → α) (V t : α) :
    (Propensity.propHillPos (α := α) k K n s1 d).vol x p V t
      = p k * x d * hillU (x s1 / V) (p K) (p n) / (1 + hillU (x s1 / V) (p K) (p n)) := by
  simp [Propensity.vol, hillU, mul_comm (x d) (p k)]

theorem propHillNeg_vol (k K n s1 d : Nat) (x p : Nat → α) (V t : α) :
    (Propensity.propHillNeg (α := α) k K n s1 d).vol x p V t
      = p k * x d / (1 + hillU (x s1 / V) (p K) (p n)) := by
  simp [Propensity.vol, hillU, mul_comm (x d) (p k)]

/-- Hill types have no separate stochastic form. -/
theorem hill_stoch_eq_det (k K n s1 : Nat) (x p : Nat → α) (t : α) :
    (Propensity.hillPos (α := α) k K n s1).stoch x p t = (Propensity.hillPos (α := α) k K n s1).det x p t
    ∧ (Propensity.hillNeg (α := α) k K n s1).stoch x p t = (Propensity.hillNeg (α := α) k K n s1).det x p t := by
  exact ⟨rfl, rfl⟩

/-! ### Interfaces -/

/-- the plain interface evaluates each reaction's propensity in the requested mode. -/
theorem plain_interface (m : Mode) (props : List (Propensity α)) (x p : Nat → α) (V t : α) (r : Nat)
    (hr : r < props.length) :
    (computePropensities m props x p V t)[r]'(by simpa [computePropensities] using hr)
      = (props[r]).evalMode m x p V t := by
  simp [computePropensities]

/-- the safe interface returns the same stochastic value whenever it does not block the reaction and
the value is non-negative; a blocked reaction reads exactly `0`. -/
theorem safe_interface (m : Mode) (inputs : List (Nat × Int)) (q : Propensity α) (x p : Nat → α) (V t : α) :
    (safeBlocked inputs x = false → 0 ≤ q.evalMode m x p V t →
        safeStochOne m inputs x p V t q = q.evalMode m x p V t)
    ∧ (safeBlocked inputs x = true → safeStochOne m inputs x p V t q = 0) := by
  constructor
  · intro hb hn
    simp [safeStochOne, hb, not_lt.mpr hn]
  · intro hb
    simp [safeStochOne, hb]

/-! ### Non-vacuity: `G + 2A`, `x = (3, 5)`, `k = 2`, `V = 2` gives 150, 120, 37.5, 30 -/

example : detSpec (2 : ℚ) (fun i => if i = 0 then 3 else 5) [0, 1, 1] = 150 := by
  norm_num [detSpec]
example : stochSpec (2 : ℚ) (fun i => if i = 0 then 3 else 5) [0, 1, 1] = 120 := by
  simp [stochSpec, ff, List.range_succ]; norm_num
example : detSpec (2 : ℚ) (fun i => if i = 0 then 3 else 5) [0, 1, 1] * volScale 2 3 = 75 / 2 := by
  norm_num [detSpec, volScale]

/-- non-vacuity of `massAction_stoch_zero_of_short` / `massAction_stoch_nonneg`: `2A → …` with a single copy of `A`. -/
example : (createMassAction (α := ℚ) 0 [0, 0]).stoch (fun _ => 1) (fun _ => 2) 0 = 0
    ∧ 0 ≤ (createMassAction (α := ℚ) 0 [0, 0, 1]).stoch (fun _ => 5) (fun _ => 2) 0 :=
  ⟨massAction_stoch_zero_of_short 0 [0, 0] (fun _ => 1) (fun _ => 2) 0 (by intro s; norm_num) 0 (by simp) 1 (by norm_num)
      (by decide),
   massAction_stoch_nonneg 0 [0, 0, 1] (fun _ => 5) (fun _ => 2) 0 (by intro s; norm_num) (by norm_num)⟩

end Bioscrape.C01
