import Mathlib.Algebra.BigOperators.Group.List.Basic
import Mathlib.Algebra.Order.Field.Basic
import Mathlib.Tactic.Ring
import Mathlib.Tactic.Linarith
import BioscrapeModel.Proofs.Laws
import BioscrapeModel.Model.Expr

/-
C02 — rate and rule expressions evaluate to their mathematical meaning.
-/
set_option linter.unusedSectionVars false
set_option linter.unusedSimpArgs false

namespace Bioscrape.C02
open Bioscrape

variable {α : Type} [Field α] [LinearOrder α] [IsStrictOrderedRing α] [Transc α] [LawfulTransc α]

/-! ### Node semantics of the evaluation tree -/

theorem sumLoop_eq (vs : List α) : sumLoop vs = vs.sum := by
  unfold sumLoop
  have : ∀ acc : α, vs.foldl (· + ·) acc = acc + vs.sum := by
    induction vs with
    | nil => intro acc; simp
    | cons a l ih => intro acc; rw [List.foldl_cons, ih]; simp [add_assoc]
  simpa using this 0

theorem prodLoop_eq (vs : List α) : prodLoop vs = vs.prod := by
  unfold prodLoop
  have : ∀ acc : α, vs.foldl (· * ·) acc = acc * vs.prod := by
    induction vs with
    | nil => intro acc; simp
    | cons a l ih => intro acc; rw [List.foldl_cons, ih]; simp [mul_assoc]
  simpa using this 1

/-- `MaxTerm` returns the lattice maximum of its (non-empty) argument list, `MinTerm` the minimum. -/
theorem maxLoop_eq (a : α) (rest : List α) : maxLoop (a :: rest) = rest.foldl max a := by
  simp only [maxLoop]
  congr 1
  funext ans temp
  split
  · rename_i h; exact (max_eq_right (le_of_lt h)).symm
  · rename_i h; exact (max_eq_left (not_lt.mp h)).symm

theorem minLoop_eq (a : α) (rest : List α) : minLoop (a :: rest) = rest.foldl min a := by
  simp only [minLoop]
  congr 1
  funext ans temp
  split
  · rename_i h; exact (min_eq_right (le_of_lt h)).symm
  · rename_i h; exact (min_eq_left (not_lt.mp h)).symm

private theorem foldl_max_spec (rest : List α) : ∀ a : α,
    (∀ v ∈ a :: rest, v ≤ rest.foldl max a) ∧ rest.foldl max a ∈ a :: rest := by
  induction rest with
  | nil => intro a; simp
  | cons b l ih =>
    intro a
    obtain ⟨h1, h2⟩ := ih (max a b)
    simp only [List.foldl_cons]
    constructor
    · intro v hv
      rcases List.mem_cons.mp hv with rfl | hv
      · exact le_trans (le_max_left _ _) (h1 _ (List.mem_cons_self))
      · rcases List.mem_cons.mp hv with rfl | hv
        · exact le_trans (le_max_right _ _) (h1 _ (List.mem_cons_self))
        · exact h1 v (List.mem_cons_of_mem _ hv)
    · rcases List.mem_cons.mp h2 with h | h
      · rw [h]
        rcases max_choice a b with e | e <;> rw [e] <;> simp
      · exact List.mem_cons_of_mem _ (List.mem_cons_of_mem _ h)

private theorem foldl_min_spec (rest : List α) : ∀ a : α,
    (∀ v ∈ a :: rest, rest.foldl min a ≤ v) ∧ rest.foldl min a ∈ a :: rest := by
  induction rest with
  | nil => intro a; simp
  | cons b l ih =>
    intro a
    obtain ⟨h1, h2⟩ := ih (min a b)
    simp only [List.foldl_cons]
    constructor
    · intro v hv
      rcases List.mem_cons.mp hv with rfl | hv
      · exact le_trans (h1 _ (List.mem_cons_self)) (min_le_left _ _)
      · rcases List.mem_cons.mp hv with rfl | hv
        · exact le_trans (h1 _ (List.mem_cons_self)) (min_le_right _ _)
        · exact h1 v (List.mem_cons_of_mem _ hv)
    · rcases List.mem_cons.mp h2 with h | h
      · rw [h]
        rcases min_choice a b with e | e <;> rw [e] <;> simp
      · exact List.mem_cons_of_mem _ (List.mem_cons_of_mem _ h)

/-- **`MaxTerm` is the greatest argument**: an upper bound of every argument that is itself one of them. -/
theorem maxLoop_spec (vs : List α) (hne : vs ≠ []) : (∀ v ∈ vs, v ≤ maxLoop vs) ∧ maxLoop vs ∈ vs := by
  cases vs with
  | nil => exact absurd rfl hne
  | cons a rest => rw [maxLoop_eq]; exact foldl_max_spec rest a

/-- **`MinTerm` is the least argument.** -/
theorem minLoop_spec (vs : List α) (hne : vs ≠ []) : (∀ v ∈ vs, minLoop vs ≤ v) ∧ minLoop vs ∈ vs := by
  cases vs with
  | nil => exact absurd rfl hne
  | cons a rest => rw [minLoop_eq]; exact foldl_min_spec rest a

/-- **the order of the arguments of `Max` / `Min` does not matter**, for any number of arguments (the loop compares
with a strict inequality and keeps the first of equal values; the value is the same either way). -/
theorem maxLoop_perm (vs ws : List α) (h : vs.Perm ws) : maxLoop vs = maxLoop ws := by
  by_cases hne : vs = []
  · subst hne; rw [List.nil_perm.mp h]
  · have hne' : ws ≠ [] := fun e => hne (List.perm_nil.mp (e ▸ h))
    obtain ⟨a1, a2⟩ := maxLoop_spec vs hne
    obtain ⟨b1, b2⟩ := maxLoop_spec ws hne'
    exact le_antisymm (b1 _ (h.mem_iff.mp a2)) (a1 _ (h.mem_iff.mpr b2))

theorem minLoop_perm (vs ws : List α) (h : vs.Perm ws) : minLoop vs = minLoop ws := by
  by_cases hne : vs = []
  · subst hne; rw [List.nil_perm.mp h]
  · have hne' : ws ≠ [] := fun e => hne (List.perm_nil.mp (e ▸ h))
    obtain ⟨a1, a2⟩ := minLoop_spec vs hne
    obtain ⟨b1, b2⟩ := minLoop_spec ws hne'
    exact le_antisymm (a1 _ (h.mem_iff.mpr b2)) (b1 _ (h.mem_iff.mp a2))

/-- **`volume` reads 1 where no volume is in play**: `evaluate` is `volume_evaluate` at volume 1. -/
theorem volEval_one (e : Term α) (x p : Nat → α) (t : α) : e.eval x p t = e.volEval x p 1 t := rfl

/-! ### A formula's evaluation tree computes the formula's meaning; unknown names are rejected -/

/-- the environment a model gives a formula: species, then parameters, then the built-ins (after the
leading-underscore strip), exactly the names `resolveName` accepts. -/
def envOf (species params : List String) (x p : Nat → α) (vol time : α) : Env α := fun name =>
  let name := lookupName species params name
  match species.idxOf? name with
  | some i => some (x i)
  | none =>
    match params.idxOf? name with
    | some i => some (p i)
    | none => if name = "volume" then some vol else if name = "t" then some time else none

theorem resolveName_sound (species params : List String) (x p : Nat → α) (vol time : α) (name : String) (t : Term α)
    (h : resolveName species params name = .ok t) :
    envOf species params x p vol time name = some (t.volEval x p vol time) := by
  unfold resolveName at h
  unfold envOf
  generalize lookupName species params name = nm at h ⊢
  simp only at h ⊢
  split at h
  · rename_i i hi; cases h; simp [hi, Term.volEval]
  · rename_i hs
    split at h
    · rename_i i hi; cases h; simp [hs, hi, Term.volEval]
    · rename_i hp
      split at h
      · rename_i hv; cases h; subst hv; simp [hs, hp, Term.volEval]
      · split at h
        · rename_i hv ht; cases h; subst ht; simp [hs, hp, Term.volEval]
        · cases h

theorem resolveName_rejects (species params : List String) (x p : Nat → α) (vol time : α) (name : String) (msg : String)
    (h : resolveName (α := α) species params name = .error msg) :
    envOf species params x p vol time name = none := by
  unfold resolveName at h
  unfold envOf
  generalize lookupName species params name = nm at h ⊢
  simp only at h ⊢
  split at h
  · cases h
  · rename_i hs
    split at h
    · cases h
    · rename_i hp
      split at h
      · cases h
      · split at h
        · cases h
        · rename_i hv ht; simp [hs, hp, hv, ht]

mutual
/-- **soundness of the translation**: whenever a formula is accepted, the tree built for it evaluates — for
every state, parameter vector, time and volume — to the meaning of the written formula. -/
theorem translate_sound (species params : List String) (x p : Nat → α) (vol time : α) :
    ∀ (e : Expr α) (t : Term α), translate species params e = .ok t →
      Expr.eval (envOf species params x p vol time) e = some (t.volEval x p vol time)
  | .num v, t, h => by simp [translate] at h; subst h; simp [Expr.eval, Term.volEval]
  | .ident s, t, h => by
      simp only [translate] at h
      simp only [Expr.eval]
      exact resolveName_sound species params x p vol time s t h
  | .add a b, t, h => by
      simp only [translate, bind, Except.bind] at h
      cases ha : translate species params a with
      | error m => rw [ha] at h; cases h
      | ok ta =>
        cases hb : translate species params b with
        | error m => rw [ha, hb] at h; cases h
        | ok tb =>
          rw [ha, hb] at h; cases h
          simp [Expr.eval, translate_sound species params x p vol time a ta ha,
            translate_sound species params x p vol time b tb hb, Term.volEval, Term.volEvalList, sumLoop]
  | .sub a b, t, h => by
      simp only [translate, bind, Except.bind] at h
      cases ha : translate species params a with
      | error m => rw [ha] at h; cases h
      | ok ta =>
        cases hb : translate species params b with
        | error m => rw [ha, hb] at h; cases h
        | ok tb =>
          rw [ha, hb] at h; cases h
          simp [Expr.eval, translate_sound species params x p vol time a ta ha,
            translate_sound species params x p vol time b tb hb, Term.volEval, Term.volEvalList, sumLoop, prodLoop]
          ring
  | .mul a b, t, h => by
      simp only [translate, bind, Except.bind] at h
      cases ha : translate species params a with
      | error m => rw [ha] at h; cases h
      | ok ta =>
        cases hb : translate species params b with
        | error m => rw [ha, hb] at h; cases h
        | ok tb =>
          rw [ha, hb] at h; cases h
          simp [Expr.eval, translate_sound species params x p vol time a ta ha,
            translate_sound species params x p vol time b tb hb, Term.volEval, Term.volEvalList, prodLoop]
  | .div a b, t, h => by
      simp only [translate, bind, Except.bind] at h
      cases ha : translate species params a with
      | error m => rw [ha] at h; cases h
      | ok ta =>
        cases hb : translate species params b with
        | error m => rw [ha, hb] at h; cases h
        | ok tb =>
          rw [ha, hb] at h; cases h
          simp [Expr.eval, translate_sound species params x p vol time a ta ha,
            translate_sound species params x p vol time b tb hb, Term.volEval, Term.volEvalList, prodLoop,
            LawfulTransc.pow_neg_one, div_eq_mul_inv]
  | .pow a b, t, h => by
      simp only [translate, bind, Except.bind] at h
      cases ha : translate species params a with
      | error m => rw [ha] at h; cases h
      | ok ta =>
        cases hb : translate species params b with
        | error m => rw [ha, hb] at h; cases h
        | ok tb =>
          rw [ha, hb] at h; cases h
          simp [Expr.eval, translate_sound species params x p vol time a ta ha,
            translate_sound species params x p vol time b tb hb, Term.volEval]
  | .neg a, t, h => by
      simp only [translate, bind, Except.bind] at h
      cases ha : translate species params a with
      | error m => rw [ha] at h; cases h
      | ok ta =>
        rw [ha] at h; cases h
        simp [Expr.eval, translate_sound species params x p vol time a ta ha, Term.volEval, Term.volEvalList, prodLoop]
  | .exp a, t, h => by
      simp only [translate, bind, Except.bind] at h
      cases ha : translate species params a with
      | error m => rw [ha] at h; cases h
      | ok ta => rw [ha] at h; cases h; simp [Expr.eval, translate_sound species params x p vol time a ta ha, Term.volEval]
  | .log a, t, h => by
      simp only [translate, bind, Except.bind] at h
      cases ha : translate species params a with
      | error m => rw [ha] at h; cases h
      | ok ta => rw [ha] at h; cases h; simp [Expr.eval, translate_sound species params x p vol time a ta ha, Term.volEval]
  | .abs a, t, h => by
      simp only [translate, bind, Except.bind] at h
      cases ha : translate species params a with
      | error m => rw [ha] at h; cases h
      | ok ta => rw [ha] at h; cases h; simp [Expr.eval, translate_sound species params x p vol time a ta ha, Term.volEval]
  | .step a, t, h => by
      simp only [translate, bind, Except.bind] at h
      cases ha : translate species params a with
      | error m => rw [ha] at h; cases h
      | ok ta => rw [ha] at h; cases h; simp [Expr.eval, translate_sound species params x p vol time a ta ha, Term.volEval]
  | .max args, t, h => by
      simp only [translate, bind, Except.bind] at h
      cases ha : translateList species params args with
      | error m => rw [ha] at h; cases h
      | ok ts => rw [ha] at h; cases h; simp [Expr.eval, translateList_sound species params x p vol time args ts ha, Term.volEval]
  | .min args, t, h => by
      simp only [translate, bind, Except.bind] at h
      cases ha : translateList species params args with
      | error m => rw [ha] at h; cases h
      | ok ts => rw [ha] at h; cases h; simp [Expr.eval, translateList_sound species params x p vol time args ts ha, Term.volEval]
theorem translateList_sound (species params : List String) (x p : Nat → α) (vol time : α) :
    ∀ (es : List (Expr α)) (ts : List (Term α)), translateList species params es = .ok ts →
      Expr.evalList (envOf species params x p vol time) es = some (Term.volEvalList x p vol time ts)
  | [], ts, h => by simp [translateList] at h; subst h; simp [Expr.evalList, Term.volEvalList]
  | a :: rest, ts, h => by
      simp only [translateList, bind, Except.bind] at h
      cases ha : translate species params a with
      | error m => rw [ha] at h; cases h
      | ok ta =>
        cases hb : translateList species params rest with
        | error m => rw [ha, hb] at h; cases h
        | ok tr =>
          rw [ha, hb] at h; cases h
          simp [Expr.evalList, translate_sound species params x p vol time a ta ha,
            translateList_sound species params x p vol time rest tr hb, Term.volEvalList]
end

/-- a formula with no meaning in the model's environment (it mentions a name that is neither a species, a
parameter nor a built-in) is never given a tree, hence never a value. -/
theorem translate_rejects_meaningless (species params : List String) (x p : Nat → α) (vol time : α) (e : Expr α)
    (h : Expr.eval (envOf species params x p vol time) e = none) : ∃ msg, translate species params e = .error msg := by
  cases ht : translate species params e with
  | error m => exact ⟨m, rfl⟩
  | ok t => rw [translate_sound species params x p vol time e t ht] at h; cases h

/-- an identifier that is not a species, a parameter, `volume` or `t` (after the underscore strip) is
rejected with an error naming it. -/
theorem unknown_name_rejected (species params : List String) (name : String)
    (hs : lookupName species params name ∉ species) (hp : lookupName species params name ∉ params)
    (hv : lookupName species params name ≠ "volume") (ht : lookupName species params name ≠ "t") :
    ∃ msg, translate (α := α) species params (.ident name) = .error msg := by
  simp only [translate, resolveName]
  have h1 : species.idxOf? (lookupName species params name) = none := List.idxOf?_eq_none_iff.mpr hs
  have h2 : params.idxOf? (lookupName species params name) = none := List.idxOf?_eq_none_iff.mpr hp
  simp [h1, h2, hv, ht]

/-- a name declared as written is looked up as written, underscore included. -/
theorem declared_name_kept (species params : List String) (name : String) (h : name ∈ species ∨ name ∈ params) :
    lookupName species params name = name := by
  unfold lookupName; rw [if_pos h]

/-! ### Non-vacuity -/
example : ∃ t, translate (α := ℚ) ["A"] ["k"] (.sub (.mul (.ident "k") (.pow (.ident "_A") (.num 2))) (.ident "t")) = .ok t :=
  ⟨_, by simp [translate, resolveName, lookupName, stripName, bind, Except.bind]; rfl⟩

end Bioscrape.C02
