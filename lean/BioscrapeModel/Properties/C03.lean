import Mathlib.Algebra.BigOperators.Group.List.Basic
import Mathlib.Algebra.Order.Field.Basic
import Mathlib.Data.List.Count
import Mathlib.Data.Int.Cast.Lemmas
import Mathlib.Tactic.Ring
import Mathlib.Tactic.Linarith
import BioscrapeModel.Model.Network

/-
C03 — stoichiometry and net rate equations follow the reaction list.
-/
set_option linter.unusedSectionVars false
set_option linter.unusedSimpArgs false

namespace Bioscrape.C03
open Bioscrape

/-! ### The update dictionary counts products minus reactants, with multiplicity -/

theorem dictGet_bump (d : List (String × Int)) (s s' : String) (δ : Int) :
    dictGet (bump d s δ) s' = dictGet d s' + if s = s' then δ else 0 := by
  induction d with
  | nil => by_cases h : s = s' <;> simp [bump, dictGet, h]
  | cons kv rest ih =>
    obtain ⟨k, v⟩ := kv
    unfold bump
    by_cases hk : k = s
    · subst hk
      by_cases h : k = s' <;> simp [dictGet, h]
    · simp only [hk, if_false]
      by_cases h : k = s'
      · subst h
        have : ¬ s = k := fun e => hk e.symm
        simp [dictGet, this]
      · simp [dictGet, h, ih]

theorem dictGet_foldl_bump (ss : List String) (d : List (String × Int)) (s' : String) (δ : Int) :
    dictGet (ss.foldl (fun d s => bump d s δ) d) s' = dictGet d s' + δ * (ss.count s' : Int) := by
  induction ss generalizing d with
  | nil => simp
  | cons s rest ih =>
    rw [List.foldl_cons, ih, dictGet_bump, List.count_cons]
    by_cases h : s = s'
    · subst h; simp; ring
    · have : ¬ (s == s') = true := by simpa using h
      simp [h, this]

/-- **stoichiometric entry**: products minus reactants, counted with multiplicity; a species on both
sides contributes the difference (zero when the counts are equal). -/
theorem updateDict_entry (reactants products : List String) (s : String) :
    dictGet (updateDict reactants products) s = (products.count s : Int) - (reactants.count s : Int) := by
  unfold updateDict
  rw [dictGet_foldl_bump, dictGet_foldl_bump]
  simp [dictGet]; ring

/-- **matrix entry, for every species order**: whatever index list `idx` the declaration order
produced, row `i` of a reaction's column is `count(products) − count(reactants)` of species `idx[i]`. -/
theorem stoich_entry (idx : List String) (rxns : List RxnDef) (i r : Nat)
    (hi : i < idx.length) (hr : r < rxns.length) :
    entry (stoichCols idx rxns) i r
      = ((rxns[r]).products.count (idx[i]) : Int) - ((rxns[r]).reactants.count (idx[i]) : Int) := by
  unfold entry stoichCols stoichColumn
  simp [List.getD_eq_getElem?_getD, hr, hi, updateDict_entry]

/-- the delayed matrix is built the same way from the delayed reactants and products. -/
theorem delay_stoich_entry (idx : List String) (rxns : List RxnDef) (i r : Nat)
    (hi : i < idx.length) (hr : r < rxns.length) :
    entry (delayStoichCols idx rxns) i r
      = ((rxns[r]).dProducts.count (idx[i]) : Int) - ((rxns[r]).dReactants.count (idx[i]) : Int) := by
  unfold entry delayStoichCols stoichColumn
  simp [List.getD_eq_getElem?_getD, hr, hi, updateDict_entry]

/-- a species on both sides with equal multiplicity cancels. -/
theorem stoich_cancel (reactants products : List String) (s : String)
    (h : products.count s = reactants.count s) : dictGet (updateDict reactants products) s = 0 := by
  rw [updateDict_entry, h]; simp

/-! ### Species indexing -/

theorem addSpecies_mem (idx : List String) (s t : String) (h : t ∈ idx) : t ∈ addSpecies idx s := by
  unfold addSpecies; split <;> simp [h]

theorem addSpecies_self (idx : List String) (s : String) (hs : s ≠ "") : s ∈ addSpecies idx s := by
  unfold addSpecies
  split
  · rename_i h; rcases h with h | h
    · exact h
    · exact absurd h hs
  · simp

theorem addSpecies_nodup (idx : List String) (s : String) (h : idx.Nodup) : (addSpecies idx s).Nodup := by
  unfold addSpecies
  split
  · exact h
  · rename_i hn
    have : s ∉ idx := fun hm => hn (Or.inl hm)
    exact List.nodup_append.mpr ⟨h, by simp, by intro a ha b hb; simp at hb; subst hb; exact fun e => this (e ▸ ha)⟩

theorem addAll_nodup (idx ss : List String) (h : idx.Nodup) : (addAll idx ss).Nodup := by
  unfold addAll
  induction ss generalizing idx with
  | nil => exact h
  | cons s rest ih => exact ih _ (addSpecies_nodup idx s h)

/-- every species gets exactly one row: the index list never holds a name twice, in any
declaration order. -/
theorem speciesOrder_nodup (decl : List String) (rxns : List RxnDef) (ic : List String) :
    (speciesOrder decl rxns ic).Nodup := by
  unfold speciesOrder
  apply addAll_nodup
  have base : (addAll [] decl).Nodup := addAll_nodup [] decl List.nodup_nil
  generalize addAll [] decl = idx0 at base
  induction rxns generalizing idx0 with
  | nil => exact base
  | cons r rest ih =>
    rw [List.foldl_cons]
    exact ih _ (addAll_nodup _ _ (addAll_nodup _ _ (addAll_nodup _ _ (addAll_nodup _ _ base))))

theorem addAll_mono (idx ss : List String) (t : String) (h : t ∈ idx) : t ∈ addAll idx ss := by
  unfold addAll
  induction ss generalizing idx with
  | nil => exact h
  | cons s rest ih => exact ih _ (addSpecies_mem idx s t h)

theorem addAll_mem (idx ss : List String) (s : String) (hs : s ∈ ss) (hne : s ≠ "") : s ∈ addAll idx ss := by
  unfold addAll
  induction ss generalizing idx with
  | nil => cases hs
  | cons a rest ih =>
    rw [List.foldl_cons]
    rcases List.mem_cons.mp hs with rfl | h
    · exact addAll_mono _ rest _ (addSpecies_self idx _ hne)
    · exact ih _ h

theorem addAll_prefix (idx ss : List String) : idx <+: addAll idx ss := by
  unfold addAll
  induction ss generalizing idx with
  | nil => exact List.prefix_refl _
  | cons a rest ih =>
    rw [List.foldl_cons]
    refine List.IsPrefix.trans ?_ (ih _)
    unfold addSpecies; split
    · exact List.prefix_refl _
    · exact List.prefix_append _ _

private theorem rxnFold_prefix (rxns : List RxnDef) (idx0 : List String) :
    idx0 <+: rxns.foldl (fun idx r =>
      addAll (addAll (addAll (addAll idx r.reactants) r.products) r.dReactants) r.dProducts) idx0 := by
  induction rxns generalizing idx0 with
  | nil => exact List.prefix_refl _
  | cons r rest ih =>
    rw [List.foldl_cons]
    exact ((((addAll_prefix idx0 r.reactants).trans (addAll_prefix _ r.products)).trans
      (addAll_prefix _ r.dReactants)).trans (addAll_prefix _ r.dProducts)).trans (ih _)

/-- **declared species keep their declared positions**: the index list starts with the declared species in declaration
order (duplicates and empty names dropped); species that only appear in reactions or initial conditions come after. -/
theorem speciesOrder_declared_first (decl : List String) (rxns : List RxnDef) (ic : List String) :
    addAll [] decl <+: speciesOrder decl rxns ic := by
  unfold speciesOrder
  exact (rxnFold_prefix rxns _).trans (addAll_prefix _ ic)

/-- **no species is left without a row**: every (non-empty) name that is declared, used by any reaction as reactant,
product, delayed reactant or delayed product, or given an initial condition, is in the index list. -/
theorem speciesOrder_complete (decl : List String) (rxns : List RxnDef) (ic : List String) (s : String) (hne : s ≠ "")
    (h : s ∈ decl ∨ s ∈ ic ∨ ∃ r ∈ rxns, s ∈ r.reactants ∨ s ∈ r.products ∨ s ∈ r.dReactants ∨ s ∈ r.dProducts) :
    s ∈ speciesOrder decl rxns ic := by
  unfold speciesOrder
  rcases h with h | h | ⟨r, hr, h⟩
  · exact addAll_mono _ ic s ((rxnFold_prefix rxns _).subset (addAll_mem [] decl s h hne))
  · exact addAll_mem _ ic s h hne
  · apply addAll_mono _ ic s
    generalize addAll [] decl = idx0
    induction rxns generalizing idx0 with
    | nil => cases hr
    | cons r' rest ih =>
      rw [List.foldl_cons]
      rcases List.mem_cons.mp hr with rfl | hr'
      · apply (rxnFold_prefix rest _).subset
        rcases h with h | h | h | h
        · exact addAll_mono _ _ s (addAll_mono _ _ s (addAll_mono _ _ s (addAll_mem _ _ s h hne)))
        · exact addAll_mono _ _ s (addAll_mono _ _ s (addAll_mem _ _ s h hne))
        · exact addAll_mono _ _ s (addAll_mem _ _ s h hne)
        · exact addAll_mem _ _ s h hne
      · exact ih hr' _

/-! ### Net rate equations -/

variable {α : Type} [Field α] [LinearOrder α] [IsStrictOrderedRing α] [Transc α]

/-- the dense form of one derivative row: `Σ_r (U + D)[s,r] · rate_r`. -/
def denseRow (U D : List (List Int)) (rates : List α) (s : Nat) : α :=
  ((List.range rates.length).map (fun r => ((entry U s r + entry D s r : Int) : α) * rates.getD r 0)).sum

/-- **the compressed row equals the dense one**: skipping zero entries changes nothing. -/
theorem derivRow_eq_dense (U D : List (List Int)) (rates : List α) (s : Nat) :
    derivRow U D rates s = denseRow U D rates s := by
  unfold derivRow denseRow
  generalize List.range rates.length = rs
  have key : ∀ (acc : α), rs.foldl (fun acc r =>
      let v := entry U s r + entry D s r
      if v ≠ 0 then acc + rates.getD r 0 * (v : α) else acc) acc
      = acc + (rs.map (fun r => ((entry U s r + entry D s r : Int) : α) * rates.getD r 0)).sum := by
    induction rs with
    | nil => intro acc; simp
    | cons r rest ih =>
      intro acc
      rw [List.foldl_cons, ih, List.map_cons, List.sum_cons]
      by_cases hv : entry U s r + entry D s r = 0
      · simp [hv]
      · simp only [ne_eq, hv, not_false_eq_true, if_true]; ring
  have := key 0
  simpa using this

/-- **net rate equations**: the derivative reported for a state is, for each species, the sum over
reactions of (immediate + delayed stoichiometry) × the reaction's deterministic rate there. -/
theorem derivative_spec (n : Nat) (U D : List (List Int)) (props : List (Propensity α))
    (x p : Nat → α) (t : α) (s : Nat) (hs : s < n) :
    (derivative n U D props x p t).getD s 0
      = denseRow U D (props.map (fun q => q.det x p t)) s := by
  unfold derivative
  simp only [List.getD_eq_getElem?_getD]
  rw [List.getElem?_map, List.getElem?_range hs]
  simp only [Option.map_some, Option.getD_some]
  rw [derivRow_eq_dense]
  rfl

/-! ### The safe interface's derivative -/

/-- **the safe interface's guard is idle wherever it only leaves out zero terms**: if every reaction that consumes
species `s` has rate zero while `s` is at zero (mass action does), the guarded row is the plain row. -/
theorem derivRowSafe_idle (U D : List (List Int)) (rates : List α) (xs : α) (s : Nat)
    (h : ∀ r, entry U s r + entry D s r ≤ 0 → xs ≤ 0 → rates.getD r 0 = 0) :
    derivRowSafe U D rates xs s = derivRow U D rates s := by
  unfold derivRowSafe derivRow
  have hf : (fun (acc : α) (r : Nat) =>
      let v := entry U s r + entry D s r
      if v ≠ 0 then (if v ≤ 0 ∧ xs ≤ 0 then acc else acc + rates.getD r 0 * (v : α)) else acc)
      = (fun (acc : α) (r : Nat) =>
      let v := entry U s r + entry D s r
      if v ≠ 0 then acc + rates.getD r 0 * (v : α) else acc) := by
    funext acc r
    by_cases hv : entry U s r + entry D s r = 0
    · simp [hv]
    · by_cases hg : entry U s r + entry D s r ≤ 0 ∧ xs ≤ 0
      · have h0 := h r hg.1 hg.2
        rw [List.getD_eq_getElem?_getD] at h0
        simp [hv, hg, h0]
      · simp only [ne_eq, hv, not_false_eq_true, if_true, hg, if_false]
  rw [hf]

/-- at a strictly positive count nothing is left out. -/
theorem derivRowSafe_pos (U D : List (List Int)) (rates : List α) (xs : α) (s : Nat) (hx : 0 < xs) :
    derivRowSafe U D rates xs s = derivRow U D rates s :=
  derivRowSafe_idle U D rates xs s (fun _ _ hle => absurd hx (not_lt.mpr hle))

/-- **the guard does leave something out otherwise**: one consuming reaction with a non-zero rate at a species at zero
(a constant-rate degradation) — the safe row is 0, the plain row is the (negative) rate. -/
example : derivRowSafe [[-1]] [[0]] [(3 : ℚ)] 0 0 = 0 ∧ derivRow [[-1]] [[0]] [(3 : ℚ)] 0 = -3 := by
  constructor <;> norm_num [derivRowSafe, derivRow, entry]

/-! ### Parameters without a value -/

/-- `Model.check_parameters`: initialisation fails iff some parameter still holds the "unset"
marker (NaN in the implementation, `none` here). -/
def checkParameters (vals : List (String × Option α)) : Except String Unit :=
  match vals.find? (fun pv => pv.2.isNone) with
  | some pv => .error ("Unspecified Parameters: " ++ pv.1)
  | none => .ok ()

theorem init_fails_of_unset_param (vals : List (String × Option α)) (name : String)
    (h : (name, none) ∈ vals) : ∃ msg, checkParameters vals = .error msg := by
  unfold checkParameters
  cases hf : vals.find? (fun pv => pv.2.isNone) with
  | some pv => exact ⟨_, rfl⟩
  | none =>
    have := List.find?_eq_none.mp hf (name, none) h
    simp at this

theorem init_ok_of_all_set (vals : List (String × Option α)) (h : ∀ pv ∈ vals, pv.2.isSome) :
    checkParameters vals = .ok () := by
  unfold checkParameters
  have : vals.find? (fun pv => pv.2.isNone) = none := by
    apply List.find?_eq_none.mpr
    intro pv hpv
    have := h pv hpv
    cases hv : pv.2 <;> simp_all
  rw [this]

/-! ### Non-vacuity -/

example : stoichColumn ["A", "B", "C"] ["A", "A", "B"] ["B", "C", "C"] = [-2, 0, 2] := by decide
example : speciesOrder ["C"] [{ reactants := ["A", "A"], products := ["B", ""] }] ["D"] = ["C", "A", "B", "D"] := by
  decide

end Bioscrape.C03
