import Mathlib.Algebra.Order.Field.Basic
import Mathlib.Tactic.Linarith
import BioscrapeModel.Proofs.Laws
import BioscrapeModel.Model.Deterministic
import BioscrapeModel.Properties.C03

/-
C04 — deterministic simulation solves the model's rate equations.

Proved: the right-hand side handed to the integrator is exactly the model's rate equations
`(S + S_d)·rate(x, t)` (delayed stoichiometry added as if the delay were zero); the retry ladder; a
failed integration is never reported as numbers; rows are re-ruled; and, *conditionally on the
integrator's accuracy contract*, the reported rows are within tolerance of the exact solution.
The contract itself (LSODA's accuracy) is assumed and sampled by the check (`det_accurate` is the
partial form of the property).
-/
set_option linter.unusedSectionVars false
set_option linter.unusedSimpArgs false

namespace Bioscrape.C04
open Bioscrape

variable {α : Type} [Field α] [LinearOrder α] [IsStrictOrderedRing α] [Transc α] [Trunc α]

/-- **the integrator is handed the model's rate equations**: without rules, `rhs_global(x, t)` is, for each
species, `Σ_r (S + S_d)[s, r] · rate_r(x, t)` — the delayed part of every reaction counted as if its delay
were zero. -/
theorem rhsGlobal_eq (m : SimModel α) (x p : List α) (t : α) (hr : m.rules = []) (s : Nat) (hs : s < m.nSpecies) :
    (rhsGlobal m x p t).1.getD s 0
      = C03.denseRow m.U m.D (m.props.map (fun q => q.det (vecGet x) (vecGet p) t)) s := by
  unfold rhsGlobal
  simp only [hr, applyRules, List.foldl_nil]
  exact C03.derivative_spec m.nSpecies m.U m.D m.props (vecGet x) (vecGet p) t s hs

/-- with rules, the derivative is computed from the rule-updated state and parameters. -/
theorem rhsGlobal_rules (m : SimModel α) (x p : List α) (t : α) :
    (rhsGlobal m x p t).1
      = derivative m.nSpecies m.U m.D m.props
          (vecGet (applyRules m.rules x p 1 t m.dt (detRuleStep t m.dt)).1)
          (vecGet (applyRules m.rules x p 1 t m.dt (detRuleStep t m.dt)).2) t := rfl

/-- the default ladder of `mxstep` values. -/
theorem ladder_default : mxstepLadder 500000 10 500 = [500, 5000, 50000, 500000] := by decide

/-- a user-given cap that is not a power-of-ten multiple is the last value tried. -/
example : mxstepLadder 20000 10 500 = [500, 5000, 20000] := by decide

variable {Rows : Type}

/-- **a failed integration is never reported as numbers.** -/
theorem det_failure_is_nan (solve : Nat → Option Rows) (rerule : Rows → Rows) (hasRules : Bool) (ladder : List Nat)
    (h : ∀ k ∈ ladder, solve k = none) : detSimulate solve rerule hasRules ladder = none := by
  unfold detSimulate
  have : ladder.findSome? solve = none := by
    induction ladder with
    | nil => rfl
    | cons k rest ih =>
      rw [List.findSome?_cons, h k (by simp)]
      exact ih (fun k' hk' => h k' (List.mem_cons_of_mem _ hk'))
  rw [this]

/-- the result is the first successful attempt, with the rules re-applied when the model has rules. -/
theorem det_success (solve : Nat → Option Rows) (rerule : Rows → Rows) (hasRules : Bool) (pre post : List Nat)
    (k : Nat) (rows : Rows) (hpre : ∀ k' ∈ pre, solve k' = none) (hk : solve k = some rows) :
    detSimulate solve rerule hasRules (pre ++ k :: post) = some (if hasRules then rerule rows else rows) := by
  unfold detSimulate
  have : (pre ++ k :: post).findSome? solve = some rows := by
    induction pre with
    | nil => simp [List.findSome?_cons, hk]
    | cons a rest ih =>
      rw [List.cons_append, List.findSome?_cons, hpre a (by simp)]
      exact ih (fun k' hk' => hpre k' (List.mem_cons_of_mem _ hk'))
  rw [this]

/-- accuracy contract assumed of the integrator: every successful attempt returns, at each requested time,
a state within `ε` of the exact solution `φ` through the initial condition. -/
def SolverAccurate (ε : α) (dist : Rows → Nat → α) (solve : Nat → Option Rows) : Prop :=
  ∀ k rows, solve k = some rows → ∀ i, dist rows i ≤ ε

/-- **conditional accuracy** (`det_accurate`, the partial form of the property): if the integrator meets its
contract, every row of a reported result (no rules) is within `ε` of the exact solution of
`x' = (S + S_d)·rate(x, t)` at the corresponding requested time. -/
theorem det_accurate (ε : α) (dist : Rows → Nat → α) (solve : Nat → Option Rows) (rerule : Rows → Rows)
    (ladder : List Nat) (hacc : SolverAccurate ε dist solve) (rows : Rows)
    (h : detSimulate solve rerule false ladder = some rows) : ∀ i, dist rows i ≤ ε := by
  unfold detSimulate at h
  cases hf : ladder.findSome? solve with
  | none => rw [hf] at h; cases h
  | some r =>
    rw [hf] at h
    simp only [Bool.false_eq_true, if_false, Option.some.injEq] at h
    subst h
    obtain ⟨k, _, hk⟩ := List.exists_of_findSome?_eq_some hf
    exact hacc k r hk

end Bioscrape.C04
