import Mathlib.Algebra.Order.Field.Basic
import Mathlib.Tactic.Linarith
import Mathlib.Algebra.BigOperators.Group.Finset.Basic
import Mathlib.Algebra.BigOperators.Ring.Finset
import BioscrapeModel.Proofs.Laws
import BioscrapeModel.Model.Deterministic
import BioscrapeModel.Properties.C03

/-
C04 — deterministic simulation solves the model's rate equations.

Proved: the right-hand side handed to the integrator is exactly the model's rate equations
`(S + S_d)·rate(x, t)` (delayed stoichiometry added as if the delay were zero); the retry ladder; a
failed integration is never reported as numbers; rows are re-ruled; and, *conditionally on the
integrator's accuracy contract*, the reported rows are within tolerance of the exact solution.
Also proved of that right-hand side, for every rate law: every linear conservation law of the stoichiometry
is a constant of the rate equations (`rhsGlobal_conserves`), a species no reaction changes has derivative
zero (`rhsGlobal_untouched`), a state where every rate vanishes is a rest point (`rhsGlobal_rest`); the
check measures the first on the implementation's output rows (drift of every conserved combination).
The contract itself (LSODA's accuracy) is assumed and sampled by the check (`det_accurate` is the
partial form of the property).
-/
set_option linter.unusedSectionVars false
set_option linter.unusedSimpArgs false

namespace Bioscrape.C04
open Bioscrape

variable {α : Type} [Field α] [LinearOrder α] [IsStrictOrderedRing α] [Transc α] [Trunc α]

/-- **the integrator is handed the model's rate equations**: without rules, `rhs_global(x, t)` is, for each
species, `Σ_r (S + S_d)[s, r] · rate_r(x, t)` — the delayed part of every reaction counted as if its delay
were zero. -/
theorem rhsGlobal_eq (m : SimModel α) (x p : List α) (t : α) (hr : m.rules = []) (s : Nat) (hs : s < m.nSpecies) :
    (rhsGlobal m x p t).1.getD s 0
      = C03.denseRow m.U m.D (m.props.map (fun q => q.det (vecGet x) (vecGet p) t)) s := by
  unfold rhsGlobal
  simp only [hr, applyRules, List.foldl_nil]
  exact C03.derivative_spec m.nSpecies m.U m.D m.props (vecGet x) (vecGet p) t s hs

/-- with rules, the derivative is computed from the rule-updated state and parameters. -/
theorem rhsGlobal_rules (m : SimModel α) (x p : List α) (t : α) :
    (rhsGlobal m x p t).1
      = derivative m.nSpecies m.U m.D m.props
          (vecGet (applyRules m.rules x p 1 t m.dt (detRuleStep t m.dt)).1)
          (vecGet (applyRules m.rules x p 1 t m.dt (detRuleStep t m.dt)).2) t := rfl

/-! ### Linear conservation laws and inert reactions -/

private theorem range_map_sum (n : Nat) (f : Nat → α) :
    ((List.range n).map f).sum = ∑ i ∈ Finset.range n, f i := by
  induction n with
  | zero => simp
  | succ n ih => rw [List.range_succ, List.map_append, List.sum_append, ih, Finset.sum_range_succ]; simp

/-- **conservation laws of the rate equations**: a weighting `w` of the species that every reaction's net
change (immediate plus delayed) leaves untouched, `Σ_s w_s·(S + S_d)[s, r] = 0` for every reaction, is left
untouched by the right-hand side handed to the integrator, whatever the rate laws are:
`Σ_s w_s · rhs_s(x, t) = 0` at every state and time (total mass of a closed conversion chain, total
enzyme, ...). -/
theorem rhsGlobal_conserves (m : SimModel α) (x p : List α) (t : α) (hr : m.rules = []) (w : Nat → α)
    (hw : ∀ r, r < m.props.length →
      ∑ s ∈ Finset.range m.nSpecies, w s * ((entry m.U s r + entry m.D s r : Int) : α) = 0) :
    ∑ s ∈ Finset.range m.nSpecies, w s * (rhsGlobal m x p t).1.getD s 0 = 0 := by
  have h1 : ∀ s ∈ Finset.range m.nSpecies, w s * (rhsGlobal m x p t).1.getD s 0
      = ∑ r ∈ Finset.range m.props.length,
          (w s * ((entry m.U s r + entry m.D s r : Int) : α))
            * (m.props.map (fun q => q.det (vecGet x) (vecGet p) t)).getD r 0 := by
    intro s hs
    rw [rhsGlobal_eq m x p t hr s (Finset.mem_range.mp hs)]
    unfold C03.denseRow
    rw [range_map_sum, List.length_map, Finset.mul_sum]
    exact Finset.sum_congr rfl (fun r _ => by ring)
  rw [Finset.sum_congr rfl h1, Finset.sum_comm]
  apply Finset.sum_eq_zero
  intro r hr'
  rw [← Finset.sum_mul, hw r (Finset.mem_range.mp hr'), zero_mul]

/-- the hypothesis of `rhsGlobal_conserves` is met by a real network: in `A -> B`, `B -> A` the weighting
(1, 1) is conserved. -/
example (r : Nat) (hr : r < 2) :
    ∑ s ∈ Finset.range 2, (fun _ => (1 : α)) s * ((entry [[-1, 1], [1, -1]] s r + entry [[0, 0], [0, 0]] s r : Int) : α) = 0 := by
  obtain rfl | rfl : r = 0 ∨ r = 1 := by omega
  all_goals simp [Finset.sum_range_succ, entry]

/-- **a species no reaction changes stays put**: if every reaction's net change of species `s` is zero, its
derivative is zero at every state and time. -/
theorem rhsGlobal_untouched (m : SimModel α) (x p : List α) (t : α) (hr : m.rules = []) (s : Nat) (hs : s < m.nSpecies)
    (h0 : ∀ r, entry m.U s r + entry m.D s r = 0) : (rhsGlobal m x p t).1.getD s 0 = 0 := by
  rw [rhsGlobal_eq m x p t hr s hs]
  unfold C03.denseRow
  apply List.sum_eq_zero
  intro v hv
  obtain ⟨r, _, rfl⟩ := List.mem_map.mp hv
  simp [h0 r]

/-- **rest points**: where every rate vanishes the right-hand side vanishes (an empty system stays empty, a
state at which nothing can react is a fixed point of the rate equations). -/
theorem rhsGlobal_rest (m : SimModel α) (x p : List α) (t : α) (hr : m.rules = []) (s : Nat) (hs : s < m.nSpecies)
    (h0 : ∀ q ∈ m.props, q.det (vecGet x) (vecGet p) t = 0) : (rhsGlobal m x p t).1.getD s 0 = 0 := by
  rw [rhsGlobal_eq m x p t hr s hs]
  unfold C03.denseRow
  apply List.sum_eq_zero
  intro v hv
  obtain ⟨r, hrr, rfl⟩ := List.mem_map.mp hv
  have : (m.props.map (fun q => q.det (vecGet x) (vecGet p) t)).getD r 0 = 0 := by
    rw [List.getD_eq_getElem?_getD, List.getElem?_map]
    cases hq : m.props[r]? with
    | none => simp
    | some q => simpa using h0 q (List.mem_of_getElem? hq)
  rw [this, mul_zero]

/-- the default ladder of `mxstep` values. -/
theorem ladder_default : mxstepLadder 500000 10 500 = [500, 5000, 50000, 500000] := by decide

/-- a user-given cap that is not a power-of-ten multiple is the last value tried. -/
example : mxstepLadder 20000 10 500 = [500, 5000, 20000] := by decide

/-- (Tie to the code: the implementation keeps `steps_allowed` in a C `unsigned`; for caps up to `(2^32 − 1) / 10` the
product `· 10` cannot wrap and the check compares the values the real loop tries with `mxstepLadder` for such caps.
Larger caps are outside the modelled range — the 32-bit product wraps there, see DESIGN.md.)

**the retry ladder, for every cap**: at least one attempt is made, the first one with the starting `mxstep`, and
every value tried lies between the starting value and the cap (or is the starting value itself when the cap is below
it) — no attempt ever exceeds the user's `max_step`. -/
theorem ladder_bounds (maxStep : Nat) : ∀ (fuel cur : Nat),
    ∀ k ∈ mxstepLadder maxStep fuel cur, cur ≤ k ∧ k ≤ max cur maxStep := by
  intro fuel
  induction fuel with
  | zero => intro cur k hk; simp [mxstepLadder] at hk
  | succ fuel ih =>
    intro cur k hk
    unfold mxstepLadder at hk
    split at hk
    · simp only [List.mem_singleton] at hk; subst hk; exact ⟨le_refl _, le_max_left _ _⟩
    · rename_i hlt
      rcases List.mem_cons.mp hk with rfl | hk
      · exact ⟨le_refl _, le_max_left _ _⟩
      · obtain ⟨h1, h2⟩ := ih _ k hk
        have hmin : cur ≤ min (cur * 10) maxStep := by omega
        have hmax : max (min (cur * 10) maxStep) maxStep = maxStep := by omega
        rw [hmax] at h2
        exact ⟨le_trans hmin h1, le_trans h2 (le_max_right _ _)⟩

theorem ladder_head (maxStep fuel cur : Nat) : (mxstepLadder maxStep (fuel + 1) cur).head? = some cur := by
  unfold mxstepLadder; split <;> rfl

/-- with a positive starting value the values strictly increase from one attempt to the next, so no `mxstep` is tried
twice. -/
theorem ladder_increasing (maxStep : Nat) : ∀ (fuel cur : Nat), 0 < cur →
    (mxstepLadder maxStep fuel cur).Pairwise (· < ·) := by
  intro fuel
  induction fuel with
  | zero => intro cur _; simp [mxstepLadder]
  | succ fuel ih =>
    intro cur hc
    unfold mxstepLadder
    split
    · simp
    · rename_i hlt
      have hnext : cur < min (cur * 10) maxStep := by omega
      refine List.pairwise_cons.mpr ⟨?_, ih _ (by omega)⟩
      intro k hk
      exact lt_of_lt_of_le hnext (ladder_bounds maxStep fuel _ k hk).1

/-- non-vacuity: a user cap that is not a rung (20000) — increasing, never above the cap, first attempt 500. -/
example : (mxstepLadder 20000 10 500).Pairwise (· < ·) ∧ (∀ k ∈ mxstepLadder 20000 10 500, k ≤ 20000)
    ∧ (mxstepLadder 20000 10 500).head? = some 500 := by
  refine ⟨ladder_increasing 20000 10 500 (by decide), ?_, ladder_head 20000 9 500⟩
  intro k hk
  have := (ladder_bounds 20000 10 500 k hk).2
  omega

variable {Rows : Type}

/-- **a failed integration is never reported as numbers.** -/
theorem det_failure_is_nan (solve : Nat → Option Rows) (rerule : Rows → Rows) (hasRules : Bool) (ladder : List Nat)
    (h : ∀ k ∈ ladder, solve k = none) : detSimulate solve rerule hasRules ladder = none := by
  unfold detSimulate
  have : ladder.findSome? solve = none := by
    induction ladder with
    | nil => rfl
    | cons k rest ih =>
      rw [List.findSome?_cons, h k (by simp)]
      exact ih (fun k' hk' => h k' (List.mem_cons_of_mem _ hk'))
  rw [this]

/-- the result is the first successful attempt, with the rules re-applied when the model has rules. -/
theorem det_success (solve : Nat → Option Rows) (rerule : Rows → Rows) (hasRules : Bool) (pre post : List Nat)
    (k : Nat) (rows : Rows) (hpre : ∀ k' ∈ pre, solve k' = none) (hk : solve k = some rows) :
    detSimulate solve rerule hasRules (pre ++ k :: post) = some (if hasRules then rerule rows else rows) := by
  unfold detSimulate
  have : (pre ++ k :: post).findSome? solve = some rows := by
    induction pre with
    | nil => simp [List.findSome?_cons, hk]
    | cons a rest ih =>
      rw [List.cons_append, List.findSome?_cons, hpre a (by simp)]
      exact ih (fun k' hk' => hpre k' (List.mem_cons_of_mem _ hk'))
  rw [this]

/-- accuracy contract assumed of the integrator: every successful attempt returns, at each requested time,
a state within `ε` of the exact solution `φ` through the initial condition. -/
def SolverAccurate (ε : α) (dist : Rows → Nat → α) (solve : Nat → Option Rows) : Prop :=
  ∀ k rows, solve k = some rows → ∀ i, dist rows i ≤ ε

/-- **conditional accuracy** (`det_accurate`, the partial form of the property): if the integrator meets its
contract, every row of a reported result (no rules) is within `ε` of the exact solution of
`x' = (S + S_d)·rate(x, t)` at the corresponding requested time. -/
theorem det_accurate (ε : α) (dist : Rows → Nat → α) (solve : Nat → Option Rows) (rerule : Rows → Rows)
    (ladder : List Nat) (hacc : SolverAccurate ε dist solve) (rows : Rows)
    (h : detSimulate solve rerule false ladder = some rows) : ∀ i, dist rows i ≤ ε := by
  unfold detSimulate at h
  cases hf : ladder.findSome? solve with
  | none => rw [hf] at h; cases h
  | some r =>
    rw [hf] at h
    simp only [Bool.false_eq_true, if_false, Option.some.injEq] at h
    subst h
    obtain ⟨k, _, hk⟩ := List.exists_of_findSome?_eq_some hf
    exact hacc k r hk

end Bioscrape.C04
