import Mathlib.Analysis.SpecialFunctions.Log.Basic
import Mathlib.Analysis.SpecialFunctions.Exp
import Mathlib.Tactic.Linarith
import Mathlib.Tactic.FieldSimp
import BioscrapeModel.Proofs.Laws
import BioscrapeModel.Proofs.Sampling
import BioscrapeModel.Model.Loops

/-
C05 — stochastic simulation samples the chemical master equation exactly.

Path level (every uniform stream, hence every seed): one iteration of `SSASimulator.simulate`
is one step of the *restartable jump process* `jumpStep` — the definition of
"waiting times are exponential with rate the total propensity, the next reaction is chosen with
probability proportional to its propensity, and the state reported at a time point is the state
reached by the events that precede it".  Law level (over ℝ): the sets of uniforms that produce
a given waiting time / choice are the intervals whose lengths are the SSA one-step probabilities.
The composition of these one-step laws into the solution of the master equation is not formalised
(`ssa_exact_partial` names exactly what is proved).
-/
set_option linter.unusedSectionVars false
set_option linter.unusedSimpArgs false

namespace Bioscrape.C05
open Bioscrape

section path
variable {σ α : Type} [Field α] [LinearOrder α] [IsStrictOrderedRing α] [Transc α] [Trunc α]

/-- arrival at the grid time `T` without firing: every grid time `≤ T` gets the current state,
the clock is set to `T`, the next iteration is a rule step. -/
def arrive (times : List α) (s : LoopState σ α) (x p : List α) (T : α) (g' : σ) : LoopState σ α :=
  let k := recordCount T (times.drop s.idx)
  { s with x := x, p := p, t := T, idx := s.idx + k, ruleStep := true, rows := s.rows ++ replicateRow k x, g := g' }

/-- the restartable jump process (specification; no flags). -/
def jumpStep (g : Gen σ α) (m : SimModel α) (times : List α) (s : LoopState σ α) : LoopState σ α :=
  let xp := applyRules m.rules s.x s.p 1 s.t m.dt s.ruleStep
  let a := m.propensities .stoch xp.1 xp.2 1 s.t
  let Lambda := arraySum a
  let T := times.getD s.idx 0
  if feq Lambda 0 then arrive times s xp.1 xp.2 T s.g            -- nothing can fire: go to the next stop
  else
    let ug := g s.g                                              -- E = -ln(u)/Λ
    let tau := s.t + (-1 / Lambda * Transc.log ug.1)
    if tau > T then arrive times s xp.1 xp.2 T ug.2              -- the stop comes first: no firing, redraw later
    else
      let k := recordCount tau (times.drop s.idx)                -- rows at grid times ≤ τ see the state *before* the event
      let rows := s.rows ++ replicateRow k xp.1
      if Lambda > 0 then
        let ug' := g ug.2
        let choice := sampleDiscreteFrom a (ug'.1 * Lambda)      -- j with c_{j-1} < u'Λ ≤ c_j
        if choice < 0 then
          { s with x := xp.1, p := xp.2, t := tau, idx := s.idx + k, ruleStep := false, rows := rows, g := ug'.2, bad := true }
        else
          { s with x := addCol xp.1 (addCol (colOf m.U choice.toNat) (colOf m.D choice.toNat)), p := xp.2, t := tau,
                   idx := s.idx + k, ruleStep := false, rows := rows, g := ug'.2 }
      else
        { s with x := xp.1, p := xp.2, t := tau, idx := s.idx + k, ruleStep := false, rows := rows, g := ug.2 }

/-- a loop state without its ghost log: exactly what the implementation holds. -/
def strip (s : LoopState σ α) : LoopState σ α := { s with log := [] }

/-- **refinement, one iteration**: for every uniform source, model, grid and loop state the SSA
loop body (with its `reaction_fired` / `rule_step` flags and the `Lambda == 0` special case)
computes exactly the jump-process step. -/
theorem ssaIter_refines_jumpStep (g : Gen σ α) (m : SimModel α) (times : List α) (s : LoopState σ α) :
    strip (ssaIter g m times s) = strip (jumpStep g m times s) := by
  unfold ssaIter jumpStep arrive strip
  simp only
  split_ifs <;> simp_all

theorem jumpStep_strip (g : Gen σ α) (m : SimModel α) (times : List α) (s : LoopState σ α) :
    strip (jumpStep g m times s) = jumpStep g m times (strip s) := by
  unfold jumpStep arrive strip
  simp only
  split_ifs <;> rfl

/-- **refinement, whole runs**: for every uniform stream (every seed), network, initial state, grid
and fuel, running the SSA loop and running the jump-process specification give the same rows,
final state, clock and stream position. -/
theorem ssa_refines_jump (g : Gen σ α) (m : SimModel α) (times : List α) (fuel : Nat) (s : LoopState σ α) :
    (runLoop (ssaIter g m times) times.length fuel s).map strip
      = runLoop (jumpStep g m times) times.length fuel (strip s) := by
  induction fuel generalizing s with
  | zero =>
    unfold runLoop
    have : (strip s).idx = s.idx ∧ (strip s).stop = s.stop ∧ (strip s).bad = s.bad := ⟨rfl, rfl, rfl⟩
    simp only [this.1, this.2.1, this.2.2]
    split <;> simp
  | succ fuel ih =>
    unfold runLoop
    have : (strip s).idx = s.idx ∧ (strip s).stop = s.stop ∧ (strip s).bad = s.bad := ⟨rfl, rfl, rfl⟩
    simp only [this.1, this.2.1, this.2.2]
    split
    · rw [ih, ssaIter_refines_jumpStep, jumpStep_strip]
    · simp

/-- rows are written only by the recording step, with the state *before* the update; the number of
rows always equals the grid index. -/
theorem jumpStep_rows (g : Gen σ α) (m : SimModel α) (times : List α) (s : LoopState σ α)
    (h : s.rows.length = s.idx) : (jumpStep g m times s).rows.length = (jumpStep g m times s).idx := by
  unfold jumpStep arrive
  simp only
  split_ifs <;> simp [replicateRow, h]

/-- every row written in one step is the rule-updated state the propensities were computed from. -/
theorem jumpStep_new_rows (g : Gen σ α) (m : SimModel α) (times : List α) (s : LoopState σ α) :
    ∃ k, (jumpStep g m times s).rows
      = s.rows ++ replicateRow k (applyRules m.rules s.x s.p 1 s.t m.dt s.ruleStep).1 := by
  unfold jumpStep arrive
  simp only
  split_ifs <;> exact ⟨_, rfl⟩

/-- the waiting time proposed from a uniform `u` is the inverse-CDF value `−ln(u)/Λ`. -/
theorem wait_is_invcdf (Lambda u : α) (hL : Lambda ≠ 0) :
    -1 / Lambda * Transc.log u = -(Transc.log u) / Lambda := by
  field_simp

end path

/-! ### Law level (real numbers) -/
section law
open Real

/-- **waiting time is Exp(Λ)**: the uniforms `u ∈ (0,1]` whose waiting time `−ln(u)/Λ` exceeds `s`
are exactly those below `exp(−Λ s)`; the set has length `exp(−Λ s)` = P(Exp(Λ) > s). -/
theorem exp_tail (Lambda s u : ℝ) (hL : 0 < Lambda) (hu : 0 < u) :
    s < -Real.log u / Lambda ↔ u < Real.exp (-Lambda * s) := by
  rw [lt_div_iff₀ hL, lt_neg, ← Real.log_exp (-(s * Lambda)), Real.log_lt_log_iff hu (Real.exp_pos _)]
  constructor <;> intro h <;> convert h using 2 <;> ring

/-- **memorylessness**: discarding a waiting time at a stop and redrawing does not change the law. -/
theorem memoryless (Lambda s r : ℝ) :
    Real.exp (-Lambda * (s + r)) = Real.exp (-Lambda * s) * Real.exp (-Lambda * r) := by
  rw [← Real.exp_add]; congr 1; ring

/-- **next reaction ∝ propensity**: with non-negative propensities summing to `Λ > 0`, the uniforms
`u ∈ (0,1]` that select reaction `j` form the interval `(c_j/Λ, c_{j+1}/Λ]`, of length `a_j/Λ`. -/
theorem choice_measure (a : List ℝ) (Lambda u : ℝ) (hpos : ∀ v ∈ a, 0 ≤ v) (hsum : a.sum = Lambda)
    (hL : 0 < Lambda) (hu0 : 0 < u) (hu1 : u ≤ 1) (j : Nat) (hj : j < a.length) :
    sampleDiscreteFrom a (u * Lambda) = (j : Int) ↔ cum a j / Lambda < u ∧ u ≤ cum a (j + 1) / Lambda := by
  have hq0 : 0 < u * Lambda := mul_pos hu0 hL
  have hq1 : u * Lambda ≤ a.sum := by rw [hsum]; nlinarith
  obtain ⟨k, hk, hsel, h1, h2⟩ := sampleDiscrete_interval a (u * Lambda) hpos hq0 hq1
  rw [div_lt_iff₀ hL, le_div_iff₀ hL]
  constructor
  · intro h
    have : (k : Int) = j := by rw [← hsel, h]
    have hkj : k = j := by exact_mod_cast this
    subst hkj; exact ⟨h1, h2⟩
  · intro h
    have := interval_unique a (u * Lambda) hpos k j ⟨h1, h2⟩ h
    subst this; exact hsel

theorem choice_interval_length (a : List ℝ) (Lambda : ℝ) (j : Nat) (hj : j < a.length) :
    cum a (j + 1) / Lambda - cum a j / Lambda = a[j] / Lambda := by
  rw [cum_succ a j hj]; ring

/-- **the choice probabilities add up to one**: the interval lengths `a_j/Λ` of `choice_measure` sum to 1, i.e. the
intervals `(c_j/Λ, c_{j+1}/Λ]` tile `(0, 1]` with nothing left over for "no reaction". -/
theorem choice_lengths_sum (a : List ℝ) (Lambda : ℝ) (hsum : a.sum = Lambda) (hL : Lambda ≠ 0) :
    (a.map (fun v => v / Lambda)).sum = 1 := by
  have h : ∀ l : List ℝ, (l.map (fun v => v / Lambda)).sum = l.sum / Lambda := by
    intro l
    induction l with
    | nil => simp
    | cons x l ih => simp only [List.map_cons, List.sum_cons, ih]; ring
  rw [h, hsum, div_self hL]

/-- **every uniform selects a reaction of the model**: for `u ∈ (0, 1]` the index returned is a valid reaction index
(never the "none" sentinel −1, never past the end), so a step with `Λ > 0` always fires something. -/
theorem choice_total (a : List ℝ) (Lambda u : ℝ) (hpos : ∀ v ∈ a, 0 ≤ v) (hsum : a.sum = Lambda)
    (hL : 0 < Lambda) (hu0 : 0 < u) (hu1 : u ≤ 1) :
    ∃ j, j < a.length ∧ sampleDiscreteFrom a (u * Lambda) = (j : Int) ∧ 0 < a[j]! := by
  have hq0 : 0 < u * Lambda := mul_pos hu0 hL
  have hq1 : u * Lambda ≤ a.sum := by rw [hsum]; nlinarith
  obtain ⟨k, hk, hsel, h1, h2⟩ := sampleDiscrete_interval a (u * Lambda) hpos hq0 hq1
  refine ⟨k, hk, hsel, ?_⟩
  rw [cum_succ a k hk] at h2
  have : a[k]! = a[k] := by simp [hk]
  rw [this]
  linarith

/-- the two end points of the tiling: the first interval starts at 0 and the last ends at 1. -/
theorem choice_endpoints (a : List ℝ) (Lambda : ℝ) (hsum : a.sum = Lambda) (hL : Lambda ≠ 0) :
    cum a 0 / Lambda = 0 ∧ cum a a.length / Lambda = 1 := by
  constructor
  · simp [cum]
  · unfold cum; rw [List.take_length, hsum, div_self hL]

/-- **one-step rectangle**: the pairs `(u, u')` for which the next event is reaction `j` at a time in
`(t + lo, t + hi]` form the rectangle `[exp(−Λ hi), exp(−Λ lo)) × (c_j/Λ, c_{j+1}/Λ]`, whose area
`(e^{−Λ lo} − e^{−Λ hi}) · a_j/Λ` is the SSA one-step probability. -/
theorem one_step_rectangle (a : List ℝ) (Lambda lo hi u u' : ℝ) (hpos : ∀ v ∈ a, 0 ≤ v)
    (hsum : a.sum = Lambda) (hL : 0 < Lambda) (hu : 0 < u) (hu'0 : 0 < u') (hu'1 : u' ≤ 1)
    (j : Nat) (hj : j < a.length) :
    (lo < -Real.log u / Lambda ∧ ¬ hi < -Real.log u / Lambda ∧ sampleDiscreteFrom a (u' * Lambda) = (j : Int))
      ↔ (Real.exp (-Lambda * hi) ≤ u ∧ u < Real.exp (-Lambda * lo)
          ∧ cum a j / Lambda < u' ∧ u' ≤ cum a (j + 1) / Lambda) := by
  rw [exp_tail Lambda lo u hL hu, exp_tail Lambda hi u hL hu, choice_measure a Lambda u' hpos hsum hL hu'0 hu'1 j hj,
    not_lt]
  tauto

/-- What is proved about exactness, and what is not: the loop equals the jump-process specification
on every stream (`ssa_refines_jump`), and each step of that specification has the SSA one-step law
(`exp_tail`, `choice_measure`, `one_step_rectangle`, `memoryless`).  The composition of these
one-step kernels into the solution of the chemical master equation (a statement about
continuous-time Markov chains, not available in Mathlib) is **not** formalised. -/
theorem ssa_exact_partial (a : List ℝ) (Lambda : ℝ) (hpos : ∀ v ∈ a, 0 ≤ v) (hsum : a.sum = Lambda)
    (hL : 0 < Lambda) :
    (∀ s u, 0 < u → (s < -Real.log u / Lambda ↔ u < Real.exp (-Lambda * s)))
    ∧ (∀ u j, 0 < u → u ≤ 1 → j < a.length →
        (sampleDiscreteFrom a (u * Lambda) = (j : Int) ↔ cum a j / Lambda < u ∧ u ≤ cum a (j + 1) / Lambda)) :=
  ⟨fun s u hu => exp_tail Lambda s u hL hu,
   fun u j hu0 hu1 hj => choice_measure a Lambda u hpos hsum hL hu0 hu1 j hj⟩

/-! ### Non-vacuity -/
example : sampleDiscreteFrom [(1 : ℚ), 0, 3] (2 : ℚ) = 2 := by
  norm_num [sampleDiscreteFrom, sampleDiscreteFrom.go]
example : cum [(1 : ℚ), 0, 3] 2 < 2 ∧ (2 : ℚ) ≤ cum [(1 : ℚ), 0, 3] 3 := by
  norm_num [cum]

/-- the hypotheses of `choice_total` / `choice_lengths_sum` are met by a concrete propensity vector with a zero entry. -/
example : (∃ j : Nat, j < 3 ∧ sampleDiscreteFrom [(1 : ℝ), 0, 3] ((1 / 2 : ℝ) * 4) = (j : Int) ∧ 0 < [(1 : ℝ), 0, 3][j]!)
    ∧ ([(1 : ℝ), 0, 3].map (fun v => v / 4)).sum = 1 := by
  have hpos : ∀ v ∈ [(1 : ℝ), 0, 3], 0 ≤ v := by
    intro v hv
    simp only [List.mem_cons, List.not_mem_nil, or_false] at hv
    rcases hv with rfl | rfl | rfl <;> norm_num
  have hsum : [(1 : ℝ), 0, 3].sum = 4 := by norm_num
  exact ⟨choice_total _ 4 (1 / 2) hpos hsum (by norm_num) (by norm_num) (by norm_num),
    choice_lengths_sum _ 4 hsum (by norm_num)⟩

end law
end Bioscrape.C05
