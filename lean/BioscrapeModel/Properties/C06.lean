import Mathlib.Algebra.BigOperators.Group.List.Basic
import Mathlib.Algebra.Order.Field.Basic
import Mathlib.Tactic.Linarith
import Mathlib.Tactic.Ring
import BioscrapeModel.Proofs.Laws
import BioscrapeModel.Proofs.Sampling
import BioscrapeModel.Properties.C05
import BioscrapeModel.Properties.C01

/-
C06 — every stochastic trajectory is a feasible reaction path.

Invariants of the loop models (every uniform stream, hence every seed; no bound on the number of
steps): without rules the state moves only by whole stoichiometric columns, so consecutive reported
rows differ by a non-negative integer combination of them; integrality and linear conservation
laws follow; a state with zero total propensity persists; in safe mode a positive propensity implies
the full requirement table is met.
-/
set_option linter.unusedSectionVars false
set_option linter.unusedSimpArgs false

namespace Bioscrape.C06
open Bioscrape Bioscrape.C05

variable {σ α : Type} [Field α] [LinearOrder α] [IsStrictOrderedRing α] [Transc α] [Trunc α]

/-- `y` is reached from `x` by adding whole columns of `cols` (a non-negative integer combination,
in inductive form). -/
inductive Reach (cols : List (List α)) : List α → List α → Prop
  | refl (x : List α) : Reach cols x x
  | step {x y : List α} (c : List α) : c ∈ cols → Reach cols x y → Reach cols x (addCol y c)

theorem Reach.trans {cols : List (List α)} {x y z : List α} (h1 : Reach cols x y) (h2 : Reach cols y z) :
    Reach cols x z := by
  induction h2 with
  | refl => exact h1
  | step c hc _ ih => exact Reach.step c hc ih

/-- the net stoichiometric columns `U_j + D_j` of a model, as numbers. -/
def netCols (m : SimModel α) : List (List α) :=
  (List.range m.props.length).map (fun j => addCol (colOf m.U j) (colOf m.D j))

/-- a chain of rows: each reported row is reached from the previous one, the first from `x0`, and the
current state from the last. -/
def Chain (cols : List (List α)) (x0 : List α) : List (List α) → List α → Prop
  | [], x => Reach cols x0 x
  | r :: rest, x => Reach cols x0 r ∧ Chain cols r rest x

theorem Chain.extend {cols : List (List α)} {x0 x y : List α} {rows : List (List α)}
    (h : Chain cols x0 rows x) (hxy : Reach cols x y) : Chain cols x0 rows y := by
  induction rows generalizing x0 with
  | nil => exact Reach.trans h hxy
  | cons r rest ih => exact ⟨h.1, ih h.2⟩

theorem Chain.record {cols : List (List α)} {x0 x : List α} {rows : List (List α)} (k : Nat)
    (h : Chain cols x0 rows x) : Chain cols x0 (rows ++ replicateRow k x) x := by
  induction rows generalizing x0 with
  | nil =>
    induction k with
    | zero => simpa [replicateRow] using h
    | succ k ih =>
      simp only [replicateRow, List.nil_append, List.replicate_succ] at ih ⊢
      exact ⟨h, by
        have : Chain cols x (List.replicate k x) x := by
          clear ih h
          induction k with
          | zero => exact Reach.refl x
          | succ k ih => exact ⟨Reach.refl x, ih⟩
        exact this⟩
  | cons r rest ih => exact ⟨h.1, ih h.2⟩

theorem go_lt (q : α) (rest : List α) (pSum : α) (i : Nat) :
    sampleDiscreteFrom.go q rest pSum i < ((i + rest.length : Nat) : Int) ∨ rest = [] ∧ sampleDiscreteFrom.go q rest pSum i = (i : Int) - 1 := by
  induction rest generalizing pSum i with
  | nil => right; exact ⟨rfl, by simp [sampleDiscreteFrom.go]⟩
  | cons a r ih =>
    left
    unfold sampleDiscreteFrom.go
    split
    · rcases ih (pSum + a) (i + 1) with h | ⟨hr, hv⟩
      · simp only [List.length_cons]; push_cast at h ⊢; omega
      · rw [hv]; simp only [List.length_cons]; push_cast; omega
    · simp only [List.length_cons]; push_cast; omega

/-- `sample_discrete` never returns an index past the last reaction. -/
theorem sampleDiscreteFrom_lt (a : List α) (q : α) : sampleDiscreteFrom a q < (a.length : Int) ∨ a = [] := by
  unfold sampleDiscreteFrom
  rcases go_lt q a 0 0 with h | ⟨h, _⟩
  · left; simpa using h
  · right; exact h

theorem propensities_length (m : SimModel α) (mode : Mode) (x p : List α) (V t : α) :
    (m.propensities mode x p V t).length = m.props.length := by
  unfold SimModel.propensities computePropensitiesSafe computePropensities
  split <;> simp

/-- **one SSA step without rules**: the state stays or moves by exactly one net column of a
reaction that exists; rows written in the step show the state before the move. -/
theorem jumpStep_lattice (g : Gen σ α) (m : SimModel α) (times : List α) (s : LoopState σ α) (x0 : List α)
    (hr : m.rules = []) (hbad : (jumpStep g m times s).bad = false)
    (h : Chain (netCols m) x0 s.rows s.x) :
    Chain (netCols m) x0 (jumpStep g m times s).rows (jumpStep g m times s).x := by
  have hrule : applyRules m.rules s.x s.p 1 s.t m.dt s.ruleStep = (s.x, s.p) := by simp [hr, applyRules]
  unfold jumpStep arrive at hbad ⊢
  simp only [hrule] at hbad ⊢
  split_ifs at hbad ⊢ with h1 h2 h3 h4
  all_goals first
    | exact Chain.record _ h
    | (simp at hbad)
  -- the firing branch
  · refine Chain.extend (Chain.record _ h) ?_
    apply Reach.step _ _ (Reach.refl _)
    unfold netCols
    simp only [List.mem_map, List.mem_range]
    refine ⟨_, ?_, rfl⟩
    have hlen := propensities_length m .stoch s.x s.p 1 s.t
    have hlt := sampleDiscreteFrom_lt (m.propensities .stoch s.x s.p 1 s.t) ((g (g s.g).2).1 * arraySum (m.propensities .stoch s.x s.p 1 s.t))
    have hnn : 0 ≤ sampleDiscreteFrom (m.propensities .stoch s.x s.p 1 s.t) ((g (g s.g).2).1 * arraySum (m.propensities .stoch s.x s.p 1 s.t)) := not_lt.mp h4
    rcases hlt with hlt | hnil
    · rw [hlen] at hlt; omega
    · exfalso
      rw [hnil] at hnn
      simp [sampleDiscreteFrom, sampleDiscreteFrom.go] at hnn

/-- **whole runs, every stream**: after any number of iterations of the jump-process step (hence, by
`ssa_refines_jump`, of the SSA loop) on a model without rules, the reported rows form a chain in which
each row is reached from the previous one by adding whole net stoichiometric columns. -/
theorem jump_run_lattice (g : Gen σ α) (m : SimModel α) (times : List α) (x0 : List α) (hr : m.rules = [])
    (fuel : Nat) (s s' : LoopState σ α) (h : Chain (netCols m) x0 s.rows s.x)
    (hrun : runLoop (jumpStep g m times) times.length fuel s = some s') (hok : s'.bad = false) :
    Chain (netCols m) x0 s'.rows s'.x := by
  induction fuel generalizing s with
  | zero =>
    unfold runLoop at hrun
    split at hrun
    · exact absurd hrun (by simp)
    · cases hrun; exact h
  | succ fuel ih =>
    unfold runLoop at hrun
    split at hrun
    · rename_i hguard
      by_cases hb : (jumpStep g m times s).bad = false
      · exact ih _ (jumpStep_lattice g m times s x0 hr hb h) hrun
      · -- a bad step stops the loop at once: the result is that state
        have hb' : (jumpStep g m times s).bad = true := by simpa using hb
        have : runLoop (jumpStep g m times) times.length fuel (jumpStep g m times s) = some (jumpStep g m times s) := by
          cases fuel <;> simp [runLoop, hb']
        rw [this] at hrun
        cases hrun
        exact absurd hok (by simp [hb'])
    · cases hrun; exact h

theorem ssa_run_lattice (g : Gen σ α) (m : SimModel α) (times : List α) (x0 p0 : List α) (g0 : σ) (vol0 : α) (q0 : DQ α)
    (hr : m.rules = []) (fuel : Nat) (s' : LoopState σ α)
    (hrun : runLoop (ssaIter g m times) times.length fuel (initState m x0 p0 g0 vol0 q0) = some s')
    (hok : s'.bad = false) : Chain (netCols m) x0 s'.rows s'.x := by
  have href := ssa_refines_jump g m times fuel (initState m x0 p0 g0 vol0 q0)
  rw [hrun] at href
  simp only [Option.map_some] at href
  have hinit : Chain (netCols m) x0 (strip (initState m x0 p0 g0 vol0 q0)).rows (strip (initState m x0 p0 g0 vol0 q0)).x := by
    simp [strip, initState, Chain]; exact Reach.refl x0
  have := jump_run_lattice g m times x0 hr fuel _ (strip s') hinit href.symm (by simpa [strip] using hok)
  simpa [strip] using this

/-! ### Consequences of the lattice property -/

def dot (w x : List α) : α := (List.zipWith (· * ·) w x).sum

theorem dot_addCol (w x c : List α) (h1 : x.length = w.length) (h2 : c.length = w.length) :
    dot w (addCol x c) = dot w x + dot w c := by
  unfold dot addCol
  induction w generalizing x c with
  | nil => simp
  | cons a w ih =>
    cases x with
    | nil => simp at h1
    | cons b x =>
      cases c with
      | nil => simp at h2
      | cons d c =>
        simp only [List.zipWith_cons_cons, List.sum_cons]
        rw [ih x c (by simpa using h1) (by simpa using h2)]
        ring

theorem addCol_length (x c : List α) (h : c.length = x.length) : (addCol x c).length = x.length := by
  simp [addCol, h]

/-- **conservation laws**: a weight vector orthogonal to every net column is conserved along every
reachable path (no rule overwrites species). -/
theorem conservation (cols : List (List α)) (w x y : List α) (hreach : Reach cols x y)
    (hx : x.length = w.length) (hcols : ∀ c ∈ cols, c.length = w.length ∧ dot w c = 0) :
    y.length = w.length ∧ dot w y = dot w x := by
  induction hreach with
  | refl => exact ⟨hx, rfl⟩
  | step c hc _ ih =>
    obtain ⟨hl, hd⟩ := ih
    have := hcols c hc
    refine ⟨by rw [addCol_length _ _ (by rw [this.1, hl]), hl], ?_⟩
    rw [dot_addCol w _ c hl this.1, hd, this.2, add_zero]

/-- integer-valued vectors. -/
def IsIntVec (x : List α) : Prop := ∀ v ∈ x, ∃ z : Int, v = (z : α)

theorem isInt_addCol (x c : List α) (hx : IsIntVec x) (hc : IsIntVec c) : IsIntVec (addCol x c) := by
  unfold addCol
  induction x generalizing c with
  | nil => intro v hv; simp at hv
  | cons a x ih =>
    cases c with
    | nil => intro v hv; simp at hv
    | cons b c =>
      intro v hv
      simp only [List.zipWith_cons_cons, List.mem_cons] at hv
      rcases hv with hv | hv
      · obtain ⟨z1, h1⟩ := hx a (by simp)
        obtain ⟨z2, h2⟩ := hc b (by simp)
        exact ⟨z1 + z2, by rw [hv, h1, h2]; push_cast; ring⟩
      · exact ih c (fun v hv => hx v (List.mem_cons_of_mem _ hv)) (fun v hv => hc v (List.mem_cons_of_mem _ hv)) v hv

/-- **integrality**: integer initial counts stay integer along every reachable path. -/
theorem integrality (cols : List (List α)) (x y : List α) (hreach : Reach cols x y) (hx : IsIntVec x)
    (hcols : ∀ c ∈ cols, IsIntVec c) : IsIntVec y := by
  induction hreach with
  | refl => exact hx
  | step c hc _ ih => exact isInt_addCol _ c ih (hcols c hc)

theorem colOf_isInt (S : List (List Int)) (j : Nat) : IsIntVec (colOf (α := α) S j) := by
  intro v hv
  unfold colOf at hv
  simp only [List.mem_map] at hv
  obtain ⟨z, _, hz⟩ := hv
  exact ⟨z, hz.symm⟩

theorem netCols_isInt (m : SimModel α) : ∀ c ∈ netCols m, IsIntVec c := by
  intro c hc
  unfold netCols at hc
  simp only [List.mem_map, List.mem_range] at hc
  obtain ⟨j, _, rfl⟩ := hc
  exact isInt_addCol _ _ (colOf_isInt m.U j) (colOf_isInt m.D j)

/-! ### Absorbing states -/

/-- **a state whose total propensity is zero persists**: without rules, the step moves the clock to
the next grid time, writes the unchanged state into the rows it passes, and consumes no randomness. -/
theorem absorbing_step (g : Gen σ α) (m : SimModel α) (times : List α) (s : LoopState σ α) (hr : m.rules = [])
    (hzero : arraySum (m.propensities .stoch s.x s.p 1 s.t) = 0) :
    (jumpStep g m times s).x = s.x ∧ (jumpStep g m times s).g = s.g
      ∧ (jumpStep g m times s).t = times.getD s.idx 0
      ∧ ∃ k, (jumpStep g m times s).rows = s.rows ++ replicateRow k s.x := by
  have hrule : applyRules m.rules s.x s.p 1 s.t m.dt s.ruleStep = (s.x, s.p) := by simp [hr, applyRules]
  unfold jumpStep arrive
  simp only [hrule, hzero]
  have : feq (0 : α) 0 = true := by simp [feq]
  simp only [this, if_true]
  exact ⟨trivial, trivial, trivial, _, rfl⟩

/-! ### Safe mode -/

/-- **safe mode**: a reaction whose reported stochastic propensity is positive has, for every species it
consumes (immediately or after the delay), at least the required number of copies — whatever its
propensity type. -/
theorem safe_guard (mode : Mode) (inputs : List (Nat × Int)) (q : Propensity α) (x p : Nat → α) (V t : α)
    (hpos : 0 < safeStochOne mode inputs x p V t q) : ∀ si ∈ inputs, (si.2 : α) ≤ x si.1 := by
  intro si hsi
  by_contra hlt
  have hb : safeBlocked inputs x = true := by
    unfold safeBlocked
    simp only [List.any_eq_true, decide_eq_true_eq]
    exact ⟨si, hsi, not_le.mp hlt⟩
  simp [safeStochOne, hb] at hpos

/-- the requirement recorded for an input species covers what the reaction can remove from it
(immediately or after the delay) **and** the number of copies it needs as reactants, catalysts
included: "its full complement of reactants". -/
theorem safeInputs_requirement (n : Nat) (U D : List (List Int)) (R : List (List Nat)) (r s : Nat) (req : Int)
    (h : (s, req) ∈ safeInputs n U D R r) :
    req ≥ -(entry U s r) ∧ req ≥ -(entry D s r) ∧ req ≥ (needOf R s r : Nat) ∧ req > 0 := by
  unfold safeInputs at h
  simp only [List.mem_filterMap, List.mem_range] at h
  obtain ⟨s', _, hs'⟩ := h
  split at hs'
  · rename_i hcond
    simp only [Option.some.injEq, Prod.mk.injEq] at hs'
    obtain ⟨rfl, rfl⟩ := hs'
    refine ⟨?_, ?_, ?_, ?_⟩ <;> split <;> split <;> omega
  · simp at hs'

/-- every reactant of the reaction (with positive multiplicity) is among its inputs. -/
theorem safeInputs_complete (n : Nat) (U D : List (List Int)) (R : List (List Nat)) (r s : Nat)
    (hs : s < n) (hneed : 0 < needOf R s r) : ∃ req, (s, req) ∈ safeInputs n U D R r := by
  unfold safeInputs
  simp only [List.mem_filterMap, List.mem_range]
  have hc : entry U s r < 0 ∨ entry D s r < 0 ∨ ((needOf R s r : Nat) : Int) > 0 := Or.inr (Or.inr (by exact_mod_cast hneed))
  exact ⟨_, s, hs, if_pos hc⟩

/-- **safe mode, full complement**: if the safe interface reports a positive stochastic propensity for
reaction `r`, then every species has at least as many copies as `r` lists it among its reactants
(immediate and delayed), whatever the propensity type. -/
theorem safe_full_complement (mode : Mode) (n : Nat) (U D : List (List Int)) (R : List (List Nat)) (r : Nat)
    (q : Propensity α) (x p : Nat → α) (V t : α)
    (hpos : 0 < safeStochOne mode (safeInputs n U D R r) x p V t q) (s : Nat) (hs : s < n)
    (hneed : 0 < needOf R s r) : ((needOf R s r : Nat) : α) ≤ x s := by
  obtain ⟨req, hmem⟩ := safeInputs_complete n U D R r s hs hneed
  have h1 := safe_guard mode _ q x p V t hpos (s, req) hmem
  have h2 := (safeInputs_requirement n U D R r s req hmem).2.2.1
  have : ((needOf R s r : Nat) : α) ≤ (req : α) := by exact_mod_cast h2
  exact le_trans this h1


/-! ### Mass-action networks never report a negative count -/

section NonNeg
open Bioscrape.C01

/-- a vector of natural numbers (non-negative whole counts). -/
def IsNatVec (x : List α) : Prop := ∀ v ∈ x, ∃ n : Nat, v = (n : α)

theorem vecGet_nat (x : List α) (hx : IsNatVec x) (i : Nat) : ∃ n : Nat, vecGet x i = (n : α) := by
  unfold vecGet
  by_cases hi : i < x.length
  · rw [List.getD_eq_getElem?_getD, List.getElem?_eq_getElem hi]
    exact hx _ (List.getElem_mem hi)
  · rw [List.getD_eq_getElem?_getD, List.getElem?_eq_none (not_lt.mp hi)]
    exact ⟨0, by simp⟩

theorem ff_nonneg (y : α) (m : Nat) : 0 ≤ ff y m := by
  unfold ff
  apply List.prod_nonneg
  intro v hv
  obtain ⟨j, _, rfl⟩ := List.mem_map.mp hv
  exact le_max_right _ _

/-- the stochastic mass-action propensity of a state of whole counts is not negative (rate constant ≥ 0), and
when it is not zero every reactant is present in at least its multiplicity. -/
theorem massAction_stoch_nat (k : Nat) (R : List Nat) (x p : List α) (t : α) (hx : IsNatVec x)
    (hk : 0 ≤ vecGet p k) :
    0 ≤ (createMassAction (α := α) k R).stoch (vecGet x) (vecGet p) t ∧
    ((createMassAction (α := α) k R).stoch (vecGet x) (vecGet p) t ≠ 0 →
      ∀ s, ∃ n : Nat, vecGet x s = (n : α) ∧ R.count s ≤ n) := by
  have hnn : ∀ s, 0 ≤ vecGet x s := by
    intro s; obtain ⟨n, hn⟩ := vecGet_nat x hx s; rw [hn]; exact Nat.cast_nonneg n
  rw [massAction_stoch k R (vecGet x) (vecGet p) t hnn]
  unfold stochSpec
  refine ⟨mul_nonneg hk (Finset.prod_nonneg (fun s _ => ff_nonneg _ _)), ?_⟩
  intro hne s
  obtain ⟨n, hn⟩ := vecGet_nat x hx s
  refine ⟨n, hn, ?_⟩
  by_contra hlt
  have hlt' : n < R.count s := not_le.mp hlt
  have hmem : s ∈ R.toFinset := by
    rw [List.mem_toFinset]
    exact List.count_pos_iff.mp (by omega)
  apply hne
  apply mul_eq_zero_of_right
  apply Finset.prod_eq_zero hmem
  rw [hn]
  exact ff_eq_zero_of_lt n _ hlt'

/-- a plain mass-action network without rules whose reactions remove no more copies of a species (immediate
and delayed parts together) than they list it among their reactants. -/
structure MANet (m : SimModel α) (ks : List Nat) (Rs : List (List Nat)) (n : Nat) : Prop where
  plain : m.safe = false
  norules : m.rules = []
  props : m.props = List.zipWith (fun k R => createMassAction k R) ks Rs
  lens : ks.length = Rs.length
  colsU : ∀ j, j < Rs.length → (m.U.getD j []).length = n
  colsD : ∀ j, j < Rs.length → (m.D.getD j []).length = n
  consume : ∀ j, j < Rs.length → ∀ i, i < n →
    -(((Rs.getD j []).count i : Nat) : Int) ≤ entry m.U i j + entry m.D i j

/-- what the loop keeps: whole, non-negative counts in the current state and in every reported row. -/
structure NatState (n : Nat) (s : LoopState σ α) : Prop where
  cur : IsNatVec s.x
  len : s.x.length = n
  rows : ∀ r ∈ s.rows, IsNatVec r

theorem arraySum_eq_sum (a : List α) : arraySum a = a.sum := by
  unfold arraySum
  rw [List.sum_eq_foldl]

theorem natState_arrive (times : List α) (n : Nat) (s : LoopState σ α) (p : List α) (T : α) (g' : σ) (h : NatState n s) :
    NatState n (arrive times s s.x p T g') := by
  unfold arrive
  refine ⟨h.cur, h.len, ?_⟩
  intro r hr
  simp only [List.mem_append, replicateRow, List.mem_replicate] at hr
  rcases hr with hr | ⟨_, rfl⟩
  · exact h.rows r hr
  · exact h.cur

theorem addCol_getD (x c d : List α) (n i : Nat) (hx : x.length = n) (hc : c.length = n) (hd : d.length = n) (hi : i < n) :
    (addCol x (addCol c d)).getD i 0 = x.getD i 0 + (c.getD i 0 + d.getD i 0) := by
  unfold addCol
  simp only [List.getD_eq_getElem?_getD, List.getElem?_zipWith]
  rw [List.getElem?_eq_getElem (by omega), List.getElem?_eq_getElem (by omega), List.getElem?_eq_getElem (by omega)]
  simp

theorem addCol_length' (x c d : List α) (n : Nat) (hx : x.length = n) (hc : c.length = n) (hd : d.length = n) :
    (addCol x (addCol c d)).length = n := by
  unfold addCol
  simp [hx, hc, hd]

theorem colOf_getD (S : List (List Int)) (j i : Nat) : (colOf (α := α) S j).getD i 0 = ((entry S i j : Int) : α) := by
  unfold colOf entry
  simp only [List.getD_eq_getElem?_getD, List.getElem?_map]
  cases h : (S[j]?.getD [])[i]? <;> simp [h]

theorem colOf_length (S : List (List Int)) (j : Nat) : (colOf (α := α) S j).length = (S.getD j []).length := by
  simp [colOf]

/-- **the reaction chosen by `sample_discrete` can fire without making a count negative**: whenever each weight is
non-negative and a non-zero weight of reaction `j` means every reactant of `j` is present in its multiplicity (the
property of mass-action propensities, in the plain and in the volume form), applying the chosen reaction's immediate and
delayed columns to a vector of natural numbers gives a vector of natural numbers. -/
theorem fire_natVec (m : SimModel α) (ks : List Nat) (Rs : List (List Nat)) (n : Nat) (hnet : MANet m ks Rs n)
    (x a : List α) (q : α) (hx : IsNatVec x) (hlen : x.length = n) (hlenA : a.length = Rs.length)
    (hfac : ∀ j (hj : j < a.length), 0 ≤ a[j] ∧
      (a[j] ≠ 0 → ∀ i, ∃ k : Nat, vecGet x i = (k : α) ∧ (Rs.getD j []).count i ≤ k))
    (hq0 : 0 < q) (hqle : q ≤ a.sum) :
    IsNatVec (addCol x (addCol (colOf m.U (sampleDiscreteFrom a q).toNat) (colOf m.D (sampleDiscreteFrom a q).toNat))) ∧
    (addCol x (addCol (colOf (α := α) m.U (sampleDiscreteFrom a q).toNat) (colOf m.D (sampleDiscreteFrom a q).toNat))).length = n := by
  have hposA : ∀ v ∈ a, 0 ≤ v := by
    intro v hv
    obtain ⟨j, hj, rfl⟩ := List.mem_iff_getElem.mp hv
    exact (hfac j hj).1
  obtain ⟨j, hj, hsel, _, _⟩ := sampleDiscrete_interval a q hposA hq0 hqle
  have hne : a[j] ≠ 0 := fun hz => zero_weight_not_chosen a q hposA hq0 hqle j hj hz hsel
  have hjR : j < Rs.length := hlenA ▸ hj
  have henough := (hfac j hj).2 hne
  have hchoice : (sampleDiscreteFrom a q).toNat = j := by rw [hsel]; simp
  rw [hchoice]
  have hcU := (colOf_length (α := α) m.U j).trans (hnet.colsU j hjR)
  have hcD := (colOf_length (α := α) m.D j).trans (hnet.colsD j hjR)
  refine ⟨?_, addCol_length' x (colOf m.U j) (colOf m.D j) n hlen hcU hcD⟩
  intro v hv
  obtain ⟨i, hi, rfl⟩ := List.mem_iff_getElem.mp hv
  have hl := addCol_length' x (colOf (α := α) m.U j) (colOf m.D j) n hlen hcU hcD
  have hin : i < n := hl ▸ hi
  have hval := addCol_getD x (colOf (α := α) m.U j) (colOf m.D j) n i hlen hcU hcD hin
  rw [List.getD_eq_getElem?_getD, List.getElem?_eq_getElem hi] at hval
  simp only [Option.getD_some] at hval
  rw [hval, colOf_getD, colOf_getD]
  obtain ⟨k, hk, hcount⟩ := henough i
  have hcons := hnet.consume j hjR i hin
  unfold vecGet at hk
  rw [hk]
  refine ⟨((k : Int) + (entry m.U i j + entry m.D i j)).toNat, ?_⟩
  have hnonneg : 0 ≤ (k : Int) + (entry m.U i j + entry m.D i j) := by
    have : ((List.count i (Rs.getD j []) : Nat) : Int) ≤ (k : Int) := by exact_mod_cast hcount
    omega
  have hcast : ((((k : Int) + (entry m.U i j + entry m.D i j)).toNat : Nat) : α) =
      (((k : Int) + (entry m.U i j + entry m.D i j) : Int) : α) := by
    rw [← Int.cast_natCast, Int.toNat_of_nonneg hnonneg]
  rw [hcast]; push_cast; ring

/-- **one step keeps the counts whole and non-negative** (plain mass-action network, uniforms in `(0, 1]`). -/
theorem jumpStep_natState (g : Gen σ α) (m : SimModel α) (ks : List Nat) (Rs : List (List Nat)) (n : Nat)
    (times : List α) (s : LoopState σ α) (hnet : MANet m ks Rs n) (hrate : ∀ k ∈ ks, 0 ≤ vecGet s.p k)
    (hu : ∀ st : σ, 0 < (g st).1 ∧ (g st).1 ≤ 1) (h : NatState n s) :
    NatState n (jumpStep g m times s) ∧ (jumpStep g m times s).p = s.p := by
  have hrule : applyRules m.rules s.x s.p 1 s.t m.dt s.ruleStep = (s.x, s.p) := by simp [hnet.norules, applyRules]
  have hprops : m.propensities .stoch s.x s.p 1 s.t =
      m.props.map (fun q => q.stoch (vecGet s.x) (vecGet s.p) s.t) := by
    unfold SimModel.propensities computePropensities
    simp [hnet.plain, Propensity.evalMode]
  have hrec : ∀ k, ∀ r ∈ s.rows ++ replicateRow k s.x, IsNatVec r := by
    intro k r hr
    simp only [List.mem_append, replicateRow, List.mem_replicate] at hr
    rcases hr with hr | ⟨_, rfl⟩
    · exact h.rows r hr
    · exact h.cur
  unfold jumpStep
  simp only [hrule]
  split_ifs with h1 h2 h3 h4
  · exact ⟨natState_arrive times n s s.p _ _ h, rfl⟩
  · exact ⟨natState_arrive times n s s.p _ _ h, rfl⟩
  · exact ⟨⟨h.cur, h.len, hrec _⟩, rfl⟩
  · -- the firing branch
    refine ⟨⟨?_, ?_, hrec _⟩, rfl⟩
    all_goals
      set a := m.propensities .stoch s.x s.p 1 s.t with ha
      set q := (g (g s.g).2).1 * arraySum a with hq
      have hlenA : a.length = Rs.length := by
        rw [hprops, List.length_map, hnet.props, List.length_zipWith, hnet.lens, min_self]
      have hget : ∀ j (hj : j < a.length), a[j] =
          (createMassAction (α := α) (ks.getD j 0) (Rs.getD j [])).stoch (vecGet s.x) (vecGet s.p) s.t := by
        intro j hj
        have hjR : j < Rs.length := hlenA ▸ hj
        have hjk : j < ks.length := hnet.lens ▸ hjR
        simp only [hprops, hnet.props, List.getElem_map, List.getElem_zipWith]
        simp [List.getD_eq_getElem?_getD, List.getElem?_eq_getElem hjk, List.getElem?_eq_getElem hjR]
      have hposA : ∀ v ∈ a, 0 ≤ v := by
        intro v hv
        obtain ⟨j, hj, rfl⟩ := List.mem_iff_getElem.mp hv
        rw [hget j hj]
        have hjk : j < ks.length := hnet.lens ▸ (hlenA ▸ hj)
        exact (massAction_stoch_nat _ _ s.x s.p s.t h.cur (hrate _ (by
          rw [List.getD_eq_getElem?_getD, List.getElem?_eq_getElem hjk]; exact List.getElem_mem hjk))).1
      have hL : 0 < arraySum a := h3
      have hq0 : 0 < q := mul_pos (hu _).1 hL
      have hqle : q ≤ a.sum := by
        rw [hq, arraySum_eq_sum]
        have := mul_le_mul_of_nonneg_right (hu (g s.g).2).2 (le_of_lt (arraySum_eq_sum a ▸ hL))
        simpa using this
      obtain ⟨j, hj, hsel, _, _⟩ := sampleDiscrete_interval a q hposA hq0 hqle
      have hne : a[j] ≠ 0 := fun hz => zero_weight_not_chosen a q hposA hq0 hqle j hj hz hsel
      have hjR : j < Rs.length := hlenA ▸ hj
      have hjk : j < ks.length := hnet.lens ▸ hjR
      have henough := (massAction_stoch_nat (ks.getD j 0) (Rs.getD j []) s.x s.p s.t h.cur (hrate _ (by
          rw [List.getD_eq_getElem?_getD, List.getElem?_eq_getElem hjk]; exact List.getElem_mem hjk))).2
        (by rw [← hget j hj]; exact hne)
      have hchoice : (sampleDiscreteFrom a q).toNat = j := by rw [hsel]; simp
      rw [hchoice]
      have hcU := (colOf_length (α := α) m.U j).trans (hnet.colsU j hjR)
      have hcD := (colOf_length (α := α) m.D j).trans (hnet.colsD j hjR)
    · -- every entry of the new state is a natural number
      intro v hv
      obtain ⟨i, hi, rfl⟩ := List.mem_iff_getElem.mp hv
      have hlen := addCol_length' s.x (colOf m.U j) (colOf m.D j) n h.len hcU hcD
      have hin : i < n := hlen ▸ hi
      have hval := addCol_getD s.x (colOf (α := α) m.U j) (colOf m.D j) n i h.len hcU hcD hin
      rw [List.getD_eq_getElem?_getD, List.getElem?_eq_getElem hi] at hval
      simp only [Option.getD_some] at hval
      rw [hval, colOf_getD, colOf_getD]
      obtain ⟨k, hk, hcount⟩ := henough i
      have hcons := hnet.consume j hjR i hin
      unfold vecGet at hk
      rw [hk]
      refine ⟨((k : Int) + (entry m.U i j + entry m.D i j)).toNat, ?_⟩
      have hnonneg : 0 ≤ (k : Int) + (entry m.U i j + entry m.D i j) := by
        have : ((List.count i (Rs.getD j []) : Nat) : Int) ≤ (k : Int) := by exact_mod_cast hcount
        omega
      have hcast : ((((k : Int) + (entry m.U i j + entry m.D i j)).toNat : Nat) : α) =
          (((k : Int) + (entry m.U i j + entry m.D i j) : Int) : α) := by
        rw [← Int.cast_natCast, Int.toNat_of_nonneg hnonneg]
      rw [hcast]; push_cast; ring
    · exact addCol_length' s.x (colOf m.U j) (colOf m.D j) n h.len hcU hcD
  · exact ⟨⟨h.cur, h.len, hrec _⟩, rfl⟩

/-- **whole runs**: every reported row and the final state of a plain mass-action network consist of whole,
non-negative counts — for every stream of uniforms in `(0, 1]`, any number of iterations of the jump process. -/
theorem jump_run_natState (g : Gen σ α) (m : SimModel α) (ks : List Nat) (Rs : List (List Nat)) (n : Nat)
    (times : List α) (hnet : MANet m ks Rs n) (hu : ∀ st : σ, 0 < (g st).1 ∧ (g st).1 ≤ 1)
    (fuel : Nat) (s s' : LoopState σ α) (hrate : ∀ k ∈ ks, 0 ≤ vecGet s.p k) (h : NatState n s)
    (hrun : runLoop (jumpStep g m times) times.length fuel s = some s') : NatState n s' := by
  induction fuel generalizing s with
  | zero =>
    unfold runLoop at hrun
    split at hrun
    · exact absurd hrun (by simp)
    · cases hrun; exact h
  | succ fuel ih =>
    unfold runLoop at hrun
    split at hrun
    · obtain ⟨hns, hp⟩ := jumpStep_natState g m ks Rs n times s hnet hrate hu h
      exact ih _ (by rw [hp]; exact hrate) hns hrun
    · cases hrun; exact h

/-- **mass-action networks never report a negative count** (`SSASimulator` on a plain mass-action network without
rules whose reactions remove no more than their reactants): every reported row is a vector of natural numbers,
for every stream of uniforms in `(0, 1]` and any number of iterations. -/
theorem ssa_run_nonneg (g : Gen σ α) (m : SimModel α) (ks : List Nat) (Rs : List (List Nat)) (n : Nat)
    (times : List α) (x0 p0 : List α) (g0 : σ) (vol0 : α) (q0 : DQ α) (hnet : MANet m ks Rs n)
    (hu : ∀ st : σ, 0 < (g st).1 ∧ (g st).1 ≤ 1) (hrate : ∀ k ∈ ks, 0 ≤ vecGet p0 k) (hx0 : IsNatVec x0)
    (hlen : x0.length = n) (fuel : Nat) (s' : LoopState σ α)
    (hrun : runLoop (ssaIter g m times) times.length fuel (initState m x0 p0 g0 vol0 q0) = some s') :
    ∀ r ∈ s'.rows, IsNatVec r := by
  have href := ssa_refines_jump g m times fuel (initState m x0 p0 g0 vol0 q0)
  rw [hrun] at href
  simp only [Option.map_some] at href
  have hinit : NatState n (strip (initState m x0 p0 g0 vol0 q0)) :=
    ⟨by simpa [strip, initState] using hx0, by simpa [strip, initState] using hlen, by simp [strip, initState]⟩
  have := jump_run_natState g m ks Rs n times hnet hu fuel _ (strip s') (by simpa [strip, initState] using hrate) hinit href.symm
  simpa [strip] using this.rows

end NonNeg

/-! ### Non-vacuity -/
example : Reach [[(1 : ℚ), -1], [-2, 1]] [3, 0] [0, 1] := by
  have h1 : Reach [[(1 : ℚ), -1], [-2, 1]] [3, 0] (addCol [3, 0] [-2, 1]) :=
    Reach.step _ (by simp) (Reach.refl _)
  have h2 := Reach.step (cols := [[(1 : ℚ), -1], [-2, 1]]) [-2, 1] (by simp) h1
  have h3 := Reach.step (cols := [[(1 : ℚ), -1], [-2, 1]]) [1, -1] (by simp) h2
  norm_num [addCol] at h3
  exact h3

/-- the hypotheses `MANet` are met by an ordinary network: `2A → B` and `B → A` over two species. -/
example : MANet (α := ℚ)
    { nSpecies := 2, props := [createMassAction 0 [0, 0], createMassAction 1 [1]], U := [[-2, 1], [1, -1]], D := [[0, 0], [0, 0]],
      R := [], rules := [], delays := [], safe := false, dt := 1, t0 := 0, twoPi := 6 } [0, 1] [[0, 0], [1]] 2 := by
  refine ⟨rfl, rfl, rfl, rfl, ?_, ?_, ?_⟩
  · intro j hj
    have : j = 0 ∨ j = 1 := by simp at hj; omega
    rcases this with rfl | rfl <;> rfl
  · intro j hj
    have : j = 0 ∨ j = 1 := by simp at hj; omega
    rcases this with rfl | rfl <;> rfl
  · intro j hj i hi
    have hj' : j = 0 ∨ j = 1 := by simp at hj; omega
    have hi' : i = 0 ∨ i = 1 := by omega
    rcases hj' with rfl | rfl <;> rcases hi' with rfl | rfl <;> decide

end Bioscrape.C06
