import Mathlib.Algebra.BigOperators.Group.List.Basic
import Mathlib.Algebra.Order.Field.Basic
import Mathlib.Tactic.Linarith
import Mathlib.Tactic.Ring
import BioscrapeModel.Proofs.Laws
import BioscrapeModel.Proofs.Sampling
import BioscrapeModel.Properties.C05

/-
C06 — every stochastic trajectory is a feasible reaction path.

Invariants of the loop models (every uniform stream, hence every seed; no bound on the number of
steps): without rules the state moves only by whole stoichiometric columns, so consecutive reported
rows differ by a non-negative integer combination of them; integrality and linear conservation
laws follow; a state with zero total propensity persists; in safe mode a positive propensity implies
the full requirement table is met.
-/
set_option linter.unusedSectionVars false
set_option linter.unusedSimpArgs false

namespace Bioscrape.C06
open Bioscrape Bioscrape.C05

variable {σ α : Type} [Field α] [LinearOrder α] [IsStrictOrderedRing α] [Transc α] [Trunc α]

/-- `y` is reached from `x` by adding whole columns of `cols` (a non-negative integer combination,
in inductive form). -/
inductive Reach (cols : List (List α)) : List α → List α → Prop
  | refl (x : List α) : Reach cols x x
  | step {x y : List α} (c : List α) : c ∈ cols → Reach cols x y → Reach cols x (addCol y c)

theorem Reach.trans {cols : List (List α)} {x y z : List α} (h1 : Reach cols x y) (h2 : Reach cols y z) :
    Reach cols x z := by
  induction h2 with
  | refl => exact h1
  | step c hc _ ih => exact Reach.step c hc ih

/-- the net stoichiometric columns `U_j + D_j` of a model, as numbers. -/
def netCols (m : SimModel α) : List (List α) :=
  (List.range m.props.length).map (fun j => addCol (colOf m.U j) (colOf m.D j))

/-- a chain of rows: each reported row is reached from the previous one, the first from `x0`, and the
current state from the last. -/
def Chain (cols : List (List α)) (x0 : List α) : List (List α) → List α → Prop
  | [], x => Reach cols x0 x
  | r :: rest, x => Reach cols x0 r ∧ Chain cols r rest x

theorem Chain.extend {cols : List (List α)} {x0 x y : List α} {rows : List (List α)}
    (h : Chain cols x0 rows x) (hxy : Reach cols x y) : Chain cols x0 rows y := by
  induction rows generalizing x0 with
  | nil => exact Reach.trans h hxy
  | cons r rest ih => exact ⟨h.1, ih h.2⟩

theorem Chain.record {cols : List (List α)} {x0 x : List α} {rows : List (List α)} (k : Nat)
    (h : Chain cols x0 rows x) : Chain cols x0 (rows ++ replicateRow k x) x := by
  induction rows generalizing x0 with
  | nil =>
    induction k with
    | zero => simpa [replicateRow] using h
    | succ k ih =>
      simp only [replicateRow, List.nil_append, List.replicate_succ] at ih ⊢
      exact ⟨h, by
        have : Chain cols x (List.replicate k x) x := by
          clear ih h
          induction k with
          | zero => exact Reach.refl x
          | succ k ih => exact ⟨Reach.refl x, ih⟩
        exact this⟩
  | cons r rest ih => exact ⟨h.1, ih h.2⟩

theorem go_lt (q : α) (rest : List α) (pSum : α) (i : Nat) :
    sampleDiscreteFrom.go q rest pSum i < ((i + rest.length : Nat) : Int) ∨ rest = [] ∧ sampleDiscreteFrom.go q rest pSum i = (i : Int) - 1 := by
  induction rest generalizing pSum i with
  | nil => right; exact ⟨rfl, by simp [sampleDiscreteFrom.go]⟩
  | cons a r ih =>
    left
    unfold sampleDiscreteFrom.go
    split
    · rcases ih (pSum + a) (i + 1) with h | ⟨hr, hv⟩
      · simp only [List.length_cons]; push_cast at h ⊢; omega
      · rw [hv]; simp only [List.length_cons]; push_cast; omega
    · simp only [List.length_cons]; push_cast; omega

/-- `sample_discrete` never returns an index past the last reaction. -/
theorem sampleDiscreteFrom_lt (a : List α) (q : α) : sampleDiscreteFrom a q < (a.length : Int) ∨ a = [] := by
  unfold sampleDiscreteFrom
  rcases go_lt q a 0 0 with h | ⟨h, _⟩
  · left; simpa using h
  · right; exact h

theorem propensities_length (m : SimModel α) (mode : Mode) (x p : List α) (V t : α) :
    (m.propensities mode x p V t).length = m.props.length := by
  unfold SimModel.propensities computePropensitiesSafe computePropensities
  split <;> simp

/-- **one SSA step without rules**: the state stays or moves by exactly one net column of a
reaction that exists; rows written in the step show the state before the move. -/
theorem jumpStep_lattice (g : Gen σ α) (m : SimModel α) (times : List α) (s : LoopState σ α) (x0 : List α)
    (hr : m.rules = []) (hbad : (jumpStep g m times s).bad = false)
    (h : Chain (netCols m) x0 s.rows s.x) :
    Chain (netCols m) x0 (jumpStep g m times s).rows (jumpStep g m times s).x := by
  have hrule : applyRules m.rules s.x s.p 1 s.t m.dt s.ruleStep = (s.x, s.p) := by simp [hr, applyRules]
  unfold jumpStep arrive at hbad ⊢
  simp only [hrule] at hbad ⊢
  split_ifs at hbad ⊢ with h1 h2 h3 h4
  all_goals first
    | exact Chain.record _ h
    | (simp at hbad)
  -- the firing branch
  · refine Chain.extend (Chain.record _ h) ?_
    apply Reach.step _ _ (Reach.refl _)
    unfold netCols
    simp only [List.mem_map, List.mem_range]
    refine ⟨_, ?_, rfl⟩
    have hlen := propensities_length m .stoch s.x s.p 1 s.t
    have hlt := sampleDiscreteFrom_lt (m.propensities .stoch s.x s.p 1 s.t) ((g (g s.g).2).1 * arraySum (m.propensities .stoch s.x s.p 1 s.t))
    have hnn : 0 ≤ sampleDiscreteFrom (m.propensities .stoch s.x s.p 1 s.t) ((g (g s.g).2).1 * arraySum (m.propensities .stoch s.x s.p 1 s.t)) := not_lt.mp h4
    rcases hlt with hlt | hnil
    · rw [hlen] at hlt; omega
    · exfalso
      rw [hnil] at hnn
      simp [sampleDiscreteFrom, sampleDiscreteFrom.go] at hnn

/-- **whole runs, every stream**: after any number of iterations of the jump-process step (hence, by
`ssa_refines_jump`, of the SSA loop) on a model without rules, the reported rows form a chain in which
each row is reached from the previous one by adding whole net stoichiometric columns. -/
theorem jump_run_lattice (g : Gen σ α) (m : SimModel α) (times : List α) (x0 : List α) (hr : m.rules = [])
    (fuel : Nat) (s s' : LoopState σ α) (h : Chain (netCols m) x0 s.rows s.x)
    (hrun : runLoop (jumpStep g m times) times.length fuel s = some s') (hok : s'.bad = false) :
    Chain (netCols m) x0 s'.rows s'.x := by
  induction fuel generalizing s with
  | zero =>
    unfold runLoop at hrun
    split at hrun
    · exact absurd hrun (by simp)
    · cases hrun; exact h
  | succ fuel ih =>
    unfold runLoop at hrun
    split at hrun
    · rename_i hguard
      by_cases hb : (jumpStep g m times s).bad = false
      · exact ih _ (jumpStep_lattice g m times s x0 hr hb h) hrun
      · -- a bad step stops the loop at once: the result is that state
        have hb' : (jumpStep g m times s).bad = true := by simpa using hb
        have : runLoop (jumpStep g m times) times.length fuel (jumpStep g m times s) = some (jumpStep g m times s) := by
          cases fuel <;> simp [runLoop, hb']
        rw [this] at hrun
        cases hrun
        exact absurd hok (by simp [hb'])
    · cases hrun; exact h

theorem ssa_run_lattice (g : Gen σ α) (m : SimModel α) (times : List α) (x0 p0 : List α) (g0 : σ) (vol0 : α) (q0 : DQ α)
    (hr : m.rules = []) (fuel : Nat) (s' : LoopState σ α)
    (hrun : runLoop (ssaIter g m times) times.length fuel (initState m x0 p0 g0 vol0 q0) = some s')
    (hok : s'.bad = false) : Chain (netCols m) x0 s'.rows s'.x := by
  have href := ssa_refines_jump g m times fuel (initState m x0 p0 g0 vol0 q0)
  rw [hrun] at href
  simp only [Option.map_some] at href
  have hinit : Chain (netCols m) x0 (strip (initState m x0 p0 g0 vol0 q0)).rows (strip (initState m x0 p0 g0 vol0 q0)).x := by
    simp [strip, initState, Chain]; exact Reach.refl x0
  have := jump_run_lattice g m times x0 hr fuel _ (strip s') hinit href.symm (by simpa [strip] using hok)
  simpa [strip] using this

/-! ### Consequences of the lattice property -/

def dot (w x : List α) : α := (List.zipWith (· * ·) w x).sum

theorem dot_addCol (w x c : List α) (h1 : x.length = w.length) (h2 : c.length = w.length) :
    dot w (addCol x c) = dot w x + dot w c := by
  unfold dot addCol
  induction w generalizing x c with
  | nil => simp
  | cons a w ih =>
    cases x with
    | nil => simp at h1
    | cons b x =>
      cases c with
      | nil => simp at h2
      | cons d c =>
        simp only [List.zipWith_cons_cons, List.sum_cons]
        rw [ih x c (by simpa using h1) (by simpa using h2)]
        ring

theorem addCol_length (x c : List α) (h : c.length = x.length) : (addCol x c).length = x.length := by
  simp [addCol, h]

/-- **conservation laws**: a weight vector orthogonal to every net column is conserved along every
reachable path (no rule overwrites species). -/
theorem conservation (cols : List (List α)) (w x y : List α) (hreach : Reach cols x y)
    (hx : x.length = w.length) (hcols : ∀ c ∈ cols, c.length = w.length ∧ dot w c = 0) :
    y.length = w.length ∧ dot w y = dot w x := by
  induction hreach with
  | refl => exact ⟨hx, rfl⟩
  | step c hc _ ih =>
    obtain ⟨hl, hd⟩ := ih
    have := hcols c hc
    refine ⟨by rw [addCol_length _ _ (by rw [this.1, hl]), hl], ?_⟩
    rw [dot_addCol w _ c hl this.1, hd, this.2, add_zero]

/-- integer-valued vectors. -/
def IsIntVec (x : List α) : Prop := ∀ v ∈ x, ∃ z : Int, v = (z : α)

theorem isInt_addCol (x c : List α) (hx : IsIntVec x) (hc : IsIntVec c) : IsIntVec (addCol x c) := by
  unfold addCol
  induction x generalizing c with
  | nil => intro v hv; simp at hv
  | cons a x ih =>
    cases c with
    | nil => intro v hv; simp at hv
    | cons b c =>
      intro v hv
      simp only [List.zipWith_cons_cons, List.mem_cons] at hv
      rcases hv with hv | hv
      · obtain ⟨z1, h1⟩ := hx a (by simp)
        obtain ⟨z2, h2⟩ := hc b (by simp)
        exact ⟨z1 + z2, by rw [hv, h1, h2]; push_cast; ring⟩
      · exact ih c (fun v hv => hx v (List.mem_cons_of_mem _ hv)) (fun v hv => hc v (List.mem_cons_of_mem _ hv)) v hv

/-- **integrality**: integer initial counts stay integer along every reachable path. -/
theorem integrality (cols : List (List α)) (x y : List α) (hreach : Reach cols x y) (hx : IsIntVec x)
    (hcols : ∀ c ∈ cols, IsIntVec c) : IsIntVec y := by
  induction hreach with
  | refl => exact hx
  | step c hc _ ih => exact isInt_addCol _ c ih (hcols c hc)

theorem colOf_isInt (S : List (List Int)) (j : Nat) : IsIntVec (colOf (α := α) S j) := by
  intro v hv
  unfold colOf at hv
  simp only [List.mem_map] at hv
  obtain ⟨z, _, hz⟩ := hv
  exact ⟨z, hz.symm⟩

theorem netCols_isInt (m : SimModel α) : ∀ c ∈ netCols m, IsIntVec c := by
  intro c hc
  unfold netCols at hc
  simp only [List.mem_map, List.mem_range] at hc
  obtain ⟨j, _, rfl⟩ := hc
  exact isInt_addCol _ _ (colOf_isInt m.U j) (colOf_isInt m.D j)

/-! ### Absorbing states -/

/-- **a state whose total propensity is zero persists**: without rules, the step moves the clock to
the next grid time, writes the unchanged state into the rows it passes, and consumes no randomness. -/
theorem absorbing_step (g : Gen σ α) (m : SimModel α) (times : List α) (s : LoopState σ α) (hr : m.rules = [])
    (hzero : arraySum (m.propensities .stoch s.x s.p 1 s.t) = 0) :
    (jumpStep g m times s).x = s.x ∧ (jumpStep g m times s).g = s.g
      ∧ (jumpStep g m times s).t = times.getD s.idx 0
      ∧ ∃ k, (jumpStep g m times s).rows = s.rows ++ replicateRow k s.x := by
  have hrule : applyRules m.rules s.x s.p 1 s.t m.dt s.ruleStep = (s.x, s.p) := by simp [hr, applyRules]
  unfold jumpStep arrive
  simp only [hrule, hzero]
  have : feq (0 : α) 0 = true := by simp [feq]
  simp only [this, if_true]
  exact ⟨trivial, trivial, trivial, _, rfl⟩

/-! ### Safe mode -/

/-- **safe mode**: a reaction whose reported stochastic propensity is positive has, for every species it
consumes (immediately or after the delay), at least the required number of copies — whatever its
propensity type. -/
theorem safe_guard (mode : Mode) (inputs : List (Nat × Int)) (q : Propensity α) (x p : Nat → α) (V t : α)
    (hpos : 0 < safeStochOne mode inputs x p V t q) : ∀ si ∈ inputs, (si.2 : α) ≤ x si.1 := by
  intro si hsi
  by_contra hlt
  have hb : safeBlocked inputs x = true := by
    unfold safeBlocked
    simp only [List.any_eq_true, decide_eq_true_eq]
    exact ⟨si, hsi, not_le.mp hlt⟩
  simp [safeStochOne, hb] at hpos

/-- the requirement recorded for an input species covers what the reaction can remove from it
(immediately or after the delay) **and** the number of copies it needs as reactants, catalysts
included: "its full complement of reactants". -/
theorem safeInputs_requirement (n : Nat) (U D : List (List Int)) (R : List (List Nat)) (r s : Nat) (req : Int)
    (h : (s, req) ∈ safeInputs n U D R r) :
    req ≥ -(entry U s r) ∧ req ≥ -(entry D s r) ∧ req ≥ (needOf R s r : Nat) ∧ req > 0 := by
  unfold safeInputs at h
  simp only [List.mem_filterMap, List.mem_range] at h
  obtain ⟨s', _, hs'⟩ := h
  split at hs'
  · rename_i hcond
    simp only [Option.some.injEq, Prod.mk.injEq] at hs'
    obtain ⟨rfl, rfl⟩ := hs'
    refine ⟨?_, ?_, ?_, ?_⟩ <;> split <;> split <;> omega
  · simp at hs'

/-- every reactant of the reaction (with positive multiplicity) is among its inputs. -/
theorem safeInputs_complete (n : Nat) (U D : List (List Int)) (R : List (List Nat)) (r s : Nat)
    (hs : s < n) (hneed : 0 < needOf R s r) : ∃ req, (s, req) ∈ safeInputs n U D R r := by
  unfold safeInputs
  simp only [List.mem_filterMap, List.mem_range]
  have hc : entry U s r < 0 ∨ entry D s r < 0 ∨ ((needOf R s r : Nat) : Int) > 0 := Or.inr (Or.inr (by exact_mod_cast hneed))
  exact ⟨_, s, hs, if_pos hc⟩

/-- **safe mode, full complement**: if the safe interface reports a positive stochastic propensity for
reaction `r`, then every species has at least as many copies as `r` lists it among its reactants
(immediate and delayed), whatever the propensity type. -/
theorem safe_full_complement (mode : Mode) (n : Nat) (U D : List (List Int)) (R : List (List Nat)) (r : Nat)
    (q : Propensity α) (x p : Nat → α) (V t : α)
    (hpos : 0 < safeStochOne mode (safeInputs n U D R r) x p V t q) (s : Nat) (hs : s < n)
    (hneed : 0 < needOf R s r) : ((needOf R s r : Nat) : α) ≤ x s := by
  obtain ⟨req, hmem⟩ := safeInputs_complete n U D R r s hs hneed
  have h1 := safe_guard mode _ q x p V t hpos (s, req) hmem
  have h2 := (safeInputs_requirement n U D R r s req hmem).2.2.1
  have : ((needOf R s r : Nat) : α) ≤ (req : α) := by exact_mod_cast h2
  exact le_trans this h1

/-! ### Non-vacuity -/
example : Reach [[(1 : ℚ), -1], [-2, 1]] [3, 0] [0, 1] := by
  have h1 : Reach [[(1 : ℚ), -1], [-2, 1]] [3, 0] (addCol [3, 0] [-2, 1]) :=
    Reach.step _ (by simp) (Reach.refl _)
  have h2 := Reach.step (cols := [[(1 : ℚ), -1], [-2, 1]]) [-2, 1] (by simp) h1
  have h3 := Reach.step (cols := [[(1 : ℚ), -1], [-2, 1]]) [1, -1] (by simp) h2
  norm_num [addCol] at h3
  exact h3

end Bioscrape.C06
