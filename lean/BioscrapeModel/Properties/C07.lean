import BioscrapeModel.Model.EntryPoint

/-
C07 — every simulation mode returns a complete, correctly labelled result.

The option lattice is a genuine finite table: the theorems below are checked by kernel evaluation
over the *whole* lattice (128 combinations), against the dispatch model and against the result-class
constructors regenerated from the source by the translator on every run.
-/
namespace Bioscrape.C07
open Bioscrape.Entry Bioscrape.Generated

/-- every `Options` value with exactly one of Model / Interface is in the enumerated lattice. -/
theorem lattice_complete (o : Options) (h : o.model = !o.interface) : o ∈ lattice := by
  obtain ⟨m, i, s, d, sf, v, df⟩ := o
  simp only at h
  subst h
  cases i <;> cases s <;> cases d <;> cases sf <;> cases v <;> cases df <;> decide +kernel

def isResult : Outcome → Bool
  | .result .. => true
  | _ => false

/-- **never fails from inside**: every option combination of the lattice yields a result. -/
theorem entry_total : ∀ o ∈ lattice, isResult (simulateModel o) = true := by
  decide +kernel

/-- the combinations outside the lattice (neither / both of Model and Interface) are rejected with an
explicit error about the options. -/
theorem entry_rejects_bad_source (o : Options) (h : o.model = o.interface) :
    ∃ msg, simulateModel o = .optionError msg := by
  obtain ⟨m, i, s, d, sf, v, df⟩ := o
  simp only at h
  subst h
  cases m
  · exact ⟨"requires either a Model or CSimInterface", by simp [simulateModel]⟩
  · exact ⟨"requires either a Model OR a CSimInterface, not both", by simp [simulateModel]⟩

def notAbstract : Outcome → Bool
  | .result _ .delayVolumeAbstract .. => false
  | .internalError _ => false
  | _ => true

/-- no combination reaches an abstract simulator or an internal error. -/
theorem entry_no_abstract_simulator : ∀ o ∈ lattice, notAbstract (simulateModel o) = true := by
  decide +kernel

def timeAxisOk : Outcome → Bool
  | .result c .. => storesTimeAxis c
  | _ => false

/-- **time axis**: every result class that the entry point can return stores the requested time points
(obligation regenerated from the constructors' source). -/
theorem entry_time_axis : ∀ o ∈ lattice, timeAxisOk (simulateModel o) = true := by
  decide +kernel

/-- every result class stores the result rows. -/
theorem result_rows_stored : ∀ c : ResultClass, "simulation_result" ∈ fieldsSet c := by
  intro c; cases c <;> decide +kernel

/-- volume results carry the volume trace and the division flag; delay results the final queue. -/
theorem volume_fields :
    "volume" ∈ fieldsSet .VolumeSSAResult ∧ "cell_divided_flag" ∈ fieldsSet .VolumeSSAResult
    ∧ "volume" ∈ fieldsSet .DelayVolumeSSAResult ∧ "final_delay_queue" ∈ fieldsSet .DelayVolumeSSAResult
    ∧ "final_delay_queue" ∈ fieldsSet .DelaySSAResult := by
  decide +kernel

def volumeColumnOk (o : Options) : Bool :=
  match simulateModel o with
  | .result _ _ _ v _ _ => v == (decide (o.volume ≠ .off) && (o.stochastic || o.delay))
  | _ => false

/-- **labelling**: a volume column exactly when a volume is in play; a volume is in play exactly when the
`volume` option is not off and the run is stochastic or delayed. -/
theorem entry_volume_column : ∀ o ∈ lattice, volumeColumnOk o = true := by
  decide +kernel

/-- columns: one per species in index order, then `time`, then `volume` when used. -/
theorem columns_shape (species : List String) (named hasVolume : Bool) :
    (columns species named hasVolume).length = species.length + 1 + (if hasVolume then 1 else 0) := by
  cases named <;> cases hasVolume <;> simp [columns]

theorem columns_named (species : List String) (hasVolume : Bool) :
    (columns species true hasVolume).take species.length = species := by
  simp [columns]

def dispatchOk (o : Options) : Bool :=
  match simulateModel o with
  | .result c s i _ n d =>
      (decide (s = .deterministic) == (!o.delay && !o.stochastic))
      && (decide (s = .delaySSA ∨ s = .delayVolumeSSA) == o.delay)
      && (decide (i = .safe) == (o.model && o.safe))
      && (n == o.model) && (d == o.dataframe)
      && (decide (c = .SSAResult) == (!o.delay && (!o.stochastic || decide (o.volume = .off))))
  | _ => false

/-- the simulator chosen: delay wins over stochastic, deterministic otherwise; the safe flag selects the
safe interface when a Model is given; species names are available exactly when a Model was passed. -/
theorem entry_dispatch : ∀ o ∈ lattice, dispatchOk o = true := by
  decide +kernel

/-! ### Non-vacuity -/
example : lattice.length = 128 := by decide +kernel
example : simulateModel { model := true, interface := false, stochastic := true, delay := true, safe := false,
                          volume := .object, dataframe := true }
    = .result .DelayVolumeSSAResult .delayVolumeSSA .plain true true true := by decide +kernel

end Bioscrape.C07
