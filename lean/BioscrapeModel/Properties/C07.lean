import Mathlib.Tactic.SplitIfs
import BioscrapeModel.Model.EntryPoint
import BioscrapeModel.Model.Loops

/-
C07 — every simulation mode returns a complete, correctly labelled result.

The option lattice is a genuine finite table: the theorems below are checked by kernel evaluation
over the *whole* lattice (128 combinations), against the dispatch model and against the result-class
constructors regenerated from the source by the translator on every run.

Second part (any network, seed, grid — by induction over the loop, not a table): a run of the SSA or the delay
simulator's loop that comes back without a sampling failure has written exactly one row per requested time point
(`ssa_run_complete`, `delay_run_complete`), and whatever the first iteration writes is the initial condition with the
rules applied (`ssa_first_rows`).  The loops are the ones run bit for bit against the implementation by C05/C06/C09/C10.
-/
namespace Bioscrape.C07
open Bioscrape.Entry Bioscrape.Generated

/-- every `Options` value with exactly one of Model / Interface is in the enumerated lattice. -/
theorem lattice_complete (o : Options) (h : o.model = !o.interface) : o ∈ lattice := by
  obtain ⟨m, i, s, d, sf, v, df⟩ := o
  simp only at h
  subst h
  cases i <;> cases s <;> cases d <;> cases sf <;> cases v <;> cases df <;> decide +kernel

def isResult : Outcome → Bool
  | .result .. => true
  | _ => false

/-- **never fails from inside**: every option combination of the lattice yields a result. -/
theorem entry_total : ∀ o ∈ lattice, isResult (simulateModel o) = true := by
  decide +kernel

/-- the combinations outside the lattice (neither / both of Model and Interface) are rejected with an
explicit error about the options. -/
theorem entry_rejects_bad_source (o : Options) (h : o.model = o.interface) :
    ∃ msg, simulateModel o = .optionError msg := by
  obtain ⟨m, i, s, d, sf, v, df⟩ := o
  simp only at h
  subst h
  cases m
  · exact ⟨"requires either a Model or CSimInterface", by simp [simulateModel]⟩
  · exact ⟨"requires either a Model OR a CSimInterface, not both", by simp [simulateModel]⟩

def notAbstract : Outcome → Bool
  | .result _ .delayVolumeAbstract .. => false
  | .internalError _ => false
  | _ => true

/-- no combination reaches an abstract simulator or an internal error. -/
theorem entry_no_abstract_simulator : ∀ o ∈ lattice, notAbstract (simulateModel o) = true := by
  decide +kernel

def timeAxisOk : Outcome → Bool
  | .result c .. => storesTimeAxis c
  | _ => false

/-- **time axis**: every result class that the entry point can return stores the requested time points
(obligation regenerated from the constructors' source). -/
theorem entry_time_axis : ∀ o ∈ lattice, timeAxisOk (simulateModel o) = true := by
  decide +kernel

/-- every result class stores the result rows. -/
theorem result_rows_stored : ∀ c : ResultClass, "simulation_result" ∈ fieldsSet c := by
  intro c; cases c <;> decide +kernel

/-- volume results carry the volume trace and the division flag; delay results the final queue. -/
theorem volume_fields :
    "volume" ∈ fieldsSet .VolumeSSAResult ∧ "cell_divided_flag" ∈ fieldsSet .VolumeSSAResult
    ∧ "volume" ∈ fieldsSet .DelayVolumeSSAResult ∧ "final_delay_queue" ∈ fieldsSet .DelayVolumeSSAResult
    ∧ "final_delay_queue" ∈ fieldsSet .DelaySSAResult := by
  decide +kernel

def volumeColumnOk (o : Options) : Bool :=
  match simulateModel o with
  | .result _ _ _ v _ _ => v == (decide (o.volume ≠ .off) && (o.stochastic || o.delay))
  | _ => false

/-- **labelling**: a volume column exactly when a volume is in play; a volume is in play exactly when the
`volume` option is not off and the run is stochastic or delayed. -/
theorem entry_volume_column : ∀ o ∈ lattice, volumeColumnOk o = true := by
  decide +kernel

/-- columns: one per species in index order, then `time`, then `volume` when used. -/
theorem columns_shape (species : List String) (named hasVolume : Bool) :
    (columns species named hasVolume).length = species.length + 1 + (if hasVolume then 1 else 0) := by
  cases named <;> cases hasVolume <;> simp [columns]

theorem columns_named (species : List String) (hasVolume : Bool) :
    (columns species true hasVolume).take species.length = species := by
  simp [columns]

/-- **where `time` and `volume` are**: for any number of species, named or positional, the label right after the species
columns is `time`, and `volume`, when a volume is in play, is the label after that and the last one; without a volume
`time` is the last label. -/
theorem columns_time_volume (species : List String) (named hasVolume : Bool) :
    (columns species named hasVolume)[species.length]? = some "time"
    ∧ (columns species named hasVolume)[species.length + 1]? = (if hasVolume then some "volume" else none) := by
  cases named <;> cases hasVolume <;> simp [columns, List.getElem?_append_right]

/-- species columns of a positional (interface-only) result are the positions `0 … n−1` in order. -/
theorem columns_positional (species : List String) (hasVolume : Bool) :
    (columns species false hasVolume).take species.length = (List.range species.length).map toString := by
  simp [columns]

def dispatchOk (o : Options) : Bool :=
  match simulateModel o with
  | .result c s i _ n d =>
      (decide (s = .deterministic) == (!o.delay && !o.stochastic))
      && (decide (s = .delaySSA ∨ s = .delayVolumeSSA) == o.delay)
      && (decide (i = .safe) == (o.model && o.safe))
      && (n == o.model) && (d == o.dataframe)
      && (decide (c = .SSAResult) == (!o.delay && (!o.stochastic || decide (o.volume = .off))))
  | _ => false

/-- the simulator chosen: delay wins over stochastic, deterministic otherwise; the safe flag selects the
safe interface when a Model is given; species names are available exactly when a Model was passed. -/
theorem entry_dispatch : ∀ o ∈ lattice, dispatchOk o = true := by
  decide +kernel

/-! ### Complete results: one row per requested time point

The simulators' loops (`Model/Loops.lean`, run bit for bit against the implementation by the checks of C05, C06, C09 and
C10) write rows only while passing grid times.  For every network, seed, grid and amount of fuel: a run of the SSA or the
delay simulator that comes back without a sampling failure has written exactly one row per requested time point. -/

section complete
open Bioscrape
variable {σ α : Type} [Zero α] [One α] [Add α] [Sub α] [Mul α] [Div α] [Neg α] [NatCast α] [IntCast α]
  [LT α] [LE α] [DecidableLT α] [DecidableLE α] [Transc α] [Trunc α]

theorem recordCount_le (t : α) (l : List α) : recordCount t l ≤ l.length := by
  induction l with
  | nil => simp [recordCount]
  | cons T rest ih => unfold recordCount; split <;> simp <;> omega

/-- rows written so far = index of the next time point ≤ number of requested time points; no `break` taken. -/
def Filling (n : Nat) (s : LoopState σ α) : Prop := s.rows.length = s.idx ∧ s.idx ≤ n ∧ s.stop = false

theorem runLoop_filling (iter : LoopState σ α → LoopState σ α) (n : Nat)
    (hstep : ∀ s, Filling n s → Filling n (iter s)) :
    ∀ (fuel : Nat) (s s' : LoopState σ α), Filling n s → runLoop iter n fuel s = some s' →
      Filling n s' ∧ ¬ (s'.idx < n ∧ ¬ s'.stop ∧ ¬ s'.bad) := by
  intro fuel
  induction fuel with
  | zero =>
    intro s s' h hrun
    unfold runLoop at hrun
    split at hrun
    · exact absurd hrun (by simp)
    · rename_i hc; cases hrun; exact ⟨h, hc⟩
  | succ fuel ih =>
    intro s s' h hrun
    unfold runLoop at hrun
    split at hrun
    · exact ih _ _ (hstep s h) hrun
    · rename_i hc; cases hrun; exact ⟨h, hc⟩

/-- a loop that keeps `Filling` and comes back without a sampling failure has filled every row. -/
theorem run_complete (iter : LoopState σ α → LoopState σ α) (n : Nat)
    (hstep : ∀ s, Filling n s → Filling n (iter s)) (fuel : Nat) (s s' : LoopState σ α) (h : Filling n s)
    (hrun : runLoop iter n fuel s = some s') (hbad : s'.bad = false) : s'.rows.length = n := by
  obtain ⟨⟨h1, h2, h3⟩, hc⟩ := runLoop_filling iter n hstep fuel s s' h hrun
  have : ¬ s'.idx < n := fun hlt => hc ⟨hlt, by simp [h3], by simp [hbad]⟩
  omega

theorem step_idx_le (times : List α) (t : α) (idx : Nat) (h : idx ≤ times.length) :
    idx + recordCount t (times.drop idx) ≤ times.length := by
  have := recordCount_le t (times.drop idx)
  rw [List.length_drop] at this
  omega

theorem ssaIter_filling (g : Gen σ α) (m : SimModel α) (times : List α) (s : LoopState σ α)
    (h : Filling times.length s) : Filling times.length (ssaIter g m times s) := by
  obtain ⟨h1, h2, h3⟩ := h
  have hk := fun t => step_idx_le times t s.idx h2
  unfold Filling ssaIter
  simp only
  split_ifs <;> simp [replicateRow, List.length_append, List.length_replicate, h1, h3, hk]

theorem delayApply_filling (g : Gen σ α) (m : SimModel α) (times : List α) (s : LoopState σ α) (d : DelayDecision σ α)
    (h : Filling times.length s) : Filling times.length (delayApply g m times s d) := by
  obtain ⟨h1, h2, h3⟩ := h
  have hk := fun t => step_idx_le times t s.idx h2
  unfold Filling delayApply
  simp only
  split_ifs <;> (try split) <;> (try split_ifs) <;>
    simp [replicateRow, List.length_append, List.length_replicate, h1, h3, hk]

/-- **a stochastic simulation returns one row per requested time point** (any network, seed, grid). -/
theorem ssa_run_complete (g : Gen σ α) (m : SimModel α) (times x0 p0 : List α) (g0 : σ) (vol0 : α) (q0 : DQ α)
    (fuel : Nat) (s' : LoopState σ α)
    (hrun : runLoop (ssaIter g m times) times.length fuel (initState m x0 p0 g0 vol0 q0) = some s')
    (hbad : s'.bad = false) : s'.rows.length = times.length :=
  run_complete _ _ (ssaIter_filling g m times) fuel _ s' (by simp [Filling, initState]) hrun hbad

/-- **so does a simulation with delays.** -/
theorem delay_run_complete (g : Gen σ α) (m : SimModel α) (times x0 p0 : List α) (g0 : σ) (vol0 : α) (q0 : DQ α)
    (fuel : Nat) (s' : LoopState σ α)
    (hrun : runLoop (delayIter g m times) times.length fuel (initState m x0 p0 g0 vol0 q0) = some s')
    (hbad : s'.bad = false) : s'.rows.length = times.length :=
  run_complete _ _ (fun s hs => delayApply_filling g m times s (delayDecide g m times s) hs) fuel _ s'
    (by simp [Filling, initState]) hrun hbad

/-- **every row of the first iteration is the initial condition with the rules applied**: whatever the first
iteration of the SSA loop writes (the rows for the grid times it passes before anything fires) is the rule-updated
initial state. -/
theorem ssaIter_new_rows (g : Gen σ α) (m : SimModel α) (times : List α) (s : LoopState σ α) :
    ∃ k, (ssaIter g m times s).rows
      = s.rows ++ replicateRow k (applyRules m.rules s.x s.p 1 s.t m.dt s.ruleStep).1 := by
  unfold ssaIter
  simp only [apply_ite LoopState.rows, ite_self]
  exact ⟨_, rfl⟩

theorem ssa_first_rows (g : Gen σ α) (m : SimModel α) (times x0 p0 : List α) (g0 : σ) (vol0 : α) (q0 : DQ α) :
    ∃ k, (ssaIter g m times (initState m x0 p0 g0 vol0 q0)).rows
      = replicateRow k (applyRules m.rules x0 p0 1 m.t0 m.dt true).1 := by
  obtain ⟨k, hk⟩ := ssaIter_new_rows g m times (initState m x0 p0 g0 vol0 q0)
  exact ⟨k, by rw [hk]; simp [initState]⟩

end complete

/-! ### Non-vacuity -/
example : lattice.length = 128 := by decide +kernel
example : simulateModel { model := true, interface := false, stochastic := true, delay := true, safe := false,
                          volume := .object, dataframe := true }
    = .result .DelayVolumeSSAResult .delayVolumeSSA .plain true true true := by decide +kernel

end Bioscrape.C07
