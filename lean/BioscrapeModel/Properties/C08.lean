import Mathlib.Algebra.Order.Field.Basic
import Mathlib.Data.List.Basic
import Mathlib.Tactic.Linarith
import BioscrapeModel.Model.ModelState
import BioscrapeModel.Model.Random
import BioscrapeModel.Model.CreateVectors
import BioscrapeModel.Properties.C05

/-
C08 — results depend only on the model's current definition and the seed.

What is proved here (for all histories / all streams): the bookkeeping of incremental edits is
append-only (indices handed out earlier stay valid), every edit invalidates the `initialized` flag and
only `initialize` restores it (after checking that every parameter has a value), setting a parameter
changes that parameter alone, a rule pass and hence a whole simulation writes no parameter other than
the destinations of parameter-assigning rules, and reseeding overwrites the whole generator state.
The end-to-end statement "same definition and seed ⇒ same output" is the correspondence run of the
check (histories on the real object vs a freshly built model); see DESIGN.md §4 C08.
-/
set_option linter.unusedSectionVars false
set_option linter.unusedSimpArgs false

namespace Bioscrape.C08
open Bioscrape

variable {α : Type} [Field α] [LinearOrder α] [IsStrictOrderedRing α]

/-! ### Edits invalidate, `initialize` validates -/

theorem addSpecies_clears (m : MState α) (s : String) : (m.addSpecies s).initialized = false := by
  unfold MState.addSpecies; split <;> rfl

theorem addParam_clears (m m' : MState α) (p : String) (h : m.addParam p = .ok m') : m'.initialized = false := by
  unfold MState.addParam at h
  split_ifs at h <;> cases h <;> rfl

theorem initialize_sets (m m' : MState α) (h : m.initialize = .ok m') :
    m'.initialized = true ∧ ∀ pv ∈ m.params.zip m.paramVals, pv.2.isSome = true := by
  unfold MState.initialize at h
  split at h
  · cases h
  · rename_i hnone
    cases h
    refine ⟨rfl, ?_⟩
    intro pv hpv
    have := List.find?_eq_none.mp hnone pv hpv
    cases hv : pv.2 <;> simp_all

/-- a model with an unset parameter cannot be initialised (so no simulator is ever reached). -/
theorem initialize_fails_of_unset (m : MState α) (p : String) (h : (p, none) ∈ m.params.zip m.paramVals) :
    ∃ e, m.initialize = .error e := by
  unfold MState.initialize
  cases hf : (m.params.zip m.paramVals).find? (fun pv => pv.2.isNone) with
  | some pv => exact ⟨_, rfl⟩
  | none => have := List.find?_eq_none.mp hf (p, none) h; simp at this

/-- adding a rule invalidates the model (so the next interface or simulation re-initialises it and rebuilds the
rule vector the simulators read), keeps both indices, and appends exactly that rule. -/
theorem createAdditiveRule_clears (m m' : MState α) (d : String) (ss : List String)
    (h : m.createAdditiveRule d ss = .ok m') :
    m'.initialized = false ∧ m'.rules = m.rules ++ [(d, ss)] ∧ m'.species = m.species ∧ m'.params = m.params := by
  unfold MState.createAdditiveRule at h
  split_ifs at h
  cases h
  exact ⟨rfl, rfl, rfl, rfl⟩

/-- a mass-action reaction invalidates the model. -/
theorem createMassAction_clears (m m' : MState α) (r p : List String) (k : KArg α)
    (h : m.createMassAction r p k = .ok m') : m'.initialized = false := by
  unfold MState.createMassAction at h
  simp only [bind, Except.bind] at h
  split at h
  · cases h
  · split at h
    · cases h
    · cases h; rfl

/-- a delayed reaction invalidates the model (so its delay object reaches the vector the delay simulators read). -/
theorem createDelayed_clears (m m' : MState α) (r p : List String) (k : KArg α) (dp : List String) (tau : String)
    (h : m.createDelayed r p k dp tau = .ok m') : m'.initialized = false := by
  unfold MState.createDelayed at h
  simp only [bind, Except.bind] at h
  split at h
  · cases h
  · split at h
    · cases h
    · split at h
      · cases h
      · cases h; rfl

theorem setParameter_flag (m m' : MState α) (p : String) (v : α) (h : m.setParameter p v = .ok m') :
    m'.initialized = m.initialized ∨ m'.initialized = false := by
  unfold MState.setParameter at h
  by_cases hp : p ∈ m.params
  · simp only [hp, if_true, bind, Except.bind, pure, Except.pure] at h
    cases h; exact Or.inl rfl
  · simp only [hp, if_false, bind, Except.bind, pure, Except.pure] at h
    cases ha : m.addParam p with
    | error e => rw [ha] at h; cases h
    | ok m1 =>
      rw [ha] at h
      cases h
      exact Or.inr (addParam_clears m m1 p ha)

theorem createParameter_clears (m m' : MState α) (p : String) (v : α) (h : m.createParameter p v = .ok m') :
    m'.initialized = false := by
  unfold MState.createParameter at h
  simp only [bind, Except.bind] at h
  cases ha : m.addParam p with
  | error e => rw [ha] at h; cases h
  | ok m1 =>
    rw [ha] at h
    rcases setParameter_flag m1 m' p v h with h1 | h1
    · rw [h1]; exact addParam_clears m m1 p ha
    · exact h1

/-- **every structural edit clears `initialized`** (species, parameter, reaction, rule). -/
theorem structural_edit_clears (m m' : MState α) (op : MOp α) (h : m.step op = .ok m')
    (hop : match op with
      | .addSpecies _ | .createParameter _ _ | .createMassAction _ _ _ | .createDelayed _ _ _ _ _ | .createAdditiveRule _ _ => True
      | _ => False) : m'.initialized = false := by
  cases op with
  | addSpecies s => simp only [MState.step] at h; cases h; exact addSpecies_clears m s
  | createParameter p v => exact createParameter_clears m m' p v h
  | createMassAction r p k => exact createMassAction_clears m m' r p k h
  | createDelayed r p k dp tau => exact createDelayed_clears m m' r p k dp tau h
  | createAdditiveRule d ss => exact (createAdditiveRule_clears m m' d ss h).1
  | setParameter _ _ => simp at hop
  | setSpecies _ => simp at hop
  | «initialize» => simp at hop

/-! ### Indices are append-only -/

theorem addSpecies_prefix (m : MState α) (s : String) :
    m.species <+: (m.addSpecies s).species ∧ (m.addSpecies s).params = m.params := by
  unfold MState.addSpecies; split <;> simp

theorem addParam_prefix (m m' : MState α) (p : String) (h : m.addParam p = .ok m') :
    m.params <+: m'.params ∧ m'.species = m.species ∧ p ∈ m'.params := by
  unfold MState.addParam at h
  split_ifs at h with h1 h2 <;> cases h
  · exact ⟨List.prefix_refl _, rfl, h2⟩
  · exact ⟨List.prefix_append _ _, rfl, by simp⟩

/-- species already indexed keep their index whatever is added later. -/
theorem prefix_index_stable (l l' : List String) (s : String) (h : l <+: l') (hs : s ∈ l) :
    l'.idxOf s = l.idxOf s := by
  obtain ⟨t, rfl⟩ := h
  exact List.idxOf_append_of_mem hs

/-! ### Setting a parameter changes that parameter alone -/

theorem setParameter_known (m m' : MState α) (p : String) (v : α) (hp : p ∈ m.params)
    (h : m.setParameter p v = .ok m') :
    m'.params = m.params ∧ m'.species = m.species ∧ m'.speciesVals = m.speciesVals
      ∧ m'.initialized = m.initialized
      ∧ m'.paramVals = m.paramVals.set (m.params.idxOf p) (some v) := by
  unfold MState.setParameter at h
  simp only [hp, if_true, pure, Except.pure, bind, Except.bind] at h
  cases h
  exact ⟨rfl, rfl, rfl, rfl, rfl⟩

/-- reading back what was set; every other parameter keeps its value. -/
theorem set_then_get (vals : List (Option α)) (i j : Nat) (v : α) (hi : i < vals.length) :
    (vals.set i (some v))[i]? = some (some v) ∧ (j ≠ i → (vals.set i (some v))[j]? = vals[j]?) := by
  constructor
  · simp [hi]
  · intro hne; simp [List.getElem?_set, Ne.symm hne]

/-! ### Simulating writes no parameter that no rule assigns -/

variable [Transc α]

/-- parameter indices written by a rule. -/
def paramDest : Rule α → Option Nat
  | ⟨_, .assign true d _⟩ => some d
  | ⟨_, .ode true d _⟩ => some d
  | _ => none

theorem ruleOp_params_frame (op : RuleOp α) (x p : List α) (vol t dt : α) (j : Nat) (f : α)
    (hj : paramDest ⟨f, op⟩ ≠ some j) : vecGet (op.apply x p vol t dt).2 j = vecGet p j := by
  cases op with
  | additive d srcs => simp [RuleOp.apply]
  | assign toP d rhs =>
    cases toP
    · simp [RuleOp.apply]
    · have hne : d ≠ j := by intro e; apply hj; simp [paramDest, e]
      simp [RuleOp.apply, vecGet, List.getD_eq_getElem?_getD, List.getElem?_set, hne]
  | ode toP d rhs =>
    cases toP
    · simp [RuleOp.apply]
    · have hne : d ≠ j := by intro e; apply hj; simp [paramDest, e]
      simp [RuleOp.apply, vecGet, List.getD_eq_getElem?_getD, List.getElem?_set, hne]

/-- **a rule pass leaves every parameter that no rule assigns exactly as it was.** -/
theorem applyRules_params_frame (rules : List (Rule α)) (x p : List α) (vol t dt : α) (rs : Bool) (j : Nat)
    (hj : ∀ r ∈ rules, paramDest r ≠ some j) :
    vecGet (applyRules rules x p vol t dt rs).2 j = vecGet p j := by
  unfold applyRules
  induction rules generalizing x p with
  | nil => rfl
  | cons r rest ih =>
    rw [List.foldl_cons]
    have hr := hj r (by simp)
    have hrest : ∀ r' ∈ rest, paramDest r' ≠ some j := fun r' h' => hj r' (List.mem_cons_of_mem _ h')
    rw [ih _ _ hrest]
    unfold Rule.execute
    split
    · obtain ⟨f, op⟩ := r; exact ruleOp_params_frame op x p vol t dt j f hr
    · rfl

/-- **one SSA iteration, and hence a whole simulation, writes no other parameter** (the simulators only
read parameters; the state they update is a copy of the initial condition). -/
theorem jumpStep_params_frame {σ : Type} [Trunc α] (g : Gen σ α) (m : SimModel α) (times : List α)
    (s : LoopState σ α) (j : Nat) (hj : ∀ r ∈ m.rules, paramDest r ≠ some j) :
    vecGet (C05.jumpStep g m times s).p j = vecGet s.p j := by
  have h := applyRules_params_frame m.rules s.x s.p 1 s.t m.dt s.ruleStep j hj
  unfold C05.jumpStep C05.arrive
  simp only
  split_ifs <;> exact h

theorem jump_run_params_frame {σ : Type} [Trunc α] (g : Gen σ α) (m : SimModel α) (times : List α) (fuel : Nat)
    (s s' : LoopState σ α) (j : Nat) (hj : ∀ r ∈ m.rules, paramDest r ≠ some j)
    (hrun : runLoop (C05.jumpStep g m times) times.length fuel s = some s') : vecGet s'.p j = vecGet s.p j := by
  induction fuel generalizing s with
  | zero =>
    unfold runLoop at hrun
    split at hrun
    · cases hrun
    · cases hrun; rfl
  | succ fuel ih =>
    unfold runLoop at hrun
    split at hrun
    · rw [ih _ hrun, jumpStep_params_frame g m times s j hj]
    · cases hrun; rfl

/-- the initial condition handed to a simulator is the model's species vector and is not part of the
loop state that gets updated: the first thing a loop does is copy it (`initState`). -/
theorem initState_copies {σ : Type} (m : SimModel α) (x0 p0 : List α) (g0 : σ) (vol0 : α) (q0 : DQ α) :
    (initState m x0 p0 g0 vol0 q0).x = x0 ∧ (initState m x0 p0 g0 vol0 q0).rows = [] := ⟨rfl, rfl⟩

/-! ### Seeding -/

theorem foldl_push_size (l : List Nat) (f : Array UInt64 → Nat → UInt64) (a : Array UInt64) :
    (l.foldl (fun a i => a.push (f a i)) a).size = a.size + l.length := by
  induction l generalizing a with
  | nil => simp
  | cons x rest ih => rw [List.foldl_cons, ih]; simp; omega

/-- **`mt_seed` overwrites the whole generator**: all 312 words and the index are functions of the seed
alone (the definition takes no previous state), so `seed s; run` is a function of `s`. -/
theorem seed_overwrites (s : UInt64) : (MT.seed s).mt.size = 312 ∧ (MT.seed s).mti = 312 := by
  unfold MT.seed
  refine ⟨?_, rfl⟩
  simp only
  rw [foldl_push_size]
  simp [MT.NN]

/-! ### Non-vacuity -/
example : ((MState.empty (α := ℚ)).addSpecies "A").species = ["A"] := by decide
example : (paramDest (α := ℚ) ⟨-1, .assign true 3 (.const 1)⟩) = some 3 := rfl

/-! ### `_create_vectors`: every container the simulators read is rebuilt from the definition on every initialisation -/
section createVectors
open Bioscrape.CreateVectors Bioscrape.Generated

/-- what a run leaves in container `n` depends only on what `n` held before. -/
theorem runOps_local {I : Type} (ops : List (String × String)) (out : Nat → List I) (i : Nat) (st st' : Store I) (n : String)
    (h : st n = st' n) : runOps ops out i st n = runOps ops out i st' n := by
  induction ops generalizing i st st' with
  | nil => exact h
  | cons o rest ih =>
    obtain ⟨k, m⟩ := o
    simp only [runOps]
    apply ih
    by_cases hmn : n = m
    · subst hmn
      by_cases hw : isWipe k = true
      · simp [hw]
      · by_cases hf : isFill k = true
        · simp [hw, hf, h]
        · simp [hw, hf, h]
    · by_cases hw : isWipe k = true
      · simp [hw, Store.set_other _ _ _ _ hmn, h]
      · by_cases hf : isFill k = true
        · simp [hw, hf, Store.set_other _ _ _ _ hmn, h]
        · simp [hw, hf, h]

/-- **a container that is wiped before it is filled ends up with the same contents whatever it held before**: the items
its loops produce from the definition lists, in order — no leftovers of an earlier initialisation, nothing twice. -/
theorem rebuilt_independent {I : Type} (ops : List (String × String)) (out : Nat → List I) (i : Nat) (st st' : Store I)
    (n : String) (h : wipedFirst ops n = true) : runOps ops out i st n = runOps ops out i st' n := by
  induction ops generalizing i st st' with
  | nil => simp [wipedFirst] at h
  | cons o rest ih =>
    obtain ⟨k, m⟩ := o
    simp only [wipedFirst] at h
    simp only [runOps]
    by_cases hmn : m = n
    · subst hmn
      simp only [if_true] at h
      by_cases hw : isWipe k = true
      · apply runOps_local
        simp [hw]
      · simp only [hw] at h
        by_cases hf : isFill k = true
        · simp [hf] at h
        · simp only [hf] at h
          simp only [hw, hf]
          exact ih (i + 1) st st' (by simpa using h)
    · simp only [hmn, if_false] at h
      exact ih (i + 1) _ _ h

/-- every filled container of a program that meets the obligation is rebuilt independently of its old contents. -/
theorem program_rebuilds {I : Type} (p : VecProgram) (hp : programOk p = true) (out : Nat → List I) (st st' : Store I)
    (k n : String) (hn : (k, n) ∈ p.ops) (hk : isFill k = true) :
    runOps p.ops out 0 st n = runOps p.ops out 0 st' n := by
  unfold programOk at hp
  simp only [Bool.and_eq_true, List.all_eq_true, List.mem_filter] at hp
  exact rebuilt_independent p.ops out 0 st st' n (hp.2 (k, n) ⟨hn, hk⟩)

/-- the obligations, regenerated from `bioscrape/types.pyx` and `lineage/lineage.pyx`. -/
theorem programOk_Model : programOk (programOf "Model") = true := by decide +kernel
theorem programOk_LineageModel : programOk (programOf "LineageModel") = true := by decide +kernel

/-- the delay vector and the lineage rule vectors are among the rebuilt containers. -/
example : ("push", "c_delays") ∈ (programOf "Model").ops := by decide +kernel
example : ("push", "c_division_rules") ∈ (programOf "LineageModel").ops := by decide +kernel

/-- a program that fills a vector it never wipes (the shape of two seeded changes and of the pinned tree's lineage
defect) does not meet the obligation, and its result does depend on the old contents. -/
example : programOk { cls := "x", ops := [("clear", "c_propensities"), ("push", "c_propensities"), ("push", "c_delays")] } = false := by
  decide +kernel
example : runOps [("push", "c_delays")] (fun _ => [7]) 0 (fun _ => [1]) "c_delays" = [1, 7] := by decide +kernel

end createVectors

end Bioscrape.C08
