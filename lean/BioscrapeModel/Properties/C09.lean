import Mathlib.Algebra.Order.Field.Basic
import Mathlib.Tactic.Linarith
import Mathlib.Tactic.Ring
import BioscrapeModel.Proofs.Laws
import BioscrapeModel.Properties.C05
import BioscrapeModel.Properties.C11
import BioscrapeModel.Model.Lineage

/-
C09 — rules hold on every reported row and fire on their schedule.
-/
set_option linter.unusedSectionVars false
set_option linter.unusedSimpArgs false

namespace Bioscrape.C09
open Bioscrape Bioscrape.C05

variable {σ α : Type} [Field α] [LinearOrder α] [IsStrictOrderedRing α] [Transc α] [Trunc α]

/-! ### Rule lists in dependency order -/

/-- the state rules act on: species vector and parameter vector. -/
abbrev St (α : Type) := List α × List α

/-- a rule "holds" in a state when executing it changes nothing: for an assignment rule this says
`dest = rhs(state, params)`. -/
def Holds (f : St α → St α) (s : St α) : Prop := f s = s

/-- dependency order (explicit predicate): every rule is idempotent (its right-hand side does not read
its own destination) and no later rule disturbs an earlier one that already holds (it writes neither
the earlier rule's destination nor anything the earlier right-hand side reads). -/
def DepOrdered : List (St α → St α) → Prop
  | [] => True
  | f :: rest => (∀ s, Holds f (f s)) ∧ (∀ h ∈ rest, ∀ s, Holds f s → Holds f (h s)) ∧ DepOrdered rest

def applyAll (fs : List (St α → St α)) (s : St α) : St α := fs.foldl (fun s f => f s) s

theorem holds_preserved (f : St α → St α) (rest : List (St α → St α)) (s : St α)
    (hp : ∀ h ∈ rest, ∀ s, Holds f s → Holds f (h s)) (hs : Holds f s) : Holds f (applyAll rest s) := by
  unfold applyAll
  induction rest generalizing s with
  | nil => exact hs
  | cons h rest ih =>
    rw [List.foldl_cons]
    exact ih (h s) (fun h' hh' => hp h' (List.mem_cons_of_mem _ hh')) (hp h (by simp) s hs)

/-- **after one pass over rules in dependency order every rule holds** (for rule lists of any length). -/
theorem applyAll_holds (fs : List (St α → St α)) (hd : DepOrdered fs) (s : St α) :
    ∀ f ∈ fs, Holds f (applyAll fs s) := by
  induction fs generalizing s with
  | nil => intro f hf; simp at hf
  | cons f rest ih =>
    intro f' hf'
    obtain ⟨hidem, hpres, hrest⟩ := hd
    have hunf : applyAll (f :: rest) s = applyAll rest (f s) := by simp [applyAll]
    rw [hunf]
    rcases List.mem_cons.mp hf' with h | h
    · subst h; exact holds_preserved f' rest (f' s) hpres (hidem s)
    · exact ih hrest (f s) f' h

/-- a rule of the model as a state transformer, at fixed volume, time, dt and rule-step flag. -/
def ruleFn (vol t dt : α) (rs : Bool) (r : Rule α) : St α → St α :=
  fun s => r.execute s.1 s.2 vol t dt rs

theorem applyRules_eq_applyAll (rules : List (Rule α)) (x p : List α) (vol t dt : α) (rs : Bool) :
    applyRules rules x p vol t dt rs = applyAll (rules.map (ruleFn vol t dt rs)) (x, p) := by
  unfold applyRules applyAll
  rw [List.foldl_map]
  rfl

/-- **rules hold after the rule pass**: for rules chained in dependency order, the state produced by
`apply_repeated_(volume_)rules` satisfies every rule of the list. -/
theorem rules_hold_after_pass (rules : List (Rule α)) (x p : List α) (vol t dt : α) (rs : Bool)
    (hd : DepOrdered (rules.map (ruleFn vol t dt rs))) :
    ∀ r ∈ rules, Holds (ruleFn vol t dt rs r) (applyRules rules x p vol t dt rs) := by
  intro r hr
  rw [applyRules_eq_applyAll]
  exact applyAll_holds _ hd (x, p) _ (List.mem_map_of_mem hr)

/-- for a repeated assignment rule to a species, "holds" is the equation itself. -/
theorem holds_assign_species (dest : Nat) (rhs : Term α) (x p : List α) (vol t dt : α) (rs : Bool)
    (hd : dest < x.length)
    (h : Holds (ruleFn vol t dt rs ⟨-1, .assign false dest rhs⟩) (x, p)) :
    vecGet x dest = rhs.volEval (vecGet x) (vecGet p) vol t := by
  unfold Holds ruleFn Rule.execute Rule.fires at h
  simp only [feq, lt_irrefl, not_false_eq_true, decide_true, Bool.and_self, Bool.true_or, if_true,
    RuleOp.apply, Bool.false_eq_true, if_false, Prod.mk.injEq, and_true] at h
  have := congrArg (fun l => l.getD dest 0) h
  simp only [List.getD_eq_getElem?_getD, List.getElem?_set_self hd, Option.getD_some] at this
  simpa [vecGet, List.getD_eq_getElem?_getD] using this.symm

/-- and to a parameter. -/
theorem holds_assign_param (dest : Nat) (rhs : Term α) (x p : List α) (vol t dt : α) (rs : Bool)
    (hd : dest < p.length)
    (h : Holds (ruleFn vol t dt rs ⟨-1, .assign true dest rhs⟩) (x, p)) :
    vecGet p dest = rhs.volEval (vecGet x) (vecGet p) vol t := by
  unfold Holds ruleFn Rule.execute Rule.fires at h
  simp only [feq, lt_irrefl, not_false_eq_true, decide_true, Bool.and_self, Bool.true_or, if_true,
    RuleOp.apply, Prod.mk.injEq, true_and] at h
  have := congrArg (fun l => l.getD dest 0) h
  simp only [List.getD_eq_getElem?_getD, List.getElem?_set_self hd, Option.getD_some] at this
  simpa [vecGet, List.getD_eq_getElem?_getD] using this.symm

/-! ### Reported rows are rule-updated states; rates see the rule-updated state -/

/-- every row written by an SSA step is the state *after* the rule pass of that iteration (and before
any reaction update), and the propensities of the step are computed from that same state and the
rule-updated parameters. -/
theorem rows_and_rates_see_ruled_state (g : Gen σ α) (m : SimModel α) (times : List α) (s : LoopState σ α) :
    ∃ k, (jumpStep g m times s).rows
        = s.rows ++ replicateRow k (applyRules m.rules s.x s.p 1 s.t m.dt s.ruleStep).1 :=
  jumpStep_new_rows g m times s

/-- the same for the volume loop (rules see the current volume). -/
theorem volume_rows_see_ruled_state (g : Gen σ α) (m : SimModel α) (vm : VolModel α) (times : List α)
    (s : LoopState σ α) :
    ∃ k, (C11.volumeStepSpec g m vm times s).rows
        = s.rows ++ replicateRow k (applyRules m.rules s.x s.p s.vol s.t m.dt s.ruleStep).1 := by
  unfold C11.volumeStepSpec
  simp only
  split_ifs <;> exact ⟨_, rfl⟩

/-! ### Schedules -/

/-- when a rule fires: always if repeated, at its scheduled time only if scheduled, on rule steps only
if its frequency is `dt`. -/
theorem fires_iff (r : Rule α) (t : α) (rs : Bool) :
    r.fires t rs = true ↔ r.freq = -1 ∨ r.freq = t ∨ (rs = true ∧ r.freq = -2) := by
  unfold Rule.fires feq
  simp only [Bool.or_eq_true, Bool.and_eq_true, decide_eq_true_eq, not_lt]
  constructor
  · rintro ((⟨h1, h2⟩ | ⟨h1, h2⟩) | ⟨h0, h1, h2⟩)
    · left; exact le_antisymm h2 h1
    · right; left; exact le_antisymm h2 h1
    · right; right; exact ⟨h0, by have := le_antisymm h2 h1; simpa using this⟩
  · rintro (h | h | ⟨h0, h⟩)
    · left; left; rw [h]; exact ⟨le_refl _, le_refl _⟩
    · left; right; rw [h]; exact ⟨le_refl _, le_refl _⟩
    · right; refine ⟨h0, ?_⟩; rw [h]; simp

/-- **a rule scheduled for time `T` leaves every other instant untouched**: it does nothing at any
clock value different from `T` (in particular at all earlier grid times). -/
theorem scheduled_rule_silent (r : Rule α) (T t : α) (x p : List α) (vol dt : α) (rs : Bool)
    (hT : r.freq = T) (h0 : 0 ≤ T) (hne : t ≠ T) : r.execute x p vol t dt rs = (x, p) := by
  have : r.fires t rs = false := by
    by_contra hf
    have hf' : r.fires t rs = true := by simpa using hf
    rcases (fires_iff r t rs).mp hf' with h | h | ⟨_, h⟩
    · rw [hT] at h; linarith
    · rw [hT] at h; exact hne h.symm
    · rw [hT] at h; linarith
  simp [Rule.execute, this]

/-- and it is executed when the clock is exactly `T`. -/
theorem scheduled_rule_fires (r : Rule α) (T : α) (x p : List α) (vol dt : α) (rs : Bool) (hT : r.freq = T) :
    r.execute x p vol T dt rs = r.op.apply x p vol T dt := by
  have : r.fires T rs = true := (fires_iff r T rs).mpr (Or.inr (Or.inl hT))
  simp [Rule.execute, this]

/-- **`dt` rules run on rule steps only**, and the SSA loop raises the rule-step flag exactly when the
iteration ended by arriving at a grid time (never after a reaction fired): hence once per elapsed
time step, however many reactions fire in between. -/
theorem dt_rule_needs_rule_step (r : Rule α) (t : α) (x p : List α) (vol dt : α)
    (hf : r.freq = -2) (ht : t ≠ -2) : r.execute x p vol t dt false = (x, p) := by
  have : r.fires t false = false := by
    by_contra hfire
    have hf' : r.fires t false = true := by simpa using hfire
    rcases (fires_iff r t false).mp hf' with h | h | ⟨h, _⟩
    · rw [hf] at h; linarith
    · rw [hf] at h; exact ht h.symm
    · simp at h
  simp [Rule.execute, this]

theorem ruleStep_iff_arrival (g : Gen σ α) (m : SimModel α) (times : List α) (s : LoopState σ α)
    (h : (jumpStep g m times s).ruleStep = true) : (jumpStep g m times s).t = times.getD s.idx 0 := by
  unfold jumpStep arrive at h ⊢
  simp only at h ⊢
  split_ifs at h ⊢ <;> simp_all

/-- **an ODE rule advances its target by `rate × dt`** each time it runs. -/
theorem ode_rule_step (dest : Nat) (rhs : Term α) (x p : List α) (vol t dt : α) (hd : dest < x.length) :
    vecGet ((RuleOp.ode false dest rhs).apply x p vol t dt).1 dest
      = vecGet x dest + rhs.volEval (vecGet x) (vecGet p) vol t * dt := by
  simp [RuleOp.apply, vecGet, List.getD_eq_getElem?_getD, List.getElem?_set_self hd]

/-- an additive rule assigns the sum of its sources. -/
theorem additive_rule (dest : Nat) (srcs : List Nat) (x p : List α) (vol t dt : α) (hd : dest < x.length) :
    vecGet ((RuleOp.additive (α := α) dest srcs).apply x p vol t dt).1 dest
      = (srcs.map (vecGet x)).sum := by
  simp only [RuleOp.apply, vecGet, List.getD_eq_getElem?_getD, List.getElem?_set_self hd, Option.getD_some]
  have : ∀ (acc : α), srcs.foldl (fun acc i => acc + x[i]?.getD 0) acc = acc + (srcs.map (fun i => x[i]?.getD 0)).sum := by
    induction srcs with
    | nil => intro acc; simp
    | cons a rest ih => intro acc; rw [List.foldl_cons, ih]; simp; ring
  have h0 := this 0
  simp only [zero_add] at h0
  rw [h0]
  congr 1

/-! ### The lineage single-cell loop -/

/-- **lineage loop: a rule step is raised exactly when the clock arrives at a time step** (a grid time, the final
time, or a pure time step while no reaction can fire): so a `dt` or ODE rule runs once per elapsed step however many
reactions fire in between, and keeps running after all reactions have become impossible. -/
theorem cell_ruleStep_iff_tick (g : Gen σ α) (m : CellModel α) (dt final : α) (s : CellLoop σ α) (pre : CellPre σ α) :
    (cellTiming g m dt final s pre).rstep = (cellTiming g m dt final s pre).toQ := by
  unfold cellTiming
  simp only
  split_ifs <;> simp_all

/-- the rows and the propensities of one lineage iteration are computed from the rule-updated state: the row written
for the grid times just passed is the state after the repeated rules of this iteration. -/
theorem cell_rows_see_ruled_state (times : List α) (s : CellLoop σ α) (pre : CellPre σ α) (tm : CellTiming σ α) :
    (cellRecorded times s pre tm).results
      = writeRows s.results s.idx (recordCount tm.tNew (times.drop s.idx)) (pre.x, s.vol) := rfl

/-- the state the lineage loop's rules see is the rule pass of this iteration with the grid step as `dt`
(`interface.set_dt(delta_t)`), evaluated at the cell's current volume and time. -/
theorem cellPre_rules (g : Gen σ α) (m : CellModel α) (dt t0 v0 : α) (s : CellLoop σ α) :
    ((cellPre g m dt t0 v0 s).x, (cellPre g m dt t0 v0 s).p) = applyRules m.rules s.x s.p s.vol s.t dt s.ruleStep := by
  unfold cellPre
  simp only

/-! ### Non-vacuity: a three-rule chain in dependency order -/

/-- `B := A + A`, then `C := B` — as state transformers (the second reads what the first writes). -/
example : DepOrdered (α := ℚ)
    [fun s => (s.1.set 1 (vecGet s.1 0 + vecGet s.1 0), s.2),
     fun s => (s.1.set 2 (vecGet s.1 1), s.2)] := by
  refine ⟨?_, ?_, ?_, ?_, trivial⟩
  · intro s; simp [Holds, vecGet]
  · intro h hh s hs
    simp only [List.mem_singleton] at hh
    subst hh
    unfold Holds at hs ⊢
    obtain ⟨x, p⟩ := s
    simp only [Prod.mk.injEq, and_true] at hs ⊢
    match x, hs with
    | [], _ => simp [vecGet]
    | [a], _ => simp [vecGet]
    | [a, b], hs => simp [vecGet, List.set] at hs ⊢; exact hs
    | a :: b :: c :: l, hs => simp [vecGet, List.set] at hs ⊢; exact hs
  · intro s; simp [Holds, vecGet]
  · intro h hh; simp at hh

/-! ### The delay+volume loop: rule steps are volume ticks -/

theorem dvApply_fields (g : Gen σ α) (m : SimModel α) (vm : VolModel α) (times : List α) (s : LoopState σ α)
    (d : DVDecision σ α) :
    (dvApply g m vm times s d).ruleStep = d.rstep ∧ (dvApply g m vm times s d).nextTick = d.nextTick
      ∧ (dvApply g m vm times s d).t = d.tNew
      ∧ ∃ k, (dvApply g m vm times s d).rows = s.rows ++ replicateRow k d.x := by
  unfold dvApply
  simp only
  split_ifs <;> (try split) <;> (try split_ifs) <;> exact ⟨rfl, rfl, rfl, _, rfl⟩

theorem dv_rstep_iff_tick (g : Gen σ α) (m : SimModel α) (times : List α) (s : LoopState σ α) :
    (dvDecide g m times s).rstep = true ↔ (dvDecide g m times s).stepType = 1 := by
  unfold dvDecide
  simp only
  generalize dvPropose g m times s = pr
  cases decide (pr.proposed < s.nextTick ∧ pr.proposed < s.q.next) <;> cases decide (s.nextTick < s.q.next) <;> simp
  all_goals split_ifs <;> simp

theorem dv_tick_clock (g : Gen σ α) (m : SimModel α) (times : List α) (s : LoopState σ α)
    (h : (dvDecide g m times s).rstep = true) :
    (dvDecide g m times s).tNew = s.nextTick ∧ (dvDecide g m times s).nextTick = s.nextTick + m.dt := by
  unfold dvDecide at h ⊢
  simp only at h ⊢
  generalize dvPropose g m times s = pr at h ⊢
  revert h
  cases decide (pr.proposed < s.nextTick ∧ pr.proposed < s.q.next) <;> cases decide (s.nextTick < s.q.next) <;> simp

theorem dv_no_tick_clock (g : Gen σ α) (m : SimModel α) (times : List α) (s : LoopState σ α)
    (h : (dvDecide g m times s).rstep = false) : (dvDecide g m times s).nextTick = s.nextTick := by
  unfold dvDecide at h ⊢
  simp only at h ⊢
  generalize dvPropose g m times s = pr at h ⊢
  revert h
  cases decide (pr.proposed < s.nextTick ∧ pr.proposed < s.q.next) <;> cases decide (s.nextTick < s.q.next) <;> simp

/-- **delay+volume: a `dt` rule (or ODE rule) runs exactly once per volume tick, however many reactions fire**: an
iteration leaves the rule-step flag set only when it was a tick — time moved to the tick and the tick clock advanced by
one `dt` -/
theorem delayVolume_ruleStep_tick (g : Gen σ α) (m : SimModel α) (vm : VolModel α) (times : List α) (s : LoopState σ α)
    (h : (delayVolumeIter g m vm times s).ruleStep = true) :
    (delayVolumeIter g m vm times s).t = s.nextTick ∧ (delayVolumeIter g m vm times s).nextTick = s.nextTick + m.dt := by
  unfold delayVolumeIter at h ⊢
  obtain ⟨h1, h2, h3, _⟩ := dvApply_fields g m vm times s (dvDecide g m times s)
  rw [h1] at h
  rw [h2, h3]
  exact dv_tick_clock g m times s h

/-- … and any other iteration (a firing, a delivery from the queue, a move to the requested time) leaves the flag unset
and the tick clock where it was. -/
theorem delayVolume_no_ruleStep (g : Gen σ α) (m : SimModel α) (vm : VolModel α) (times : List α) (s : LoopState σ α)
    (h : (delayVolumeIter g m vm times s).ruleStep = false) :
    (delayVolumeIter g m vm times s).nextTick = s.nextTick := by
  unfold delayVolumeIter at h ⊢
  obtain ⟨h1, h2, _, _⟩ := dvApply_fields g m vm times s (dvDecide g m times s)
  rw [h1] at h
  rw [h2]
  exact dv_no_tick_clock g m times s h

/-- the rows a delay+volume iteration writes are the state after the rule pass of that iteration (rules see the current
volume), before any firing or delivery. -/
theorem delayVolume_rows_see_ruled_state (g : Gen σ α) (m : SimModel α) (vm : VolModel α) (times : List α)
    (s : LoopState σ α) :
    ∃ k, (delayVolumeIter g m vm times s).rows
        = s.rows ++ replicateRow k (applyRules m.rules s.x s.p s.vol s.t m.dt s.ruleStep).1 := by
  unfold delayVolumeIter
  obtain ⟨_, _, _, k, hk⟩ := dvApply_fields g m vm times s (dvDecide g m times s)
  exact ⟨k, hk⟩

end Bioscrape.C09
