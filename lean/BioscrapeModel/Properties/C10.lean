import Mathlib.Algebra.Order.Field.Basic
import Mathlib.Tactic.Linarith
import BioscrapeModel.Proofs.Laws
import BioscrapeModel.Properties.C05
import BioscrapeModel.Properties.C20

/-
C10 — delayed reactions deliver their delayed part exactly once, after the delay.

The delay loop is shown equal, for every uniform stream, to a flag-free specification step in
which the handling of the two parts of a firing is explicit; every queue operation the loop performs
is an operation of the queue verified in C20 (so `queue_exactly_once` applies to the insertions the
loop makes); the delay samplers are exact functional forms of the stream.
-/
set_option linter.unusedSectionVars false
set_option linter.unusedSimpArgs false

namespace Bioscrape.C10
open Bioscrape Bioscrape.C05

variable {σ α : Type} [Field α] [LinearOrder α] [IsStrictOrderedRing α] [Transc α] [Trunc α]

/-- delivery of the earliest queue slot: every reaction's pending amount times its delayed column. -/
def deliver (m : SimModel α) (q : DQ α) (x : List α) : List α :=
  (List.range m.props.length).foldl (fun x r => addScaledCol x (q.nextReactions.getD r 0) (colOf m.D r)) x

/-! ### What one iteration of the delay loop does with the two parts of a reaction -/

/-- **the queue comes first**: when the next queue time precedes the proposed time, the earliest slot
is delivered — each pending amount times the reaction's *delayed* stoichiometry — the queue is
advanced (so that slot can never be delivered again, C20 `pending_advance`), the clock is the slot's
time, and no reaction fires in this iteration. -/
theorem delay_queue_branch (g : Gen σ α) (m : SimModel α) (times : List α) (s : LoopState σ α)
    (d : DelayDecision σ α) (hq : d.toQueue = true) :
    (delayApply g m times s d).x = deliver m s.q d.x ∧ (delayApply g m times s d).q = s.q.advance
      ∧ (delayApply g m times s d).t = d.tNew ∧ (delayApply g m times s d).g = d.gs := by
  unfold delayApply deliver
  simp [hq]

/-- the decision takes the queue branch exactly when the next queue time is strictly earlier than the
(capped) proposed reaction time, and then the clock moves to that queue time. -/
theorem delayDecide_queue (g : Gen σ α) (m : SimModel α) (times : List α) (s : LoopState σ α)
    (h : (delayDecide g m times s).toQueue = true) :
    (delayDecide g m times s).tNew = s.q.next ∧ (delayDecide g m times s).fired = false := by
  unfold delayDecide at h ⊢
  dsimp only at h ⊢
  constructor <;> rw [if_pos h]

/-- **a firing with a positive delay**: the immediate stoichiometry is applied at the firing time and
the delayed part is inserted once into the queue for `firing time + delay`. -/
theorem delay_fire_positive (g : Gen σ α) (m : SimModel α) (times : List α) (s : LoopState σ α)
    (d : DelayDecision σ α) (hq : d.toQueue = false) (hf : d.fired = true)
    (j : Nat) (hj : sampleDiscreteFrom d.a ((g d.gs).1 * d.Lambda) = (j : Int))
    (delay : α) (g3 : σ) (hd : computeDelay g m d.p j (g d.gs).2 = some (delay, g3)) (hpos : 0 < delay) :
    (delayApply g m times s d).x = addCol d.x (colOf m.U j)
      ∧ (delayApply g m times s d).q = s.q.add (d.tNew + delay) j 1
      ∧ (delayApply g m times s d).t = d.tNew := by
  unfold delayApply
  have hnn : ¬ ((j : Int) < 0) := by omega
  simp [hq, hf, hj, hnn, hd, hpos]

/-- **a non-positive delay acts as zero delay** (e.g. a negative Gaussian draw): both parts are applied
at the firing time and nothing is queued. -/
theorem delay_fire_nonpositive (g : Gen σ α) (m : SimModel α) (times : List α) (s : LoopState σ α)
    (d : DelayDecision σ α) (hq : d.toQueue = false) (hf : d.fired = true)
    (j : Nat) (hj : sampleDiscreteFrom d.a ((g d.gs).1 * d.Lambda) = (j : Int))
    (delay : α) (g3 : σ) (hd : computeDelay g m d.p j (g d.gs).2 = some (delay, g3)) (hneg : delay ≤ 0) :
    (delayApply g m times s d).x = addCol (addCol d.x (colOf m.U j)) (colOf m.D j)
      ∧ (delayApply g m times s d).q = s.q
      ∧ (delayApply g m times s d).t = d.tNew := by
  unfold delayApply
  have hnn : ¬ ((j : Int) < 0) := by omega
  have hnp : ¬ (delay > 0) := not_lt.mpr hneg
  simp [hq, hf, hj, hnn, hd, hnp]

/-- **no other queue operation**: whatever happens in an iteration, the queue afterwards is the queue
before, or that queue advanced by one slot, or that queue with a single insertion of amount 1.  Every
queue the delay loop ever holds is therefore the result of a history of the operations verified in
C20, and `C20.queue_exactly_once` applies to the loop's insertions. -/
theorem delayIter_queue_ops (g : Gen σ α) (m : SimModel α) (times : List α) (s : LoopState σ α) :
    (delayIter g m times s).q = s.q ∨ (delayIter g m times s).q = s.q.advance
      ∨ ∃ t j, (delayIter g m times s).q = s.q.add t j 1 := by
  unfold delayIter delayApply
  generalize delayDecide g m times s = d
  simp only
  split_ifs
  · right; left; rfl
  · left; rfl
  · split
    · left; rfl
    · split_ifs
      · right; right; exact ⟨_, _, rfl⟩
      · left; rfl
  · left; rfl

/-! ### Simulators without delay support apply both parts at the firing time -/

/-- the ordinary SSA step adds the immediate and the delayed column together when a reaction fires. -/
theorem ssa_applies_both (g : Gen σ α) (m : SimModel α) (times : List α) (s : LoopState σ α) :
    (jumpStep g m times s).x = (applyRules m.rules s.x s.p 1 s.t m.dt s.ruleStep).1
    ∨ ∃ j, (jumpStep g m times s).x
        = addCol (applyRules m.rules s.x s.p 1 s.t m.dt s.ruleStep).1 (addCol (colOf m.U j) (colOf m.D j)) := by
  unfold jumpStep arrive
  simp only
  split_ifs
  all_goals first
    | (left; rfl)
    | (right; exact ⟨_, rfl⟩)

/-! ### Delay samplers as exact functions of the stream -/

/-- a fixed delay is the parameter's value; it consumes no randomness. -/
theorem fixed_delay (g : Gen σ α) (m : SimModel α) (p : List α) (j d : Nat) (s : σ)
    (h : m.delays.getD j .none = .fixed d) : computeDelay g m p j s = some (vecGet p d, s) := by
  unfold computeDelay; rw [h]

/-- no delay object: zero delay, no randomness. -/
theorem no_delay (g : Gen σ α) (m : SimModel α) (p : List α) (j : Nat) (s : σ)
    (h : m.delays.getD j .none = .none) : computeDelay g m p j s = some (0, s) := by
  unfold computeDelay; rw [h]

/-- the Gaussian delay is the Box–Muller form `μ + σ·sqrt(−2 ln u)·cos(2π v)` of two consecutive
uniforms; no variate is cached between calls. -/
theorem gaussian_delay (g : Gen σ α) (m : SimModel α) (p : List α) (j mu sd : Nat) (s : σ)
    (h : m.delays.getD j .none = .gaussian mu sd) :
    computeDelay g m p j s
      = some (Transc.sqrt (-((2 : Nat) : α) * Transc.log (g s).1) * Transc.cos (m.twoPi * (g (g s).2).1) * vecGet p sd
              + vecGet p mu, (g (g s).2).2) := by
  unfold computeDelay; rw [h]; rfl

end Bioscrape.C10
