import Mathlib.Algebra.Order.Field.Basic
import Mathlib.Tactic.Linarith
import BioscrapeModel.Proofs.Laws
import BioscrapeModel.Properties.C05
import BioscrapeModel.Properties.C20
import BioscrapeModel.Properties.C06
import Mathlib.Algebra.BigOperators.Group.Finset.Basic
import Mathlib.Algebra.BigOperators.Ring.Finset
import Mathlib.Tactic.Ring

/-
C10 — delayed reactions deliver their delayed part exactly once, after the delay.

The delay loop is shown equal, for every uniform stream, to a flag-free specification step in
which the handling of the two parts of a firing is explicit; every queue operation the loop performs
is an operation of the queue verified in C20 (so `queue_exactly_once` applies to the insertions the
loop makes); the delay samplers are exact functional forms of the stream.
-/
set_option linter.unusedSectionVars false
set_option linter.unusedSimpArgs false

namespace Bioscrape.C10
open Bioscrape Bioscrape.C05

variable {σ α : Type} [Field α] [LinearOrder α] [IsStrictOrderedRing α] [Transc α] [Trunc α]

/-- delivery of the earliest queue slot: every reaction's pending amount times its delayed column. -/
def deliver (m : SimModel α) (q : DQ α) (x : List α) : List α :=
  (List.range m.props.length).foldl (fun x r => addScaledCol x (q.nextReactions.getD r 0) (colOf m.D r)) x

/-! ### What one iteration of the delay loop does with the two parts of a reaction -/

/-- **the queue comes first**: when the next queue time precedes the proposed time, the earliest slot
is delivered — each pending amount times the reaction's *delayed* stoichiometry — the queue is
advanced (so that slot can never be delivered again, C20 `pending_advance`), the clock is the slot's
time, and no reaction fires in this iteration. -/
theorem delay_queue_branch (g : Gen σ α) (m : SimModel α) (times : List α) (s : LoopState σ α)
    (d : DelayDecision σ α) (hq : d.toQueue = true) :
    (delayApply g m times s d).x = deliver m s.q d.x ∧ (delayApply g m times s d).q = s.q.advance
      ∧ (delayApply g m times s d).t = d.tNew ∧ (delayApply g m times s d).g = d.gs := by
  unfold delayApply deliver
  simp [hq]

/-- the decision takes the queue branch exactly when the next queue time is strictly earlier than the
(capped) proposed reaction time, and then the clock moves to that queue time. -/
theorem delayDecide_queue (g : Gen σ α) (m : SimModel α) (times : List α) (s : LoopState σ α)
    (h : (delayDecide g m times s).toQueue = true) :
    (delayDecide g m times s).tNew = s.q.next ∧ (delayDecide g m times s).fired = false := by
  unfold delayDecide at h ⊢
  dsimp only at h ⊢
  constructor <;> rw [if_pos h]

/-- **a firing with a positive delay**: the immediate stoichiometry is applied at the firing time and
the delayed part is inserted once into the queue for `firing time + delay`. -/
theorem delay_fire_positive (g : Gen σ α) (m : SimModel α) (times : List α) (s : LoopState σ α)
    (d : DelayDecision σ α) (hq : d.toQueue = false) (hf : d.fired = true)
    (j : Nat) (hj : sampleDiscreteFrom d.a ((g d.gs).1 * d.Lambda) = (j : Int))
    (delay : α) (g3 : σ) (hd : computeDelay g m d.p j (g d.gs).2 = some (delay, g3)) (hpos : 0 < delay) :
    (delayApply g m times s d).x = addCol d.x (colOf m.U j)
      ∧ (delayApply g m times s d).q = s.q.add (d.tNew + delay) j 1
      ∧ (delayApply g m times s d).t = d.tNew := by
  unfold delayApply
  have hnn : ¬ ((j : Int) < 0) := by omega
  simp [hq, hf, hj, hnn, hd, hpos]

/-- **a non-positive delay acts as zero delay** (e.g. a negative Gaussian draw): both parts are applied
at the firing time and nothing is queued. -/
theorem delay_fire_nonpositive (g : Gen σ α) (m : SimModel α) (times : List α) (s : LoopState σ α)
    (d : DelayDecision σ α) (hq : d.toQueue = false) (hf : d.fired = true)
    (j : Nat) (hj : sampleDiscreteFrom d.a ((g d.gs).1 * d.Lambda) = (j : Int))
    (delay : α) (g3 : σ) (hd : computeDelay g m d.p j (g d.gs).2 = some (delay, g3)) (hneg : delay ≤ 0) :
    (delayApply g m times s d).x = addCol (addCol d.x (colOf m.U j)) (colOf m.D j)
      ∧ (delayApply g m times s d).q = s.q
      ∧ (delayApply g m times s d).t = d.tNew := by
  unfold delayApply
  have hnn : ¬ ((j : Int) < 0) := by omega
  have hnp : ¬ (delay > 0) := not_lt.mpr hneg
  simp [hq, hf, hj, hnn, hd, hnp]

/-- **no other queue operation**: whatever happens in an iteration, the queue afterwards is the queue
before, or that queue advanced by one slot, or that queue with a single insertion of amount 1.  Every
queue the delay loop ever holds is therefore the result of a history of the operations verified in
C20, and `C20.queue_exactly_once` applies to the loop's insertions. -/
theorem delayIter_queue_ops (g : Gen σ α) (m : SimModel α) (times : List α) (s : LoopState σ α) :
    (delayIter g m times s).q = s.q ∨ (delayIter g m times s).q = s.q.advance
      ∨ ∃ t j, (delayIter g m times s).q = s.q.add t j 1 := by
  unfold delayIter delayApply
  generalize delayDecide g m times s = d
  simp only
  split_ifs
  · right; left; rfl
  · left; rfl
  · split
    · left; rfl
    · split_ifs
      · right; right; exact ⟨_, _, rfl⟩
      · left; rfl
  · left; rfl

/-! ### The delay+volume loop treats the two parts of a reaction the same way -/

/-- a queue step (`step_type` 2) of the delay+volume loop delivers the earliest slot and advances the queue. -/
theorem dv_queue_branch (g : Gen σ α) (m : SimModel α) (vm : VolModel α) (times : List α) (s : LoopState σ α)
    (d : DVDecision σ α) (hq : d.stepType = 2) :
    (dvApply g m vm times s d).x = deliver m s.q d.x ∧ (dvApply g m vm times s d).q = s.q.advance
      ∧ (dvApply g m vm times s d).t = d.tNew ∧ (dvApply g m vm times s d).vol = s.vol := by
  unfold dvApply deliver
  simp [hq]

/-- the decision takes the queue branch only when the queue time is not later than the tick and not later than the
proposed reaction time, and then the clock moves to that queue time. -/
theorem dvDecide_queue (g : Gen σ α) (m : SimModel α) (times : List α) (s : LoopState σ α)
    (h : (dvDecide g m times s).stepType = 2) :
    (dvDecide g m times s).tNew = s.q.next ∧ s.q.next ≤ s.nextTick := by
  unfold dvDecide at h ⊢
  simp only at h ⊢
  generalize dvPropose g m times s = pr at h ⊢
  revert h
  cases hr : decide (pr.proposed < s.nextTick ∧ pr.proposed < s.q.next) <;>
    cases hc : decide (s.nextTick < s.q.next) <;> simp
  · simpa using hc
  · split_ifs <;> simp
  · split_ifs <;> simp

/-- **a firing with a positive delay** in the delay+volume loop: immediate part now, delayed part queued once. -/
theorem dv_fire_positive (g : Gen σ α) (m : SimModel α) (vm : VolModel α) (times : List α) (s : LoopState σ α)
    (d : DVDecision σ α) (h0 : d.stepType = 0)
    (j : Nat) (hj : sampleDiscreteFrom d.a ((g d.gs).1 * d.Lambda) = (j : Int))
    (delay : α) (g3 : σ) (hd : computeDelay g m d.p j (g d.gs).2 = some (delay, g3)) (hpos : 0 < delay) :
    (dvApply g m vm times s d).x = addCol d.x (colOf m.U j)
      ∧ (dvApply g m vm times s d).q = s.q.add (d.tNew + delay) j 1
      ∧ (dvApply g m vm times s d).t = d.tNew := by
  unfold dvApply
  have hnn : ¬ ((j : Int) < 0) := by omega
  simp [h0, hj, hnn, hd, hpos]

/-- a non-positive delay acts as zero delay there too. -/
theorem dv_fire_nonpositive (g : Gen σ α) (m : SimModel α) (vm : VolModel α) (times : List α) (s : LoopState σ α)
    (d : DVDecision σ α) (h0 : d.stepType = 0)
    (j : Nat) (hj : sampleDiscreteFrom d.a ((g d.gs).1 * d.Lambda) = (j : Int))
    (delay : α) (g3 : σ) (hd : computeDelay g m d.p j (g d.gs).2 = some (delay, g3)) (hneg : delay ≤ 0) :
    (dvApply g m vm times s d).x = addCol (addCol d.x (colOf m.U j)) (colOf m.D j)
      ∧ (dvApply g m vm times s d).q = s.q
      ∧ (dvApply g m vm times s d).t = d.tNew := by
  unfold dvApply
  have hnn : ¬ ((j : Int) < 0) := by omega
  have hnp : ¬ (delay > 0) := not_lt.mpr hneg
  simp [h0, hj, hnn, hd, hnp]

/-- **no other queue operation** in the delay+volume loop either: afterwards the queue is the queue before, that queue
advanced by one slot, or that queue with a single insertion of amount 1 (so `C20.queue_exactly_once` applies). -/
theorem delayVolumeIter_queue_ops (g : Gen σ α) (m : SimModel α) (vm : VolModel α) (times : List α) (s : LoopState σ α) :
    (delayVolumeIter g m vm times s).q = s.q ∨ (delayVolumeIter g m vm times s).q = s.q.advance
      ∨ ∃ t j, (delayVolumeIter g m vm times s).q = s.q.add t j 1 := by
  unfold delayVolumeIter dvApply
  generalize dvDecide g m times s = d
  simp only
  split_ifs
  · left; rfl
  · split
    · left; rfl
    · split_ifs
      · right; right; exact ⟨_, _, rfl⟩
      · left; rfl
  · left; rfl
  · right; left; rfl
  · left; rfl

/-! ### Simulators without delay support apply both parts at the firing time -/

/-- the ordinary SSA step adds the immediate and the delayed column together when a reaction fires. -/
theorem ssa_applies_both (g : Gen σ α) (m : SimModel α) (times : List α) (s : LoopState σ α) :
    (jumpStep g m times s).x = (applyRules m.rules s.x s.p 1 s.t m.dt s.ruleStep).1
    ∨ ∃ j, (jumpStep g m times s).x
        = addCol (applyRules m.rules s.x s.p 1 s.t m.dt s.ruleStep).1 (addCol (colOf m.U j) (colOf m.D j)) := by
  unfold jumpStep arrive
  simp only
  split_ifs
  all_goals first
    | (left; rfl)
    | (right; exact ⟨_, rfl⟩)

/-! ### Loop-level accounting: reported state plus still-queued deliveries accounts for every firing -/

section Accounting
open Bioscrape.C06 Finset

/-- the value, under a linear functional `f` on reactions' delayed parts, of everything still in the queue:
`Σ_slots Σ_reactions pending × f r`. -/
def queued (q : DQ α) (f : Nat → α) : α :=
  ∑ c ∈ range q.numCols, ∑ r ∈ range q.numRxn, q.cells c r * f r

theorem queued_add (q : DQ α) (t a : α) (j : Nat) (f : Nat → α) (hn : 0 < q.numCols) (hj : j < q.numRxn) :
    queued (q.add t j a) f = queued q f + a * f j := by
  unfold queued DQ.add
  simp only
  set col := (q.slotOf t + q.start) % q.numCols with hcol
  have hcl : col < q.numCols := Nat.mod_lt _ hn
  have : ∀ c r, (if c = col ∧ r = j then q.cells c r + a else q.cells c r) * f r
      = q.cells c r * f r + (if c = col then (if r = j then a * f r else 0) else 0) := by
    intro c r
    by_cases h1 : c = col <;> by_cases h2 : r = j <;> simp [h1, h2] <;> ring
  simp only [this, sum_add_distrib]
  congr 1
  rw [sum_eq_single col]
  · simp only [if_true]
    rw [sum_eq_single j]
    · simp
    · intro b _ hb; simp [hb]
    · intro h; exact absurd (mem_range.mpr hj) h
  · intro b _ hb; simp [hb]
  · intro h; exact absurd (mem_range.mpr hcl) h

theorem queued_advance (q : DQ α) (f : Nat → α) (hs : q.start < q.numCols) :
    queued q.advance f = queued q f - ∑ r ∈ range q.numRxn, q.cells q.start r * f r := by
  unfold queued DQ.advance
  simp only
  have : ∀ c, (∑ r ∈ range q.numRxn, (if c = q.start then 0 else q.cells c r) * f r)
      = (∑ r ∈ range q.numRxn, q.cells c r * f r) - (if c = q.start then ∑ r ∈ range q.numRxn, q.cells c r * f r else 0) := by
    intro c
    by_cases h : c = q.start <;> simp [h]
  simp only [this, sum_sub_distrib]
  congr 1
  rw [sum_eq_single q.start]
  · simp
  · intro b _ hb; simp [hb]
  · intro h; exact absurd (mem_range.mpr hs) h

theorem dot_addScaledCol (w x c : List α) (a : α) (h1 : x.length = w.length) (h2 : c.length = w.length) :
    dot w (addScaledCol x a c) = dot w x + a * dot w c := by
  unfold dot addScaledCol
  induction w generalizing x c with
  | nil => simp
  | cons b w ih =>
    cases x with
    | nil => simp at h1
    | cons x0 x =>
      cases c with
      | nil => simp at h2
      | cons c0 c =>
        simp only [List.zipWith_cons_cons, List.sum_cons]
        rw [ih x c (by simpa using h1) (by simpa using h2)]
        ring

theorem addScaledCol_length (x c : List α) (a : α) (h : c.length = x.length) : (addScaledCol x a c).length = x.length := by
  simp [addScaledCol, h]

/-- delivering the earliest slot adds, under `w`, each pending amount times `w · D_r`. -/
theorem dot_deliver_aux (w : List α) (D : List (List Int)) (amts : List α) (n : Nat)
    (hD : ∀ r, r < n → (colOf (α := α) D r).length = w.length) :
    ∀ (k : Nat) (x : List α), k ≤ n → x.length = w.length →
      ((List.range k).foldl (fun x r => addScaledCol x (amts.getD r 0) (colOf D r)) x).length = w.length ∧
      dot w ((List.range k).foldl (fun x r => addScaledCol x (amts.getD r 0) (colOf D r)) x)
        = dot w x + ∑ r ∈ range k, amts.getD r 0 * dot w (colOf D r) := by
  intro k
  induction k with
  | zero => intro x _ hx; simp [hx]
  | succ k ih =>
    intro x hk hx
    obtain ⟨hl, hd⟩ := ih x (by omega) hx
    rw [List.range_succ, List.foldl_append]
    simp only [List.foldl_cons, List.foldl_nil]
    have hc := hD k (by omega)
    refine ⟨by rw [addScaledCol_length _ _ _ (by rw [hc, hl]), hl], ?_⟩
    rw [dot_addScaledCol w _ _ _ hl hc, hd, sum_range_succ]
    ring

/-- the accounted value of a loop state under the weight `w`: what `w · x` will be once everything in the queue
has been delivered. -/
def settled (m : SimModel α) (w : List α) (s : LoopState σ α) : α :=
  dot w s.x + queued s.q (fun r => dot w (colOf m.D r))

/-- well-formedness of a delay simulation state: vector and column lengths agree with the weight vector, the queue
has one row per reaction, a positive number of slots and its start inside. -/
structure AcctWF (m : SimModel α) (w : List α) (s : LoopState σ α) : Prop where
  lenx : s.x.length = w.length
  colsU : ∀ r, r < m.props.length → (colOf (α := α) m.U r).length = w.length
  colsD : ∀ r, r < m.props.length → (colOf (α := α) m.D r).length = w.length
  nrxn : s.q.numRxn = m.props.length
  ncols : 0 < s.q.numCols
  start : s.q.start < s.q.numCols

/-- **one iteration accounts for every firing** (delay loop, no rules, any stream): the settled value under
any linear functional `w` is unchanged, or grows by `w · (U_j + D_j)` for the one reaction `j` that fired —
whether its delayed part was queued or applied at once, and whatever the queue delivered in this
iteration.  Nothing is lost and nothing is applied twice. -/
theorem delayIter_accounting (g : Gen σ α) (m : SimModel α) (times : List α) (s : LoopState σ α) (w : List α)
    (hr : m.rules = []) (hwf : AcctWF m w s) (hbad : (delayIter g m times s).bad = false) :
    AcctWF m w (delayIter g m times s) ∧
    (settled m w (delayIter g m times s) = settled m w s ∨
      ∃ j, j < m.props.length ∧
        settled m w (delayIter g m times s) = settled m w s + (dot w (colOf m.U j) + dot w (colOf m.D j))) := by
  have hrule : applyRules m.rules s.x s.p 1 s.t m.dt s.ruleStep = (s.x, s.p) := by simp [hr, applyRules]
  have hdx : (delayDecide g m times s).x = s.x := by unfold delayDecide; simp [hrule]
  unfold delayIter delayApply at hbad ⊢
  generalize hd : delayDecide g m times s = d at hbad hdx ⊢
  simp only at hbad ⊢
  split_ifs at hbad ⊢ with hq hf hneg
  · -- the queue delivers
    have hdel := dot_deliver_aux w m.D s.q.nextReactions m.props.length hwf.colsD m.props.length d.x (le_refl _)
      (by rw [hdx]; exact hwf.lenx)
    refine ⟨⟨hdel.1, hwf.colsU, hwf.colsD, by simpa [DQ.advance] using hwf.nrxn, by simpa [DQ.advance] using hwf.ncols,
      by simpa [DQ.advance] using Nat.mod_lt _ hwf.ncols⟩, Or.inl ?_⟩
    unfold settled
    simp only
    rw [hdel.2, queued_advance _ _ hwf.start, hdx, hwf.nrxn]
    have : ∀ r ∈ range m.props.length, s.q.nextReactions.getD r 0 * dot w (colOf m.D r)
        = s.q.cells s.q.start r * dot w (colOf m.D r) := by
      intro r hr'
      have hr'' : r < s.q.numRxn := by rw [hwf.nrxn]; exact mem_range.mp hr'
      simp [DQ.nextReactions, List.getD_eq_getElem?_getD, hr'']
    rw [sum_congr rfl this]
    ring
  · -- a firing
    cases hcd : computeDelay g m d.p (sampleDiscreteFrom d.a ((g d.gs).1 * d.Lambda)).toNat (g d.gs).2 with
    | none => simp [hcd] at hbad
    | some ds =>
      obtain ⟨delay, gs⟩ := ds
      simp only [hcd] at hbad ⊢
      set j := (sampleDiscreteFrom d.a ((g d.gs).1 * d.Lambda)).toNat with hj
      have hjlt : j < m.props.length := by
        have hlen : d.a.length = m.props.length := by
          rw [← hd]; unfold delayDecide; simp only [hrule]; exact propensities_length m .stoch _ _ _ _
        rcases sampleDiscreteFrom_lt d.a ((g d.gs).1 * d.Lambda) with hlt | hnil
        · rw [hlen] at hlt; omega
        · exfalso
          rw [hnil] at hneg
          simp [sampleDiscreteFrom, sampleDiscreteFrom.go] at hneg
      have hU := hwf.colsU j hjlt
      have hDc := hwf.colsD j hjlt
      have hx1 : (addCol d.x (colOf (α := α) m.U j)).length = w.length := by
        rw [addCol_length _ _ (by rw [hU, hdx, hwf.lenx]), hdx]; exact hwf.lenx
      split_ifs with hpos
      · refine ⟨⟨hx1, hwf.colsU, hwf.colsD, by simpa [DQ.add] using hwf.nrxn, by simpa [DQ.add] using hwf.ncols,
          by simpa [DQ.add] using hwf.start⟩, Or.inr ⟨j, hjlt, ?_⟩⟩
        unfold settled
        simp only
        rw [dot_addCol w _ _ (by rw [hdx]; exact hwf.lenx) hU, queued_add _ _ _ _ _ hwf.ncols (by rw [hwf.nrxn]; exact hjlt), hdx]
        ring
      · have hx2 : (addCol (addCol d.x (colOf (α := α) m.U j)) (colOf m.D j)).length = w.length := by
          rw [addCol_length _ _ (by rw [hDc, hx1]), hx1]
        refine ⟨⟨hx2, hwf.colsU, hwf.colsD, hwf.nrxn, hwf.ncols, hwf.start⟩, Or.inr ⟨j, hjlt, ?_⟩⟩
        unfold settled
        simp only
        rw [dot_addCol w _ _ hx1 hDc, dot_addCol w _ _ (by rw [hdx]; exact hwf.lenx) hU, hdx]
        ring
  · -- nothing happens
    refine ⟨⟨by rw [hdx]; exact hwf.lenx, hwf.colsU, hwf.colsD, hwf.nrxn, hwf.ncols, hwf.start⟩, Or.inl ?_⟩
    unfold settled
    simp only
    rw [hdx]

/-- **whole runs**: after any number of iterations of the delay loop (no rules, any stream) the settled value
under `w` is the initial one plus `w · (U_j + D_j)` summed over the reactions that fired, in order — reported
state plus still-queued deliveries accounts for every firing, exactly once. -/
theorem delay_run_accounting (g : Gen σ α) (m : SimModel α) (times : List α) (w : List α) (hr : m.rules = [])
    (fuel : Nat) (s s' : LoopState σ α) (hwf : AcctWF m w s)
    (hrun : runLoop (delayIter g m times) times.length fuel s = some s') (hok : s'.bad = false) :
    AcctWF m w s' ∧ ∃ fired : List Nat, (∀ j ∈ fired, j < m.props.length) ∧
      settled m w s' = settled m w s + (fired.map (fun j => dot w (colOf m.U j) + dot w (colOf m.D j))).sum := by
  induction fuel generalizing s with
  | zero =>
    unfold runLoop at hrun
    split at hrun
    · exact absurd hrun (by simp)
    · cases hrun; exact ⟨hwf, [], by simp, by simp⟩
  | succ fuel ih =>
    unfold runLoop at hrun
    split at hrun
    · by_cases hb : (delayIter g m times s).bad = false
      · obtain ⟨hwf1, hstep⟩ := delayIter_accounting g m times s w hr hwf hb
        obtain ⟨hwf', fired, hf, heq⟩ := ih _ hwf1 hrun
        refine ⟨hwf', ?_⟩
        rcases hstep with h0 | ⟨j, hj, h1⟩
        · exact ⟨fired, hf, by rw [heq, h0]⟩
        · refine ⟨j :: fired, ?_, ?_⟩
          · intro k hk
            rcases List.mem_cons.mp hk with rfl | hk'
            · exact hj
            · exact hf k hk'
          · rw [heq, h1, List.map_cons, List.sum_cons]; ring
      · have hb' : (delayIter g m times s).bad = true := by simpa using hb
        have : runLoop (delayIter g m times) times.length fuel (delayIter g m times s) = some (delayIter g m times s) := by
          cases fuel <;> simp [runLoop, hb']
        rw [this] at hrun
        cases hrun
        exact absurd hok (by simp [hb'])
    · cases hrun; exact ⟨hwf, [], by simp, by simp⟩

/-- **conservation with delays**: a weight vector orthogonal to every net column `U_j + D_j` is conserved by
"reported state + everything still queued" along every run of the delay simulator. -/
theorem delay_run_conservation (g : Gen σ α) (m : SimModel α) (times : List α) (w : List α) (hr : m.rules = [])
    (fuel : Nat) (s s' : LoopState σ α) (hwf : AcctWF m w s)
    (horth : ∀ j, j < m.props.length → dot w (colOf m.U j) + dot w (colOf m.D j) = 0)
    (hrun : runLoop (delayIter g m times) times.length fuel s = some s') (hok : s'.bad = false) :
    settled m w s' = settled m w s := by
  obtain ⟨_, fired, hf, heq⟩ := delay_run_accounting g m times w hr fuel s s' hwf hrun hok
  rw [heq]
  have : (fired.map (fun j => dot w (colOf m.U j) + dot w (colOf m.D j))).sum = 0 := by
    apply List.sum_eq_zero
    intro v hv
    obtain ⟨j, hj, rfl⟩ := List.mem_map.mp hv
    exact horth j (hf j hj)
  rw [this, add_zero]

/-- the state every delay simulation starts from (an empty queue made by `setup_queue`) is well formed and its
settled value is `w · x0`: the hypotheses of `delay_run_accounting` are met by every simulation, and its
conclusion reads `w · x + queued = w · x0 + Σ fired w · (U_j + D_j)`. -/
theorem acctWF_init (m : SimModel α) (w x0 p0 : List α) (g0 : σ) (vol0 dt : α) (ncols : Nat)
    (hx : x0.length = w.length) (hU : ∀ r, r < m.props.length → (colOf (α := α) m.U r).length = w.length)
    (hD : ∀ r, r < m.props.length → (colOf (α := α) m.D r).length = w.length) (hn : 0 < ncols) :
    AcctWF m w (initState m x0 p0 g0 vol0 ((DQ.setup m.props.length ncols dt).setCurrentTime m.t0)) ∧
    settled m w (initState m x0 p0 g0 vol0 ((DQ.setup m.props.length ncols dt).setCurrentTime m.t0)) = dot w x0 := by
  refine ⟨⟨by simpa [initState] using hx, hU, hD, by simp [initState, DQ.setup, DQ.new, DQ.setCurrentTime],
    by simpa [initState, DQ.setup, DQ.new, DQ.setCurrentTime] using hn,
    by simpa [initState, DQ.setup, DQ.new, DQ.setCurrentTime] using hn⟩, ?_⟩
  unfold settled queued
  simp [initState, DQ.setup, DQ.new, DQ.setCurrentTime]

end Accounting

/-! ### Delay samplers as exact functions of the stream -/

/-- a fixed delay is the parameter's value; it consumes no randomness. -/
theorem fixed_delay (g : Gen σ α) (m : SimModel α) (p : List α) (j d : Nat) (s : σ)
    (h : m.delays.getD j .none = .fixed d) : computeDelay g m p j s = some (vecGet p d, s) := by
  unfold computeDelay; rw [h]

/-- no delay object: zero delay, no randomness. -/
theorem no_delay (g : Gen σ α) (m : SimModel α) (p : List α) (j : Nat) (s : σ)
    (h : m.delays.getD j .none = .none) : computeDelay g m p j s = some (0, s) := by
  unfold computeDelay; rw [h]

/-- the Gaussian delay is the Box–Muller form `μ + σ·sqrt(−2 ln u)·cos(2π v)` of two consecutive
uniforms; no variate is cached between calls. -/
theorem gaussian_delay (g : Gen σ α) (m : SimModel α) (p : List α) (j mu sd : Nat) (s : σ)
    (h : m.delays.getD j .none = .gaussian mu sd) :
    computeDelay g m p j s
      = some (Transc.sqrt (-((2 : Nat) : α) * Transc.log (g s).1) * Transc.cos (m.twoPi * (g (g s).2).1) * vecGet p sd
              + vecGet p mu, (g (g s).2).2) := by
  unfold computeDelay; rw [h]; rfl

/-- the gamma delay is the Marsaglia–Tsang sampler applied to the model's own `k` and `θ` parameters, reading the
stream from where the loop left it (at most 10000 rejection rounds, after which the simulation reports a failure rather
than a number). -/
theorem gamma_delay (g : Gen σ α) (m : SimModel α) (p : List α) (j k th : Nat) (s : σ)
    (h : m.delays.getD j .none = .gamma k th) :
    computeDelay g m p j s = gammaRv g m.twoPi (vecGet p k) (vecGet p th) 10000 s := by
  unfold computeDelay; rw [h]

/-- **deterministic delays leave the random stream alone**: with no delay or a fixed delay the uniforms that follow are
the ones that would have followed anyway, so adding a fixed delay to a reaction does not change which reactions fire or
when (only when their delayed part arrives). -/
theorem deterministic_delay_stream (g : Gen σ α) (m : SimModel α) (p : List α) (j : Nat) (s : σ)
    (h : m.delays.getD j .none = .none ∨ ∃ d, m.delays.getD j .none = .fixed d) :
    ∃ τ, computeDelay g m p j s = some (τ, s) := by
  rcases h with h | ⟨d, h⟩
  · exact ⟨0, no_delay g m p j s h⟩
  · exact ⟨vecGet p d, fixed_delay g m p j d s h⟩

end Bioscrape.C10
