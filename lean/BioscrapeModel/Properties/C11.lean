import Mathlib.Algebra.Order.Field.Basic
import Mathlib.Tactic.Linarith
import Mathlib.Tactic.Ring
import BioscrapeModel.Proofs.Laws
import BioscrapeModel.Properties.C01
import BioscrapeModel.Properties.C05

/-
C11 — volume-aware simulation scales rates with volume and tracks growth and division.
-/
set_option linter.unusedSectionVars false
set_option linter.unusedSimpArgs false

namespace Bioscrape.C11
open Bioscrape Bioscrape.C05

variable {σ α : Type} [Field α] [LinearOrder α] [IsStrictOrderedRing α] [Transc α] [Trunc α]

/-- the volume loop without flags: a restartable jump process whose stops are the grid times (when
nothing can fire) and the volume ticks, with propensities evaluated at the current volume. -/
def volumeStepSpec (g : Gen σ α) (m : SimModel α) (vm : VolModel α) (times : List α) (s : LoopState σ α) :
    LoopState σ α :=
  let xp := applyRules m.rules s.x s.p s.vol s.t m.dt s.ruleStep
  let a := m.propensities .svol xp.1 xp.2 s.vol s.t
  let Lambda := arraySum a
  let T := times.getD s.idx 0
  let zero := feq Lambda 0
  let ug := g s.g
  let cand := if zero then T else s.t + (-1 / Lambda * Transc.log ug.1)
  let g1 := if zero then s.g else ug.2
  let rec1 := fun (t : α) => s.rows ++ replicateRow (recordCount t (times.drop s.idx)) xp.1
  let vt1 := fun (t : α) => s.volTrace ++ List.replicate (recordCount t (times.drop s.idx)) s.vol
  let idx1 := fun (t : α) => s.idx + recordCount t (times.drop s.idx)
  if s.nextTick < cand then
    -- the volume tick comes first: one growth step, division test, next tick one dt later
    let vol := s.vol + vm.step xp.1 xp.2 s.nextTick s.vol m.dt
    let dv := vm.divided s.nextTick vol m.dt
    { s with x := xp.1, p := xp.2, t := s.nextTick, idx := idx1 s.nextTick, ruleStep := true, rows := rec1 s.nextTick,
             volTrace := vt1 s.nextTick, g := g1, vol := vol, nextTick := s.nextTick + m.dt, divided := dv, stop := dv }
  else if zero then
    -- nothing can fire: move to the grid time; only ticks are rule steps
    { s with x := xp.1, p := xp.2, t := cand, idx := idx1 cand, ruleStep := false, rows := rec1 cand,
             volTrace := vt1 cand, g := g1 }
  else
    let ug' := g g1
    let choice := sampleDiscreteFrom a (ug'.1 * Lambda)
    if choice < 0 then
      { s with x := xp.1, p := xp.2, t := cand, idx := idx1 cand, ruleStep := false, rows := rec1 cand,
               volTrace := vt1 cand, g := ug'.2, bad := true }
    else
      { s with x := addCol xp.1 (addCol (colOf m.U choice.toNat) (colOf m.D choice.toNat)), p := xp.2, t := cand,
               idx := idx1 cand, ruleStep := false, rows := rec1 cand, volTrace := vt1 cand, g := ug'.2 }

/-- **refinement, one iteration** (every stream, model, volume model, grid, state). -/
theorem volumeIter_refines_spec (g : Gen σ α) (m : SimModel α) (vm : VolModel α) (times : List α)
    (s : LoopState σ α) : strip (volumeIter g m vm times s) = strip (volumeStepSpec g m vm times s) := by
  unfold volumeIter volumeStepSpec strip
  simp only
  split_ifs <;> simp_all

theorem volumeStepSpec_strip (g : Gen σ α) (m : SimModel α) (vm : VolModel α) (times : List α) (s : LoopState σ α) :
    strip (volumeStepSpec g m vm times s) = volumeStepSpec g m vm times (strip s) := by
  unfold volumeStepSpec strip
  simp only
  split_ifs <;> rfl

/-- **refinement, whole runs**: for every stream the volume loop and its specification produce the same
rows, volume trace, division flag, final state and stream position. -/
theorem volume_refines_spec (g : Gen σ α) (m : SimModel α) (vm : VolModel α) (times : List α) (fuel : Nat)
    (s : LoopState σ α) :
    (runLoop (volumeIter g m vm times) times.length fuel s).map strip
      = runLoop (volumeStepSpec g m vm times) times.length fuel (strip s) := by
  induction fuel generalizing s with
  | zero =>
    unfold runLoop
    have : (strip s).idx = s.idx ∧ (strip s).stop = s.stop ∧ (strip s).bad = s.bad := ⟨rfl, rfl, rfl⟩
    simp only [this.1, this.2.1, this.2.2]
    split <;> simp
  | succ fuel ih =>
    unfold runLoop
    have : (strip s).idx = s.idx ∧ (strip s).stop = s.stop ∧ (strip s).bad = s.bad := ⟨rfl, rfl, rfl⟩
    simp only [this.1, this.2.1, this.2.2]
    split
    · rw [ih, volumeIter_refines_spec, volumeStepSpec_strip]
    · simp

/-- the propensities the volume loop samples from are the volume-scaled rate laws at the current volume:
for the plain interface each entry is `Propensity.svol`, whose closed forms are C01's
(`massAction_svol`: `k·∏ff / V^(r−1)`, zero order `k·V`; Hill terms on `s/V`). -/
theorem volume_propensities (m : SimModel α) (x p : List α) (V t : α) (hs : m.safe = false) :
    m.propensities .svol x p V t = m.props.map (fun q => q.svol (vecGet x) (vecGet p) V t) := by
  unfold SimModel.propensities computePropensities
  simp [hs, Propensity.evalMode]

/-- a bimolecular constant acts as `k/V`, a zero-order constant as `k·V` (instances of C01). -/
theorem bimolecular_scaled (k s1 s2 : Nat) (x p : Nat → α) (V t : α) (h : s1 ≠ s2) :
    (Propensity.bimolecular (α := α) k s1 s2).svol x p V t = p k * x s1 * x s2 / V := by
  simp [Propensity.svol, h]

theorem zero_order_scaled (k : Nat) (x p : Nat → α) (V t : α) :
    (Propensity.constitutive (α := α) k).svol x p V t = p k * V := by
  simp [Propensity.svol, Propensity.vol]

/-! ### Growth -/

variable [LawfulTransc α]

/-- one tick of exponential growth multiplies the volume by `exp(g·δ)`. -/
theorem tick_growth (gr divT vol dt : α) (x p : List α) (t : α) :
    vol + (VolModel.timeThreshold gr divT).step x p t vol dt = vol * Transc.exp (gr * dt) := by
  simp [VolModel.step]; ring

/-- the reported volume stays positive and, for a non-negative growth rate, never decreases. -/
theorem tick_positive_monotone (gr divT vol dt : α) (x p : List α) (t : α) (hv : 0 < vol) (hg : 0 ≤ gr * dt) :
    0 < vol + (VolModel.timeThreshold gr divT).step x p t vol dt
      ∧ vol ≤ vol + (VolModel.timeThreshold gr divT).step x p t vol dt := by
  rw [tick_growth]
  have h1 := LawfulTransc.exp_pos (gr * dt)
  have h2 := LawfulTransc.one_le_exp (gr * dt) hg
  exact ⟨mul_pos hv h1, by nlinarith⟩

/-- after `n` ticks from `V0` the volume is `V0 · exp(g δ)^n` (the growth law sampled on the tick grid). -/
theorem volume_after_ticks (gr divT dt V0 : α) (n : Nat) :
    (List.range n).foldl (fun v _ => v + (VolModel.timeThreshold gr divT).step ([] : List α) [] 0 v dt) V0
      = V0 * Transc.exp (gr * dt) ^ n := by
  induction n with
  | zero => simp
  | succ n ih => rw [List.range_succ, List.foldl_append, ih]; simp [VolModel.step]; ring

/-- the state-dependent volume grows by `exp(rate(x)·δ)` per tick, with `rate` the growth law evaluated on
the current state. -/
theorem tick_growth_state (growth : Term α) (divV vol dt : α) (x p : List α) (t : α) :
    vol + (VolModel.stateDep growth divV).step x p t vol dt
      = vol * Transc.exp (growth.eval (vecGet x) (vecGet p) t * dt) := by
  simp [VolModel.step]; ring

/-- the base `Volume` object never grows and never divides. -/
theorem const_volume (vol dt : α) (x p : List α) (t : α) :
    vol + (VolModel.const : VolModel α).step x p t vol dt = vol ∧ (VolModel.const : VolModel α).divided t vol dt = false := by
  simp [VolModel.step, VolModel.divided]

/-! ### Division -/

/-- rows, volume trace and grid index stay aligned: one row and one volume entry per passed grid time. -/
theorem spec_rows_aligned (g : Gen σ α) (m : SimModel α) (vm : VolModel α) (times : List α) (s : LoopState σ α)
    (h : s.rows.length = s.idx ∧ s.volTrace.length = s.idx) :
    (volumeStepSpec g m vm times s).rows.length = (volumeStepSpec g m vm times s).idx
      ∧ (volumeStepSpec g m vm times s).volTrace.length = (volumeStepSpec g m vm times s).idx := by
  unfold volumeStepSpec
  simp only
  split_ifs <;> simp [replicateRow, h.1, h.2]

/-- **division stops the simulation at a tick**: the `stop` flag is raised only by a volume tick at which
the volume model reports division, it is the `divided` flag of the result, and the rows written so far
(those at grid times up to that tick) are the whole result. -/
theorem division_only_at_tick (g : Gen σ α) (m : SimModel α) (vm : VolModel α) (times : List α) (s : LoopState σ α)
    (hs : s.stop = false) (h : (volumeStepSpec g m vm times s).stop = true) :
    (volumeStepSpec g m vm times s).divided = true ∧ (volumeStepSpec g m vm times s).t = s.nextTick
      ∧ vm.divided s.nextTick (volumeStepSpec g m vm times s).vol m.dt = true := by
  unfold volumeStepSpec at h ⊢
  simp only at h ⊢
  split_ifs at h ⊢ <;> simp_all

/-- the time-threshold model reports division exactly in the tick interval that contains the division time. -/
theorem timeThreshold_divides (gr divT t vol dt : α) :
    (VolModel.timeThreshold gr divT).divided t vol dt = true ↔ t - dt < divT ∧ divT ≤ t := by
  simp [VolModel.divided]

/-! ### Non-vacuity -/
example : (2 : ℚ) + ((3 : ℚ) / 2 - 1) * 2 = 2 * (3 / 2) := by norm_num

end Bioscrape.C11
