import Mathlib.Algebra.Order.Field.Basic
import Mathlib.Tactic.Linarith
import Mathlib.Tactic.Ring
import BioscrapeModel.Proofs.Laws
import BioscrapeModel.Properties.C01
import BioscrapeModel.Properties.C05
import BioscrapeModel.Properties.C06

/-
C11 — volume-aware simulation scales rates with volume and tracks growth and division.
-/
set_option linter.unusedSectionVars false
set_option linter.unusedSimpArgs false

namespace Bioscrape.C11
open Bioscrape Bioscrape.C05

variable {σ α : Type} [Field α] [LinearOrder α] [IsStrictOrderedRing α] [Transc α] [Trunc α]

/-- the volume loop without flags: a restartable jump process whose stops are the grid times (when
nothing can fire) and the volume ticks, with propensities evaluated at the current volume. -/
def volumeStepSpec (g : Gen σ α) (m : SimModel α) (vm : VolModel α) (times : List α) (s : LoopState σ α) :
    LoopState σ α :=
  let xp := applyRules m.rules s.x s.p s.vol s.t m.dt s.ruleStep
  let a := m.propensities .svol xp.1 xp.2 s.vol s.t
  let Lambda := arraySum a
  let T := times.getD s.idx 0
  let zero := feq Lambda 0
  let ug := g s.g
  let cand := if zero then T else s.t + (-1 / Lambda * Transc.log ug.1)
  let g1 := if zero then s.g else ug.2
  let rec1 := fun (t : α) => s.rows ++ replicateRow (recordCount t (times.drop s.idx)) xp.1
  let vt1 := fun (t : α) => s.volTrace ++ List.replicate (recordCount t (times.drop s.idx)) s.vol
  let idx1 := fun (t : α) => s.idx + recordCount t (times.drop s.idx)
  if s.nextTick < cand then
    -- the volume tick comes first: one growth step, division test, next tick one dt later
    let vol := s.vol + vm.step xp.1 xp.2 s.nextTick s.vol m.dt
    let dv := vm.divided s.nextTick vol m.dt
    { s with x := xp.1, p := xp.2, t := s.nextTick, idx := idx1 s.nextTick, ruleStep := true, rows := rec1 s.nextTick,
             volTrace := vt1 s.nextTick, g := g1, vol := vol, nextTick := s.nextTick + m.dt, divided := dv, stop := dv }
  else if zero then
    -- nothing can fire: move to the grid time; only ticks are rule steps
    { s with x := xp.1, p := xp.2, t := cand, idx := idx1 cand, ruleStep := false, rows := rec1 cand,
             volTrace := vt1 cand, g := g1 }
  else
    let ug' := g g1
    let choice := sampleDiscreteFrom a (ug'.1 * Lambda)
    if choice < 0 then
      { s with x := xp.1, p := xp.2, t := cand, idx := idx1 cand, ruleStep := false, rows := rec1 cand,
               volTrace := vt1 cand, g := ug'.2, bad := true }
    else
      { s with x := addCol xp.1 (addCol (colOf m.U choice.toNat) (colOf m.D choice.toNat)), p := xp.2, t := cand,
               idx := idx1 cand, ruleStep := false, rows := rec1 cand, volTrace := vt1 cand, g := ug'.2 }

/-- **refinement, one iteration** (every stream, model, volume model, grid, state). -/
theorem volumeIter_refines_spec (g : Gen σ α) (m : SimModel α) (vm : VolModel α) (times : List α)
    (s : LoopState σ α) : strip (volumeIter g m vm times s) = strip (volumeStepSpec g m vm times s) := by
  unfold volumeIter volumeStepSpec strip
  simp only
  split_ifs <;> simp_all

theorem volumeStepSpec_strip (g : Gen σ α) (m : SimModel α) (vm : VolModel α) (times : List α) (s : LoopState σ α) :
    strip (volumeStepSpec g m vm times s) = volumeStepSpec g m vm times (strip s) := by
  unfold volumeStepSpec strip
  simp only
  split_ifs <;> rfl

/-- **refinement, whole runs**: for every stream the volume loop and its specification produce the same
rows, volume trace, division flag, final state and stream position. -/
theorem volume_refines_spec (g : Gen σ α) (m : SimModel α) (vm : VolModel α) (times : List α) (fuel : Nat)
    (s : LoopState σ α) :
    (runLoop (volumeIter g m vm times) times.length fuel s).map strip
      = runLoop (volumeStepSpec g m vm times) times.length fuel (strip s) := by
  induction fuel generalizing s with
  | zero =>
    unfold runLoop
    have : (strip s).idx = s.idx ∧ (strip s).stop = s.stop ∧ (strip s).bad = s.bad := ⟨rfl, rfl, rfl⟩
    simp only [this.1, this.2.1, this.2.2]
    split <;> simp
  | succ fuel ih =>
    unfold runLoop
    have : (strip s).idx = s.idx ∧ (strip s).stop = s.stop ∧ (strip s).bad = s.bad := ⟨rfl, rfl, rfl⟩
    simp only [this.1, this.2.1, this.2.2]
    split
    · rw [ih, volumeIter_refines_spec, volumeStepSpec_strip]
    · simp

/-- the propensities the volume loop samples from are the volume-scaled rate laws at the current volume:
for the plain interface each entry is `Propensity.svol`, whose closed forms are C01's
(`massAction_svol`: `k·∏ff / V^(r−1)`, zero order `k·V`; Hill terms on `s/V`). -/
theorem volume_propensities (m : SimModel α) (x p : List α) (V t : α) (hs : m.safe = false) :
    m.propensities .svol x p V t = m.props.map (fun q => q.svol (vecGet x) (vecGet p) V t) := by
  unfold SimModel.propensities computePropensities
  simp [hs, Propensity.evalMode]

/-- a bimolecular constant acts as `k/V`, a zero-order constant as `k·V` (instances of C01). -/
theorem bimolecular_scaled (k s1 s2 : Nat) (x p : Nat → α) (V t : α) (h : s1 ≠ s2) :
    (Propensity.bimolecular (α := α) k s1 s2).svol x p V t = p k * x s1 * x s2 / V := by
  simp [Propensity.svol, h]

theorem zero_order_scaled (k : Nat) (x p : Nat → α) (V t : α) :
    (Propensity.constitutive (α := α) k).svol x p V t = p k * V := by
  simp [Propensity.svol, Propensity.vol]

/-! ### Growth -/

variable [LawfulTransc α]

/-- one tick of exponential growth multiplies the volume by `exp(g·δ)`. -/
theorem tick_growth (gr divT vol dt : α) (x p : List α) (t : α) :
    vol + (VolModel.timeThreshold gr divT).step x p t vol dt = vol * Transc.exp (gr * dt) := by
  simp [VolModel.step]; ring

/-- the reported volume stays positive and, for a non-negative growth rate, never decreases. -/
theorem tick_positive_monotone (gr divT vol dt : α) (x p : List α) (t : α) (hv : 0 < vol) (hg : 0 ≤ gr * dt) :
    0 < vol + (VolModel.timeThreshold gr divT).step x p t vol dt
      ∧ vol ≤ vol + (VolModel.timeThreshold gr divT).step x p t vol dt := by
  rw [tick_growth]
  have h1 := LawfulTransc.exp_pos (gr * dt)
  have h2 := LawfulTransc.one_le_exp (gr * dt) hg
  exact ⟨mul_pos hv h1, by nlinarith⟩

/-- after `n` ticks from `V0` the volume is `V0 · exp(g δ)^n` (the growth law sampled on the tick grid). -/
theorem volume_after_ticks (gr divT dt V0 : α) (n : Nat) :
    (List.range n).foldl (fun v _ => v + (VolModel.timeThreshold gr divT).step ([] : List α) [] 0 v dt) V0
      = V0 * Transc.exp (gr * dt) ^ n := by
  induction n with
  | zero => simp
  | succ n ih => rw [List.range_succ, List.foldl_append, ih]; simp [VolModel.step]; ring

/-- the state-dependent volume grows by `exp(rate(x)·δ)` per tick, with `rate` the growth law evaluated on
the current state. -/
theorem tick_growth_state (growth : Term α) (divV vol dt : α) (x p : List α) (t : α) :
    vol + (VolModel.stateDep growth divV).step x p t vol dt
      = vol * Transc.exp (growth.eval (vecGet x) (vecGet p) t * dt) := by
  simp [VolModel.step]; ring

/-- the base `Volume` object never grows and never divides. -/
theorem const_volume (vol dt : α) (x p : List α) (t : α) :
    vol + (VolModel.const : VolModel α).step x p t vol dt = vol ∧ (VolModel.const : VolModel α).divided t vol dt = false := by
  simp [VolModel.step, VolModel.divided]

/-! ### Division -/

/-- rows, volume trace and grid index stay aligned: one row and one volume entry per passed grid time. -/
theorem spec_rows_aligned (g : Gen σ α) (m : SimModel α) (vm : VolModel α) (times : List α) (s : LoopState σ α)
    (h : s.rows.length = s.idx ∧ s.volTrace.length = s.idx) :
    (volumeStepSpec g m vm times s).rows.length = (volumeStepSpec g m vm times s).idx
      ∧ (volumeStepSpec g m vm times s).volTrace.length = (volumeStepSpec g m vm times s).idx := by
  unfold volumeStepSpec
  simp only
  split_ifs <;> simp [replicateRow, h.1, h.2]

/-- **division stops the simulation at a tick**: the `stop` flag is raised only by a volume tick at which
the volume model reports division, it is the `divided` flag of the result, and the rows written so far
(those at grid times up to that tick) are the whole result. -/
theorem division_only_at_tick (g : Gen σ α) (m : SimModel α) (vm : VolModel α) (times : List α) (s : LoopState σ α)
    (hs : s.stop = false) (h : (volumeStepSpec g m vm times s).stop = true) :
    (volumeStepSpec g m vm times s).divided = true ∧ (volumeStepSpec g m vm times s).t = s.nextTick
      ∧ vm.divided s.nextTick (volumeStepSpec g m vm times s).vol m.dt = true := by
  unfold volumeStepSpec at h ⊢
  simp only at h ⊢
  split_ifs at h ⊢ <;> simp_all

/-- the time-threshold model reports division exactly in the tick interval that contains the division time. -/
theorem timeThreshold_divides (gr divT t vol dt : α) :
    (VolModel.timeThreshold gr divT).divided t vol dt = true ↔ t - dt < divT ∧ divT ≤ t := by
  simp [VolModel.divided]

/-! ### Mass-action networks never report a negative count in the volume loop either -/

section VolNonNeg
open Bioscrape.C01 Bioscrape.C06

theorem volScale_pos (V : α) (r : Nat) (hV : 0 < V) : 0 < volScale V r := by
  unfold volScale
  split_ifs
  · exact hV
  · exact one_div_pos.mpr (pow_pos hV _)

/-- the volume-scaled stochastic mass-action propensity of whole counts is not negative, and when it is not zero
every reactant is present in its multiplicity — the volume only rescales the rate. -/
theorem massAction_svol_nat (k : Nat) (R : List Nat) (x p : List α) (V t : α) (hx : IsNatVec x)
    (hk : 0 ≤ vecGet p k) (hV : 0 < V) :
    0 ≤ (createMassAction (α := α) k R).svol (vecGet x) (vecGet p) V t ∧
    ((createMassAction (α := α) k R).svol (vecGet x) (vecGet p) V t ≠ 0 →
      ∀ s, ∃ n : Nat, vecGet x s = (n : α) ∧ R.count s ≤ n) := by
  have hnn : ∀ s, 0 ≤ vecGet x s := by
    intro s; obtain ⟨n, hn⟩ := vecGet_nat x hx s; rw [hn]; exact Nat.cast_nonneg n
  have hs := massAction_stoch_nat k R x p t hx hk
  rw [massAction_svol k R (vecGet x) (vecGet p) V t hV hnn, ← massAction_stoch k R (vecGet x) (vecGet p) t hnn]
  refine ⟨mul_nonneg hs.1 (le_of_lt (volScale_pos V _ hV)), ?_⟩
  intro hne
  exact hs.2 (fun hz => hne (by rw [hz, zero_mul]))

/-- counts stay whole and non-negative, and the volume stays positive. -/
structure NatVolState (n : Nat) (s : LoopState σ α) : Prop where
  nat : NatState n s
  vol : 0 < s.vol

/-- the firing case: the reaction chosen from the volume-scaled propensities of a state of whole counts leaves whole,
non-negative counts. -/
theorem volume_fire_nat (g : Gen σ α) (m : SimModel α) (ks : List Nat) (Rs : List (List Nat)) (n : Nat)
    (s : LoopState σ α) (hnet : MANet m ks Rs n) (hrate : ∀ k ∈ ks, 0 ≤ vecGet s.p k)
    (hu : ∀ st : σ, 0 < (g st).1 ∧ (g st).1 ≤ 1) (hnat : NatState n s) (hvol : 0 < s.vol) (u : σ)
    (hz : ¬ feq (arraySum (m.propensities .svol s.x s.p s.vol s.t)) 0 = true) :
    IsNatVec (addCol s.x (addCol
        (colOf m.U (sampleDiscreteFrom (m.propensities .svol s.x s.p s.vol s.t)
          ((g u).1 * arraySum (m.propensities .svol s.x s.p s.vol s.t))).toNat)
        (colOf m.D (sampleDiscreteFrom (m.propensities .svol s.x s.p s.vol s.t)
          ((g u).1 * arraySum (m.propensities .svol s.x s.p s.vol s.t))).toNat))) ∧
    (addCol s.x (addCol
        (colOf (α := α) m.U (sampleDiscreteFrom (m.propensities .svol s.x s.p s.vol s.t)
          ((g u).1 * arraySum (m.propensities .svol s.x s.p s.vol s.t))).toNat)
        (colOf m.D (sampleDiscreteFrom (m.propensities .svol s.x s.p s.vol s.t)
          ((g u).1 * arraySum (m.propensities .svol s.x s.p s.vol s.t))).toNat))).length = n := by
  have hprops : m.propensities .svol s.x s.p s.vol s.t =
      m.props.map (fun q => q.svol (vecGet s.x) (vecGet s.p) s.vol s.t) := by
    unfold SimModel.propensities computePropensities
    simp [hnet.plain, Propensity.evalMode]
  set a := m.propensities .svol s.x s.p s.vol s.t with ha
  have hlenA : a.length = Rs.length := by
    rw [hprops, List.length_map, hnet.props, List.length_zipWith, hnet.lens, min_self]
  have hfac : ∀ j (hj : j < a.length), 0 ≤ a[j] ∧
      (a[j] ≠ 0 → ∀ i, ∃ k : Nat, vecGet s.x i = (k : α) ∧ (Rs.getD j []).count i ≤ k) := by
    intro j hj
    have hjR : j < Rs.length := hlenA ▸ hj
    have hjk : j < ks.length := hnet.lens ▸ hjR
    have hget : a[j] = (createMassAction (α := α) (ks.getD j 0) (Rs.getD j [])).svol (vecGet s.x) (vecGet s.p) s.vol s.t := by
      simp only [hprops, hnet.props, List.getElem_map, List.getElem_zipWith]
      simp [List.getD_eq_getElem?_getD, List.getElem?_eq_getElem hjk, List.getElem?_eq_getElem hjR]
    rw [hget]
    exact massAction_svol_nat _ _ s.x s.p s.vol s.t hnat.cur (hrate _ (by
      rw [List.getD_eq_getElem?_getD, List.getElem?_eq_getElem hjk]; exact List.getElem_mem hjk)) hvol
  have hposA : ∀ v ∈ a, 0 ≤ v := by
    intro v hv
    obtain ⟨j, hj, rfl⟩ := List.mem_iff_getElem.mp hv
    exact (hfac j hj).1
  have hsum0 : 0 ≤ a.sum := List.sum_nonneg hposA
  have hL : 0 < arraySum a := by
    rw [arraySum_eq_sum] at hz ⊢
    rcases lt_or_eq_of_le hsum0 with hlt | heq
    · exact hlt
    · exfalso; apply hz; simp [feq, ← heq]
  have hq0 : 0 < (g u).1 * arraySum a := mul_pos (hu _).1 hL
  have hqle : (g u).1 * arraySum a ≤ a.sum := by
    rw [arraySum_eq_sum]
    have := mul_le_mul_of_nonneg_right (hu u).2 hsum0
    simpa using this
  exact fire_natVec m ks Rs n hnet s.x a _ hnat.cur hnat.len hlenA hfac hq0 hqle

/-- **one step of the volume loop** (plain mass-action network without rules, uniforms in `(0, 1]`, a volume model
whose growth step keeps a positive volume positive). -/
theorem volumeStep_natState (g : Gen σ α) (m : SimModel α) (vm : VolModel α) (ks : List Nat) (Rs : List (List Nat))
    (n : Nat) (times : List α) (s : LoopState σ α) (hnet : MANet m ks Rs n) (hrate : ∀ k ∈ ks, 0 ≤ vecGet s.p k)
    (hu : ∀ st : σ, 0 < (g st).1 ∧ (g st).1 ≤ 1)
    (hgrow : ∀ (x p : List α) (t v dt : α), 0 < v → 0 < v + vm.step x p t v dt) (h : NatVolState n s) :
    NatVolState n (volumeStepSpec g m vm times s) ∧ (volumeStepSpec g m vm times s).p = s.p := by
  have hrule : applyRules m.rules s.x s.p s.vol s.t m.dt s.ruleStep = (s.x, s.p) := by simp [hnet.norules, applyRules]
  have hrec : ∀ k, ∀ r ∈ s.rows ++ replicateRow k s.x, IsNatVec r := by
    intro k r hr
    simp only [List.mem_append, replicateRow, List.mem_replicate] at hr
    rcases hr with hr | ⟨_, rfl⟩
    · exact h.nat.rows r hr
    · exact h.nat.cur
  have hfire := volume_fire_nat g m ks Rs n s hnet hrate hu h.nat h.vol
  unfold volumeStepSpec
  simp only [hrule]
  split_ifs
  all_goals first
    | exact ⟨⟨⟨h.nat.cur, h.nat.len, hrec _⟩, hgrow _ _ _ _ _ h.vol⟩, rfl⟩
    | exact ⟨⟨⟨h.nat.cur, h.nat.len, hrec _⟩, h.vol⟩, rfl⟩
    | exact ⟨⟨⟨(hfire _ (by assumption)).1, (hfire _ (by assumption)).2, hrec _⟩, h.vol⟩, rfl⟩

/-- **whole runs of the volume simulator**: every reported row of a plain mass-action network consists of whole,
non-negative counts, and the volume stays positive, for every stream of uniforms in `(0, 1]`. -/
theorem volume_run_nonneg (g : Gen σ α) (m : SimModel α) (vm : VolModel α) (ks : List Nat) (Rs : List (List Nat))
    (n : Nat) (times : List α) (hnet : MANet m ks Rs n) (hu : ∀ st : σ, 0 < (g st).1 ∧ (g st).1 ≤ 1)
    (hgrow : ∀ (x p : List α) (t v dt : α), 0 < v → 0 < v + vm.step x p t v dt)
    (fuel : Nat) (s s' : LoopState σ α) (hrate : ∀ k ∈ ks, 0 ≤ vecGet s.p k) (h : NatVolState n s)
    (hrun : runLoop (volumeIter g m vm times) times.length fuel s = some s') :
    (∀ r ∈ s'.rows, IsNatVec r) ∧ 0 < s'.vol := by
  have href := volume_refines_spec g m vm times fuel s
  rw [hrun] at href
  simp only [Option.map_some] at href
  have hgen : ∀ (fuel : Nat) (s s' : LoopState σ α), (∀ k ∈ ks, 0 ≤ vecGet s.p k) → NatVolState n s →
      runLoop (volumeStepSpec g m vm times) times.length fuel s = some s' → NatVolState n s' := by
    intro fuel
    induction fuel with
    | zero =>
      intro s s' _ h hrun
      unfold runLoop at hrun
      split at hrun
      · exact absurd hrun (by simp)
      · cases hrun; exact h
    | succ fuel ih =>
      intro s s' hrate h hrun
      unfold runLoop at hrun
      split at hrun
      · obtain ⟨hns, hp⟩ := volumeStep_natState g m vm ks Rs n times s hnet hrate hu hgrow h
        exact ih _ _ (by rw [hp]; exact hrate) hns hrun
      · cases hrun; exact h
  have hs : NatVolState n (strip s) := ⟨⟨h.nat.cur, h.nat.len, h.nat.rows⟩, h.vol⟩
  have := hgen fuel (strip s) (strip s') (by simpa [strip] using hrate) hs href.symm
  exact ⟨by simpa [strip] using this.nat.rows, by simpa [strip] using this.vol⟩

/-- every volume model of the library keeps a positive volume positive (its step is `(exp(·) - 1) · V` or `0`), so the
growth hypothesis of `volume_run_nonneg` is met by `Volume`, `StochasticTimeThresholdVolume` and
`StateDependentVolume` alike. -/
theorem volModel_keeps_positive (vm : VolModel α) (x p : List α) (t v dt : α) (hv : 0 < v) :
    0 < v + vm.step x p t v dt := by
  cases vm with
  | const => simpa [VolModel.step] using hv
  | timeThreshold gr divT =>
    have : v + (VolModel.timeThreshold gr divT).step x p t v dt = v * Transc.exp (gr * dt) := by
      simp [VolModel.step]; ring
    rw [this]; exact mul_pos hv (LawfulTransc.exp_pos _)
  | stateDep growth divV =>
    have : v + (VolModel.stateDep growth divV).step x p t v dt
        = v * Transc.exp (growth.eval (vecGet x) (vecGet p) t * dt) := by
      simp [VolModel.step]; ring
    rw [this]; exact mul_pos hv (LawfulTransc.exp_pos _)

end VolNonNeg

/-! ### Non-vacuity -/
example : (2 : ℚ) + ((3 : ℚ) / 2 - 1) * 2 = 2 * (3 / 2) := by norm_num

/-! ### The delay+volume loop: the volume changes on ticks only, by the volume model's step at the tick's time -/

/-- a tick (`step_type` 1) of the delay+volume loop grows the volume by the model's step evaluated at the time the tick
ends (`d.tNew`, the tick time itself), and asks the volume model about division at that time and volume. -/
theorem dv_tick_volume (g : Gen σ α) (m : SimModel α) (vm : VolModel α) (times : List α) (s : LoopState σ α)
    (d : DVDecision σ α) (h1 : d.stepType = 1) :
    (dvApply g m vm times s d).vol = s.vol + vm.step d.x d.p d.tNew s.vol m.dt
      ∧ (dvApply g m vm times s d).divided = vm.divided d.tNew (s.vol + vm.step d.x d.p d.tNew s.vol m.dt) m.dt
      ∧ (dvApply g m vm times s d).x = d.x := by
  unfold dvApply
  simp [h1]

/-- every other step (firing, delivery, move to the requested time) leaves the volume as it was. -/
theorem dv_other_volume (g : Gen σ α) (m : SimModel α) (vm : VolModel α) (times : List α) (s : LoopState σ α)
    (d : DVDecision σ α) (h1 : d.stepType ≠ 1) : (dvApply g m vm times s d).vol = s.vol := by
  unfold dvApply
  simp only
  split_ifs <;> (try split) <;> (try split_ifs) <;> first | rfl | (exfalso; exact h1 ‹_›)

/-- the time handed to the volume model on a tick is the tick that is ending: `s.nextTick`, not the following one. -/
theorem delayVolume_tick_time (g : Gen σ α) (m : SimModel α) (times : List α) (s : LoopState σ α)
    (h : (dvDecide g m times s).stepType = 1) : (dvDecide g m times s).tNew = s.nextTick := by
  unfold dvDecide at h ⊢
  simp only at h ⊢
  generalize dvPropose g m times s = pr at h ⊢
  revert h
  cases decide (pr.proposed < s.nextTick ∧ pr.proposed < s.q.next) <;> cases decide (s.nextTick < s.q.next) <;> simp
  all_goals split_ifs <;> simp

/-! ### Ties between the volume tick and the queue: the recorded finding, as a theorem

In the delay + volume loop a volume tick and a queue time that coincide are not taken together: the queue step comes first
(`elif next_vol_time < next_queued_reaction_time` is strict) and is not a tick; the division test runs only in tick steps.
At an interior grid time the tick follows in the next iteration; when the coinciding time is the last requested time the
loop ends once that row is written, so the division the volume model would report there is never asked for (known finding
`division/last-grid-time/delay+volume`). -/

/-- on a tie, with no reaction proposed earlier, the step is the queue's: not a tick, the tick stays pending. -/
theorem dv_tie_is_queue_step (g : Gen σ α) (m : SimModel α) (times : List α) (s : LoopState σ α)
    (htie : s.nextTick = s.q.next) (hlate : ¬ (dvPropose g m times s).proposed < s.nextTick) :
    (dvDecide g m times s).stepType = 2 ∧ (dvDecide g m times s).rstep = false
      ∧ (dvDecide g m times s).tNew = s.q.next ∧ (dvDecide g m times s).nextTick = s.nextTick := by
  unfold dvDecide
  simp only
  generalize dvPropose g m times s = pr at hlate ⊢
  have h1 : decide (pr.proposed < s.nextTick ∧ pr.proposed < s.q.next) = false := by
    simp only [decide_eq_false_iff_not, not_and]
    intro h; exact absurd h hlate
  have h2 : decide (s.nextTick < s.q.next) = false := by
    simp [htie]
  simp [h1, h2]

/-- a queue step never asks the volume model whether the cell divides. -/
theorem dv_queue_step_no_division_test (g : Gen σ α) (m : SimModel α) (vm : VolModel α) (times : List α) (s : LoopState σ α)
    (d : DVDecision σ α) (h2 : d.stepType = 2) :
    (dvApply g m vm times s d).divided = s.divided ∧ (dvApply g m vm times s d).stop = s.stop := by
  unfold dvApply
  simp [h2]

/-- **the finding**: if tick and queue time coincide at the last requested time and nothing fires before, that iteration
writes the last row(s) without a division test, and the loop is over — whatever the volume model would have reported. -/
theorem dv_tie_at_last_time_ends_undivided (g : Gen σ α) (m : SimModel α) (vm : VolModel α) (times : List α)
    (s : LoopState σ α) (fuel : Nat)
    (htie : s.nextTick = s.q.next) (hlate : ¬ (dvPropose g m times s).proposed < s.nextTick)
    (hdone : times.length ≤ (delayVolumeIter g m vm times s).idx) :
    runLoop (delayVolumeIter g m vm times) times.length fuel (delayVolumeIter g m vm times s)
      = some (delayVolumeIter g m vm times s)
    ∧ (delayVolumeIter g m vm times s).divided = s.divided := by
  constructor
  · cases fuel <;> (unfold runLoop; simp [Nat.not_lt.mpr hdone])
  · unfold delayVolumeIter
    exact (dv_queue_step_no_division_test g m vm times s _ (dv_tie_is_queue_step g m times s htie hlate).1).1

/-! ### Whole runs: as many rows as volume entries, and that many time points were reached -/

/-- any property preserved by one iteration holds for whatever state the loop returns. -/
theorem runLoop_preserves (iter : LoopState σ α → LoopState σ α) (n : Nat) (P : LoopState σ α → Prop)
    (hstep : ∀ s, P s → P (iter s)) :
    ∀ (fuel : Nat) (s s' : LoopState σ α), P s → runLoop iter n fuel s = some s' → P s' := by
  intro fuel
  induction fuel with
  | zero =>
    intro s s' h hrun
    unfold runLoop at hrun
    split at hrun
    · exact absurd hrun (by simp)
    · cases hrun; exact h
  | succ fuel ih =>
    intro s s' h hrun
    unfold runLoop at hrun
    split at hrun
    · exact ih _ _ (hstep s h) hrun
    · cases hrun; exact h

/-- the rows and the volume trace grow together with the index of the next time point. -/
def Recorded (s : LoopState σ α) : Prop := s.rows.length = s.idx ∧ s.volTrace.length = s.idx

theorem dvApply_recorded (g : Gen σ α) (m : SimModel α) (vm : VolModel α) (times : List α) (s : LoopState σ α)
    (d : DVDecision σ α) (h : Recorded s) : Recorded (dvApply g m vm times s d) := by
  unfold Recorded at h ⊢
  unfold dvApply
  simp only
  split_ifs <;> (try split) <;> (try split_ifs) <;>
    simp [replicateRow, List.length_append, List.length_replicate, h.1, h.2]

/-- **a delay+volume run that stops at a division returns as many rows as volume entries, one per time point reached**
(there is no further row: the arrays handed back are cut at the index the loop stopped at). -/
theorem delayVolume_run_recorded (g : Gen σ α) (m : SimModel α) (vm : VolModel α) (times : List α) (fuel : Nat)
    (s s' : LoopState σ α) (h : Recorded s)
    (hrun : runLoop (delayVolumeIter g m vm times) times.length fuel s = some s') : Recorded s' :=
  runLoop_preserves (delayVolumeIter g m vm times) times.length Recorded
    (fun s hs => dvApply_recorded g m vm times s (dvDecide g m times s) hs) fuel s s' h hrun

theorem volumeIter_recorded (g : Gen σ α) (m : SimModel α) (vm : VolModel α) (times : List α) (s : LoopState σ α)
    (h : Recorded s) : Recorded (volumeIter g m vm times s) := by
  unfold Recorded at h ⊢
  unfold volumeIter
  simp only
  split_ifs <;> simp [replicateRow, List.length_append, List.length_replicate, h.1, h.2]

/-- the same for the volume simulator: a run cut short by a division hands back exactly the rows it wrote. -/
theorem volume_run_recorded (g : Gen σ α) (m : SimModel α) (vm : VolModel α) (times : List α) (fuel : Nat)
    (s s' : LoopState σ α) (h : Recorded s)
    (hrun : runLoop (volumeIter g m vm times) times.length fuel s = some s') : Recorded s' :=
  runLoop_preserves (volumeIter g m vm times) times.length Recorded
    (fun s hs => volumeIter_recorded g m vm times s hs) fuel s s' h hrun

/-- the initial state has written nothing yet. -/
example (m : SimModel α) (x0 p0 : List α) (g0 : σ) (vol0 : α) (q0 : DQ α) : Recorded (initState m x0 p0 g0 vol0 q0) := by
  simp [Recorded, initState]

end Bioscrape.C11
