import Mathlib.Algebra.Order.Field.Basic
import Mathlib.Data.List.Count
import Mathlib.Tactic.Linarith
import BioscrapeModel.Model.Sbml
import BioscrapeModel.Properties.C03
import BioscrapeModel.Properties.C13
import BioscrapeModel.Properties.C14

/-
C12 — writing a model to SBML and reading it back preserves its behaviour.

Proved here: the annotation text written for a reaction is read back as exactly the key/value pairs
that were written, whenever names are valid SBML identifiers (no space, `=`), and the comma-separated delayed
reactants / products inside a delay annotation are read back as the names written (`delay_list_roundtrip`); the stoichiometry written
(distinct species with coefficients) and expanded on reading has the same counts, hence the same
immediate and delayed stoichiometric columns (C03); rule kinds survive (C13).  libsbml's XML round trip
is the identity by assumption; rate-law agreement after re-import is C01 (annotated types are rebuilt
from type + parameter names) and C02 (general rates); the check compares all of it end to end.
-/
set_option linter.unusedSectionVars false
set_option linter.unusedSimpArgs false

namespace Bioscrape.C12
open Bioscrape Bioscrape.Sbml

/-! ### `split` undoes `join` when no token contains the separator -/

theorem split_no_sep (c : Char) (w : List Char) (h : c ∉ w) : splitOnChar c w = [w] := by
  induction w with
  | nil => rfl
  | cons x rest ih =>
    have hx : x ≠ c := fun e => h (by simp [e])
    have hr : c ∉ rest := fun hm => h (List.mem_cons_of_mem _ hm)
    simp [splitOnChar, hx, ih hr]

theorem split_append_sep (c : Char) (w rest : List Char) (h : c ∉ w) :
    splitOnChar c (w ++ c :: rest) = w :: splitOnChar c rest := by
  induction w with
  | nil => simp [splitOnChar]
  | cons x w ih =>
    have hx : x ≠ c := fun e => h (by simp [e])
    have hr : c ∉ w := fun hm => h (List.mem_cons_of_mem _ hm)
    simp [splitOnChar, hx, ih hr]

/-- identifier-safe tokens: neither keys nor values contain a space or `=`. -/
def ValidTokens (kvs : List (List Char × List Char)) : Prop :=
  ∀ kv ∈ kvs, ' ' ∉ kv.1 ∧ '=' ∉ kv.1 ∧ ' ' ∉ kv.2 ∧ '=' ∉ kv.2

theorem split_encode (kvs : List (List Char × List Char)) (h : ValidTokens kvs) :
    splitOnChar ' ' (encodeAnnotation kvs) = [] :: kvs.map (fun kv => kv.1 ++ '=' :: kv.2) := by
  induction kvs with
  | nil => rfl
  | cons kv rest ih =>
    have hv := h kv (by simp)
    have hrest : ValidTokens rest := fun e he => h e (List.mem_cons_of_mem _ he)
    have htok : ' ' ∉ kv.1 ++ '=' :: kv.2 := by
      simp only [List.mem_append, List.mem_cons, not_or]
      exact ⟨hv.1, by decide, hv.2.2.1⟩
    have henc : encodeAnnotation (kv :: rest) = ' ' :: ((kv.1 ++ '=' :: kv.2) ++ encodeAnnotation rest) := by
      simp [encodeAnnotation, List.flatMap_cons]
    rw [henc]
    cases rest with
    | nil =>
      simp only [encodeAnnotation, List.flatMap_nil, List.append_nil, List.map_cons, List.map_nil]
      simp [splitOnChar, split_no_sep ' ' _ htok]
    | cons kv2 rest2 =>
      have ih' := ih hrest
      have henc2 : encodeAnnotation (kv2 :: rest2) = ' ' :: ((kv2.1 ++ '=' :: kv2.2) ++ encodeAnnotation rest2) := by
        simp [encodeAnnotation, List.flatMap_cons]
      rw [henc2] at ih' ⊢
      show splitOnChar ' ' (' ' :: ((kv.1 ++ '=' :: kv.2) ++ ' ' :: ((kv2.1 ++ '=' :: kv2.2) ++ encodeAnnotation rest2))) = _
      have : splitOnChar ' ' (' ' :: ((kv.1 ++ '=' :: kv.2) ++ ' ' :: ((kv2.1 ++ '=' :: kv2.2) ++ encodeAnnotation rest2)))
          = [] :: splitOnChar ' ' ((kv.1 ++ '=' :: kv.2) ++ ' ' :: ((kv2.1 ++ '=' :: kv2.2) ++ encodeAnnotation rest2)) := by
        simp [splitOnChar]
      rw [this, split_append_sep ' ' _ _ htok]
      have ih2 : splitOnChar ' ' (' ' :: ((kv2.1 ++ '=' :: kv2.2) ++ encodeAnnotation rest2))
          = [] :: splitOnChar ' ' ((kv2.1 ++ '=' :: kv2.2) ++ encodeAnnotation rest2) := by simp [splitOnChar]
      rw [ih2] at ih'
      simp only [List.map_cons, List.cons.injEq, true_and] at ih' ⊢
      exact ih'

/-- **annotation round trip**: the key/value pairs read back from the text written for a reaction (type,
parameter names, species names; delay type, delayed reactants/products, delay parameters) are exactly the
pairs that were written, in order. -/
theorem annotation_roundtrip (kvs : List (List Char × List Char)) (h : ValidTokens kvs) :
    decodeAnnotation (encodeAnnotation kvs) = kvs := by
  unfold decodeAnnotation
  rw [split_encode kvs h]
  simp only [List.filterMap_cons, List.not_mem_nil, if_false]
  induction kvs with
  | nil => rfl
  | cons kv rest ih =>
    have hv := h kv (by simp)
    have hrest : ValidTokens rest := fun e he => h e (List.mem_cons_of_mem _ he)
    simp only [List.map_cons, List.filterMap_cons]
    have hmem : '=' ∈ kv.1 ++ '=' :: kv.2 := by simp
    rw [if_pos hmem, split_append_sep '=' kv.1 kv.2 hv.2.1, split_no_sep '=' kv.2 hv.2.2.2]
    simp only [ih hrest]

/-- **two different annotations are never written as the same text**: the writer is injective on valid key/value lists
(otherwise a reader could not tell the two reactions apart). -/
theorem annotation_injective (kvs kvs' : List (List Char × List Char)) (h : ValidTokens kvs) (h' : ValidTokens kvs')
    (he : encodeAnnotation kvs = encodeAnnotation kvs') : kvs = kvs' := by
  have := congrArg decodeAnnotation he
  rwa [annotation_roundtrip kvs h, annotation_roundtrip kvs' h'] at this

/-- **writing again what was read gives the same text** (export ∘ import ∘ export = export at the annotation level): the
second-generation file does not drift from the first. -/
theorem annotation_reexport (kvs : List (List Char × List Char)) (h : ValidTokens kvs) :
    encodeAnnotation (decodeAnnotation (encodeAnnotation kvs)) = encodeAnnotation kvs := by
  rw [annotation_roundtrip kvs h]

/-! ### Comma-separated lists inside an annotation value (delayed reactants / products) -/

/-- **`v.split(',')` undoes `','.join(names)`** for a non-empty list of names without commas. -/
theorem split_join (c : Char) (ws : List (List Char)) (h : ∀ w ∈ ws, c ∉ w) (hne : ws ≠ []) :
    splitOnChar c (joinWith c ws) = ws := by
  induction ws with
  | nil => exact absurd rfl hne
  | cons w rest ih =>
    cases rest with
    | nil => simpa [joinWith] using split_no_sep c w (h w (by simp))
    | cons w2 rest2 =>
      have hw : c ∉ w := h w (by simp)
      have hrest : ∀ x ∈ w2 :: rest2, c ∉ x := fun x hx => h x (List.mem_cons_of_mem _ hx)
      show splitOnChar c (w ++ c :: joinWith c (w2 :: rest2)) = _
      rw [split_append_sep c w _ hw, ih hrest (by simp)]

theorem not_mem_join (c ch : Char) (ws : List (List Char)) (hw : ∀ w ∈ ws, ch ∉ w) (hc : ch ≠ c) :
    ch ∉ joinWith c ws := by
  induction ws with
  | nil => simp [joinWith]
  | cons w rest ih =>
    cases rest with
    | nil => simpa [joinWith] using hw w (by simp)
    | cons w2 rest2 =>
      show ch ∉ w ++ c :: joinWith c (w2 :: rest2)
      simp only [List.mem_append, List.mem_cons, not_or]
      exact ⟨hw w (by simp), hc, ih (fun x hx => hw x (List.mem_cons_of_mem _ hx))⟩

/-- an empty list is written as the empty text and read back as the list holding one empty name (`''.split(',')` is
`['']`): the importer's reactions carry that empty name, which names no species. -/
theorem split_join_empty (c : Char) : splitOnChar c (joinWith c []) = [[]] := rfl

/-- **delayed reactants and products survive the annotation**: the pair `reactants=<names joined by commas>` written
into the delay annotation is read back (token split at `=`, value split at `,`) as the names that were written. -/
theorem delay_list_roundtrip (key : List Char) (names : List (List Char)) (hk : ' ' ∉ key ∧ '=' ∉ key)
    (hn : ∀ w ∈ names, ',' ∉ w ∧ ' ' ∉ w ∧ '=' ∉ w) (hne : names ≠ []) :
    (decodeAnnotation (encodeAnnotation [(key, joinWith ',' names)])).map (fun kv => (kv.1, splitOnChar ',' kv.2))
      = [(key, names)] := by
  have hjoin := fun ch (hw : ∀ w ∈ names, ch ∉ w) (hc : ch ≠ ',') => not_mem_join ',' ch names hw hc
  have hvalid : ValidTokens [(key, joinWith ',' names)] := by
    intro kv hkv
    simp only [List.mem_singleton] at hkv
    subst hkv
    exact ⟨hk.1, hk.2, hjoin ' ' (fun w hw => (hn w hw).2.1) (by decide), hjoin '=' (fun w hw => (hn w hw).2.2) (by decide)⟩
  rw [annotation_roundtrip _ hvalid]
  simp [split_join ',' names (fun w hw => (hn w hw).1) hne]

example : splitOnChar ',' (joinWith ',' ["T".toList, "T".toList, "A".toList]) = ["T".toList, "T".toList, "A".toList] := by
  decide

/-! ### Stoichiometry written and read back -/

theorem cntS_expand (sp : List (String × Nat)) (s : String) (hnd : (sp.map (·.1)).Nodup) :
    (expand sp).count s = C14.cntS sp s := by
  induction sp with
  | nil => simp [expand, C14.cntS]
  | cons sc rest ih =>
    obtain ⟨n, c⟩ := sc
    rw [C13.expand_count_cons]
    have hnd' : (rest.map (·.1)).Nodup := (List.nodup_cons.mp hnd).2
    have hnot : n ∉ rest.map (·.1) := (List.nodup_cons.mp hnd).1
    by_cases h : n = s
    · subst h
      have hzero : ∀ (l : List (String × Nat)), n ∉ l.map (·.1) → C14.cntS l n = 0 := by
        intro l
        induction l with
        | nil => intro _; rfl
        | cons e r ihr =>
          intro hn
          have hne : e.1 ≠ n := fun eq => hn (by simp [eq])
          have hr : n ∉ r.map (·.1) := fun hm => hn (by simp at hm ⊢; exact Or.inr hm)
          obtain ⟨en, ec⟩ := e
          simp only [C14.cntS, hne, if_false]
          exact ihr hr
      have : (expand rest).count n = 0 := by rw [ih hnd', hzero rest hnot]
      simp [C14.cntS, this]
    · simp [C14.cntS, h, ih hnd']

theorem bumpName_keys_nodup (sp : List (String × Nat)) (s : String) (h : (sp.map (·.1)).Nodup) :
    ((bumpName sp s).map (·.1)).Nodup := by
  induction sp with
  | nil => simp [bumpName]
  | cons e rest ih =>
    obtain ⟨n, c⟩ := e
    unfold bumpName
    split
    · simpa using h
    · rename_i hne
      have hnd := List.nodup_cons.mp h
      simp only [List.map_cons, List.nodup_cons]
      refine ⟨?_, ih hnd.2⟩
      intro hm
      -- keys of bumpName rest s are keys of rest plus possibly s
      have keys : ∀ (l : List (String × Nat)) k, k ∈ (bumpName l s).map (·.1) → k ∈ l.map (·.1) ∨ k = s := by
        intro l
        induction l with
        | nil => intro k hk; simp [bumpName] at hk; exact Or.inr hk
        | cons e2 l2 ih2 =>
          obtain ⟨n2, c2⟩ := e2
          intro k hk
          unfold bumpName at hk
          split at hk
          · left; simpa using hk
          · simp only [List.map_cons, List.mem_cons] at hk ⊢
            rcases hk with hk | hk
            · left; left; exact hk
            · rcases ih2 k hk with h1 | h1
              · left; right; exact h1
              · right; exact h1
      rcases keys rest n hm with h1 | h1
      · exact hnd.1 h1
      · exact hne h1

theorem dedupCount_keys_nodup (R : List String) : ((dedupCount R).map (·.1)).Nodup := by
  unfold dedupCount
  have : ∀ sp : List (String × Nat), (sp.map (·.1)).Nodup → ((R.foldl bumpName sp).map (·.1)).Nodup := by
    induction R with
    | nil => intro sp h; simpa using h
    | cons a rest ih => intro sp h; rw [List.foldl_cons]; exact ih _ (bumpName_keys_nodup sp a h)
  exact this [] (by simp)

/-- **stoichiometry round trip**: writing the distinct species with their coefficients and expanding them
again on reading gives every species the multiplicity it had. -/
theorem stoich_roundtrip_count (R : List String) (s : String) : (expand (dedupCount R)).count s = R.count s := by
  rw [cntS_expand _ s (dedupCount_keys_nodup R), C14.doc_stoich]

/-- hence the immediate and the delayed stoichiometric columns of the re-imported reaction equal the
original ones, in every species order. -/
theorem stoich_roundtrip (idx R P : List String) :
    stoichColumn idx (expand (dedupCount R)) (expand (dedupCount P)) = stoichColumn idx R P := by
  unfold stoichColumn
  apply List.map_congr_left
  intro s _
  rw [C03.updateDict_entry, C03.updateDict_entry, stoich_roundtrip_count, stoich_roundtrip_count]

/-- the stoichiometry read back, written and read again is still the original's (any number of generations is then an
induction on this step). -/
theorem stoich_roundtrip_twice (idx R P : List String) :
    stoichColumn idx (expand (dedupCount (expand (dedupCount R)))) (expand (dedupCount (expand (dedupCount P))))
      = stoichColumn idx R P := by
  rw [stoich_roundtrip, stoich_roundtrip]

/-! ### Non-vacuity -/
example : decodeAnnotation (encodeAnnotation [("type".toList, "massaction".toList), ("k".toList, "k1".toList)])
    = [("type".toList, "massaction".toList), ("k".toList, "k1".toList)] := by
  apply annotation_roundtrip
  intro kv hkv
  simp at hkv
  rcases hkv with h | h <;> subst h <;> decide

end Bioscrape.C12
