import Mathlib.Algebra.Order.Field.Basic
import Mathlib.Data.List.Count
import Mathlib.Tactic.Linarith
import BioscrapeModel.Proofs.Laws
import BioscrapeModel.Model.Sbml
import BioscrapeModel.Model.PowText
import BioscrapeModel.Properties.C03

/-
C13 — an imported SBML file has the semantics of the SBML document.
-/
set_option linter.unusedSectionVars false
set_option linter.unusedSimpArgs false

namespace Bioscrape.C13
open Bioscrape Bioscrape.Sbml

variable {α : Type}

/-! ### Rules: any number, any order -/

def isAssign (known : String → Bool) (r : SbmlRule α) : Bool := known r.var && r.kind == .assignment
def isRate (known : String → Bool) (r : SbmlRule α) : Bool := known r.var && r.kind == .rate

theorem importRules_acc (known : String → Bool) (rules : List (SbmlRule α)) (acc : Imported α) :
    rules.foldl (importStep known) acc
      = { assignments := acc.assignments ++ (rules.filter (isAssign known)).map (fun r => (r.var, r.math)),
          rateReactions := acc.rateReactions ++ (rules.filter (isRate known)).map (fun r => (r.var, r.math)) } := by
  induction rules generalizing acc with
  | nil => simp
  | cons r rest ih =>
    rw [List.foldl_cons, ih]
    unfold importStep
    cases hk : known r.var <;> cases hkind : r.kind <;> simp [isAssign, isRate, hk, hkind, List.filter_cons]

/-- **every assignment rule becomes a repeated assignment, every rate rule contributes its formula exactly
once to its variable and to nothing else** — for any number and any order of rules: the imported
assignments are exactly the document's assignment rules in order, the extra reactions `∅ → variable` are
exactly the document's rate rules in order, and nothing carries over from one rule to the next. -/
theorem importRules_spec (known : String → Bool) (rules : List (SbmlRule α)) :
    (importRules known rules).assignments = (rules.filter (isAssign known)).map (fun r => (r.var, r.math))
    ∧ (importRules known rules).rateReactions = (rules.filter (isRate known)).map (fun r => (r.var, r.math)) := by
  unfold importRules
  rw [importRules_acc]
  simp

/-- **rules are imported one by one**: what a document contributes is what its first part contributes followed by what
the rest contributes — no rule's import depends on the rules before it (the defect repaired on this tree was exactly a
carry-over between consecutive rules). -/
theorem importRules_append (known : String → Bool) (r1 r2 : List (SbmlRule α)) :
    (importRules known (r1 ++ r2)).assignments
        = (importRules known r1).assignments ++ (importRules known r2).assignments
    ∧ (importRules known (r1 ++ r2)).rateReactions
        = (importRules known r1).rateReactions ++ (importRules known r2).rateReactions := by
  simp only [(importRules_spec known _).1, (importRules_spec known _).2, List.filter_append, List.map_append]
  exact ⟨trivial, trivial⟩

/-- inserting, removing or moving rate rules (or algebraic rules, or rules for unknown variables) anywhere in the
document leaves the imported assignments untouched, and vice versa. -/
theorem assignments_only_from_assignment_rules (known : String → Bool) (rules rules' : List (SbmlRule α))
    (h : rules.filter (isAssign known) = rules'.filter (isAssign known)) :
    (importRules known rules).assignments = (importRules known rules').assignments := by
  rw [(importRules_spec known rules).1, (importRules_spec known rules').1, h]

theorem rateReactions_only_from_rate_rules (known : String → Bool) (rules rules' : List (SbmlRule α))
    (h : rules.filter (isRate known) = rules'.filter (isRate known)) :
    (importRules known rules).rateReactions = (importRules known rules').rateReactions := by
  rw [(importRules_spec known rules).2, (importRules_spec known rules').2, h]

/-- the number of reactions created for rate rules is the number of rate rules (none doubled, none lost). -/
theorem rate_rule_once (known : String → Bool) (rules : List (SbmlRule α)) :
    (importRules known rules).rateReactions.length = (rules.filter (isRate known)).length := by
  rw [(importRules_spec known rules).2]; simp

/-- a rate-rule reaction `∅ → v` changes `v` by `+1 · formula` and no other species. -/
theorem rate_reaction_stoich (v s : String) :
    dictGet (updateDict [] [v]) s = if s = v then 1 else 0 := by
  rw [C03.updateDict_entry]
  by_cases h : s = v
  · subst h; simp
  · have : ¬ (v == s) = true := by simpa using (fun e => h e.symm)
    simp [h, List.count_cons, this]

/-! ### Integer stoichiometries -/

theorem expand_count_cons (r : String × Nat) (rest : List (String × Nat)) (s : String) :
    (expand (r :: rest)).count s = (if r.1 = s then r.2 else 0) + (expand rest).count s := by
  unfold expand
  simp only [List.flatMap_cons, List.count_append]
  congr 1
  by_cases h : r.1 = s
  · subst h; simp [List.count_replicate]
  · simp [List.count_replicate, h]

/-- a species reference with stoichiometry `n` (1, 2, 3, …) is honoured: the reactant list handed to the
model contains the species `n` times (per reference; references to the same species add up). -/
theorem expand_count (refs : List (String × Nat)) (s : String) :
    (expand refs).count s = ((refs.filter (fun r => r.1 = s)).map (·.2)).sum := by
  induction refs with
  | nil => simp [expand]
  | cons r rest ih =>
    rw [expand_count_cons, ih]
    by_cases h : r.1 = s <;> simp [List.filter_cons, h]

/-! ### Initial amount and concentration -/

theorem initial_amount_precedence [Zero α] [DecidableEq α] (a c : α) (ha : a ≠ 0) :
    initialValue (some a) (some c) = a := by
  simp [initialValue, ha]

theorem initial_concentration_when_no_amount [Zero α] [DecidableEq α] (c : α) :
    initialValue (none : Option α) (some c) = c ∧ initialValue (some (0 : α)) (some c) = c := by
  simp [initialValue]

theorem initial_amount_only [Zero α] [DecidableEq α] (a : α) : initialValue (some a) none = a := by
  simp [initialValue]

/-! ### Local parameters bind only in their reaction -/

section rename
variable [Zero α] [One α] [Add α] [Sub α] [Mul α] [Div α] [Neg α]
  [LT α] [LE α] [DecidableLT α] [DecidableLE α] [Transc α]

mutual
/-- renaming a local parameter to a fresh global name does not change what the kinetic law means: the law
evaluated among the model's globals (where the renamed parameter carries the local's value) equals the
law evaluated in the reaction's own scope (globals shadowed by the local). -/
theorem rename_eval (old new : String) (env env' : Env α) (hnew : env' new = env old)
    (hother : ∀ s, s ≠ old → env' s = env s) :
    ∀ e : Expr α, Expr.eval env' (rename old new e) = Expr.eval env e
  | .num v => by simp [rename, Expr.eval]
  | .ident s => by
      simp only [rename, Expr.eval]
      by_cases h : s = old
      · subst h; simp [hnew]
      · simp [h, hother s h]
  | .add a b => by simp [rename, Expr.eval, rename_eval old new env env' hnew hother a, rename_eval old new env env' hnew hother b]
  | .sub a b => by simp [rename, Expr.eval, rename_eval old new env env' hnew hother a, rename_eval old new env env' hnew hother b]
  | .mul a b => by simp [rename, Expr.eval, rename_eval old new env env' hnew hother a, rename_eval old new env env' hnew hother b]
  | .div a b => by simp [rename, Expr.eval, rename_eval old new env env' hnew hother a, rename_eval old new env env' hnew hother b]
  | .pow a b => by simp [rename, Expr.eval, rename_eval old new env env' hnew hother a, rename_eval old new env env' hnew hother b]
  | .neg a => by simp [rename, Expr.eval, rename_eval old new env env' hnew hother a]
  | .exp a => by simp [rename, Expr.eval, rename_eval old new env env' hnew hother a]
  | .log a => by simp [rename, Expr.eval, rename_eval old new env env' hnew hother a]
  | .abs a => by simp [rename, Expr.eval, rename_eval old new env env' hnew hother a]
  | .step a => by simp [rename, Expr.eval, rename_eval old new env env' hnew hother a]
  | .max args => by simp [rename, Expr.eval, renameList_eval old new env env' hnew hother args]
  | .min args => by simp [rename, Expr.eval, renameList_eval old new env env' hnew hother args]
theorem renameList_eval (old new : String) (env env' : Env α) (hnew : env' new = env old)
    (hother : ∀ s, s ≠ old → env' s = env s) :
    ∀ es : List (Expr α), Expr.evalList env' (rename.renameList old new es) = Expr.evalList env es
  | [] => by simp [rename.renameList, Expr.evalList]
  | a :: rest => by
      simp [rename.renameList, Expr.evalList, rename_eval old new env env' hnew hother a,
        renameList_eval old new env env' hnew hother rest]
end

end rename

/-- a local parameter whose id clashes is renamed `id_reactionId`; one that does not clash keeps its id. -/
theorem importLocals_clash (rxnId k : String) (v : α) (taken : List String) (law : Expr α) (h : k ∈ taken) :
    importLocals rxnId taken [(k, v)] law = ([(k ++ "_" ++ rxnId, v)], rename k (k ++ "_" ++ rxnId) law) := by
  simp [importLocals, h]

theorem importLocals_fresh (rxnId k : String) (v : α) (taken : List String) (law : Expr α) (h : k ∉ taken) :
    importLocals rxnId taken [(k, v)] law = ([(k, v)], law) := by
  simp [importLocals, h]

/-! ### Non-vacuity: a rate rule after an assignment rule, then another assignment rule -/
example : (importRules (α := ℚ) (fun _ => true)
    [⟨.assignment, "S", .ident "A"⟩, ⟨.rate, "X", .num 2⟩, ⟨.assignment, "T", .ident "B"⟩]).assignments.map (·.1) = ["S", "T"]
  ∧ (importRules (α := ℚ) (fun _ => true)
    [⟨.assignment, "S", .ident "A"⟩, ⟨.rate, "X", .num 2⟩, ⟨.assignment, "T", .ident "B"⟩]).rateReactions.map (·.1) = ["X"] := by
  simp [importRules, importStep]



/-! ### The text between the document and the importer: powers

`Model/PowText.lean`: libsbml's printer (`printL3`) and the reader of its text (`readE`).  For **every** expression tree the
reader returns `readBack e` — the left spine of every power re-associated to the right (`read_print_readBack`); that is the tree
that was written exactly when no power has a power as its base (`readBack_eq_iff`), and never otherwise
(`pow_of_pow_misread`: the known finding, for every instance).  The check compares `printL3` with
`libsbml.formulaToL3String` and the importer's rate with the value of `readBack e` on every tree shape up to three powers. -/

open Bioscrape.PowText

def noHat (rest : List PTok) : Prop := rest.head? ≠ some .hat

theorem read_print (e : PowTree) (h : leftAtomic e = true) :
    ∀ (fuel : Nat) (rest : List PTok), size e ≤ fuel → noHat rest → readE fuel (printL3 e ++ rest) = some (e, rest) := by
  induction e with
  | atom n =>
    intro fuel rest hf hr
    cases fuel with
    | zero => simp [size] at hf
    | succ f =>
      cases rest with
      | nil => simp [printL3, readE]
      | cons t rest =>
        cases t <;> simp_all [printL3, readE, noHat]
  | pow a b iha ihb =>
    intro fuel rest hf hr
    cases a with
    | pow _ _ => simp [leftAtomic] at h
    | atom n =>
      have hb : leftAtomic b = true := by simpa [leftAtomic] using h
      cases fuel with
      | zero => simp [size] at hf
      | succ f =>
        have hsz : size b + 1 ≤ f := by simp [size] at hf; omega
        cases b with
        | atom m =>
          have := ihb hb f rest (by simp [size] at hsz ⊢; omega) hr
          simp only [printL3, wrapIfPow, List.append_assoc, List.cons_append, List.nil_append] at this ⊢
          simp [readE, this]
        | pow b1 b2 =>
          cases f with
          | zero => simp [size] at hsz
          | succ f' =>
            have := ihb hb f' (.rp :: rest) (by omega) (by simp [noHat])
            simp only [printL3, wrapIfPow, List.append_assoc, List.cons_append, List.nil_append] at this ⊢
            cases rest with
            | nil => simp [readE, this]
            | cons t rest => cases t <;> simp_all [readE, noHat]

/-- **round trip on the fragment the printer writes unambiguously** -/
theorem roundtrip_leftAtomic (e : PowTree) (h : leftAtomic e = true) : readE (size e) (printL3 e) = some (e, []) := by
  have := read_print e h (size e) [] (Nat.le_refl _) (by simp [noHat])
  simpa using this

/-- **the finding**: a power of a power is written `x^y^z` and read back as `x^(y^z)`. -/
theorem misread (x y z : Nat) :
    readE 5 (printL3 (.pow (.pow (.atom x) (.atom y)) (.atom z))) = some (.pow (.atom x) (.pow (.atom y) (.atom z)), []) := by
  simp [printL3, wrapIfPow, readE]

/-- the two trees differ, so the round trip does not return what was written. -/
theorem misread_ne (x y z : Nat) :
    (PowTree.pow (.pow (.atom x) (.atom y)) (.atom z)) ≠ .pow (.atom x) (.pow (.atom y) (.atom z)) := by
  intro h; cases h

theorem readE_mono : ∀ (f : Nat) (ts : List PTok) (r : PowTree × List PTok), readE f ts = some r → readE (f + 1) ts = some r := by
  intro f
  induction f with
  | zero => intro ts r h; simp [readE] at h
  | succ f ih =>
    intro ts r h
    unfold readE at h ⊢
    cases ts with
    | nil => simp at h
    | cons t rest =>
      cases t with
      | id n =>
        simp only at h ⊢
        cases rest with
        | nil => simpa using h
        | cons t2 rest2 =>
          cases t2 with
          | hat =>
            simp only at h ⊢
            cases hr : readE f rest2 with
            | none => simp [hr] at h
            | some q => rw [ih _ _ hr]; simpa [hr] using h
          | id _ => simpa using h
          | lp => simpa using h
          | rp => simpa using h
      | lp =>
        simp only at h ⊢
        cases hr : readE f rest with
        | none => simp [hr] at h
        | some q =>
          rw [ih _ _ hr]
          rw [hr] at h
          obtain ⟨e, k⟩ := q
          cases k with
          | nil => simp at h
          | cons t2 k2 =>
            cases t2 with
            | rp =>
              simp only at h ⊢
              cases k2 with
              | nil => simpa using h
              | cons t3 k3 =>
                cases t3 with
                | hat =>
                  simp only at h ⊢
                  cases hr2 : readE f k3 with
                  | none => simp [hr2] at h
                  | some q2 => rw [ih _ _ hr2]; simpa [hr2] using h
                | id _ => simpa using h
                | lp => simpa using h
                | rp => simpa using h
            | id _ => simp at h
            | lp => simp at h
            | hat => simp at h
      | hat => simp at h
      | rp => simp at h

theorem readE_mono_le (f f' : Nat) (hle : f ≤ f') (ts : List PTok) (r : PowTree × List PTok) (h : readE f ts = some r) :
    readE f' ts = some r := by
  induction hle with
  | refl => exact h
  | step _ ih => exact readE_mono _ _ _ ih

/-- reads of this text succeed with every large enough amount of fuel. -/
def Reads (ts : List PTok) (e : PowTree) (rest : List PTok) : Prop := ∃ F, ∀ fuel, F ≤ fuel → readE fuel ts = some (e, rest)

/-- what follows the text of `e`: nothing that continues the power chain, or `^` and a text read as `t`. -/
def ContOK (tl : Option PowTree) (k rest : List PTok) : Prop :=
  match tl with
  | none => k = rest ∧ noHat rest
  | some t => ∃ k', k = .hat :: k' ∧ Reads k' t rest

theorem reads_prim_then (e : PowTree) (pre k rest : List PTok) (tl : Option PowTree)
    (hprim : ∀ fuel, readE (fuel + 1) (pre ++ k) =
      (match (some (e, k) : Option (PowTree × List PTok)) with
       | none => none
       | some (e, .hat :: rest') => (match readE fuel rest' with | some (r, rs) => some (.pow e r, rs) | none => none)
       | some (e, rest) => some (e, rest)))
    (hk : ContOK tl k rest) :
    Reads (pre ++ k) (tailOf tl e) rest := by
  cases tl with
  | none =>
    obtain ⟨rfl, hr⟩ := hk
    refine ⟨1, fun fuel hf => ?_⟩
    obtain ⟨f, rfl⟩ : ∃ f, fuel = f + 1 := ⟨fuel - 1, by omega⟩
    rw [hprim]
    cases k with
    | nil => rfl
    | cons t k =>
      cases t with
      | hat => exact (hr rfl).elim
      | id _ => rfl
      | lp => rfl
      | rp => rfl
  | some t =>
    obtain ⟨k', rfl, F, hF⟩ := hk
    refine ⟨F + 1, fun fuel hf => ?_⟩
    obtain ⟨f, rfl⟩ : ∃ f, fuel = f + 1 := ⟨fuel - 1, by omega⟩
    rw [hprim]
    simp [hF f (by omega), tailOf]

theorem read_print_acc (e : PowTree) :
    ∀ (tl : Option PowTree) (k rest : List PTok), ContOK tl k rest → Reads (printL3 e ++ k) (normAcc e tl) rest := by
  induction e with
  | atom n =>
    intro tl k rest hk
    have := reads_prim_then (.atom n) [.id n] k rest tl (fun fuel => by first | rfl | (simp only [readE, List.cons_append, List.nil_append]; rfl)) hk
    cases tl <;> simpa [printL3, normAcc, tailOf] using this
  | pow a b iha ihb =>
    intro tl k rest hk
    -- the right operand followed by `k` reads as `T`
    have hT : Reads (wrapIfPow b (printL3 b) ++ k) (tailOf tl (normAcc b none)) rest := by
      cases b with
      | atom m =>
        have := reads_prim_then (.atom m) [.id m] k rest tl (fun fuel => by first | rfl | (simp only [readE, List.cons_append, List.nil_append]; rfl)) hk
        simpa [wrapIfPow, printL3, normAcc] using this
      | pow b1 b2 =>
        show Reads _ (tailOf tl (normAcc (.pow b1 b2) none)) rest
        obtain ⟨F, hF⟩ := ihb none (.rp :: k) (.rp :: k) ⟨rfl, by simp [noHat]⟩
        -- with enough fuel the parenthesised operand is a primary
        cases tl with
        | none =>
          obtain ⟨rfl, hr⟩ := hk
          refine ⟨F + 1, fun fuel hf => ?_⟩
          obtain ⟨f, rfl⟩ : ∃ f, fuel = f + 1 := ⟨fuel - 1, by omega⟩
          have h1 := hF f (by omega)
          simp only [wrapIfPow, List.append_assoc, List.cons_append, List.nil_append] at h1 ⊢
          cases k with
          | nil => simp [readE, h1, tailOf]
          | cons t k =>
            cases t with
            | hat => exact (hr rfl).elim
            | id _ => simp [readE, h1, tailOf]
            | lp => simp [readE, h1, tailOf]
            | rp => simp [readE, h1, tailOf]
        | some t =>
          obtain ⟨k', rfl, F2, hF2⟩ := hk
          refine ⟨max F F2 + 1, fun fuel hf => ?_⟩
          obtain ⟨f, rfl⟩ : ∃ f, fuel = f + 1 := ⟨fuel - 1, by omega⟩
          have h1 := hF f (by omega)
          have h2 := hF2 f (by omega)
          simp only [wrapIfPow, List.append_assoc, List.cons_append, List.nil_append] at h1 ⊢
          simp [readE, h1, h2, tailOf]
    have := iha (some (tailOf tl (normAcc b none)))
      (.hat :: (wrapIfPow b (printL3 b) ++ k)) rest ⟨_, rfl, hT⟩
    simpa [printL3, normAcc, List.append_assoc] using this

/-- **what the round trip returns, for every tree**: the text of `e` is read as `readBack e`. -/
theorem read_print_readBack (e : PowTree) : Reads (printL3 e) (readBack e) [] := by
  have := read_print_acc e none [] [] ⟨rfl, by simp [noHat]⟩
  simpa [readBack] using this

/-- read with a continuation, the result is always `identifier ^ something`. -/
theorem normAcc_some_shape (e : PowTree) : ∀ t, ∃ n r, normAcc e (some t) = .pow (.atom n) r := by
  induction e with
  | atom n => intro t; exact ⟨n, t, rfl⟩
  | pow a b iha _ => intro t; exact iha _

theorem readBack_pow_atom (n : Nat) (b : PowTree) : readBack (.pow (.atom n) b) = .pow (.atom n) (readBack b) := by
  simp [readBack, normAcc, tailOf]

/-- **the round trip returns the tree that was written exactly when no power has a power as its base.** -/
theorem readBack_eq_iff (e : PowTree) : readBack e = e ↔ leftAtomic e = true := by
  induction e with
  | atom n => simp [readBack, normAcc, leftAtomic]
  | pow a b _ ihb =>
    cases a with
    | atom n =>
      rw [readBack_pow_atom]
      simp only [leftAtomic, PowTree.pow.injEq, true_and]
      exact ihb
    | pow a1 a2 =>
      simp only [leftAtomic]
      constructor
      · intro h
        have : readBack (.pow (.pow a1 a2) b) = normAcc (.pow a1 a2) (some (normAcc b none)) := by
          simp [readBack, normAcc, tailOf]
        obtain ⟨n, r, hs⟩ := normAcc_some_shape (.pow a1 a2) (normAcc b none)
        rw [this, hs] at h
        cases h
      · intro h; cases h

/-- a power of a power is never returned as written. -/
theorem pow_of_pow_misread (a1 a2 b : PowTree) : readBack (.pow (.pow a1 a2) b) ≠ .pow (.pow a1 a2) b := by
  intro h
  have := (readBack_eq_iff _).mp h
  simp [leftAtomic] at this


end Bioscrape.C13
