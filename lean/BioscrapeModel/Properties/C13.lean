import Mathlib.Algebra.Order.Field.Basic
import Mathlib.Data.List.Count
import Mathlib.Tactic.Linarith
import BioscrapeModel.Proofs.Laws
import BioscrapeModel.Model.Sbml
import BioscrapeModel.Properties.C03

/-
C13 — an imported SBML file has the semantics of the SBML document.
-/
set_option linter.unusedSectionVars false
set_option linter.unusedSimpArgs false

namespace Bioscrape.C13
open Bioscrape Bioscrape.Sbml

variable {α : Type}

/-! ### Rules: any number, any order -/

def isAssign (known : String → Bool) (r : SbmlRule α) : Bool := known r.var && r.kind == .assignment
def isRate (known : String → Bool) (r : SbmlRule α) : Bool := known r.var && r.kind == .rate

theorem importRules_acc (known : String → Bool) (rules : List (SbmlRule α)) (acc : Imported α) :
    rules.foldl (importStep known) acc
      = { assignments := acc.assignments ++ (rules.filter (isAssign known)).map (fun r => (r.var, r.math)),
          rateReactions := acc.rateReactions ++ (rules.filter (isRate known)).map (fun r => (r.var, r.math)) } := by
  induction rules generalizing acc with
  | nil => simp
  | cons r rest ih =>
    rw [List.foldl_cons, ih]
    unfold importStep
    cases hk : known r.var <;> cases hkind : r.kind <;> simp [isAssign, isRate, hk, hkind, List.filter_cons]

/-- **every assignment rule becomes a repeated assignment, every rate rule contributes its formula exactly
once to its variable and to nothing else** — for any number and any order of rules: the imported
assignments are exactly the document's assignment rules in order, the extra reactions `∅ → variable` are
exactly the document's rate rules in order, and nothing carries over from one rule to the next. -/
theorem importRules_spec (known : String → Bool) (rules : List (SbmlRule α)) :
    (importRules known rules).assignments = (rules.filter (isAssign known)).map (fun r => (r.var, r.math))
    ∧ (importRules known rules).rateReactions = (rules.filter (isRate known)).map (fun r => (r.var, r.math)) := by
  unfold importRules
  rw [importRules_acc]
  simp

/-- the number of reactions created for rate rules is the number of rate rules (none doubled, none lost). -/
theorem rate_rule_once (known : String → Bool) (rules : List (SbmlRule α)) :
    (importRules known rules).rateReactions.length = (rules.filter (isRate known)).length := by
  rw [(importRules_spec known rules).2]; simp

/-- a rate-rule reaction `∅ → v` changes `v` by `+1 · formula` and no other species. -/
theorem rate_reaction_stoich (v s : String) :
    dictGet (updateDict [] [v]) s = if s = v then 1 else 0 := by
  rw [C03.updateDict_entry]
  by_cases h : s = v
  · subst h; simp
  · have : ¬ (v == s) = true := by simpa using (fun e => h e.symm)
    simp [h, List.count_cons, this]

/-! ### Integer stoichiometries -/

theorem expand_count_cons (r : String × Nat) (rest : List (String × Nat)) (s : String) :
    (expand (r :: rest)).count s = (if r.1 = s then r.2 else 0) + (expand rest).count s := by
  unfold expand
  simp only [List.flatMap_cons, List.count_append]
  congr 1
  by_cases h : r.1 = s
  · subst h; simp [List.count_replicate]
  · simp [List.count_replicate, h]

/-- a species reference with stoichiometry `n` (1, 2, 3, …) is honoured: the reactant list handed to the
model contains the species `n` times (per reference; references to the same species add up). -/
theorem expand_count (refs : List (String × Nat)) (s : String) :
    (expand refs).count s = ((refs.filter (fun r => r.1 = s)).map (·.2)).sum := by
  induction refs with
  | nil => simp [expand]
  | cons r rest ih =>
    rw [expand_count_cons, ih]
    by_cases h : r.1 = s <;> simp [List.filter_cons, h]

/-! ### Initial amount and concentration -/

theorem initial_amount_precedence [Zero α] [DecidableEq α] (a c : α) (ha : a ≠ 0) :
    initialValue (some a) (some c) = a := by
  simp [initialValue, ha]

theorem initial_concentration_when_no_amount [Zero α] [DecidableEq α] (c : α) :
    initialValue (none : Option α) (some c) = c ∧ initialValue (some (0 : α)) (some c) = c := by
  simp [initialValue]

theorem initial_amount_only [Zero α] [DecidableEq α] (a : α) : initialValue (some a) none = a := by
  simp [initialValue]

/-! ### Local parameters bind only in their reaction -/

section rename
variable [Zero α] [One α] [Add α] [Sub α] [Mul α] [Div α] [Neg α]
  [LT α] [LE α] [DecidableLT α] [DecidableLE α] [Transc α]

mutual
/-- renaming a local parameter to a fresh global name does not change what the kinetic law means: the law
evaluated among the model's globals (where the renamed parameter carries the local's value) equals the
law evaluated in the reaction's own scope (globals shadowed by the local). -/
theorem rename_eval (old new : String) (env env' : Env α) (hnew : env' new = env old)
    (hother : ∀ s, s ≠ old → env' s = env s) :
    ∀ e : Expr α, Expr.eval env' (rename old new e) = Expr.eval env e
  | .num v => by simp [rename, Expr.eval]
  | .ident s => by
      simp only [rename, Expr.eval]
      by_cases h : s = old
      · subst h; simp [hnew]
      · simp [h, hother s h]
  | .add a b => by simp [rename, Expr.eval, rename_eval old new env env' hnew hother a, rename_eval old new env env' hnew hother b]
  | .sub a b => by simp [rename, Expr.eval, rename_eval old new env env' hnew hother a, rename_eval old new env env' hnew hother b]
  | .mul a b => by simp [rename, Expr.eval, rename_eval old new env env' hnew hother a, rename_eval old new env env' hnew hother b]
  | .div a b => by simp [rename, Expr.eval, rename_eval old new env env' hnew hother a, rename_eval old new env env' hnew hother b]
  | .pow a b => by simp [rename, Expr.eval, rename_eval old new env env' hnew hother a, rename_eval old new env env' hnew hother b]
  | .neg a => by simp [rename, Expr.eval, rename_eval old new env env' hnew hother a]
  | .exp a => by simp [rename, Expr.eval, rename_eval old new env env' hnew hother a]
  | .log a => by simp [rename, Expr.eval, rename_eval old new env env' hnew hother a]
  | .abs a => by simp [rename, Expr.eval, rename_eval old new env env' hnew hother a]
  | .step a => by simp [rename, Expr.eval, rename_eval old new env env' hnew hother a]
  | .max args => by simp [rename, Expr.eval, renameList_eval old new env env' hnew hother args]
  | .min args => by simp [rename, Expr.eval, renameList_eval old new env env' hnew hother args]
theorem renameList_eval (old new : String) (env env' : Env α) (hnew : env' new = env old)
    (hother : ∀ s, s ≠ old → env' s = env s) :
    ∀ es : List (Expr α), Expr.evalList env' (rename.renameList old new es) = Expr.evalList env es
  | [] => by simp [rename.renameList, Expr.evalList]
  | a :: rest => by
      simp [rename.renameList, Expr.evalList, rename_eval old new env env' hnew hother a,
        renameList_eval old new env env' hnew hother rest]
end

end rename

/-- a local parameter whose id clashes is renamed `id_reactionId`; one that does not clash keeps its id. -/
theorem importLocals_clash (rxnId k : String) (v : α) (taken : List String) (law : Expr α) (h : k ∈ taken) :
    importLocals rxnId taken [(k, v)] law = ([(k ++ "_" ++ rxnId, v)], rename k (k ++ "_" ++ rxnId) law) := by
  simp [importLocals, h]

theorem importLocals_fresh (rxnId k : String) (v : α) (taken : List String) (law : Expr α) (h : k ∉ taken) :
    importLocals rxnId taken [(k, v)] law = ([(k, v)], law) := by
  simp [importLocals, h]

/-! ### Non-vacuity: a rate rule after an assignment rule, then another assignment rule -/
example : (importRules (α := ℚ) (fun _ => true)
    [⟨.assignment, "S", .ident "A"⟩, ⟨.rate, "X", .num 2⟩, ⟨.assignment, "T", .ident "B"⟩]).assignments.map (·.1) = ["S", "T"]
  ∧ (importRules (α := ℚ) (fun _ => true)
    [⟨.assignment, "S", .ident "A"⟩, ⟨.rate, "X", .num 2⟩, ⟨.assignment, "T", .ident "B"⟩]).rateReactions.map (·.1) = ["X"] := by
  simp [importRules, importStep]

end Bioscrape.C13
