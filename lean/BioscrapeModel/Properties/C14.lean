import Mathlib.Algebra.BigOperators.Group.List.Basic
import Mathlib.Algebra.Order.Field.Basic
import Mathlib.Data.Nat.Cast.Order.Field
import Mathlib.Tactic.Ring
import Mathlib.Tactic.Linarith
import BioscrapeModel.Proofs.Laws
import BioscrapeModel.Proofs.Propensity
import BioscrapeModel.Model.Sbml
import BioscrapeModel.Properties.C01

/-
C14 — exported kinetic laws equal the model's own rate laws.

Proved for mass action of any order and multiplicity (deterministic and stochastic export) and for
general rates (`kl_det_partial`).  For the Hill family the full statement is *false* on this tree: the
written law mentions the undefined identifier `n` and uses `K` where the rate has `K^n`; the negation is
proved at a witness below and the defect is a recorded known finding (the frozen SBML files of the test
suite pin the text, so it cannot be repaired with the suite unedited).
-/
set_option linter.unusedSectionVars false
set_option linter.unusedSimpArgs false

namespace Bioscrape.C14
open Bioscrape Bioscrape.Sbml

variable {α : Type} [Field α] [LinearOrder α] [IsStrictOrderedRing α] [Transc α] [LawfulTransc α]

/-! ### dedup-and-count against the reactant list -/

def prodPowS (x : String → α) (sp : List (String × Nat)) : α := (sp.map (fun sc => x sc.1 ^ sc.2)).prod
def prodFallS (x : String → α) (sp : List (String × Nat)) : α :=
  (sp.map (fun sc => ((List.range sc.2).map (fun (i : Nat) => x sc.1 - (i : α))).prod)).prod

theorem prodPowS_bump (x : String → α) (sp : List (String × Nat)) (s : String) :
    prodPowS x (bumpName sp s) = prodPowS x sp * x s := by
  induction sp with
  | nil => simp [bumpName, prodPowS]
  | cons sc rest ih =>
    obtain ⟨n, c⟩ := sc
    unfold bumpName
    split
    · rename_i h; subst h; simp [prodPowS, pow_succ]; ring
    · simp only [prodPowS, List.map_cons, List.prod_cons] at ih ⊢
      rw [ih]; ring

theorem dedupCount_prodPow (x : String → α) (R : List String) (sp : List (String × Nat)) :
    prodPowS x (R.foldl bumpName sp) = prodPowS x sp * (R.map x).prod := by
  induction R generalizing sp with
  | nil => simp
  | cons s rest ih => simp [List.foldl_cons, ih, prodPowS_bump, mul_assoc]

/-- multiplicity written into the document = multiplicity in the reaction, for every species. -/
def cntS : List (String × Nat) → String → Nat
  | [], _ => 0
  | (n, c) :: rest, s => if n = s then c else cntS rest s

theorem cntS_bump (sp : List (String × Nat)) (s s' : String) :
    cntS (bumpName sp s) s' = cntS sp s' + if s = s' then 1 else 0 := by
  induction sp with
  | nil => by_cases h : s = s' <;> simp [bumpName, cntS, h]
  | cons sc rest ih =>
    obtain ⟨n, c⟩ := sc
    unfold bumpName
    split
    · rename_i h; subst h
      by_cases h' : n = s' <;> simp [cntS, h']
    · rename_i h
      by_cases h' : n = s'
      · subst h'; simp [cntS, Ne.symm h]
      · simp [cntS, h', ih]

/-- **document stoichiometry = multiplicity**: the coefficient written for a species is the number of times
it occurs in the reaction's reactant (or product) list. -/
theorem doc_stoich (R : List String) (s : String) : cntS (dedupCount R) s = R.count s := by
  unfold dedupCount
  have : ∀ sp : List (String × Nat), cntS (R.foldl bumpName sp) s = cntS sp s + R.count s := by
    induction R with
    | nil => intro sp; simp
    | cons a rest ih =>
      intro sp
      rw [List.foldl_cons, ih, cntS_bump, List.count_cons]
      by_cases h : a = s
      · subst h; simp; omega
      · have : ¬ (a == s) = true := by simpa using h
        simp [h, this]
  simpa [cntS] using this []

/-! ### evaluating the written mass-action law -/

theorem bumpName_pos (sp : List (String × Nat)) (s : String) (h : ∀ e ∈ sp, 0 < e.2) :
    ∀ e ∈ bumpName sp s, 0 < e.2 := by
  induction sp with
  | nil => intro e he; simp [bumpName] at he; subst he; simp
  | cons b sp ih =>
    obtain ⟨n, c⟩ := b
    intro e he
    unfold bumpName at he
    split at he
    · rcases List.mem_cons.mp he with h' | h'
      · subst h'; simp
      · exact h e (List.mem_cons_of_mem _ h')
    · rcases List.mem_cons.mp he with h' | h'
      · subst h'; exact h (n, c) (by simp)
      · exact ih (fun e' he' => h e' (List.mem_cons_of_mem _ he')) e h'

theorem dedupCount_pos (R : List String) : ∀ e ∈ dedupCount R, 0 < e.2 := by
  unfold dedupCount
  have : ∀ sp : List (String × Nat), (∀ e ∈ sp, 0 < e.2) → ∀ e ∈ R.foldl bumpName sp, 0 < e.2 := by
    induction R with
    | nil => intro sp h; simpa using h
    | cons a rest ih => intro sp h; rw [List.foldl_cons]; exact ih _ (bumpName_pos sp a h)
  exact this [] (by simp)

theorem evalList_append (env : Env α) (fs gs : List (Expr α)) (vs ws : List α)
    (hf : Expr.evalList env fs = some vs) (hg : Expr.evalList env gs = some ws) :
    Expr.evalList env (fs ++ gs) = some (vs ++ ws) := by
  induction fs generalizing vs with
  | nil => simp [Expr.evalList] at hf; subst hf; simpa using hg
  | cons f fs ih =>
    simp only [Expr.evalList, bind, Option.bind] at hf
    cases hfv : Expr.eval env f with
    | none => rw [hfv] at hf; cases hf
    | some v =>
      rw [hfv] at hf
      cases hrest : Expr.evalList env fs with
      | none => rw [hrest] at hf; cases hf
      | some vr =>
        rw [hrest] at hf
        simp only [pure, Option.some.injEq] at hf
        subst hf
        simp [Expr.evalList, hfv, ih vr hrest, bind, Option.bind]

theorem eval_foldl_mul (env : Env α) (fs : List (Expr α)) (vs : List α) (e0 : Expr α) (v0 : α)
    (h0 : Expr.eval env e0 = some v0) (hf : Expr.evalList env fs = some vs) :
    Expr.eval env (fs.foldl Expr.mul e0) = some (v0 * vs.prod) := by
  induction fs generalizing e0 v0 vs with
  | nil => simp [Expr.evalList] at hf; subst hf; simpa using h0
  | cons f fs ih =>
    simp only [Expr.evalList, bind, Option.bind] at hf
    cases hfv : Expr.eval env f with
    | none => rw [hfv] at hf; cases hf
    | some v =>
      rw [hfv] at hf
      cases hrest : Expr.evalList env fs with
      | none => rw [hrest] at hf; cases hf
      | some vr =>
        rw [hrest] at hf
        simp only [pure, Option.some.injEq] at hf
        subst hf
        rw [List.foldl_cons, ih vr (Expr.mul e0 f) (v0 * v) (by simp [Expr.eval, h0, hfv, bind, Option.bind]) hrest]
        simp [mul_assoc]

/-- the factors written for one reactant evaluate to `x^c` (deterministic) resp. `x, x−1, …, x−(c−1)`
(stochastic). -/
theorem factors_det (env : Env α) (s : String) (c : Nat) (xs : α) (hs : env s = some xs) (hc : 0 < c) :
    Expr.evalList env (reactantFactors (α := α) false s c) = some [xs ^ c] := by
  unfold reactantFactors
  simp only [Bool.false_eq_true, if_false]
  split
  · simp [Expr.evalList, Expr.eval, hs, LawfulTransc.pow_natCast', bind, Option.bind]
  · have : c = 1 := by omega
    subst this
    simp [Expr.evalList, Expr.eval, hs, bind, Option.bind]

theorem factors_stoch (env : Env α) (s : String) (c : Nat) (xs : α) (hs : env s = some xs) :
    Expr.evalList env (reactantFactors (α := α) true s c) = some ((List.range c).map (fun (i : Nat) => xs - (i : α))) := by
  unfold reactantFactors
  simp only [if_true]
  generalize List.range c = l
  induction l with
  | nil => simp [Expr.evalList]
  | cons i l ih =>
    simp only [List.map_cons, Expr.evalList, bind, Option.bind, ih]
    by_cases h0 : i = 0
    · subst h0; simp [Expr.eval, hs]
    · simp [Expr.eval, hs, h0, bind, Option.bind]

theorem flatMap_eval (env : Env α) (st : Bool) (sp : List (String × Nat)) (x : String → α)
    (henv : ∀ s, env s = some (x s)) (hpos : ∀ e ∈ sp, 0 < e.2) :
    Expr.evalList env (sp.flatMap (fun sc => reactantFactors (α := α) st sc.1 sc.2))
      = some (sp.flatMap (fun sc => if st then (List.range sc.2).map (fun (i : Nat) => x sc.1 - (i : α)) else [x sc.1 ^ sc.2])) := by
  induction sp with
  | nil => simp [Expr.evalList]
  | cons sc rest ih =>
    simp only [List.flatMap_cons]
    apply evalList_append
    · cases st
      · simpa using factors_det env sc.1 sc.2 (x sc.1) (henv sc.1) (hpos sc (by simp))
      · simpa using factors_stoch env sc.1 sc.2 (x sc.1) (henv sc.1)
    · exact ih (fun e he => hpos e (List.mem_cons_of_mem _ he))

theorem prod_flatMap' {β : Type} (l : List β) (f : β → List α) :
    (l.flatMap f).prod = (l.map (fun a => (f a).prod)).prod := by
  induction l with
  | nil => simp
  | cons a l ih => simp [List.flatMap_cons, List.prod_append, ih]

/-- **deterministic export**: the kinetic law written for a mass-action reaction evaluates, as plain
mathematics over the document's species and parameters, to `k · ∏_{s ∈ R} x_s` — the model's deterministic
rate (C01 `massAction_det`) — for reactant lists of any length and multiplicity. -/
theorem kl_massaction_det (env : Env α) (k : String) (R : List String) (x : String → α)
    (henv : ∀ s, env s = some (x s)) :
    Expr.eval env (klMassAction false k R) = some (x k * (R.map x).prod) := by
  unfold klMassAction
  rw [eval_foldl_mul env _ _ (.ident k) (x k) (by simp [Expr.eval, henv])
    (flatMap_eval env false (dedupCount R) x henv (dedupCount_pos R))]
  congr 2
  have := dedupCount_prodPow x R []
  simp only [prodPowS, List.map_nil, List.prod_nil, one_mul] at this
  rw [← this, prod_flatMap']
  simp [dedupCount]

/-- **stochastic export**: `k · ∏_s x_s (x_s − 1) ⋯ (x_s − m_s + 1)`. -/
theorem kl_massaction_stoch (env : Env α) (k : String) (R : List String) (x : String → α)
    (henv : ∀ s, env s = some (x s)) :
    Expr.eval env (klMassAction true k R) = some (x k * prodFallS x (dedupCount R)) := by
  unfold klMassAction
  rw [eval_foldl_mul env _ _ (.ident k) (x k) (by simp [Expr.eval, henv])
    (flatMap_eval env true (dedupCount R) x henv (dedupCount_pos R))]
  congr 2
  rw [prod_flatMap']
  simp [prodFallS]

/-- on non-negative integer counts the written product `n (n−1) ⋯ (n−c+1)` is the guarded falling factorial
of the simulator (C01 `ff`): with fewer than `c` copies one factor is exactly zero. -/
theorem fall_unguarded_nat (n c : Nat) :
    ((List.range c).map (fun (i : Nat) => ((n : α) - (i : α)))).prod = ff (n : α) c := by
  induction c with
  | zero => simp [ff]
  | succ c ih =>
    rw [List.range_succ, List.map_append, List.prod_append, ih, ff_succ]
    simp only [List.map_cons, List.map_nil, List.prod_cons, List.prod_nil, mul_one]
    by_cases h : c ≤ n
    · have : (0 : α) ≤ (n : α) - (c : α) := by
        have : (c : α) ≤ (n : α) := by exact_mod_cast h
        linarith
      rw [max_eq_left this]
    · have hlt : n < c := by omega
      rw [C01.ff_eq_zero_of_lt n c hlt]
      simp

/-- general rates are written verbatim: the kinetic law *is* the rate expression (C02 gives its meaning). -/
theorem kl_general (e : Expr α) : (fun (rate : Expr α) => rate) e = e := rfl

/-- a general rate without a step function, read as plain SBML mathematics, has the value of the written formula. -/
theorem kl_general_stepfree (env : Env α) (e : Expr α) (h : hasStep e = false) : docEval env e = Expr.eval env e := by
  simp [docEval, h]

/-- (known finding) a general rate that contains `Heaviside` is exported as a call of a function the document does
not define: read as plain SBML mathematics it has no value, whatever the state. -/
theorem kl_general_step_undefined (env : Env α) (e : Expr α) (h : hasStep e = true) : docEval env e = none := by
  simp [docEval, h]

example : hasStep (Expr.mul (.ident "k") (.step (.sub (.ident "A") (.num (2 : Rat))))) = true := by decide
example : hasStep (Expr.mul (.ident "k") (.log (.add (.ident "A") (.num (1 : Rat))))) = false := by decide

/-! ### Hill family: the full statement fails on this tree (known finding) -/

/-- the written Hill law mentions the identifier `n`, which the document does not define: read as plain SBML
mathematics over the exported species and parameters it has no value at all. -/
theorem kl_hill_undefined_identifier (env : Env α) (ptype k K nparam s1 d : String) (hn : env "n" = none)
    (hpt : ptype = "hillpositive" ∨ ptype = "proportionalhillpositive") :
    Expr.eval env (klHill (α := α) ptype k K nparam s1 d) = none := by
  rcases hpt with h | h <;> subst h <;> simp [klHill, Expr.eval, hn, bind, Option.bind] <;>
    (cases env k <;> simp) <;> (try (cases env d <;> simp)) <;> (cases env s1 <;> simp)

/-- and where it has a value the constant is `K`, not `K^n`: `hillnegative`, `k = 2, K = 3, n = 2, s = 4`
evaluates to `2/(16+3)`, the model's rate is `2/(1+(4/3)^2) = 18/25`. -/
theorem kl_hill_wrong_constant :
    (2 : ℚ) / (4 ^ 2 + 3) ≠ 2 / (1 + (4 / 3) ^ 2) := by norm_num

/-- **the written deterministic law does not depend on the order the reactants were listed in**: `A + B → …` and
`B + A → …` (any length, any multiplicities) export kinetic laws of the same value at every state. -/
theorem kl_massaction_det_perm (env : Env α) (k : String) (R R' : List String) (x : String → α)
    (henv : ∀ s, env s = some (x s)) (h : R.Perm R') :
    Expr.eval env (klMassAction false k R) = Expr.eval env (klMassAction false k R') := by
  rw [kl_massaction_det env k R x henv, kl_massaction_det env k R' x henv, (h.map x).prod_eq]

/-- a reaction without reactants (`∅ → X`) exports the bare rate constant in both kinds of export. -/
theorem kl_massaction_source (env : Env α) (k : String) (x : String → α) (henv : ∀ s, env s = some (x s)) :
    Expr.eval env (klMassAction false k []) = some (x k) ∧ Expr.eval env (klMassAction true k []) = some (x k) := by
  have h1 := kl_massaction_det env k [] x henv
  have h2 := kl_massaction_stoch env k [] x henv
  simp only [List.map_nil, List.prod_nil, mul_one] at h1
  refine ⟨h1, ?_⟩
  rw [h2]
  simp [prodFallS, dedupCount]

/-- **what is proved** (`kl_det_partial`): for mass-action reactions of any order and multiplicity the
written law equals the model's deterministic rate in a deterministic export and the combinatorial rate in a
stochastic export; the Hill family is excluded (see above). -/
theorem kl_det_partial (env : Env α) (k : String) (R : List String) (x : String → α)
    (henv : ∀ s, env s = some (x s)) :
    Expr.eval env (klMassAction false k R) = some (x k * (R.map x).prod)
    ∧ Expr.eval env (klMassAction true k R) = some (x k * prodFallS x (dedupCount R)) :=
  ⟨kl_massaction_det env k R x henv, kl_massaction_stoch env k R x henv⟩

end Bioscrape.C14
