import Mathlib.Algebra.BigOperators.Group.List.Basic
import Mathlib.Algebra.Order.Field.Basic
import Mathlib.Data.List.Perm.Basic
import Mathlib.Data.List.GetD
import Mathlib.Tactic.Ring
import Mathlib.Tactic.Linarith
import BioscrapeModel.Proofs.Laws
import BioscrapeModel.Model.Inference

/-
C15 — the inference cost is the stated posterior on correctly aligned data.
-/
set_option linter.unusedSectionVars false
set_option linter.unusedSimpArgs false

namespace Bioscrape.C15
open Bioscrape

/-! ### Data alignment -/

theorem flatten2_getD {β : Type} (rows : List (List β)) (T m t : Nat) (d : β)
    (hlen : ∀ r ∈ rows, r.length = T) (hm : m < rows.length) (ht : t < T) :
    (flatten2 rows).getD (m * T + t) d = (rows.getD m []).getD t d := by
  induction rows generalizing m with
  | nil => simp at hm
  | cons r rest ih =>
    have hr : r.length = T := hlen r (by simp)
    cases m with
    | zero =>
      simp only [flatten2, List.foldr_cons, Nat.zero_mul, Nat.zero_add, List.getD_cons_zero]
      rw [List.getD_append _ _ _ _ (by rw [hr]; exact ht)]
    | succ m =>
      simp only [flatten2, List.foldr_cons, List.getD_cons_succ]
      rw [List.getD_append_right _ _ _ _ (by rw [hr]; nlinarith)]
      have : (m + 1) * T + t - r.length = m * T + t := by rw [hr]; ring_nf; omega
      rw [this]
      exact ih m (fun r' h' => hlen r' (List.mem_cons_of_mem _ h')) (by simpa using hm)

/-- **data are matched to species by column name and to time by row**: entry `[t][m]` of the array handed
to the likelihood is row `t` of the column named by measurement `m`, for any number of measurements and
time points and whatever the order or number of the frame's columns. -/
theorem data_aligned {β : Type} [Inhabited β] (f : Frame β) (ms : List String) (T t m : Nat)
    (hcols : ∀ name ∈ ms, (f.col name).length = T) (ht : t < T) (hm : m < ms.length) :
    ((extractFrame f ms T).getD t []).getD m default = (f.col (ms[m])).getD t default := by
  unfold extractFrame
  simp only [List.getD_eq_getElem?_getD, List.getElem?_map, List.getElem?_range ht, Option.map_some,
    Option.getD_some, List.getElem?_range hm]
  unfold reshapeGet transposeFlat
  have hk : t * ms.length + m < T * ms.length := by nlinarith
  simp only [List.getD_eq_getElem?_getD, List.getElem?_map, List.getElem?_range hk, Option.map_some, Option.getD_some]
  have h1 : (t * ms.length + m) % ms.length = m := by
    rw [Nat.mul_comm, Nat.mul_add_mod]; exact Nat.mod_eq_of_lt hm
  have h2 : (t * ms.length + m) / ms.length = t := by
    rw [Nat.mul_comm, Nat.mul_add_div (by omega), Nat.div_eq_of_lt hm]; simp
  rw [h1, h2]
  have := flatten2_getD (ms.map f.col) T m t default
    (by intro r hr; simp only [List.mem_map] at hr; obtain ⟨n, hn, rfl⟩ := hr; exact hcols n hn)
    (by simpa using hm) ht
  simp only [List.getD_eq_getElem?_getD] at this
  rw [this]
  simp [hm]

/-- what the pinned tree did: reshaping the `(M, T)` array to `(T, M)` without transposing is *not*
aligned — witness with two species and two time points. -/
theorem reshape_only_misaligned :
    (extractFrameReshapeOnly [("A", [1, 2]), ("B", [10, 20])] ["A", "B"] 2 : List (List Nat))
      ≠ [[1, 10], [2, 20]] := by decide

example : (extractFrame [("time", [0, 5]), ("B", [10, 20]), ("A", [1, 2])] ["A", "B"] 2 : List (List Nat))
    = [[1, 10], [2, 20]] := by decide

/-! ### The cost is a function of θ alone -/

section cost
variable {α : Type} [Field α] [LinearOrder α] [IsStrictOrderedRing α] [Transc α]

/-- the last value written for index `i` by a dictionary, if any. -/
def lookupLast (d : List (Nat × α)) (i : Nat) : Option α :=
  d.foldl (fun acc kv => if kv.1 = i then some kv.2 else acc) none

theorem applyDict_length (c : List α) (d : List (Nat × α)) : (applyDict c d).length = c.length := by
  unfold applyDict
  induction d generalizing c with
  | nil => rfl
  | cons kv d ih => rw [List.foldl_cons, ih]; simp

theorem foldl_lookup (d : List (Nat × α)) (i : Nat) (init : Option α) :
    d.foldl (fun acc kv => if kv.1 = i then some kv.2 else acc) init
      = match lookupLast d i with | some v => some v | none => init := by
  unfold lookupLast
  induction d generalizing init with
  | nil => rfl
  | cons kv d ih =>
    rw [List.foldl_cons, List.foldl_cons, ih, ih (if kv.1 = i then some kv.2 else none)]
    cases h : List.foldl (fun acc kv => if kv.1 = i then some kv.2 else acc) none d with
    | some v => rfl
    | none => by_cases hk : kv.1 = i <;> simp [hk]

theorem applyDict_get (c : List α) (d : List (Nat × α)) (i : Nat) (hi : i < c.length) :
    (applyDict c d)[i]? = some ((lookupLast d i).getD (c[i])) := by
  induction d generalizing c with
  | nil => simp [applyDict, lookupLast, hi]
  | cons kv d ih =>
    have hlen : i < (c.set kv.1 kv.2).length := by simpa using hi
    have : applyDict c (kv :: d) = applyDict (c.set kv.1 kv.2) d := rfl
    rw [this, ih (c.set kv.1 kv.2) hlen]
    have hl : lookupLast (kv :: d) i = match lookupLast d i with | some v => some v | none => (if kv.1 = i then some kv.2 else none) := by
      unfold lookupLast
      rw [List.foldl_cons]
      exact foldl_lookup d i _
    rw [hl]
    cases hd : lookupLast d i with
    | some v => simp
    | none =>
      by_cases hk : kv.1 = i
      · subst hk; simp [List.getElem_set_self]
      · simp [hk, List.getElem_set_ne hk]

/-- **history freeness**: when the defaults captured at construction cover every parameter, the parameter
vector an evaluation works with is determined by the defaults and θ — whatever earlier evaluations (or
parameter conditions) left in the shared array. -/
theorem base_independent_of_history (c1 c2 : List α) (defaults thetaKV : List (Nat × α))
    (hlen : c1.length = c2.length) (hcover : ∀ i < c1.length, (lookupLast defaults i).isSome) :
    applyDict (applyDict c1 defaults) thetaKV = applyDict (applyDict c2 defaults) thetaKV := by
  have hd : applyDict c1 defaults = applyDict c2 defaults := by
    apply List.ext_getElem?
    intro i
    by_cases hi : i < c1.length
    · rw [applyDict_get c1 defaults i hi, applyDict_get c2 defaults i (hlen ▸ hi)]
      obtain ⟨v, hv⟩ := Option.isSome_iff_exists.mp (hcover i hi)
      simp [hv]
    · have h1 : (applyDict c1 defaults).length ≤ i := by rw [applyDict_length]; omega
      have h2 : (applyDict c2 defaults).length ≤ i := by rw [applyDict_length, ← hlen]; omega
      rw [List.getElem?_eq_none h1, List.getElem?_eq_none h2]
  rw [hd]

/-- hence the value returned for θ is the same after any history of evaluations. -/
theorem cost_history_free (sim : List α → List α → List α → List (List α)) (pi norm : α) (measIdx : List Nat)
    (defaults : List (Nat × α)) (priors : List (PriorSpec α × Bool)) (thetaIdx : List Nat) (trajs : List (Traj α))
    (c1 c2 theta : List α) (hlen : c1.length = c2.length) (hcover : ∀ i < c1.length, (lookupLast defaults i).isSome) :
    cost sim pi norm measIdx defaults priors thetaIdx trajs c1 theta
      = cost sim pi norm measIdx defaults priors thetaIdx trajs c2 theta := by
  unfold cost
  rw [base_independent_of_history c1 c2 defaults (thetaIdx.zip theta) hlen hcover]

/-- outside the prior's support the value is −∞ (`none`), whatever the data. -/
theorem cost_outside_support (sim : List α → List α → List α → List (List α)) (pi norm : α) (measIdx : List Nat)
    (defaults : List (Nat × α)) (priors : List (PriorSpec α × Bool)) (thetaIdx : List Nat) (trajs : List (Traj α))
    (c theta : List α) (h : checkPrior pi ((priors.zip theta).map (fun pt => (pt.1.1, pt.1.2, pt.2))) = none) :
    cost sim pi norm measIdx defaults priors thetaIdx trajs c theta = none := by
  unfold cost; rw [h]

/-! ### The cost is the stated formula, symmetric in trajectories and measurements -/

/-- the contribution of one measurement of one trajectory: `Σ_t |data − sim|^p`. -/
def cellErr (norm : α) (rows data : List (List α)) (i idx t : Nat) : α :=
  Transc.pow (|(data.getD t []).getD i 0 - (rows.getD t []).getD idx 0|) norm

theorem abs_branch (d : α) : (if d < 0 then -d else d) = |d| := by
  split
  · rename_i h; exact (abs_of_neg h).symm
  · rename_i h; exact (abs_of_nonneg (not_lt.mp h)).symm

/-- one trajectory's error is added to the running total: `acc + Σ_i Σ_t |data[t][i] − sim[t][idx_i]|^p`. -/
theorem trajError_eq (norm : α) (measIdx : List Nat) (rows data : List (List α)) (nT : Nat) (acc : α) :
    trajError norm measIdx rows data nT acc
      = acc + ((List.range measIdx.length).map (fun i =>
          ((List.range nT).map (fun t => cellErr norm rows data i (measIdx.getD i 0) t)).sum)).sum := by
  unfold trajError
  have inner : ∀ (i : Nat) (acc : α), (List.range nT).foldl (fun acc t =>
      let d := (data.getD t []).getD i 0 - (rows.getD t []).getD (measIdx.getD i 0) 0
      let d := (if d < 0 then -d else d)
      acc + Transc.pow d norm) acc
      = acc + ((List.range nT).map (fun t => cellErr norm rows data i (measIdx.getD i 0) t)).sum := by
    intro i
    generalize List.range nT = ts
    induction ts with
    | nil => intro acc; simp
    | cons t ts ih =>
      intro acc
      rw [List.foldl_cons, ih]
      simp only [abs_branch, cellErr, List.map_cons, List.sum_cons]
      ring
  generalize List.range measIdx.length = is
  induction is generalizing acc with
  | nil => simp
  | cons i is ih =>
    rw [List.foldl_cons, inner, ih]
    simp only [List.map_cons, List.sum_cons]
    ring

/-- error of one trajectory on its own (initial condition, parameter condition, time points, data). -/
def trajTerm (sim : List α → List α → List α → List (List α)) (norm : α) (measIdx : List Nat)
    (base : List α) (tr : Traj α) : α :=
  trajError norm measIdx (sim (applyDict base tr.cond) tr.x0 tr.times) tr.data tr.times.length 0

/-- **the cost formula**: `−(Σ_n Σ_m Σ_t |data − sim_n|^p)^(1/p)`, with `sim_n` started from trajectory `n`'s
own initial condition, the evaluation's parameters overridden by trajectory `n`'s own parameter condition
(and by nothing else), at its own time points. -/
theorem logLikelihood_formula (sim : List α → List α → List α → List (List α)) (norm : α) (measIdx : List Nat)
    (base : List α) (trajs : List (Traj α)) :
    logLikelihood sim norm measIdx base trajs
      = -(Transc.pow ((trajs.map (trajTerm sim norm measIdx base)).sum) (1 / norm)) := by
  unfold logLikelihood
  have : ∀ acc : α, trajs.foldl (fun acc tr =>
      trajError norm measIdx (sim (applyDict base tr.cond) tr.x0 tr.times) tr.data tr.times.length acc) acc
      = acc + (trajs.map (trajTerm sim norm measIdx base)).sum := by
    induction trajs with
    | nil => intro acc; simp
    | cons tr rest ih =>
      intro acc
      rw [List.foldl_cons, ih, trajError_eq]
      simp only [List.map_cons, List.sum_cons, trajTerm, trajError_eq, zero_add]
      ring
  rw [this 0, zero_add]

/-- **the order of the trajectories does not matter.** -/
theorem cost_perm_trajectories (sim : List α → List α → List α → List (List α)) (norm : α) (measIdx : List Nat)
    (base : List α) (trajs trajs' : List (Traj α)) (h : trajs.Perm trajs') :
    logLikelihood sim norm measIdx base trajs = logLikelihood sim norm measIdx base trajs' := by
  rw [logLikelihood_formula, logLikelihood_formula, (h.map _).sum_eq]

/-- one trajectory's error as a sum over (species index, data column) pairs. -/
def colsErr (norm : α) (rows : List (List α)) (cols : List (Nat × List α)) : α :=
  (cols.map (fun c => ((List.range c.2.length).map (fun t =>
      Transc.pow (|c.2.getD t 0 - (rows.getD t []).getD c.1 0|) norm)).sum)).sum

/-- **the order in which the measured species are listed does not matter**: the error is a sum over the
(species, data column) pairs. -/
theorem cost_perm_measurements (norm : α) (rows : List (List α)) (cols cols' : List (Nat × List α))
    (h : cols.Perm cols') : colsErr norm rows cols = colsErr norm rows cols' := by
  unfold colsErr
  exact (h.map _).sum_eq

end cost

/-! ### The cost composes from the single-trajectory costs (over ℝ) -/
section composition

theorem cellErr_nonneg (p : ℝ) (rows data : List (List ℝ)) (i idx t : Nat) : 0 ≤ cellErr p rows data i idx t := by
  unfold cellErr
  exact Real.rpow_nonneg (abs_nonneg _) p

theorem trajTerm_nonneg (sim : List ℝ → List ℝ → List ℝ → List (List ℝ)) (p : ℝ) (measIdx : List Nat)
    (base : List ℝ) (tr : Traj ℝ) : 0 ≤ trajTerm sim p measIdx base tr := by
  unfold trajTerm
  rw [trajError_eq, zero_add]
  apply List.sum_nonneg
  intro x hx
  obtain ⟨i, _, rfl⟩ := List.mem_map.mp hx
  apply List.sum_nonneg
  intro y hy
  obtain ⟨t, _, rfl⟩ := List.mem_map.mp hy
  exact cellErr_nonneg _ _ _ _ _ _

/-- **the error of a data set is the sum of the errors of its trajectories taken alone**: for a norm order `p > 0`,
`(−LL(trajectories))^p = Σ_n (−LL([trajectory n]))^p`, every trajectory being simulated from the same evaluation
parameters `base` (plus its own condition).  This is the form of the statement the harness checks on models for which no
independent reference trajectory exists. -/
theorem logLikelihood_composes (sim : List ℝ → List ℝ → List ℝ → List (List ℝ)) (p : ℝ) (hp : 0 < p) (measIdx : List Nat)
    (base : List ℝ) (trajs : List (Traj ℝ)) :
    Transc.pow (-(logLikelihood sim p measIdx base trajs)) p
      = (trajs.map (fun tr => Transc.pow (-(logLikelihood sim p measIdx base [tr])) p)).sum := by
  have key : ∀ x : ℝ, 0 ≤ x → Transc.pow (Transc.pow x (1 / p)) p = x := by
    intro x hx
    show Real.rpow (Real.rpow x (1 / p)) p = x
    rw [one_div]
    exact Real.rpow_inv_rpow hx (ne_of_gt hp)
  have hsum : 0 ≤ (trajs.map (trajTerm sim p measIdx base)).sum := by
    apply List.sum_nonneg
    intro x hx
    obtain ⟨tr, _, rfl⟩ := List.mem_map.mp hx
    exact trajTerm_nonneg sim p measIdx base tr
  rw [logLikelihood_formula, neg_neg, key _ hsum]
  congr 1
  apply List.map_congr_left
  intro tr _
  rw [logLikelihood_formula, neg_neg]
  simp only [List.map_cons, List.map_nil, List.sum_cons, List.sum_nil, add_zero]
  exact (key _ (trajTerm_nonneg sim p measIdx base tr)).symm

private theorem terms_sum_nonneg (sim : List ℝ → List ℝ → List ℝ → List (List ℝ)) (p : ℝ) (measIdx : List Nat)
    (base : List ℝ) (trajs : List (Traj ℝ)) : 0 ≤ (trajs.map (trajTerm sim p measIdx base)).sum := by
  apply List.sum_nonneg
  intro x hx
  obtain ⟨tr, _, rfl⟩ := List.mem_map.mp hx
  exact trajTerm_nonneg sim p measIdx base tr

/-- **the log-likelihood is never positive** (it is minus a norm of the residuals). -/
theorem logLikelihood_nonpos (sim : List ℝ → List ℝ → List ℝ → List (List ℝ)) (p : ℝ) (measIdx : List Nat)
    (base : List ℝ) (trajs : List (Traj ℝ)) : logLikelihood sim p measIdx base trajs ≤ 0 := by
  rw [logLikelihood_formula]
  have : 0 ≤ Transc.pow ((trajs.map (trajTerm sim p measIdx base)).sum) (1 / p) :=
    Real.rpow_nonneg (terms_sum_nonneg sim p measIdx base trajs) _
  linarith

/-- **more data can only lower it**: adding a trajectory to the data set never raises the log-likelihood (norm order
`p > 0`), whatever the simulator returns for it. -/
theorem logLikelihood_antitone (sim : List ℝ → List ℝ → List ℝ → List (List ℝ)) (p : ℝ) (hp : 0 < p) (measIdx : List Nat)
    (base : List ℝ) (tr : Traj ℝ) (trajs : List (Traj ℝ)) :
    logLikelihood sim p measIdx base (tr :: trajs) ≤ logLikelihood sim p measIdx base trajs := by
  rw [logLikelihood_formula, logLikelihood_formula, List.map_cons, List.sum_cons]
  have h0 := terms_sum_nonneg sim p measIdx base trajs
  have h1 := trajTerm_nonneg sim p measIdx base tr
  have : Transc.pow ((trajs.map (trajTerm sim p measIdx base)).sum) (1 / p)
      ≤ Transc.pow (trajTerm sim p measIdx base tr + (trajs.map (trajTerm sim p measIdx base)).sum) (1 / p) :=
    Real.rpow_le_rpow h0 (by linarith) (by positivity)
  linarith

/-- **a perfect fit scores exactly zero**: if the simulation reproduces every data point of every trajectory (all
residual terms vanish), the log-likelihood is `0`, the maximum `logLikelihood_nonpos` allows. -/
theorem logLikelihood_perfect (sim : List ℝ → List ℝ → List ℝ → List (List ℝ)) (p : ℝ) (hp : 0 < p) (measIdx : List Nat)
    (base : List ℝ) (trajs : List (Traj ℝ)) (h : ∀ tr ∈ trajs, trajTerm sim p measIdx base tr = 0) :
    logLikelihood sim p measIdx base trajs = 0 := by
  rw [logLikelihood_formula]
  have : (trajs.map (trajTerm sim p measIdx base)).sum = 0 := by
    apply List.sum_eq_zero
    intro x hx
    obtain ⟨tr, htr, rfl⟩ := List.mem_map.mp hx
    exact h tr htr
  rw [this]
  show -(Real.rpow 0 (1 / p)) = 0
  have : Real.rpow 0 (1 / p) = 0 := Real.zero_rpow (by positivity)
  rw [this, neg_zero]

end composition

end Bioscrape.C15
